#!/usr/bin/env python3
"""Regenerate coq/gen/*.v from /repo's working tree (run by build.sh on every check).
Writes build/regen_status.json: per generated item, ok / refusal reason and the
properties whose tie depends on it."""
import ast, hashlib, json, os, sys, traceback
HERE = os.path.dirname(os.path.abspath(__file__))
ROOT = os.path.dirname(HERE)
REPO = os.environ.get('PV_REPO', '/repo')
sys.path.insert(0, HERE)
import py2coq_arith as A

STATUS = {}
SNAP_PATH = os.path.join(HERE, 'snapshot_stats.json')
SNAP = json.load(open(SNAP_PATH)) if os.path.exists(SNAP_PATH) else {}
NEW_SNAP = {}


def unavailable(name, props, key, reason, stub):
    """DESIGN.md 1.5: the anchor is missing or the text is outside the translator's subset -> the committed snapshot of the
    last good generated text is used, the refusal is recorded in the evidence, and the tie for this kernel on this run is the
    correspondence of the implementation with the snapshot model (plus the closed-form specification).  No snapshot -> stub + alarm."""
    if key in SNAP:
        STATUS[name] = dict(ok=True, properties=props, snapshot=True,
                            error='regen unavailable (%s): committed snapshot used, tie by correspondence' % reason)
        return '(* translator refused: %s -- committed snapshot of the last good text *)\n' % reason.replace('*)', '* )') + SNAP[key]
    status(name, False, props, reason)
    return stub


def write_if_changed(path, text):
    if os.path.exists(path) and open(path).read() == text:
        return False
    os.makedirs(os.path.dirname(path), exist_ok=True)
    with open(path, 'w') as f:
        f.write(text)
    return True


def status(name, ok, props, error=None):
    STATUS[name] = dict(ok=ok, properties=props, error=error)


def gen_stats():
    src_path = os.path.join(REPO, 'pyrepseq', 'stats.py')
    src = open(src_path).read()
    try:
        tree = ast.parse(src)
    except SyntaxError as e:
        tree = None
    q = ['(* GENERATED from pyrepseq/stats.py by translate/regen.py on every check; do not edit. *)',
         'From Coq Require Import List QArith Bool Arith.', 'From PV Require Import lib.Val.',
         'Import ListNotations.', 'Open Scope Q_scope.', '',
         'Definition sumQf (f : Q -> Q) (l : list Q) : Q := sumQ (map f l).', '']
    r = ['(* GENERATED from pyrepseq/stats.py by translate/regen.py on every check; do not edit. *)',
         'From Coq Require Import List Reals.', 'Import ListNotations.', 'Open Scope R_scope.', '',
         'Fixpoint sumR (l : list R) : R := match l with [] => 0 | x :: l\' => x + sumR l\' end.',
         'Definition sumRf (f : R -> R) (l : list R) : R := sumR (map f l).', '']
    for name, nsc, props in [('chao1', 0, ['C16']), ('var_chao1', 0, ['C16']),
                             ('chao2', 1, ['C16']), ('var_chao2', 1, ['C16'])]:
        cname = 'gen_' + name
        try:
            if tree is None:
                raise A.TranslateError('stats.py does not parse')
            fn = A.find_function(tree, name)
            txt = A.ValFn(fn).emit(cname)
            NEW_SNAP[cname + ':Q'] = txt
            q.append(txt)
            status('stats.' + name, True, props)
        except A.TranslateError as e:
            q.append(unavailable('stats.' + name, props, cname + ':Q', str(e), A.val_stub(cname, nsc, str(e))))
    for name, props in [('pc_n', ['C02', 'C06']), ('varpc_n', ['C06'])]:
        cname = 'gen_' + name
        try:
            if tree is None:
                raise A.TranslateError('stats.py does not parse')
            fn = A.find_function(tree, name)
            tq = A.ExprFn(fn).emit_scope(cname, 'Q')
            tr = A.ExprFn(fn).emit_scope(cname, 'R')
            NEW_SNAP[cname + ':Q'], NEW_SNAP[cname + ':R'] = tq, tr
            q.append(tq)
            r.append(tr)
            status('stats.' + name, True, props)
        except A.TranslateError as e:
            q.append(unavailable('stats.' + name, props, cname + ':Q', str(e), A.expr_stub(cname, 'Q', str(e))))
            r.append(unavailable('stats.' + name, props, cname + ':R', str(e), A.expr_stub(cname, 'R', str(e))))
    write_if_changed(os.path.join(ROOT, 'coq/gen/Gen_stats.v'), '\n'.join(q) + '\n')
    write_if_changed(os.path.join(ROOT, 'coq/gen/Gen_stats_R.v'), '\n'.join(r) + '\n')


def main():
    for g in (gen_stats,):
        try:
            g()
        except Exception as e:
            status(g.__name__, False, [], 'translator crashed: ' + traceback.format_exc()[-400:])
    extra = os.path.join(HERE, 'regen_more.py')
    if os.path.exists(extra):
        import regen_more
        regen_more.run(STATUS, write_if_changed, ROOT, REPO)
    import glob, importlib
    for f in sorted(glob.glob(os.path.join(HERE, 'regen_c[0-9][0-9].py'))):
        name = os.path.basename(f)[:-3]
        try:
            importlib.import_module(name).run(STATUS, write_if_changed, ROOT, REPO)
        except Exception:
            status(name, False, [name[6:].upper()], 'translator crashed: ' + traceback.format_exc()[-400:])
    os.makedirs(os.path.join(ROOT, 'build'), exist_ok=True)
    with open(os.path.join(ROOT, 'build', 'regen_status.json'), 'w') as f:
        json.dump(STATUS, f, indent=1)
    if '--write-snapshot' in sys.argv:      # maintainer action on a tree whose kernels are known good; never done by a check
        with open(SNAP_PATH, 'w') as f:
            json.dump(NEW_SNAP, f, indent=1, sort_keys=True)


if __name__ == '__main__':
    main()
