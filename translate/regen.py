#!/usr/bin/env python3
"""Regenerate coq/gen/*.v from /repo's working tree (run by build.sh on every check).
Writes build/regen_status.json: per generated item, ok / refusal reason and the
properties whose tie depends on it."""
import ast, hashlib, json, os, sys, traceback
HERE = os.path.dirname(os.path.abspath(__file__))
ROOT = os.path.dirname(HERE)
REPO = os.environ.get('PV_REPO', '/repo')
sys.path.insert(0, HERE)
import py2coq_arith as A

STATUS = {}
SNAP_PATH = os.path.join(HERE, 'snapshot_stats.json')
SNAP = json.load(open(SNAP_PATH)) if os.path.exists(SNAP_PATH) else {}
NEW_SNAP = {}


def unavailable(name, props, key, reason, stub):
    """DESIGN.md 1.5: the anchor is missing or the text is outside the translator's subset -> the committed snapshot of the
    last good generated text is used, the refusal is recorded in the evidence, and the tie for this kernel on this run is the
    correspondence of the implementation with the snapshot model (plus the closed-form specification).  No snapshot -> stub + alarm."""
    if key in SNAP:
        STATUS[name] = dict(ok=True, properties=props, snapshot=True,
                            error='regen unavailable (%s): committed snapshot used, tie by correspondence' % reason)
        return '(* translator refused: %s -- committed snapshot of the last good text *)\n' % reason.replace('*)', '* )') + SNAP[key]
    status(name, False, props, reason)
    return stub


def write_if_changed(path, text):
    if os.path.exists(path) and open(path).read() == text:
        return False
    os.makedirs(os.path.dirname(path), exist_ok=True)
    with open(path, 'w') as f:
        f.write(text)
    return True


def status(name, ok, props, error=None):
    STATUS[name] = dict(ok=ok, properties=props, error=error)


STD_STUB = ('(* translator refused; stub *)\nDefinition gen_stdpc_n_R (n : list R) : R := 0.\n'
            'Definition gen_stdpc_R {X : Type} (unique_counts : list X -> list R) (a : list X) : R := 0.\n')


def _body(fn):
    b = list(fn.body)
    if b and isinstance(b[0], ast.Expr) and isinstance(getattr(b[0], 'value', None), ast.Constant) and isinstance(b[0].value.value, str):
        b = b[1:]
    return b


def _is_call_of(e, fname, argname):
    return (isinstance(e, ast.Call) and isinstance(e.func, ast.Name) and e.func.id == fname and not e.keywords
            and len(e.args) == 1 and isinstance(e.args[0], ast.Name) and e.args[0].id == argname)


def _is_half(e):
    if isinstance(e, ast.Constant) and type(e.value) is float and e.value == 0.5:
        return True
    return (isinstance(e, ast.BinOp) and isinstance(e.op, ast.Div) and isinstance(e.left, ast.Constant)
            and isinstance(e.right, ast.Constant) and type(e.left.value) is int and type(e.right.value) is int
            and e.left.value == 1 and e.right.value == 2)


def std_text(tree):
    """stdpc_n(n) must be  return varpc_n(n) ** 0.5  (or np.sqrt / math.sqrt of it); stdpc(array) must be
    array = np.asarray(array); _, n = np.unique(array, return_counts=True); return stdpc_n(n).  Anything else is refused."""
    fn = A.find_function(tree, 'stdpc_n')
    if len(fn.args.args) != 1 or fn.args.vararg or fn.args.kwarg or fn.args.kwonlyargs or fn.args.defaults or fn.decorator_list:
        raise A.TranslateError('stdpc_n: unexpected signature')
    a = fn.args.args[0].arg
    b = _body(fn)
    if len(b) != 1 or not isinstance(b[0], ast.Return) or b[0].value is None:
        raise A.TranslateError('stdpc_n: body is not a single return')
    v = b[0].value
    ok = False
    if isinstance(v, ast.BinOp) and isinstance(v.op, ast.Pow) and _is_call_of(v.left, 'varpc_n', a) and _is_half(v.right):
        ok = True
    if (isinstance(v, ast.Call) and isinstance(v.func, ast.Attribute) and v.func.attr == 'sqrt' and isinstance(v.func.value, ast.Name)
            and v.func.value.id in ('np', 'numpy', 'math') and not v.keywords and len(v.args) == 1 and _is_call_of(v.args[0], 'varpc_n', a)):
        ok = True
    if not ok:
        raise A.TranslateError('stdpc_n: return value is not the square root of varpc_n(%s): %s' % (a, ast.unparse(v)))
    fn2 = A.find_function(tree, 'stdpc')
    if len(fn2.args.args) != 1 or fn2.args.vararg or fn2.args.kwarg or fn2.args.kwonlyargs or fn2.args.defaults or fn2.decorator_list:
        raise A.TranslateError('stdpc: unexpected signature')
    x = fn2.args.args[0].arg
    b2 = _body(fn2)
    want = ['%s = np.asarray(%s)' % (x, x), None, None]
    if len(b2) != 3 or ast.unparse(b2[0]) != want[0]:
        raise A.TranslateError('stdpc: unexpected body')
    s1 = b2[1]
    if not (isinstance(s1, ast.Assign) and len(s1.targets) == 1 and isinstance(s1.targets[0], ast.Tuple) and len(s1.targets[0].elts) == 2
            and all(isinstance(t, ast.Name) for t in s1.targets[0].elts)
            and ast.unparse(s1.value) == 'np.unique(%s, return_counts=True)' % x):
        raise A.TranslateError('stdpc: counts are not np.unique(%s, return_counts=True)' % x)
    nname = s1.targets[0].elts[1].id
    if nname == s1.targets[0].elts[0].id or nname == x:
        raise A.TranslateError('stdpc: count variable shadowed')
    if not (isinstance(b2[2], ast.Return) and b2[2].value is not None and _is_call_of(b2[2].value, 'stdpc_n', nname)):
        raise A.TranslateError('stdpc: does not return stdpc_n of the counts')
    return ('(* stdpc_n(n) = varpc_n(n) ** 0.5; stdpc(array) = stdpc_n(np.unique(array, return_counts=True)[1]) *)\n'
            'Definition gen_stdpc_n_R (n : list R) : R := sqrt (gen_varpc_n_R n).\n'
            'Definition gen_stdpc_R {X : Type} (unique_counts : list X -> list R) (a : list X) : R := gen_stdpc_n_R (unique_counts a).\n')


def gen_stats():
    src_path = os.path.join(REPO, 'pyrepseq', 'stats.py')
    src = open(src_path).read()
    try:
        tree = ast.parse(src)
    except SyntaxError as e:
        tree = None
    q = ['(* GENERATED from pyrepseq/stats.py by translate/regen.py on every check; do not edit. *)',
         'From Coq Require Import List QArith Bool Arith.', 'From PV Require Import lib.Val.',
         'Import ListNotations.', 'Open Scope Q_scope.', '',
         'Definition sumQf (f : Q -> Q) (l : list Q) : Q := sumQ (map f l).', '']
    r = ['(* GENERATED from pyrepseq/stats.py by translate/regen.py on every check; do not edit. *)',
         'From Coq Require Import List Reals.', 'Import ListNotations.', 'Open Scope R_scope.', '',
         'Fixpoint sumR (l : list R) : R := match l with [] => 0 | x :: l\' => x + sumR l\' end.',
         'Definition sumRf (f : R -> R) (l : list R) : R := sumR (map f l).', '']
    for name, nsc, props in [('chao1', 0, ['C16']), ('var_chao1', 0, ['C16']),
                             ('chao2', 1, ['C16']), ('var_chao2', 1, ['C16'])]:
        cname = 'gen_' + name
        try:
            if tree is None:
                raise A.TranslateError('stats.py does not parse')
            fn = A.find_function(tree, name)
            txt = A.ValFn(fn).emit(cname)
            NEW_SNAP[cname + ':Q'] = txt
            q.append(txt)
            status('stats.' + name, True, props)
        except A.TranslateError as e:
            q.append(unavailable('stats.' + name, props, cname + ':Q', str(e), A.val_stub(cname, nsc, str(e))))
    for name, props in [('pc_n', ['C02', 'C06']), ('varpc_n', ['C06'])]:
        cname = 'gen_' + name
        try:
            if tree is None:
                raise A.TranslateError('stats.py does not parse')
            fn = A.find_function(tree, name)
            tq = A.ExprFn(fn).emit_scope(cname, 'Q')
            tr = A.ExprFn(fn).emit_scope(cname, 'R')
            NEW_SNAP[cname + ':Q'], NEW_SNAP[cname + ':R'] = tq, tr
            q.append(tq)
            r.append(tr)
            status('stats.' + name, True, props)
        except A.TranslateError as e:
            q.append(unavailable('stats.' + name, props, cname + ':Q', str(e), A.expr_stub(cname, 'Q', str(e))))
            r.append(unavailable('stats.' + name, props, cname + ':R', str(e), A.expr_stub(cname, 'R', str(e))))
    # stdpc_n / stdpc: 'the square root of varpc_n for the same counts' (C06).  Only the shapes below are accepted.
    cname = 'gen_stdpc'
    try:
        if tree is None:
            raise A.TranslateError('stats.py does not parse')
        tr = std_text(tree)
        NEW_SNAP[cname + ':R'] = tr
        r.append(tr)
        status('stats.stdpc_n', True, ['C06'])
    except A.TranslateError as e:
        r.append(unavailable('stats.stdpc_n', ['C06'], cname + ':R', str(e), STD_STUB))
    write_if_changed(os.path.join(ROOT, 'coq/gen/Gen_stats.v'), '\n'.join(q) + '\n')
    write_if_changed(os.path.join(ROOT, 'coq/gen/Gen_stats_R.v'), '\n'.join(r) + '\n')


def main():
    for g in (gen_stats,):
        try:
            g()
        except Exception as e:
            status(g.__name__, False, [], 'translator crashed: ' + traceback.format_exc()[-400:])
    extra = os.path.join(HERE, 'regen_more.py')
    if os.path.exists(extra):
        import regen_more
        regen_more.run(STATUS, write_if_changed, ROOT, REPO)
    import glob, importlib
    for f in sorted(glob.glob(os.path.join(HERE, 'regen_c[0-9][0-9]*.py'))):
        name = os.path.basename(f)[:-3]
        try:
            importlib.import_module(name).run(STATUS, write_if_changed, ROOT, REPO)
        except Exception:
            status(name, False, [name[6:9].upper()], 'translator crashed: ' + traceback.format_exc()[-400:])
    os.makedirs(os.path.join(ROOT, 'build'), exist_ok=True)
    with open(os.path.join(ROOT, 'build', 'regen_status.json'), 'w') as f:
        json.dump(STATUS, f, indent=1)
    if '--write-snapshot' in sys.argv:      # maintainer action on a tree whose kernels are known good; never done by a check
        with open(SNAP_PATH, 'w') as f:
            json.dump(NEW_SNAP, f, indent=1, sort_keys=True)


if __name__ == '__main__':
    main()
