"""C19: regenerate coq/gen/Gen_c19.v from the SOURCE TEXT of pyrepseq/util.py `seqs_to_regex` and `seqs_to_consensus` (fail-closed `ast`
translator).  Both functions have the shape

      if align: seqs = align_seqs(seqs)            (the external aligner: the generated functions are the align=False behaviour)
      matrix = lm.alignment_to_matrix(seqs)
      n = len(seqs)
      ACC = ''
      for i, row in matrix.iterrows():  <body>
      return ACC

  and <body> is translated statement by statement from a small language:
      NAME = <expr>                     local of the iteration (string / number / truth value, by the form of <expr>)
      ACC += <string expr>
      if <cond>: <stmts> [else: <stmts>]       branches may only extend ACC
      if <cond>: continue                      the rest of the body becomes the else branch
  string exprs: '..' literals, f'..{NAME}..', NAME, ''.join(row[row > K].index), row.idxmax()
  numbers:      literals, n, n // K, len(NAME), row.sum(), a - b, a + b, NAME
  conditions:   a <cmp> b on numbers (> >= < <= == !=), NAME, not c

Vocabulary (trusted, DESIGN section 3; exercised by the count-matrix correspondence of C19): logomaker's alignment_to_matrix(seqs) =
one row of counts per position over the sorted residues that occur (`lm_matrix`), DataFrame.iterrows = the rows in order, row[row > K].index
= the column labels whose count exceeds K, row.sum(), row.idxmax() = the FIRST label with the largest count.
coq/proofs/GenSummariesP.v proves the generated functions equal to the models of model/Summaries.v (`render (regex_of seqs)`,
`consensus seqs`).  Anything else is refused; on refusal the committed snapshot is written and the refusal recorded (DESIGN.md 1.5)."""
import ast, os, traceback

NAME = 'util.seqs_to_regex[source]'
PROPS = ['C19']
U = ast.unparse


class Refuse(Exception):
    pass


def body_of(fn):
    b = list(fn.body)
    if b and isinstance(b[0], ast.Expr) and isinstance(b[0].value, ast.Constant) and isinstance(b[0].value.value, str):
        b = b[1:]
    return b


def coq_str(s):
    if not all(32 <= ord(c) < 127 for c in s):
        raise Refuse('non-ASCII literal %r' % s)
    return '[' + '; '.join('%d%%N' % ord(c) for c in s) + ']'


class Body:
    def __init__(self, fname, acc):
        self.fname, self.acc = fname, acc
        self.types = {acc: 'str', 'n': 'nat'}

    # ---- expressions
    def num(self, e):
        if isinstance(e, ast.Constant) and type(e.value) is int and 0 <= e.value < 1000:
            return '%d' % e.value
        if isinstance(e, ast.Name) and self.types.get(e.id) == 'nat':
            return e.id + '_' if e.id != 'n' else 'n'
        if isinstance(e, ast.Call) and isinstance(e.func, ast.Name) and e.func.id == 'len' and len(e.args) == 1 and not e.keywords \
                and isinstance(e.args[0], ast.Name) and self.types.get(e.args[0].id) == 'str':
            return '(length %s_)' % e.args[0].id
        if U(e) == 'row.sum()':
            return '(list_sum row)'
        if isinstance(e, ast.BinOp) and isinstance(e.op, (ast.Add, ast.Sub)):
            return '(%s %s %s)' % (self.num(e.left), '+' if isinstance(e.op, ast.Add) else '-', self.num(e.right))
        if isinstance(e, ast.BinOp) and isinstance(e.op, ast.FloorDiv) and isinstance(e.right, ast.Constant) and type(e.right.value) is int \
                and 1 <= e.right.value < 1000:
            return '(Nat.div %s %d)' % (self.num(e.left), e.right.value)
        raise Refuse('%s: number not understood: %s' % (self.fname, U(e)[:60]))

    CMP = {ast.Gt: ('Nat.ltb', True), ast.GtE: ('Nat.leb', True), ast.Lt: ('Nat.ltb', False), ast.LtE: ('Nat.leb', False)}

    def cond(self, e):
        if isinstance(e, ast.Name) and self.types.get(e.id) == 'bool':
            return e.id + '_'
        if isinstance(e, ast.UnaryOp) and isinstance(e.op, ast.Not):
            return '(negb %s)' % self.cond(e.operand)
        if isinstance(e, ast.Compare) and len(e.ops) == 1:
            a, b, op = self.num(e.left), self.num(e.comparators[0]), e.ops[0]
            if type(op) in self.CMP:
                f, swap = self.CMP[type(op)]
                return '(%s %s %s)' % ((f, b, a) if swap else (f, a, b))
            if isinstance(op, ast.Eq):
                return '(Nat.eqb %s %s)' % (a, b)
            if isinstance(op, ast.NotEq):
                return '(negb (Nat.eqb %s %s))' % (a, b)
        raise Refuse('%s: condition not understood: %s' % (self.fname, U(e)[:60]))

    def string(self, e):
        if isinstance(e, ast.Constant) and isinstance(e.value, str):
            return coq_str(e.value)
        if isinstance(e, ast.Name) and self.types.get(e.id) == 'str' and e.id != self.acc:
            return e.id + '_'
        if isinstance(e, ast.JoinedStr):
            parts = []
            for v in e.values:
                if isinstance(v, ast.Constant) and isinstance(v.value, str):
                    parts.append(coq_str(v.value))
                elif isinstance(v, ast.FormattedValue) and v.conversion == -1 and v.format_spec is None:
                    parts.append(self.string(v.value))
                else:
                    raise Refuse('%s: f-string part not understood' % self.fname)
            return '(' + ' ++ '.join(parts) + ')' if parts else '[]'
        if U(e) == 'row.idxmax()':
            return '(row_idxmax cols row)'
        if isinstance(e, ast.Call) and isinstance(e.func, ast.Attribute) and e.func.attr == 'join' and isinstance(e.func.value, ast.Constant) \
                and e.func.value.value == '' and len(e.args) == 1 and not e.keywords:
            a = e.args[0]
            if isinstance(a, ast.Attribute) and a.attr == 'index' and isinstance(a.value, ast.Subscript) and U(a.value.value) == 'row':
                sl = a.value.slice
                if isinstance(sl, ast.Compare) and len(sl.ops) == 1 and U(sl.left) == 'row' and isinstance(sl.comparators[0], ast.Constant) \
                        and type(sl.comparators[0].value) is int and 0 <= sl.comparators[0].value < 1000:
                    k = sl.comparators[0].value
                    if isinstance(sl.ops[0], ast.Gt):
                        return '(row_index_gt %d cols row)' % k
                    if isinstance(sl.ops[0], ast.GtE) and k >= 1:
                        return '(row_index_gt %d cols row)' % (k - 1)
        raise Refuse('%s: string not understood: %s' % (self.fname, U(e)[:80]))

    # ---- statements -> a Gallina term for the accumulator after them
    def stmts(self, ss, top):
        if not ss:
            return self.acc + '_'
        s, rest = ss[0], ss[1:]
        acc = self.acc
        if isinstance(s, ast.AugAssign) and isinstance(s.op, ast.Add) and U(s.target) == acc:
            return 'let %s_ := %s_ ++ %s in\n    %s' % (acc, acc, self.string(s.value), self.stmts(rest, top))
        if isinstance(s, ast.Assign) and len(s.targets) == 1 and isinstance(s.targets[0], ast.Name) and U(s.targets[0]) == acc \
                and isinstance(s.value, ast.BinOp) and isinstance(s.value.op, ast.Add) and U(s.value.left) == acc:
            return 'let %s_ := %s_ ++ %s in\n    %s' % (acc, acc, self.string(s.value.right), self.stmts(rest, top))
        if isinstance(s, ast.Assign) and len(s.targets) == 1 and isinstance(s.targets[0], ast.Name):
            if not top:
                raise Refuse('%s: a local is assigned inside a branch' % self.fname)
            name = s.targets[0].id
            if name in (acc, 'n', 'row', 'cols', 'matrix', 'seqs', 'i') or name in self.types:
                raise Refuse('%s: %s is assigned twice / reserved' % (self.fname, name))
            for ty, f in (('str', self.string), ('bool', self.cond), ('nat', self.num)):
                try:
                    term = f(s.value)
                except Refuse:
                    continue
                self.types[name] = ty
                return 'let %s_ := %s in\n    %s' % (name, term, self.stmts(rest, top))
            raise Refuse('%s: right-hand side not understood: %s' % (self.fname, U(s)[:80]))
        if isinstance(s, ast.If):
            c = self.cond(s.test)
            if len(s.body) == 1 and isinstance(s.body[0], ast.Continue) and not s.orelse:
                return 'if %s then %s_ else\n    %s' % (c, acc, self.stmts(rest, top))
            a = self.stmts(s.body, False)
            b = self.stmts(s.orelse, False)
            return 'let %s_ := (if %s then %s else %s) in\n    %s' % (acc, c, a, b, self.stmts(rest, top))
        raise Refuse('%s: statement not understood: %s' % (self.fname, U(s)[:80]))


def translate(fn):
    names = [a.arg for a in fn.args.args]
    if names != ['seqs', 'align'] or [U(d) for d in fn.args.defaults] != ['True'] or fn.args.vararg or fn.args.kwarg or fn.args.kwonlyargs:
        raise Refuse('%s: unexpected signature' % fn.name)
    b = body_of(fn)
    if len(b) != 6:
        raise Refuse('%s: expected 6 statements, got %d' % (fn.name, len(b)))
    if U(b[0]) != 'if align:\n    seqs = align_seqs(seqs)':
        raise Refuse('%s: alignment step changed: %s' % (fn.name, U(b[0])[:80]))
    if U(b[1]) != 'matrix = lm.alignment_to_matrix(seqs)':
        raise Refuse('%s: count matrix is not lm.alignment_to_matrix(seqs): %s' % (fn.name, U(b[1])[:80]))
    if U(b[2]) != 'n = len(seqs)':
        raise Refuse('%s: n is not len(seqs)' % fn.name)
    if not (isinstance(b[3], ast.Assign) and len(b[3].targets) == 1 and isinstance(b[3].targets[0], ast.Name) and U(b[3].value) == "''"):
        raise Refuse('%s: accumulator is not initialised with the empty string' % fn.name)
    acc = b[3].targets[0].id
    lo = b[4]
    if not (isinstance(lo, ast.For) and not lo.orelse and U(lo.target) == '(i, row)' and U(lo.iter) == 'matrix.iterrows()'):
        raise Refuse('%s: loop is not `for i, row in matrix.iterrows()`' % fn.name)
    if U(b[5]) != 'return %s' % acc:
        raise Refuse('%s: does not return the accumulator' % fn.name)
    if acc in ('n', 'row', 'cols', 'matrix', 'seqs', 'i'):
        raise Refuse('%s: accumulator name reserved' % fn.name)
    return acc, Body(fn.name, acc).stmts(list(lo.body), True)


TEMPLATE = '''Definition gen_%(fn)s (seqs : list str) : str :=
  let matrix := lm_matrix seqs in
  let cols := fst matrix in
  let n := length seqs in
  fold_left (fun (%(acc)s_ : str) (row : list nat) =>
    %(body)s) (snd matrix) [].
'''
SNAP = {'seqs_to_regex': ('regex', '''let s_ := (row_index_gt 0 cols row) in
    let regex_ := (if (Nat.ltb 1 (length s_)) then let regex_ := regex_ ++ ([91%N] ++ s_ ++ [93%N]) in
    regex_ else let regex_ := regex_ ++ s_ in
    regex_) in
    let gaps_ := (negb (Nat.eqb (list_sum row) n)) in
    let regex_ := (if gaps_ then let regex_ := regex_ ++ [63%N] in
    regex_ else regex_) in
    regex_'''),
        'seqs_to_consensus': ('s', '''let ngaps_ := (n - (list_sum row)) in
    if (Nat.ltb (Nat.div n 2) ngaps_) then s_ else
    let s_ := s_ ++ (row_idxmax cols row) in
    s_''')}


def run(STATUS, write_if_changed, ROOT, REPO):
    head = ['(* GENERATED from pyrepseq/util.py (seqs_to_regex, seqs_to_consensus; align=False behaviour) by translate/regen_c19.py on every check; '
            'do not edit. *)',
            'From Coq Require Import List Arith Bool NArith.', 'From PV Require Import lib.Str model.Summaries model.LmMatrix.', 'Import ListNotations.', '']
    parts, refused, crashed = [], [], None
    try:
        tree = ast.parse(open(os.path.join(REPO, 'pyrepseq', 'util.py')).read())
        fns = {n.name: n for n in tree.body if isinstance(n, ast.FunctionDef)}
    except Exception:
        fns, crashed = {}, traceback.format_exc()[-300:]
    for fname in ('seqs_to_regex', 'seqs_to_consensus'):
        try:
            if fname not in fns:
                raise Refuse('function %s not found' % fname)
            acc, body = translate(fns[fname])
            parts.append(TEMPLATE % dict(fn=fname, acc=acc, body=body))
        except Refuse as e:
            refused.append(str(e))
            parts.append('(* translator refused: %s -- committed snapshot of the last good text *)\n' % str(e).replace('*)', '* )') +
                         TEMPLATE % dict(fn=fname, acc=SNAP[fname][0], body=SNAP[fname][1]))
        except Exception:
            crashed = traceback.format_exc()[-300:]
            parts.append('(* translator crashed -- committed snapshot *)\n' + TEMPLATE % dict(fn=fname, acc=SNAP[fname][0], body=SNAP[fname][1]))
    if crashed:
        STATUS[NAME] = dict(ok=True, snapshot=True, properties=PROPS,
                            error='regen unavailable (translator error on text outside its subset: %s): committed snapshot used, tie by correspondence' % crashed[-200:].replace('\n', ' '))
    elif refused:
        STATUS[NAME] = dict(ok=True, snapshot=True, properties=PROPS,
                            error='regen unavailable (%s): committed snapshot used, tie by correspondence' % '; '.join(refused)[:200])
    else:
        STATUS[NAME] = dict(ok=True, properties=PROPS, error=None)
    write_if_changed(os.path.join(ROOT, 'coq/gen/Gen_c19.v'), '\n'.join(head) + '\n'.join(parts))
