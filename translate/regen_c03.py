"""C03 (also C01, C07, C14): regenerate coq/gen/Gen_c03.v from the SOURCE TEXT of pyrepseq/nn.py class `SymdelDB` (`__init__`, `lookup`)
by a fail-closed `ast` translator.  coq/proofs/GenSymdelDBP.v proves, for every iteration order of the Python sets involved, that the
index built by `__init__` (from the regenerated `_comb_gen` of Gen_c01.v) holds for each variant exactly the positions having it, and
that `lookup` answers exactly the pairs inside the radius in each of its three distance modes (coq/props/C03g.v).

What is read from the source, and how it lands in the generated text:
  __init__(self, seqs, max_edits)
      self.seqs = list(seqs); self.max_edits = max_edits; self.variant_dict = {}        (any order)
      for i, seq in enumerate(seqs | self.seqs):
          for comb in _comb_gen(seq, max_edits | self.max_edits):
              <append i to the list stored under comb, creating the list when the key is new>, one of
                  if comb in D: D[comb].append(i)  else: D[comb] = [i]
                  if comb not in D: D[comb] = [i]  else: D[comb].append(i)
                  if comb not in D: D[comb] = []   ; D[comb].append(i)
                  D.setdefault(comb, []).append(i)
              (a NEW key always gets a FRESH list literal: two buckets never share a list object - anything else is refused)
  lookup(self, seqs2, custom_distance=None, max_custom_distance=float('inf'), output_type='triplets', progress=False)
      ans = []
      is_custom = custom_distance not in (None, 'hamming')          -> gen_is_custom   (truth table over None / 'hamming' / callable)
      threshold = A if is_custom else B                              -> gen_threshold   (A, B in {max_custom_distance, self.max_edits})
      if custom_distance == 'hamming': custom_distance = _hamming_replacement
      elif custom_distance is None:   custom_distance = levenshtein  -> gen_distance_used
      [if progress: L = tqdm...(enumerate(seqs2), total=len(seqs2)) else: L = enumerate(seqs2)]
      for i, seq in L | enumerate(seqs2):
          J = set()
          for comb in _comb_gen(seq, self.max_edits):
              if comb not in self.variant_dict: continue
              for j in self.variant_dict[comb]: J.add(j)            (or  J.update(self.variant_dict[comb]) / J |= set(..))
          for j in J:
              dist = custom_distance(seq, self.seqs[j])
              if COND: continue      (zero or more)                  -> nested `if COND then ans else`
              ans.append((i, j, dist))
      return _make_output(ans, output_type, self.seqs, seqs2)
      COND ::= COND and COND | COND or COND | not COND | is_custom | dist > threshold | dist >= threshold | threshold < dist
             | levenshtein(seq, self.seqs[j]) > self.max_edits | ... >= ... (as Nat.ltb / Nat.leb on the edit radius)
  symdel(seqs, max_edits=1, ..., seqs2=None, progress=False): self mode (the `if seqs2 is None:` branch) and the delegation
      _check_common_input(...)                                       (C10g)
      symdeldb = SymdelDB(seqs, max_edits)
      if seqs2 is None:
          ans = set()
          is_custom = ... ; threshold = A if is_custom else max_edits ; distance substitution      (as in lookup)
          for key, values in symdeldb.variant_dict.items():
              if len(values) == 1: continue                         (optional; `< 2` accepted)
              for i, j in combinations(values, 2):
                  seq_i, seq_j = symdeldb.seqs[i], symdeldb.seqs[j]
                  dist = custom_distance(seq_i, seq_j)
                  if COND: continue      (zero or more; COND as above with seq_i, seq_j)
                  ans.add((i, j, dist)); ans.add((j, i, dist))      (either order)
          return _make_output(ans, output_type, seqs, seqs2)
      return symdeldb.lookup(seqs2, custom_distance=custom_distance, max_custom_distance=max_custom_distance, output_type=output_type,
                             progress=progress)
Anything else is refused; on refusal the committed snapshot is written and the refusal recorded (DESIGN.md 1.5)."""
import ast, os, traceback

NAME = 'nn.SymdelDB'
PROPS = ['C01', 'C03', 'C07', 'C14']
U = ast.unparse


class Refuse(Exception):
    pass


def body_of(fn):
    b = list(fn.body)
    if b and isinstance(b[0], ast.Expr) and isinstance(b[0].value, ast.Constant) and isinstance(b[0].value.value, str):
        b = b[1:]
    return b


def method(cls, name):
    for n in cls.body:
        if isinstance(n, ast.FunctionDef) and n.name == name:
            return n
    raise Refuse('SymdelDB.%s not found' % name)


def check_init(fn):
    a = fn.args
    if [x.arg for x in a.args] != ['self', 'seqs', 'max_edits'] or a.vararg or a.kwarg or a.kwonlyargs or a.defaults or fn.decorator_list:
        raise Refuse('SymdelDB.__init__: unexpected signature')
    b = body_of(fn)
    if len(b) != 4:
        raise Refuse('SymdelDB.__init__: %d statements, expected three attribute assignments and one loop' % len(b))
    assigns = sorted(U(s) for s in b[:3])
    if assigns != sorted(['self.seqs = list(seqs)', 'self.max_edits = max_edits', 'self.variant_dict = {}']) and \
       assigns != sorted(['self.seqs = list(seqs)', 'self.max_edits = max_edits', 'self.variant_dict = dict()']):
        raise Refuse('SymdelDB.__init__: attribute assignments are %s' % assigns)
    loop = b[3]
    if not (isinstance(loop, ast.For) and not loop.orelse and U(loop.target) == '(i, seq)' and U(loop.iter) in ('enumerate(seqs)', 'enumerate(self.seqs)')
            and len(loop.body) == 1):
        raise Refuse('SymdelDB.__init__: outer loop is not `for i, seq in enumerate(seqs)` (line %d)' % loop.lineno)
    if U(loop.iter) == 'enumerate(seqs)':
        pass        # seqs itself: the same elements in the same order as list(seqs) for a re-iterable collection (C10 owns containers)
    inner = loop.body[0]
    if not (isinstance(inner, ast.For) and not inner.orelse and U(inner.target) == 'comb'
            and U(inner.iter) in ('_comb_gen(seq, max_edits)', '_comb_gen(seq, self.max_edits)')):
        raise Refuse('SymdelDB.__init__: inner loop is not `for comb in _comb_gen(seq, max_edits)` (line %d)' % inner.lineno)
    D = 'self.variant_dict'
    app, new = '%s[comb].append(i)' % D, '%s[comb] = [i]' % D
    src = [U(s) for s in inner.body]
    forms = [
        ['if comb in %s:\n    %s\nelse:\n    %s' % (D, app, new)],
        ['if comb not in %s:\n    %s\nelse:\n    %s' % (D, new, app)],
        ['if comb not in %s:\n    %s[comb] = []' % (D, D), app],
        ['%s.setdefault(comb, []).append(i)' % D],
    ]
    if src not in forms:
        raise Refuse('SymdelDB.__init__: bucket update outside the accepted forms (line %d): %s' % (inner.lineno, ' ; '.join(src)[:160]))


class Lookup:
    def __init__(self, fn):
        a = fn.args
        names = [x.arg for x in a.args]
        if names[:5] != ['self', 'seqs2', 'custom_distance', 'max_custom_distance', 'output_type'] or a.vararg or a.kwarg or a.kwonlyargs:
            raise Refuse('SymdelDB.lookup: unexpected signature %s' % names)
        dflt = dict(zip(names[len(names) - len(a.defaults):], a.defaults))
        if U(dflt.get('custom_distance', ast.Constant(0))) != 'None':
            raise Refuse('SymdelDB.lookup: custom_distance default is not None')
        self.b = body_of(fn)

    def truth_is_custom(self, e):
        """custom_distance not in (None, 'hamming') and equivalents -> {arg kind: bool}"""
        def ev(x, kind):
            if isinstance(x, ast.BoolOp):
                vs = [ev(v, kind) for v in x.values]
                return all(vs) if isinstance(x.op, ast.And) else any(vs)
            if isinstance(x, ast.UnaryOp) and isinstance(x.op, ast.Not):
                return not ev(x.operand, kind)
            if isinstance(x, ast.Compare) and len(x.ops) == 1 and U(x.left) == 'custom_distance':
                op, r = x.ops[0], x.comparators[0]
                if isinstance(op, (ast.In, ast.NotIn)) and isinstance(r, (ast.Tuple, ast.List, ast.Set)):
                    vals = []
                    for c in r.elts:
                        if not (isinstance(c, ast.Constant) and (c.value is None or c.value == 'hamming')):
                            raise Refuse('is_custom: literal %s' % U(c))
                        vals.append('none' if c.value is None else 'hamming')
                    res = kind in vals
                    return res if isinstance(op, ast.In) else not res
                if isinstance(op, (ast.Is, ast.IsNot, ast.Eq, ast.NotEq)) and isinstance(r, ast.Constant) and (r.value is None or r.value == 'hamming'):
                    res = kind == ('none' if r.value is None else 'hamming')
                    return res if isinstance(op, (ast.Is, ast.Eq)) else not res
            raise Refuse('is_custom expression outside the subset: %s' % U(e)[:100])
        return {k: ev(e, k) for k in ('none', 'hamming', 'callable')}

    def cond(self, e):
        if isinstance(e, ast.BoolOp):
            parts = [self.cond(v) for v in e.values]
            op = ' && ' if isinstance(e.op, ast.And) else ' || '
            out = parts[0]
            for p in parts[1:]:
                out = '(%s%s%s)' % (out, op, p)
            return out
        if isinstance(e, ast.UnaryOp) and isinstance(e.op, ast.Not):
            return '(negb %s)' % self.cond(e.operand)
        if isinstance(e, ast.Name) and e.id == 'is_custom':
            return 'is_custom'
        if isinstance(e, ast.Compare) and len(e.ops) == 1:
            l, op, r = U(e.left), e.ops[0], U(e.comparators[0])
            LEV = ('levenshtein(seq, self.seqs[j])', 'levenshtein(self.seqs[j], seq)')
            lev = {LEV[0]: '(levenshtein seq (nth j self_seqs []))', LEV[1]: '(levenshtein (nth j self_seqs []) seq)'}
            if l == 'dist' and r == 'threshold':
                if isinstance(op, ast.Gt):
                    return '(gtD dist threshold)'
                if isinstance(op, ast.LtE):
                    return '(negb (gtD dist threshold))'
            if l == 'threshold' and r == 'dist':
                if isinstance(op, ast.Lt):
                    return '(gtD dist threshold)'
                if isinstance(op, ast.GtE):
                    return '(negb (gtD dist threshold))'
            if l in LEV and r == 'self.max_edits':
                t = {ast.Gt: '(Nat.ltb self_max_edits %s)', ast.GtE: '(Nat.leb self_max_edits %s)',
                     ast.Lt: '(Nat.ltb %s self_max_edits)', ast.LtE: '(Nat.leb %s self_max_edits)'}.get(type(op))
                if t:
                    return t % lev[l]
            if r in LEV and l == 'self.max_edits':
                t = {ast.Lt: '(Nat.ltb self_max_edits %s)', ast.LtE: '(Nat.leb self_max_edits %s)',
                     ast.Gt: '(Nat.ltb %s self_max_edits)', ast.GtE: '(Nat.leb %s self_max_edits)'}.get(type(op))
                if t:
                    return t % lev[r]
        raise Refuse('filter condition outside the subset (line %d): %s' % (getattr(e, 'lineno', 0), U(e)[:120]))

    def translate(self):
        b = list(self.b)
        if not b or U(b[0]) != 'ans = []':
            raise Refuse('SymdelDB.lookup: does not start with `ans = []`')
        b = b[1:]
        # is_custom
        if not (isinstance(b[0], ast.Assign) and U(b[0].targets[0]) == 'is_custom' and len(b[0].targets) == 1):
            raise Refuse('SymdelDB.lookup: `is_custom = ...` expected (line %d)' % b[0].lineno)
        tt = self.truth_is_custom(b[0].value)
        # threshold
        t = b[1]
        if not (isinstance(t, ast.Assign) and len(t.targets) == 1 and U(t.targets[0]) == 'threshold' and isinstance(t.value, ast.IfExp)
                and U(t.value.test) == 'is_custom'):
            raise Refuse('SymdelDB.lookup: `threshold = A if is_custom else B` expected (line %d)' % t.lineno)
        names = {'max_custom_distance': 'max_custom_distance', 'self.max_edits': 'self_max_edits'}
        if U(t.value.body) not in names or U(t.value.orelse) not in names:
            raise Refuse('SymdelDB.lookup: threshold operands %s / %s' % (U(t.value.body), U(t.value.orelse)))
        thr = (names[U(t.value.body)], names[U(t.value.orelse)])
        # distance substitution
        s = b[2]
        used = {'none': None, 'hamming': None, 'callable': 2}
        fnno = {'_hamming_replacement': 0, 'levenshtein': 1}
        if not isinstance(s, ast.If):
            raise Refuse('SymdelDB.lookup: distance substitution expected (line %d)' % s.lineno)
        node = s
        while node is not None:
            test = U(node.test)
            kind = {"custom_distance == 'hamming'": 'hamming', 'custom_distance is None': 'none', 'custom_distance == None': 'none'}.get(test)
            if kind is None or used[kind] is not None or len(node.body) != 1 or not isinstance(node.body[0], ast.Assign) \
                    or U(node.body[0].targets[0]) != 'custom_distance' or U(node.body[0].value) not in fnno:
                raise Refuse('SymdelDB.lookup: distance substitution branch (line %d): %s' % (node.lineno, test))
            used[kind] = fnno[U(node.body[0].value)]
            if len(node.orelse) == 1 and isinstance(node.orelse[0], ast.If):
                node = node.orelse[0]
            elif not node.orelse:
                node = None
            else:
                raise Refuse('SymdelDB.lookup: distance substitution has an else branch (line %d)' % node.lineno)
        if used['none'] is None or used['hamming'] is None:
            raise Refuse('SymdelDB.lookup: custom_distance None / hamming is not replaced by a function')
        b = b[3:]
        # optional progress wrapper
        loopvar = 'enumerate(seqs2)'
        if isinstance(b[0], ast.If) and U(b[0].test) == 'progress':
            p = b[0]
            if not (len(p.body) == 1 and len(p.orelse) == 1 and isinstance(p.body[0], ast.Assign) and isinstance(p.orelse[0], ast.Assign)
                    and U(p.body[0].targets[0]) == U(p.orelse[0].targets[0]) and U(p.orelse[0].value) == 'enumerate(seqs2)'
                    and 'tqdm' in U(p.body[0].value) and 'enumerate(seqs2)' in U(p.body[0].value)):
                raise Refuse('SymdelDB.lookup: progress wrapper (line %d)' % p.lineno)
            loopvar = U(p.body[0].targets[0])
            b = b[1:]
        if len(b) != 2:
            raise Refuse('SymdelDB.lookup: %d statements after the prelude, expected the loop and the return' % len(b))
        loop, ret = b
        if not (isinstance(loop, ast.For) and not loop.orelse and U(loop.target) == '(i, seq)' and U(loop.iter) in (loopvar, 'enumerate(seqs2)')):
            raise Refuse('SymdelDB.lookup: query loop (line %d)' % loop.lineno)
        if not (isinstance(ret, ast.Return) and U(ret.value) == '_make_output(ans, output_type, self.seqs, seqs2)'):
            raise Refuse('SymdelDB.lookup: return is not _make_output(ans, output_type, self.seqs, seqs2)')
        lb = loop.body
        if len(lb) != 3 or not (isinstance(lb[0], ast.Assign) and len(lb[0].targets) == 1 and isinstance(lb[0].targets[0], ast.Name)
                                and U(lb[0].value) == 'set()'):
            raise Refuse('SymdelDB.lookup: query loop body is not `J = set()`, the candidate loop, the filter loop (line %d)' % loop.lineno)
        J = lb[0].targets[0].id
        c = lb[1]
        okc = (isinstance(c, ast.For) and not c.orelse and U(c.target) == 'comb' and U(c.iter) == '_comb_gen(seq, self.max_edits)')
        if okc:
            src = [U(x) for x in c.body]
            D = 'self.variant_dict'
            forms = [
                ['if comb not in %s:\n    continue' % D, 'for j in %s[comb]:\n    %s.add(j)' % (D, J)],
                ['if comb not in %s:\n    continue' % D, '%s.update(%s[comb])' % (J, D)],
                ['if comb in %s:\n    for j in %s[comb]:\n        %s.add(j)' % (D, D, J)],
                ['if comb in %s:\n    %s.update(%s[comb])' % (D, J, D)],
            ]
            okc = src in forms
        if not okc:
            raise Refuse('SymdelDB.lookup: candidate loop outside the accepted forms (line %d)' % c.lineno)
        f = lb[2]
        if not (isinstance(f, ast.For) and not f.orelse and U(f.target) == 'j' and U(f.iter) == J and len(f.body) >= 2):
            raise Refuse('SymdelDB.lookup: filter loop is not `for j in %s` (line %d)' % (J, f.lineno))
        if U(f.body[0]) not in ('dist = custom_distance(seq, self.seqs[j])',):
            raise Refuse('SymdelDB.lookup: `dist = custom_distance(seq, self.seqs[j])` expected (line %d)' % f.body[0].lineno)
        if U(f.body[-1]) != 'ans.append((i, j, dist))':
            raise Refuse('SymdelDB.lookup: the loop does not end in ans.append((i, j, dist))')
        conds = []
        for st in f.body[1:-1]:
            if not (isinstance(st, ast.If) and not st.orelse and len(st.body) == 1 and isinstance(st.body[0], ast.Continue)):
                raise Refuse('SymdelDB.lookup: filter statement is not `if COND: continue` (line %d)' % st.lineno)
            # `if A or B: continue` is `if A: continue` followed by `if B: continue` (same evaluation order): one canonical text
            for t_ in (st.test.values if isinstance(st.test, ast.BoolOp) and isinstance(st.test.op, ast.Or) else [st.test]):
                conds.append(self.cond(t_))
        return tt, thr, used, conds


class Self(Lookup):
    """the self-mode branch of symdel()"""
    def __init__(self, fn):
        names = [x.arg for x in fn.args.args]
        need = ['seqs', 'max_edits', 'custom_distance', 'max_custom_distance', 'output_type', 'seqs2']
        if any(n not in names for n in need) or fn.args.vararg or fn.args.kwarg:
            raise Refuse('symdel: unexpected signature %s' % names)
        self.b = body_of(fn)

    def cond(self, e):
        if isinstance(e, ast.BoolOp):
            parts = [self.cond(v) for v in e.values]
            op = ' && ' if isinstance(e.op, ast.And) else ' || '
            out = parts[0]
            for p in parts[1:]:
                out = '(%s%s%s)' % (out, op, p)
            return out
        if isinstance(e, ast.UnaryOp) and isinstance(e.op, ast.Not):
            return '(negb %s)' % self.cond(e.operand)
        if isinstance(e, ast.Name) and e.id == 'is_custom':
            return 'is_custom'
        if isinstance(e, ast.Compare) and len(e.ops) == 1:
            l, op, r = U(e.left), e.ops[0], U(e.comparators[0])
            lev = {'levenshtein(seq_i, seq_j)': '(levenshtein seq_i seq_j)', 'levenshtein(seq_j, seq_i)': '(levenshtein seq_j seq_i)'}
            if (l, r) == ('dist', 'threshold') and isinstance(op, ast.Gt) or (l, r) == ('threshold', 'dist') and isinstance(op, ast.Lt):
                return '(gtD dist threshold)'
            if (l, r) == ('dist', 'threshold') and isinstance(op, ast.LtE) or (l, r) == ('threshold', 'dist') and isinstance(op, ast.GtE):
                return '(negb (gtD dist threshold))'
            if l in lev and r == 'max_edits':
                t = {ast.Gt: '(Nat.ltb max_edits %s)', ast.GtE: '(Nat.leb max_edits %s)',
                     ast.Lt: '(Nat.ltb %s max_edits)', ast.LtE: '(Nat.leb %s max_edits)'}.get(type(op))
                if t:
                    return t % lev[l]
            if r in lev and l == 'max_edits':
                t = {ast.Lt: '(Nat.ltb max_edits %s)', ast.LtE: '(Nat.leb max_edits %s)',
                     ast.Gt: '(Nat.ltb %s max_edits)', ast.GtE: '(Nat.leb %s max_edits)'}.get(type(op))
                if t:
                    return t % lev[r]
        raise Refuse('symdel self mode: filter condition outside the subset (line %d): %s' % (getattr(e, 'lineno', 0), U(e)[:120]))

    def translate(self):
        b = list(self.b)
        if len(b) != 4:
            raise Refuse('symdel: %d top-level statements, expected validation, database, self branch, delegation' % len(b))
        v, db, br, ret = b
        if not (isinstance(v, ast.Expr) and isinstance(v.value, ast.Call) and U(v.value.func) == '_check_common_input'):
            raise Refuse('symdel: does not start with _check_common_input(...)')
        if U(db) != 'symdeldb = SymdelDB(seqs, max_edits)':
            raise Refuse('symdel: `symdeldb = SymdelDB(seqs, max_edits)` expected (line %d)' % db.lineno)
        want = ("return symdeldb.lookup(seqs2, custom_distance=custom_distance, max_custom_distance=max_custom_distance, "
                "output_type=output_type, progress=progress)")
        if U(ret) != want:
            raise Refuse('symdel: two-collection form is not delegated to symdeldb.lookup with all arguments: %s' % U(ret)[:160])
        if not (isinstance(br, ast.If) and U(br.test) == 'seqs2 is None' and not br.orelse):
            raise Refuse('symdel: self branch is not `if seqs2 is None:` (line %d)' % br.lineno)
        sb = br.body
        if len(sb) != 6 or U(sb[0]) != 'ans = set()':
            raise Refuse('symdel self mode: %d statements / no `ans = set()`' % len(sb))
        if not (isinstance(sb[1], ast.Assign) and U(sb[1].targets[0]) == 'is_custom'):
            raise Refuse('symdel self mode: `is_custom = ...` expected')
        tt = self.truth_is_custom(sb[1].value)
        t = sb[2]
        if not (isinstance(t, ast.Assign) and U(t.targets[0]) == 'threshold' and isinstance(t.value, ast.IfExp) and U(t.value.test) == 'is_custom'):
            raise Refuse('symdel self mode: `threshold = A if is_custom else B` expected')
        names = {'max_custom_distance': 'max_custom_distance', 'max_edits': 'self_max_edits'}
        if U(t.value.body) not in names or U(t.value.orelse) not in names:
            raise Refuse('symdel self mode: threshold operands')
        thr = (names[U(t.value.body)], names[U(t.value.orelse)])
        used = {'none': None, 'hamming': None, 'callable': 2}
        fnno = {'_hamming_replacement': 0, 'levenshtein': 1}
        node = sb[3]
        if not isinstance(node, ast.If):
            raise Refuse('symdel self mode: distance substitution expected')
        while node is not None:
            kind = {"custom_distance == 'hamming'": 'hamming', 'custom_distance is None': 'none', 'custom_distance == None': 'none'}.get(U(node.test))
            if kind is None or used[kind] is not None or len(node.body) != 1 or not isinstance(node.body[0], ast.Assign) \
                    or U(node.body[0].targets[0]) != 'custom_distance' or U(node.body[0].value) not in fnno:
                raise Refuse('symdel self mode: distance substitution branch (line %d)' % node.lineno)
            used[kind] = fnno[U(node.body[0].value)]
            node = node.orelse[0] if len(node.orelse) == 1 and isinstance(node.orelse[0], ast.If) else (None if not node.orelse else 0)
            if node == 0:
                raise Refuse('symdel self mode: distance substitution has an else branch')
        if used['none'] is None or used['hamming'] is None:
            raise Refuse('symdel self mode: custom_distance None / hamming is not replaced by a function')
        loop, ret2 = sb[4], sb[5]
        if U(ret2) != 'return _make_output(ans, output_type, seqs, seqs2)':
            raise Refuse('symdel self mode: return is not _make_output(ans, output_type, seqs, seqs2)')
        if not (isinstance(loop, ast.For) and not loop.orelse and U(loop.target) == '(key, values)' and U(loop.iter) == 'symdeldb.variant_dict.items()'):
            raise Refuse('symdel self mode: bucket loop (line %d)' % loop.lineno)
        lb = list(loop.body)
        skip1 = False
        if len(lb) == 2 and isinstance(lb[0], ast.If) and U(lb[0]) in ('if len(values) == 1:\n    continue', 'if len(values) < 2:\n    continue'):
            skip1 = True
            lb = lb[1:]
        if len(lb) != 1 or not (isinstance(lb[0], ast.For) and not lb[0].orelse and U(lb[0].target) == '(i, j)' and U(lb[0].iter) == 'combinations(values, 2)'):
            raise Refuse('symdel self mode: pair loop is not `for i, j in combinations(values, 2)`')
        pb = lb[0].body
        if len(pb) < 4 or U(pb[0]) != 'seq_i, seq_j = (symdeldb.seqs[i], symdeldb.seqs[j])' and U(pb[0]) != '(seq_i, seq_j) = (symdeldb.seqs[i], symdeldb.seqs[j])':
            raise Refuse('symdel self mode: `seq_i, seq_j = symdeldb.seqs[i], symdeldb.seqs[j]` expected: %s' % U(pb[0])[:80])
        if U(pb[1]) != 'dist = custom_distance(seq_i, seq_j)':
            raise Refuse('symdel self mode: `dist = custom_distance(seq_i, seq_j)` expected')
        if sorted(U(x) for x in pb[-2:]) != sorted(['ans.add((i, j, dist))', 'ans.add((j, i, dist))']):
            raise Refuse('symdel self mode: the pair is not added in both orientations')
        conds = []
        for st in pb[2:-2]:
            if not (isinstance(st, ast.If) and not st.orelse and len(st.body) == 1 and isinstance(st.body[0], ast.Continue)):
                raise Refuse('symdel self mode: filter statement is not `if COND: continue` (line %d)' % st.lineno)
            for t_ in (st.test.values if isinstance(st.test, ast.BoolOp) and isinstance(st.test.op, ast.Or) else [st.test]):
                conds.append(self.cond(t_))
        return tt, thr, used, conds, skip1


def emit_self(tt, thr, used, conds, skip1):
    b = lambda x: 'true' if x else 'false'
    flt = ''.join('          if %s then ans else\n' % c for c in conds)
    skip = '      if Nat.eqb (length values) 1 then ans else\n' if skip1 else ''
    return '''
(* ---- symdel(), self mode (seqs2 is None) ---- *)
Definition gen_self_is_custom (c : cdist_arg) : bool :=
  match c with CNone => %s | CHamming => %s | CCallable => %s end.
Definition gen_self_threshold {D : Type} (is_custom : bool) (max_custom_distance self_max_edits : D) : D :=
  if is_custom then %s else %s.
Definition gen_self_distance_used (c : cdist_arg) : nat :=
  match c with CHamming => %d | CNone => %d | CCallable => %d end.

Section GenSymdelSelf.
Context {D : Type}.
Variable iterS : list str -> list str.
Variable eqD : forall a b : D, {a = b} + {a <> b}.
Variable custom_distance : str -> str -> D.
Variable levenshtein : str -> str -> nat.
Variable gtD : D -> D -> bool.

Definition trip_dec : forall a b : nat * nat * D, {a = b} + {a <> b}.
Proof. decide equality. decide equality; apply Nat.eq_dec. Defined.

Definition gen_symdel_self (seqs : list str) (max_edits : nat) (is_custom : bool) (threshold : D) : list (nat * nat * D) :=
  let symdeldb_variant_dict := gen_symdeldb_init iterS seqs max_edits in
  fold_left (fun ans '(key, values) =>
%s      fold_left (fun ans c =>
          match c with
          | [i; j] =>
          let seq_i := nth i seqs [] in
          let seq_j := nth j seqs [] in
          let dist := custom_distance seq_i seq_j in
%s          set_add trip_dec (j, i, dist) (set_add trip_dec (i, j, dist) ans)
          | _ => ans
          end)
        (combinations values 2) ans)
    symdeldb_variant_dict [].
End GenSymdelSelf.
''' % (b(tt['none']), b(tt['hamming']), b(tt['callable']), thr[0], thr[1],
       used['hamming'], used['none'], used['callable'], skip, flt.replace('self_max_edits', 'max_edits'))


SNAP_SELF = ({'none': False, 'hamming': False, 'callable': True}, ('max_custom_distance', 'self_max_edits'),
             {'none': 1, 'hamming': 0, 'callable': 2},
             ['(gtD dist threshold)', '(is_custom && (Nat.ltb max_edits (levenshtein seq_i seq_j)))'], True)


def emit(tt, thr, used, conds):
    b = lambda x: 'true' if x else 'false'
    flt = ''.join('        if %s then ans else\n' % c for c in conds)
    return '''(* how lookup treats its custom_distance argument *)
Inductive cdist_arg := CNone | CHamming | CCallable.
Definition gen_is_custom (c : cdist_arg) : bool :=
  match c with CNone => %s | CHamming => %s | CCallable => %s end.
(* threshold = %s if is_custom else %s *)
Definition gen_threshold {D : Type} (is_custom : bool) (max_custom_distance self_max_edits : D) : D :=
  if is_custom then %s else %s.
(* the distance function after the substitutions: 0 = _hamming_replacement, 1 = levenshtein, 2 = the caller's callable *)
Definition gen_distance_used (c : cdist_arg) : nat :=
  match c with CHamming => %d | CNone => %d | CCallable => %d end.

Section GenSymdelDB.
Context {D : Type}.
(* iteration order of a Python set of strings / of ints: any duplicate-free listing of the elements *)
Variable iterS : list str -> list str.
Variable iterN : list nat -> list nat.
Variable custom_distance : str -> str -> D.
Variable levenshtein : str -> str -> nat.
Variable gtD : D -> D -> bool.       (* a > b on distance values *)

Definition gen_symdeldb_init (seqs : list str) (max_edits : nat) : list (str * list nat) :=
  fold_left (fun variant_dict '(i, seq) =>
    fold_left (fun variant_dict comb =>
      if dict_mem str_eqb comb variant_dict
      then dict_set str_eqb comb (unwrap [] (dict_get str_eqb comb variant_dict) ++ [i]) variant_dict
      else dict_set str_eqb comb [i] variant_dict)
      (iterS (gen_comb_gen seq max_edits)) variant_dict)
    (enumerate seqs) [].

Definition gen_symdeldb_lookup (self_seqs : list str) (self_max_edits : nat) (self_variant_dict : list (str * list nat))
    (is_custom : bool) (threshold : D) (seqs2 : list str) : list (nat * nat * D) :=
  fold_left (fun ans '(i, seq) =>
    let j_indices := fold_left (fun j_indices comb =>
        if negb (dict_mem str_eqb comb self_variant_dict) then j_indices
        else fold_left (fun j_indices j => set_add Nat.eq_dec j j_indices)
                       (unwrap [] (dict_get str_eqb comb self_variant_dict)) j_indices)
      (iterS (gen_comb_gen seq self_max_edits)) [] in
    fold_left (fun ans j =>
        let dist := custom_distance seq (nth j self_seqs []) in
%s        ans ++ [(i, j, dist)])
      (iterN j_indices) ans)
    (enumerate seqs2) [].
End GenSymdelDB.
''' % (b(tt['none']), b(tt['hamming']), b(tt['callable']), thr[0], thr[1], thr[0], thr[1],
       used['hamming'], used['none'], used['callable'], flt)


SNAP = ({'none': False, 'hamming': False, 'callable': True}, ('max_custom_distance', 'self_max_edits'),
        {'none': 1, 'hamming': 0, 'callable': 2},
        ['(gtD dist threshold)', '(is_custom && (Nat.ltb self_max_edits (levenshtein seq (nth j self_seqs []))))'])


def run(STATUS, write_if_changed, ROOT, REPO):
    head = ['(* GENERATED from pyrepseq/nn.py (class SymdelDB: __init__, lookup) by translate/regen_c03.py on every check; do not edit. *)',
            'From Coq Require Import List Arith Bool ListSet.', 'From PV Require Import lib.Str lib.PyDict lib.Combinations gen.Gen_c01.',
            'Import ListNotations.', '']
    try:
        tree = ast.parse(open(os.path.join(REPO, 'pyrepseq', 'nn.py')).read())
        cls = next((n for n in tree.body if isinstance(n, ast.ClassDef) and n.name == 'SymdelDB'), None)
        if cls is None:
            raise Refuse('class SymdelDB not found')
        if cls.bases or cls.decorator_list or cls.keywords:
            raise Refuse('class SymdelDB has bases / decorators')
        others = [n.name for n in cls.body if isinstance(n, ast.FunctionDef) and n.name not in ('__init__', 'lookup')]
        if others or any(isinstance(n, (ast.Assign, ast.AnnAssign)) for n in cls.body):
            raise Refuse('class SymdelDB has further members: %s' % others)
        check_init(method(cls, '__init__'))
        txt = emit(*Lookup(method(cls, 'lookup')).translate())
        STATUS[NAME] = dict(ok=True, properties=PROPS, error=None)
    except Refuse as e:
        txt = '(* translator refused: %s -- committed snapshot of the last good text *)\n' % str(e).replace('*)', '* )') + emit(*SNAP)
        STATUS[NAME] = dict(ok=True, snapshot=True, properties=PROPS,
                            error='regen unavailable (%s): committed snapshot used, tie by correspondence' % str(e)[:200])
    except Exception:
        txt = '(* translator crashed -- committed snapshot *)\n' + emit(*SNAP)
        STATUS[NAME] = dict(ok=False, properties=PROPS, error='translator crashed: ' + traceback.format_exc()[-300:])
    try:
        fn = next((n for n in tree.body if isinstance(n, ast.FunctionDef) and n.name == 'symdel'), None)
        if fn is None:
            raise Refuse('function symdel not found')
        txt += emit_self(*Self(fn).translate())
        STATUS['nn.symdel[self]'] = dict(ok=True, properties=['C01', 'C07', 'C14'], error=None)
    except Refuse as e:
        txt += '(* translator refused: %s -- committed snapshot of the last good text *)\n' % str(e).replace('*)', '* )') + emit_self(*SNAP_SELF)
        STATUS['nn.symdel[self]'] = dict(ok=True, snapshot=True, properties=['C01', 'C07', 'C14'],
                                         error='regen unavailable (%s): committed snapshot used, tie by correspondence' % str(e)[:200])
    except Exception:
        txt += '(* translator crashed -- committed snapshot *)\n' + emit_self(*SNAP_SELF)
        STATUS['nn.symdel[self]'] = dict(ok=False, properties=['C01', 'C07', 'C14'], error='translator crashed: ' + traceback.format_exc()[-300:])
    write_if_changed(os.path.join(ROOT, 'coq/gen/Gen_c03.v'), '\n'.join(head) + txt)
