"""C12 (also C03, C04, C07 rest on it): regenerate coq/gen/Gen_c12.v from the SOURCE TEXT of the one-edit generators of
pyrepseq/distance.py -- levenshtein_neighbors, hamming_neighbors, _isdist2_hamming, _isdist3_hamming -- by a fail-closed
`ast` translator.  coq/proofs/GenNbrsP.v proves the generated functions EQUAL to the hand-written models of
coq/model/Nbrs.v / Nndist.v for all inputs, so a semantic change of the source inside the subset breaks a proof.

Target language (strings are `str = list N`, positions / lengths are `nat`):
  for i in range(e):            flat_map (fun i => BODY) (seq 0 e)            for i in range(a, e):  (seq a (e - a))
  for aa in <alphabet>:         flat_map (fun aa => BODY) alphabet
  for i in <positions param>:   flat_map (fun i => if Nat.ltb i (length x) then BODY else []) positions
                                (DOMAIN GUARD: Python raises IndexError for a position outside 0..len(x)-1 when it evaluates
                                 x[i]; the generated function yields nothing there.  Valid positions are the stated domain.)
  if c: continue                if c then [] else <rest of the loop body>
  v = <string expr>             let v := e in <rest>                           (fresh name only)
  yield e                       e :: <rest>   ([e] when last)
  if e in <reference>: return True        (searchers) the candidate e is enumerated like `yield e`; with the final
  return False                            `return False` the function is  existsb (fun y => memb str_eq_dec y ref) candidates
  consecutive loops             ++
  s[:e] firstn e s   s[e:] skipn e s   a + b  a ++ b   a letter aa  [aa]   len(s)  length s   e + k  S (.. e)   e - k  (e - k)
  x[e]                          nth e x 0%N  -- emitted ONLY where 0 <= e <= len(x) - 1 is derivable from the enclosing
                                range(...) loops and `(i > c) and ...` guards (Python would raise IndexError above the range
                                and wrap around below it); otherwise the function is refused
  a == b / a != b (letters)     N.eqb / negb N.eqb     i > c etc. (ints)  Nat.ltb / Nat.leb / Nat.eqb     and/or/not  andb/orb/negb
A free global name `aminoacids` used as an iterable becomes the alphabet parameter (the entry points instantiate it with the
regenerated gen_aminoacids).  Every Python name n becomes the Coq binder v_n, so renaming a local cannot clash with Coq.

Everything else raises Refuse.  On refusal (DESIGN.md 1.5) the committed snapshot of that function (SNAPSHOT below, produced
from the source as of the day the check was built) is written instead and the refusal is recorded in the status; the tie on
that run is the correspondence of the public function with the model.  A translator crash is reported with ok=False."""
import ast, os, re, sys, traceback

PROPS = ['C12', 'C03', 'C04', 'C07']
FUNCS = ['levenshtein_neighbors', 'hamming_neighbors', '_isdist2_hamming', '_isdist3_hamming']
COQ_NAME = {'levenshtein_neighbors': 'gen_levenshtein_neighbors', 'hamming_neighbors': 'gen_hamming_neighbors',
            '_isdist2_hamming': 'gen_isdist2', '_isdist3_hamming': 'gen_isdist3'}
ALPHABET_GLOBAL = 'aminoacids'


class Refuse(Exception):
    pass


def where(node):
    return '(line %s)' % getattr(node, 'lineno', '?')


def body_wo_doc(fn):
    b = list(fn.body)
    if b and isinstance(b[0], ast.Expr) and isinstance(b[0].value, ast.Constant) and isinstance(b[0].value.value, str):
        b = b[1:]
    return b


def small_int(e):
    if isinstance(e, ast.Constant) and type(e.value) is int and 0 <= e.value <= 8:
        return e.value
    return None


class Var:
    """kind in 'str' 'chr' 'int' 'alphabet' 'positions' 'ref'; for ints: lo (int lower bound), hi = None or (string name, off)
    meaning value <= len(string) + off."""

    def __init__(self, kind, coq, lo=0, hi=None):
        self.kind, self.coq, self.lo, self.hi = kind, coq, lo, hi


class Fn:
    def __init__(self, fn, mode):
        self.fn, self.mode = fn, mode          # mode: 'gen' (yield) or 'search' (if e in ref: return True ... return False)
        self.env = {}
        self.subject = None                    # the string parameter x
        self.used_alphabet = False
        self.n_emitted = 0

    # ---------------------------------------------------------------- names
    def bind(self, name, var, node):
        if name in self.env or name == ALPHABET_GLOBAL:
            raise Refuse('name %s is rebound %s' % (name, where(node)))
        if not re.fullmatch(r'[A-Za-z_][A-Za-z0-9_]*', name):
            raise Refuse('unsupported identifier %r' % name)
        self.env = dict(self.env)
        self.env[name] = var

    def look(self, e, kind):
        if not isinstance(e, ast.Name):
            raise Refuse('expected a name of kind %s %s' % (kind, where(e)))
        if e.id not in self.env:
            if kind == 'alphabet' and e.id == ALPHABET_GLOBAL and 'alphabet' not in [v.kind for v in self.env.values()]:
                self.used_alphabet = True
                return Var('alphabet', 'v_' + ALPHABET_GLOBAL)
            raise Refuse('unbound name %s %s' % (e.id, where(e)))
        v = self.env[e.id]
        if v.kind != kind:
            raise Refuse('name %s is a %s, a %s is needed %s' % (e.id, v.kind, kind, where(e)))
        return v

    def kind_of(self, e):
        if isinstance(e, ast.Name) and e.id in self.env:
            return self.env[e.id].kind
        return None

    # ---------------------------------------------------------------- integer expressions: (coq, lo, hi)
    def int_expr(self, e):
        c = small_int(e)
        if c is not None:
            return str(c), c, None
        if isinstance(e, ast.Name):
            v = self.look(e, 'int')
            return v.coq, v.lo, v.hi
        if isinstance(e, ast.Call) and isinstance(e.func, ast.Name) and e.func.id == 'len' and len(e.args) == 1 and not e.keywords \
                and 'len' not in self.env:
            s = self.look(e.args[0], 'str')
            return '(length %s)' % s.coq, 0, (s.coq, 0)
        if isinstance(e, ast.BinOp) and isinstance(e.op, (ast.Add, ast.Sub)):
            k, other = small_int(e.right), e.left
            if k is None and isinstance(e.op, ast.Add):
                k, other = small_int(e.left), e.right
            if k is None:
                raise Refuse('only <int expr> +/- <small literal> is in the subset %s' % where(e))
            coq, lo, hi = self.int_expr(other)
            if isinstance(e.op, ast.Add):
                for _ in range(k):
                    coq = '(S %s)' % coq
                return coq, lo + k, (hi[0], hi[1] + k) if hi else None
            if lo < k:
                raise Refuse('%s - %d may be negative here (natural-number subtraction would differ) %s' % (coq, k, where(e)))
            return '(%s - %d)' % (coq, k), lo - k, (hi[0], hi[1] - k) if hi else None
        raise Refuse('integer expression outside the subset %s: %s' % (where(e), ast.dump(e)[:80]))

    # ---------------------------------------------------------------- letters
    def chr_expr(self, e):
        if isinstance(e, ast.Name):
            return self.look(e, 'chr').coq
        if isinstance(e, ast.Subscript) and not isinstance(e.slice, ast.Slice):
            s = self.look(e.value, 'str')
            coq, lo, hi = self.int_expr(e.slice)
            if lo < 0 or hi is None or hi[0] != s.coq or hi[1] > -1:
                raise Refuse('index %s[%s] is not provably inside the string %s' % (s.coq, coq, where(e)))
            return '(nth %s %s 0%%N)' % (coq, s.coq)
        raise Refuse('letter expression outside the subset %s' % where(e))

    def is_chr(self, e):
        return self.kind_of(e) == 'chr' or (isinstance(e, ast.Subscript) and not isinstance(e.slice, ast.Slice))

    # ---------------------------------------------------------------- strings
    def str_expr(self, e):
        if isinstance(e, ast.Name):
            if self.kind_of(e) == 'chr':
                return '[%s]' % self.env[e.id].coq
            return self.look(e, 'str').coq
        if isinstance(e, ast.BinOp) and isinstance(e.op, ast.Add):
            return '(%s ++ %s)' % (self.str_expr(e.left), self.str_expr(e.right))
        if isinstance(e, ast.Subscript) and isinstance(e.slice, ast.Slice):
            s = self.look(e.value, 'str')
            sl = e.slice
            if sl.step is not None or (sl.lower is None) == (sl.upper is None):
                raise Refuse('only s[:e] and s[e:] slices are in the subset %s' % where(e))
            coq, lo, hi = self.int_expr(sl.upper if sl.lower is None else sl.lower)
            if lo < 0:
                raise Refuse('slice bound may be negative %s' % where(e))
            return '(%s %s %s)' % ('firstn' if sl.lower is None else 'skipn', coq, s.coq)
        raise Refuse('string expression outside the subset %s: %s' % (where(e), ast.dump(e)[:80]))

    # ---------------------------------------------------------------- conditions: (coq, facts) facts = {int var name: new lo}
    def cond(self, e):
        if isinstance(e, ast.BoolOp):
            saved = self.env
            parts = []
            try:
                for v in e.values:
                    c, facts = self.cond(v)
                    parts.append(c)
                    if isinstance(e.op, ast.And):        # `a and b`: b is evaluated only when a holds
                        self.env = dict(self.env)
                        for n, lo in facts.items():
                            o = self.env[n]
                            self.env[n] = Var('int', o.coq, max(o.lo, lo), o.hi)
            finally:
                self.env = saved
            op = 'andb' if isinstance(e.op, ast.And) else 'orb'
            out = parts[-1]
            for p in reversed(parts[:-1]):
                out = '(%s %s %s)' % (op, p, out)
            return out, {}
        if isinstance(e, ast.UnaryOp) and isinstance(e.op, ast.Not):
            return '(negb %s)' % self.cond(e.operand)[0], {}
        if isinstance(e, ast.Compare) and len(e.ops) == 1:
            a, b, op = e.left, e.comparators[0], e.ops[0]
            if self.is_chr(a) or self.is_chr(b):
                ca, cb = self.chr_expr(a), self.chr_expr(b)
                if isinstance(op, ast.Eq):
                    return '(N.eqb %s %s)' % (ca, cb), {}
                if isinstance(op, ast.NotEq):
                    return '(negb (N.eqb %s %s))' % (ca, cb), {}
                raise Refuse('letter comparison other than == / != %s' % where(e))
            (ca, la, _), (cb, lb, _) = self.int_expr(a), self.int_expr(b)
            facts = {}
            if isinstance(op, ast.Gt):
                r = '(Nat.ltb %s %s)' % (cb, ca)
                if isinstance(a, ast.Name):
                    facts[a.id] = lb + 1
            elif isinstance(op, ast.GtE):
                r = '(Nat.leb %s %s)' % (cb, ca)
                if isinstance(a, ast.Name):
                    facts[a.id] = lb
            elif isinstance(op, ast.Lt):
                r = '(Nat.ltb %s %s)' % (ca, cb)
                if isinstance(b, ast.Name):
                    facts[b.id] = la + 1
            elif isinstance(op, ast.LtE):
                r = '(Nat.leb %s %s)' % (ca, cb)
                if isinstance(b, ast.Name):
                    facts[b.id] = la
            elif isinstance(op, ast.Eq):
                r = '(Nat.eqb %s %s)' % (ca, cb)
            elif isinstance(op, ast.NotEq):
                r = '(negb (Nat.eqb %s %s))' % (ca, cb)
            else:
                raise Refuse('comparison outside the subset %s' % where(e))
            return r, facts
        raise Refuse('condition outside the subset %s: %s' % (where(e), ast.dump(e)[:80]))

    # ---------------------------------------------------------------- statements -> list expression
    def block(self, stmts, in_loop, top=False):
        """Coq term of type `list str`: what the statements yield, in order."""
        if not stmts:
            return '[]'
        st, rest = stmts[0], stmts[1:]
        saved = self.env
        try:
            if isinstance(st, ast.For):
                if st.orelse or not isinstance(st.target, ast.Name):
                    raise Refuse('for/else or tuple target %s' % where(st))
                head = self.loop(st)
                if not rest:
                    return head
                self.env = saved
                tail = self.block(rest, in_loop, top)
                return head if tail == '[]' else '(%s ++ %s)' % (head, tail)
            if isinstance(st, ast.If):
                if st.orelse:
                    raise Refuse('if/else %s' % where(st))
                # if c: continue
                if len(st.body) == 1 and isinstance(st.body[0], ast.Continue):
                    if not in_loop:
                        raise Refuse('continue outside a loop %s' % where(st))
                    c, _ = self.cond(st.test)
                    return '(if %s then [] else %s)' % (c, self.block(rest, in_loop, top))
                # if e in reference: return True
                if self.mode == 'search' and len(st.body) == 1 and isinstance(st.body[0], ast.Return) \
                        and isinstance(st.body[0].value, ast.Constant) and st.body[0].value.value is True \
                        and isinstance(st.test, ast.Compare) and len(st.test.ops) == 1 and isinstance(st.test.ops[0], ast.In):
                    self.look(st.test.comparators[0], 'ref')
                    return self.emit(self.str_expr(st.test.left), rest, in_loop, top)
                raise Refuse('if statement outside the subset %s' % where(st))
            if isinstance(st, ast.Expr) and isinstance(st.value, ast.Yield) and self.mode == 'gen' and st.value.value is not None:
                return self.emit(self.str_expr(st.value.value), rest, in_loop, top)
            if isinstance(st, ast.Assign) and len(st.targets) == 1 and isinstance(st.targets[0], ast.Name):
                val = self.str_expr(st.value)
                name = st.targets[0].id
                self.bind(name, Var('str', 'v_' + name), st)
                return '(let v_%s := %s in %s)' % (name, val, self.block(rest, in_loop, top))
            if isinstance(st, ast.Return) and self.mode == 'search' and top and not rest \
                    and isinstance(st.value, ast.Constant) and st.value.value is False:
                self.saw_return_false = True
                return '[]'
            raise Refuse('statement outside the subset %s: %s' % (where(st), type(st).__name__))
        finally:
            self.env = saved

    def emit(self, e, rest, in_loop, top):
        self.n_emitted += 1
        if not rest:
            return '[%s]' % e
        return '(%s :: %s)' % (e, self.block(rest, in_loop, top))

    def loop(self, st):
        it, name = st.iter, st.target.id
        if isinstance(it, ast.Call) and isinstance(it.func, ast.Name) and it.func.id == 'range' and not it.keywords \
                and 'range' not in self.env and len(it.args) in (1, 2):
            if len(it.args) == 1:
                a_coq, a_lo = '0', 0
                e_coq, _, e_hi = self.int_expr(it.args[0])
                dom = '(seq 0 %s)' % e_coq
            else:
                a_coq, a_lo, _ = self.int_expr(it.args[0])
                e_coq, _, e_hi = self.int_expr(it.args[1])
                dom = '(seq %s (%s - %s))' % (a_coq, e_coq, a_coq)
            self.bind(name, Var('int', 'v_' + name, a_lo, (e_hi[0], e_hi[1] - 1) if e_hi else None), st)
            return '(flat_map (fun v_%s : nat => %s) %s)' % (name, self.block(st.body, True), dom)
        k = self.kind_of(it) or ('alphabet' if isinstance(it, ast.Name) and it.id == ALPHABET_GLOBAL else None)
        if k == 'alphabet':
            al = self.look(it, 'alphabet')
            self.bind(name, Var('chr', 'v_' + name), st)
            return '(flat_map (fun v_%s : N => %s) %s)' % (name, self.block(st.body, True), al.coq)
        if k == 'positions':
            pos = self.look(it, 'positions')
            x = self.subject
            self.bind(name, Var('int', 'v_' + name, 0, (x, -1)), st)       # under the emitted domain guard
            return '(flat_map (fun v_%s : nat => if Nat.ltb v_%s (length %s) then %s else []) %s)' % (
                name, name, x, self.block(st.body, True), pos.coq)
        raise Refuse('loop iterable outside the subset %s' % where(st))


def params(fn):
    a = fn.args
    if a.vararg or a.kwarg or a.kwonlyargs or a.posonlyargs:
        raise Refuse('signature of %s outside the subset' % fn.name)
    names = [p.arg for p in a.args]
    defaults = [None] * (len(names) - len(a.defaults)) + list(a.defaults)
    return names, defaults


def no_nested_scopes(fn):
    for n in ast.walk(fn):
        if n is not fn and isinstance(n, (ast.FunctionDef, ast.Lambda, ast.ListComp, ast.GeneratorExp, ast.SetComp, ast.DictComp,
                                          ast.YieldFrom, ast.Global, ast.Nonlocal, ast.While, ast.Try, ast.With, ast.Break)):
            raise Refuse('%s in %s %s' % (type(n).__name__, fn.name, where(n)))
    if fn.decorator_list:
        raise Refuse('decorated function')


def translate_generator(fn, with_positions):
    """levenshtein_neighbors(x, alphabet=aminoacids) / hamming_neighbors(x, alphabet=aminoacids, variable_positions=None)"""
    no_nested_scopes(fn)
    names, defaults = params(fn)
    want = 3 if with_positions else 2
    if len(names) != want or defaults[0] is not None:
        raise Refuse('signature of %s changed: %s' % (fn.name, names))
    if not (isinstance(defaults[1], ast.Name) and defaults[1].id == ALPHABET_GLOBAL):
        raise Refuse('default alphabet of %s is not the name %s' % (fn.name, ALPHABET_GLOBAL))
    t = Fn(fn, 'gen')
    x, al = names[0], names[1]
    t.bind(x, Var('str', 'v_' + x), fn)
    t.bind(al, Var('alphabet', 'v_' + al), fn)
    t.subject = 'v_' + x
    body = body_wo_doc(fn)
    cname = COQ_NAME[fn.name]
    out = []
    if with_positions:
        pos = names[2]
        if not (isinstance(defaults[2], ast.Constant) and defaults[2].value is None):
            raise Refuse('default of %s is not None' % pos)
        # if <pos> is None: <pos> = range(len(x))
        st = body[0] if body else None
        ok = isinstance(st, ast.If) and not st.orelse and len(st.body) == 1 \
            and isinstance(st.test, ast.Compare) and len(st.test.ops) == 1 and isinstance(st.test.ops[0], ast.Is) \
            and isinstance(st.test.left, ast.Name) and st.test.left.id == pos \
            and isinstance(st.test.comparators[0], ast.Constant) and st.test.comparators[0].value is None \
            and isinstance(st.body[0], ast.Assign) and len(st.body[0].targets) == 1 \
            and isinstance(st.body[0].targets[0], ast.Name) and st.body[0].targets[0].id == pos
        if not ok:
            raise Refuse('the `if %s is None: %s = range(...)` default is not the first statement' % (pos, pos))
        rng = st.body[0].value
        if not (isinstance(rng, ast.Call) and isinstance(rng.func, ast.Name) and rng.func.id == 'range' and not rng.keywords
                and len(rng.args) in (1, 2)):
            raise Refuse('default positions are not a range(...) %s' % where(rng))
        if len(rng.args) == 1:
            dom = '(seq 0 %s)' % t.int_expr(rng.args[0])[0]
        else:
            a_coq, e_coq = t.int_expr(rng.args[0])[0], t.int_expr(rng.args[1])[0]
            dom = '(seq %s (%s - %s))' % (a_coq, e_coq, a_coq)
        t.bind(pos, Var('positions', 'v_' + pos), fn)
        term = t.block(body[1:], False, True)
        out.append('(* DOMAIN GUARD: Python raises IndexError when a position outside 0 .. len(x)-1 is reached (x[i] is evaluated);\n'
                   '   the generated function yields nothing for such a position.  Positions are natural numbers. *)')
        out.append('Definition %s (v_%s : str) (v_%s : list nat) (v_%s : str) : list str :=\n  %s.' % (cname, al, pos, x, term))
        out.append('(* `%s=None`: all positions *)' % pos)
        out.append('Definition %s_default_positions (v_%s : str) : list nat := %s.' % (cname, x, dom))
        out.append('Definition %s_default (v_%s : str) (v_%s : str) : list str :=\n  %s v_%s (%s_default_positions v_%s) v_%s.'
                   % (cname, al, x, cname, al, cname, x, x))
    else:
        term = t.block(body, False, True)
        out.append('Definition %s (v_%s : str) (v_%s : str) : list str :=\n  %s.' % (cname, al, x, term))
    if t.n_emitted == 0:
        raise Refuse('%s yields nothing' % fn.name)
    if t.used_alphabet:
        raise Refuse('%s uses the global %s besides its alphabet parameter' % (fn.name, ALPHABET_GLOBAL))
    return '\n'.join(out)


def translate_searcher(fn):
    """_isdistK_hamming(x, reference): nested loops with `if <candidate> in reference: return True`, then `return False`"""
    no_nested_scopes(fn)
    names, defaults = params(fn)
    if len(names) != 2 or any(d is not None for d in defaults):
        raise Refuse('signature of %s changed: %s' % (fn.name, names))
    t = Fn(fn, 'search')
    x, ref = names
    t.bind(x, Var('str', 'v_' + x), fn)
    t.bind(ref, Var('ref', 'v_' + ref), fn)
    t.subject = 'v_' + x
    t.saw_return_false = False
    term = t.block(body_wo_doc(fn), False, True)
    if not t.saw_return_false:
        raise Refuse('%s does not end with `return False`' % fn.name)
    if t.n_emitted == 0:
        raise Refuse('%s tests no candidate' % fn.name)
    cname = COQ_NAME[fn.name]
    al = 'v_' + ALPHABET_GLOBAL
    return ('(* the candidates tested by `if <candidate> in %s: return True`, in the order of the loops; the global `%s` is a parameter *)\n'
            'Definition %s_candidates (%s : str) (v_%s : str) : list str :=\n  %s.\n'
            '(* return True at the first candidate that is in the reference, `return False` after the loops *)\n'
            'Definition %s (%s : str) (v_%s : str) (v_%s : list str) : bool :=\n'
            '  existsb (fun y => memb str_eq_dec y v_%s) (%s_candidates %s v_%s).'
            % (ref, ALPHABET_GLOBAL, cname, al, x, term, cname, al, x, ref, ref, cname, al, x))


def translate(tree, name):
    fns = [n for n in tree.body if isinstance(n, ast.FunctionDef) and n.name == name]
    if len(fns) != 1:
        raise Refuse('function %s not found (or defined more than once)' % name)
    if name == 'levenshtein_neighbors':
        return translate_generator(fns[0], False)
    if name == 'hamming_neighbors':
        return translate_generator(fns[0], True)
    return translate_searcher(fns[0])


# Committed snapshot: the generated text for pyrepseq/distance.py as of the day this check was built
# (regenerate with `python3 translate/regen_c12.py --print-snapshot` on a tree whose generators are known good).
SNAPSHOT = {
    'levenshtein_neighbors': '''Definition gen_levenshtein_neighbors (v_alphabet : str) (v_x : str) : list str :=
  ((flat_map (fun v_i : nat => (if (andb (Nat.ltb 0 v_i) (N.eqb (nth v_i v_x 0%N) (nth (v_i - 1) v_x 0%N))) then [] else [((firstn v_i v_x) ++ (skipn (S v_i) v_x))])) (seq 0 (length v_x))) ++ ((flat_map (fun v_i : nat => (flat_map (fun v_aa : N => (if (N.eqb v_aa (nth v_i v_x 0%N)) then [] else [(((firstn v_i v_x) ++ [v_aa]) ++ (skipn (S v_i) v_x))])) v_alphabet)) (seq 0 (length v_x))) ++ (flat_map (fun v_i : nat => (flat_map (fun v_aa : N => (if (andb (Nat.ltb 0 v_i) (N.eqb v_aa (nth (v_i - 1) v_x 0%N))) then [] else [(((firstn v_i v_x) ++ [v_aa]) ++ (skipn v_i v_x))])) v_alphabet)) (seq 0 (S (length v_x)))))).''',
    'hamming_neighbors': '''(* DOMAIN GUARD: Python raises IndexError when a position outside 0 .. len(x)-1 is reached (x[i] is evaluated);
   the generated function yields nothing for such a position.  Positions are natural numbers. *)
Definition gen_hamming_neighbors (v_alphabet : str) (v_variable_positions : list nat) (v_x : str) : list str :=
  (flat_map (fun v_i : nat => if Nat.ltb v_i (length v_x) then (flat_map (fun v_aa : N => (if (N.eqb v_aa (nth v_i v_x 0%N)) then [] else [(((firstn v_i v_x) ++ [v_aa]) ++ (skipn (S v_i) v_x))])) v_alphabet) else []) v_variable_positions).
(* `variable_positions=None`: all positions *)
Definition gen_hamming_neighbors_default_positions (v_x : str) : list nat := (seq 0 (length v_x)).
Definition gen_hamming_neighbors_default (v_alphabet : str) (v_x : str) : list str :=
  gen_hamming_neighbors v_alphabet (gen_hamming_neighbors_default_positions v_x) v_x.''',
    '_isdist2_hamming': '''(* the candidates tested by `if <candidate> in reference: return True`, in the order of the loops; the global `aminoacids` is a parameter *)
Definition gen_isdist2_candidates (v_aminoacids : str) (v_x : str) : list str :=
  (flat_map (fun v_i : nat => (flat_map (fun v_aai : N => (if (N.eqb v_aai (nth v_i v_x 0%N)) then [] else (let v_si := (((firstn v_i v_x) ++ [v_aai]) ++ (skipn (S v_i) v_x)) in (flat_map (fun v_j : nat => (flat_map (fun v_aaj : N => (if (N.eqb v_aaj (nth v_j v_x 0%N)) then [] else [(((firstn v_j v_si) ++ [v_aaj]) ++ (skipn (S v_j) v_si))])) v_aminoacids)) (seq (S v_i) ((length v_x) - (S v_i))))))) v_aminoacids)) (seq 0 (length v_x))).
(* return True at the first candidate that is in the reference, `return False` after the loops *)
Definition gen_isdist2 (v_aminoacids : str) (v_x : str) (v_reference : list str) : bool :=
  existsb (fun y => memb str_eq_dec y v_reference) (gen_isdist2_candidates v_aminoacids v_x).''',
    '_isdist3_hamming': '''(* the candidates tested by `if <candidate> in reference: return True`, in the order of the loops; the global `aminoacids` is a parameter *)
Definition gen_isdist3_candidates (v_aminoacids : str) (v_x : str) : list str :=
  (flat_map (fun v_i : nat => (flat_map (fun v_aai : N => (if (N.eqb v_aai (nth v_i v_x 0%N)) then [] else (let v_si := (((firstn v_i v_x) ++ [v_aai]) ++ (skipn (S v_i) v_x)) in (flat_map (fun v_j : nat => (flat_map (fun v_aaj : N => (if (N.eqb v_aaj (nth v_j v_x 0%N)) then [] else (let v_sij := (((firstn v_j v_si) ++ [v_aaj]) ++ (skipn (S v_j) v_si)) in (flat_map (fun v_k : nat => (flat_map (fun v_aak : N => (if (N.eqb v_aak (nth v_k v_x 0%N)) then [] else [(((firstn v_k v_sij) ++ [v_aak]) ++ (skipn (S v_k) v_sij))])) v_aminoacids)) (seq (S v_j) ((length v_x) - (S v_j))))))) v_aminoacids)) (seq (S v_i) ((length v_x) - (S v_i))))))) v_aminoacids)) (seq 0 (length v_x))).
(* return True at the first candidate that is in the reference, `return False` after the loops *)
Definition gen_isdist3 (v_aminoacids : str) (v_x : str) (v_reference : list str) : bool :=
  existsb (fun y => memb str_eq_dec y v_reference) (gen_isdist3_candidates v_aminoacids v_x).''',
}

HEADER = ['(* GENERATED from pyrepseq/distance.py (levenshtein_neighbors, hamming_neighbors, _isdist2_hamming, _isdist3_hamming)',
          '   by translate/regen_c12.py on every check; do not edit.  proofs/GenNbrsP.v proves these equal to model/Nbrs.v, model/Nndist.v. *)',
          'From Coq Require Import List NArith Bool Arith.', 'From PV Require Import lib.Str.', 'Import ListNotations.', '']


def run(STATUS, write_if_changed, ROOT, REPO):
    out = list(HEADER)
    tree, perr = None, None
    try:
        tree = ast.parse(open(os.path.join(REPO, 'pyrepseq', 'distance.py')).read())
    except (SyntaxError, OSError) as e:
        perr = 'pyrepseq/distance.py cannot be read/parsed: %r' % (e,)
    for name in FUNCS:
        key = 'c12.' + name
        try:
            if tree is None:
                raise Refuse(perr)
            txt = translate(tree, name)
            out.append('(* %s: translated from today\'s source *)' % name)
            out.append(txt)
            STATUS[key] = dict(ok=True, properties=PROPS, error=None)
        except Refuse as e:
            reason = str(e)[:200]
            out.append('(* %s: translator refused: %s -- committed snapshot of the last good text *)' % (name, reason.replace('*)', '* )')))
            out.append(SNAPSHOT[name])
            STATUS[key] = dict(ok=True, snapshot=True, properties=PROPS,
                               error='regen unavailable (%s): committed snapshot used, tie by correspondence' % reason)
        except Exception:
            out.append('(* %s: translator crashed -- committed snapshot so that the build proceeds *)' % name)
            out.append(SNAPSHOT[name])
            STATUS[key] = dict(ok=False, properties=PROPS, error='translator crashed: ' + traceback.format_exc()[-400:])
        out.append('')
    write_if_changed(os.path.join(ROOT, 'coq/gen/Gen_c12.v'), '\n'.join(out))


if __name__ == '__main__':
    repo = os.environ.get('PV_REPO', '/repo')
    tree = ast.parse(open(os.path.join(repo, 'pyrepseq', 'distance.py')).read())
    if '--print-snapshot' in sys.argv:
        for n in FUNCS:
            print('    %r: %r,' % (n, translate(tree, n)))
    else:
        for n in FUNCS:
            try:
                print(translate(tree, n))
            except Refuse as e:
                print('REFUSED %s: %s' % (n, e))
