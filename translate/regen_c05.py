"""C05: regenerate coq/gen/Gen_c05.v from pyrepseq/distance.py (fail-closed `ast` translator).

Items (each with its own status entry, all tied to property C05):
  pcdelta.tail        the statements of `pcDelta` after the np.histogram call (raw counts / normalisation /
                      pseudocount arithmetic) as a function over Q:  gen_pcdelta_tail normalize pseudocount hist
  pcdelta.defaults    default argument values of pcDelta, the default bin range, the `bins == 0` short-circuit
                      and which Metric method / argument order feeds np.histogram
  default_metric      decision table of get_default_metric_for_input_data over (is table, has CDR3A, has CDR3B)
  downsample          the keep-unchanged condition and the sample size / replace flag of `downsample`
  background_bins     how load_pcDelta_background derives the bin edges from the index of the bundled table

Anything outside the subset raises Refuse; the committed snapshot of the item (translate/snapshot_c05.json) is then emitted and the
refusal recorded (DESIGN.md 1.5); without a snapshot the item is a stub on which the C05 theorems fail."""
import ast, itertools, os
from fractions import Fraction


class Refuse(Exception):
    pass


def find_fn(tree, name):
    for n in tree.body:
        if isinstance(n, ast.FunctionDef) and n.name == name:
            return n
    raise Refuse('function %s not found' % name)


def body_wo_doc(fn):
    b = list(fn.body)
    if b and isinstance(b[0], ast.Expr) and isinstance(b[0].value, ast.Constant) and isinstance(b[0].value.value, str):
        b = b[1:]
    return b


def is_name(e, n=None):
    return isinstance(e, ast.Name) and (n is None or e.id == n)


def is_np(e, attr):
    return isinstance(e, ast.Attribute) and is_name(e.value) and e.value.id in ('np', 'numpy') and e.attr == attr


def qlit(f):
    f = Fraction(f)
    return '((%d) # %d)' % (f.numerator, f.denominator)


# ------------------------------------------------------------------ tail of pcDelta
class Tail:
    """Typed mini-language: scalars (Q), vectors (list Q), and a final vector / scalar division (list (option Q))."""

    def __init__(self, bools, scalars, vec):
        self.bools, self.vec0 = set(bools), vec
        self.n = 0
        self.senv = {s: s for s in scalars}      # python scalar name -> coq name
        self.venv = {vec: vec}

    def const(self, e):
        if isinstance(e, ast.Constant) and isinstance(e.value, (int, float)) and not isinstance(e.value, bool):
            return Fraction(str(e.value))
        return None

    def expr(self, e):
        """-> (kind, coq) with kind in 'S', 'V'"""
        c = self.const(e)
        if c is not None:
            return 'S', qlit(c)
        if is_name(e):
            if e.id in self.venv:
                return 'V', self.venv[e.id]
            if e.id in self.senv:
                return 'S', self.senv[e.id]
            raise Refuse('unbound or non-numeric name %s (line %d)' % (e.id, e.lineno))
        if isinstance(e, ast.Call):
            # np.sum(v) / v.sum()
            if is_np(e.func, 'sum') and len(e.args) == 1 and not e.keywords:
                k, v = self.expr(e.args[0])
                if k == 'V':
                    return 'S', '(sumQ %s)' % v
            if isinstance(e.func, ast.Attribute) and e.func.attr == 'sum' and not e.args and not e.keywords:
                k, v = self.expr(e.func.value)
                if k == 'V':
                    return 'S', '(sumQ %s)' % v
            # v.astype(<float type>) : identity on the mathematical vector
            if isinstance(e.func, ast.Attribute) and e.func.attr == 'astype' and len(e.args) == 1 and not e.keywords:
                a = e.args[0]
                if is_np(a, 'float64') or is_name(a, 'float') or is_np(a, 'float_') or is_np(a, 'double'):
                    k, v = self.expr(e.func.value)
                    if k == 'V':
                        return 'V', v
            raise Refuse('call outside the subset (line %d)' % e.lineno)
        if isinstance(e, ast.BinOp):
            ops = {ast.Add: '+', ast.Sub: '-', ast.Mult: '*'}
            for k, o in ops.items():
                if isinstance(e.op, k):
                    (kl, l), (kr, r) = self.expr(e.left), self.expr(e.right)
                    if kl == 'S' and kr == 'S':
                        return 'S', '(%s %s %s)' % (l, o, r)
                    if kl == 'V' and kr == 'S':
                        return 'V', '(map (fun h_ => h_ %s %s) %s)' % (o, r, l)
                    if kl == 'S' and kr == 'V':
                        return 'V', '(map (fun h_ => %s %s h_) %s)' % (l, o, r)
                    raise Refuse('vector (op) vector (line %d)' % e.lineno)
            raise Refuse('operator %s (line %d)' % (type(e.op).__name__, e.lineno))
        raise Refuse('expression %s (line %d)' % (type(e).__name__, getattr(e, 'lineno', 0)))

    def ret(self, e):
        """-> coq term of type list (option Q)"""
        if isinstance(e, ast.BinOp) and isinstance(e.op, ast.Div):
            (kl, l), (kr, r) = self.expr(e.left), self.expr(e.right)
            if kl == 'V' and kr == 'S':
                return '(map (fun h_ => np_div h_ %s) %s)' % (r, l)
            raise Refuse('division other than vector / scalar (line %d)' % e.lineno)
        k, v = self.expr(e)
        if k != 'V':
            raise Refuse('scalar returned (line %d)' % e.lineno)
        return '(map Some %s)' % v

    def cond(self, t):
        """truthiness test of a parameter -> coq bool"""
        if isinstance(t, ast.UnaryOp) and isinstance(t.op, ast.Not):
            return '(negb %s)' % self.cond(t.operand)
        if is_name(t) and t.id in self.bools:
            return t.id
        if is_name(t) and t.id in self.senv and self.senv[t.id] == t.id:
            return '(negb (Qeq_bool %s 0))' % t.id        # a float parameter is true iff non-zero
        raise Refuse('condition outside the subset (line %d)' % t.lineno)

    def block(self, stmts):
        if not stmts:
            raise Refuse('the function may fall off its end (returns None)')
        s, rest = stmts[0], stmts[1:]
        if isinstance(s, ast.Return):
            if s.value is None:
                raise Refuse('bare return')
            return self.ret(s.value)
        if isinstance(s, ast.If):
            if s.orelse:
                if not (_returns(s.body) and _returns(s.orelse)) or rest:
                    raise Refuse('if/else whose branches do not both return (line %d)' % s.lineno)
                saved = (dict(self.senv), dict(self.venv))
                a = self.block(list(s.body))
                self.senv, self.venv = (dict(saved[0]), dict(saved[1]))
                b = self.block(list(s.orelse))
                return '(if %s then %s else\n   %s)' % (self.cond(s.test), a, b)
            if not _returns(s.body):
                raise Refuse('if-branch without return (line %d)' % s.lineno)
            c = self.cond(s.test)
            saved = (dict(self.senv), dict(self.venv))
            a = self.block(list(s.body))
            self.senv, self.venv = saved
            return '(if %s then %s else\n   %s)' % (c, a, self.block(rest))
        if isinstance(s, ast.Assign) and len(s.targets) == 1 and is_name(s.targets[0]):
            name = s.targets[0].id
            k, v = self.expr(s.value)
            self.n += 1
            cn = 'x%d_%s' % (self.n, name)
            self.senv.pop(name, None)
            self.venv.pop(name, None)
            (self.senv if k == 'S' else self.venv)[name] = cn
            return '(let %s := %s in\n   %s)' % (cn, v, self.block(rest))
        raise Refuse('statement %s (line %d)' % (type(s).__name__, s.lineno))


def _returns(stmts):
    return bool(stmts) and isinstance(stmts[-1], ast.Return)


def hist_stmt(s):
    """`if seqs2 is None: hist, _ = np.histogram(metric.calc_pdist_vector(seqs), bins=bins)
        else:             hist, _ = np.histogram(metric.calc_cdist_matrix(seqs, seqs2), bins=bins)`
    -> (vector name, self method, self args, cross method, cross args) or None"""
    if not (isinstance(s, ast.If) and isinstance(s.test, ast.Compare) and is_name(s.test.left, 'seqs2')
            and len(s.test.ops) == 1 and isinstance(s.test.ops[0], ast.Is)
            and isinstance(s.test.comparators[0], ast.Constant) and s.test.comparators[0].value is None
            and len(s.body) == 1 and len(s.orelse) == 1):
        return None
    out = []
    for b in (s.body[0], s.orelse[0]):
        if not (isinstance(b, ast.Assign) and len(b.targets) == 1 and isinstance(b.targets[0], ast.Tuple)
                and len(b.targets[0].elts) == 2 and all(is_name(x) for x in b.targets[0].elts)):
            return None
        c = b.value
        if not (isinstance(c, ast.Call) and is_np(c.func, 'histogram') and len(c.args) == 1
                and len(c.keywords) == 1 and c.keywords[0].arg == 'bins' and is_name(c.keywords[0].value, 'bins')):
            return None
        m = c.args[0]
        if not (isinstance(m, ast.Call) and isinstance(m.func, ast.Attribute) and is_name(m.func.value, 'metric')
                and not m.keywords and all(is_name(a) for a in m.args)):
            return None
        out.append((b.targets[0].elts[0].id, m.func.attr, [a.id for a in m.args]))
    if out[0][0] != out[1][0]:
        return None
    return out[0][0], out[0][1], out[0][2], out[1][1], out[1][2]


def gen_pcdelta(tree, out, st):
    try:
        fn = find_fn(tree, 'pcDelta')
        params = [a.arg for a in fn.args.args]
        body = body_wo_doc(fn)
    except Refuse:
        fn, params, body = None, [], []
    # ---- tail
    try:
        if fn is None:
            raise Refuse('function pcDelta not found')
        k = next((i for i, s in enumerate(body) if hist_stmt(s)), None)
        if k is None:
            raise Refuse('np.histogram statement of pcDelta not found in the expected shape')
        vec = hist_stmt(body[k])[0]
        if 'normalize' not in params or 'pseudocount' not in params:
            raise Refuse('parameters normalize / pseudocount not found')
        t = Tail(['normalize'], ['pseudocount'], vec)
        term = t.block(body[k + 1:])
        out.append('Definition gen_pcdelta_tail (normalize : bool) (pseudocount : Q) (%s : list Q) : list (option Q) :=\n  %s.' % (vec, term))
        st('pcdelta.tail', True)
    except Refuse as e:
        out.append('(* translator refused: %s *)' % str(e).replace('*)', '* )'))
        out.append('Definition gen_pcdelta_tail (normalize : bool) (pseudocount : Q) (hist : list Q) : list (option Q) := [].')
        st('pcdelta.tail', False, str(e))
    # ---- defaults, bins == 0 short-circuit, default bins, histogram source
    try:
        if fn is None:
            raise Refuse('function pcDelta not found')
        want = ['seqs', 'seqs2', 'metric', 'bins', 'normalize', 'pseudocount', 'maxseqs']
        if params != want or fn.args.vararg or fn.args.kwarg or fn.args.kwonlyargs:
            raise Refuse('signature of pcDelta is not %s' % want)
        defs = dict(zip(params[len(params) - len(fn.args.defaults):], fn.args.defaults))
        for p in ('seqs2', 'metric', 'bins', 'maxseqs'):
            if not (p in defs and isinstance(defs[p], ast.Constant) and defs[p].value is None):
                raise Refuse('default of %s is not None' % p)
        dn, dp = defs.get('normalize'), defs.get('pseudocount')
        if not (isinstance(dn, ast.Constant) and isinstance(dn.value, bool)):
            raise Refuse('default of normalize is not a bool literal')
        if not (isinstance(dp, ast.Constant) and isinstance(dp.value, (int, float)) and not isinstance(dp.value, bool)):
            raise Refuse('default of pseudocount is not a number literal')
        # try: if bins == 0: return pc(seqs, seqs2)
        s0 = body[0]
        ok = isinstance(s0, ast.Try) and len(s0.body) == 1 and isinstance(s0.body[0], ast.If)
        if ok:
            i0 = s0.body[0]
            ok = (isinstance(i0.test, ast.Compare) and is_name(i0.test.left, 'bins') and len(i0.test.ops) == 1
                  and isinstance(i0.test.ops[0], ast.Eq) and isinstance(i0.test.comparators[0], ast.Constant)
                  and i0.test.comparators[0].value == 0 and not isinstance(i0.test.comparators[0].value, bool)
                  and len(i0.body) == 1 and isinstance(i0.body[0], ast.Return) and not i0.orelse)
        if ok:
            c = i0.body[0].value
            ok = (isinstance(c, ast.Call) and is_name(c.func, 'pc') and not c.keywords and all(is_name(a) for a in c.args)
                  and all(a.id in params for a in c.args))
        if not ok:
            raise Refuse('`bins == 0` short-circuit to pc(...) not found in the expected shape')
        pcargs = [params.index(a.id) for a in c.args]
        # if bins is None: bins = np.arange(lo, hi)
        rng = None
        for s in body:
            if (isinstance(s, ast.If) and isinstance(s.test, ast.Compare) and is_name(s.test.left, 'bins')
                    and isinstance(s.test.ops[0], ast.Is) and isinstance(s.test.comparators[0], ast.Constant)
                    and s.test.comparators[0].value is None and len(s.body) == 1 and not s.orelse
                    and isinstance(s.body[0], ast.Assign) and is_name(s.body[0].targets[0], 'bins')):
                v = s.body[0].value
                if isinstance(v, ast.Call) and (is_np(v.func, 'arange') or is_name(v.func, 'range')) and not v.keywords \
                        and 1 <= len(v.args) <= 2 and all(isinstance(a, ast.Constant) and isinstance(a.value, int) for a in v.args):
                    vals = [a.value for a in v.args]
                    rng = (0, vals[0]) if len(vals) == 1 else tuple(vals)
        if rng is None:
            raise Refuse('default bins (`if bins is None: bins = np.arange(lo, hi)`) not found')
        h = next((hist_stmt(s) for s in body if hist_stmt(s)), None)
        if h is None:
            raise Refuse('np.histogram statement of pcDelta not found in the expected shape')
        _, m1, a1, m2, a2 = h
        if not all(a in params for a in a1 + a2):
            raise Refuse('np.histogram is fed something other than parameters')
        # downsampling statements: seqs = downsample(seqs, maxseqs); seqs2 = downsample(seqs2, maxseqs)
        ds = []
        for s in body:
            if isinstance(s, ast.Assign) and is_name(s.targets[0]) and isinstance(s.value, ast.Call) and is_name(s.value.func, 'downsample'):
                if not (len(s.value.args) == 2 and not s.value.keywords and is_name(s.value.args[0], s.targets[0].id)
                        and is_name(s.value.args[1], 'maxseqs')):
                    raise Refuse('downsample call of unexpected shape (line %d)' % s.lineno)
                ds.append(s.targets[0].id)
        out.append('Definition gen_pcdelta_default_normalize : bool := %s.' % ('true' if dn.value else 'false'))
        out.append('Definition gen_pcdelta_default_pseudocount : Q := %s.' % qlit(Fraction(str(dp.value))))
        out.append('Definition gen_pcdelta_bins0_pc_args : list nat := [%s]%%nat.' % '; '.join(map(str, pcargs)))
        out.append('Definition gen_pcdelta_default_bins_range : (Z * Z) := ((%d)%%Z, (%d)%%Z).' % rng)
        out.append('Definition gen_pcdelta_self_source : (list N * list nat) := (%s, [%s]%%nat).' % (coq_str(m1), '; '.join(str(params.index(a)) for a in a1)))
        out.append('Definition gen_pcdelta_cross_source : (list N * list nat) := (%s, [%s]%%nat).' % (coq_str(m2), '; '.join(str(params.index(a)) for a in a2)))
        out.append('Definition gen_pcdelta_downsampled : list nat := [%s]%%nat.' % '; '.join(str(params.index(a)) for a in ds))
        st('pcdelta.defaults', True)
    except Refuse as e:
        out.append('(* translator refused: %s *)' % str(e).replace('*)', '* )'))
        out.append('Definition gen_pcdelta_default_normalize : bool := false.')
        out.append('Definition gen_pcdelta_default_pseudocount : Q := (-1 # 1).')
        out.append('Definition gen_pcdelta_bins0_pc_args : list nat := [].')
        out.append('Definition gen_pcdelta_default_bins_range : (Z * Z) := (0%Z, 0%Z).')
        out.append('Definition gen_pcdelta_self_source : (list N * list nat) := ([], []).')
        out.append('Definition gen_pcdelta_cross_source : (list N * list nat) := ([], []).')
        out.append('Definition gen_pcdelta_downsampled : list nat := [].')
        st('pcdelta.defaults', False, str(e))


def coq_str(s):
    return '[' + ';'.join(str(ord(c)) for c in s) + ']%N' if s else '(@nil N)'


# ------------------------------------------------------------------ default metric decision table
METRIC_CODE = {'Levenshtein': 0, 'AlphaCdr3Levenshtein': 1, 'BetaCdr3Levenshtein': 2, 'Cdr3Levenshtein': 3}


def gen_default_metric(tree, out, st):
    try:
        fn = find_fn(tree, 'get_default_metric_for_input_data')
        if len(fn.args.args) != 1:
            raise Refuse('signature')
        arg = fn.args.args[0].arg

        def test(t, env):
            if isinstance(t, ast.BoolOp):
                vals = [test(v, env) for v in t.values]
                return all(vals) if isinstance(t.op, ast.And) else any(vals)
            if isinstance(t, ast.UnaryOp) and isinstance(t.op, ast.Not):
                return not test(t.operand, env)
            if isinstance(t, ast.Call) and is_name(t.func, 'isinstance') and len(t.args) == 2 and is_name(t.args[0], arg) \
                    and ((is_name(t.args[1], 'DataFrame')) or (isinstance(t.args[1], ast.Attribute) and t.args[1].attr == 'DataFrame')):
                return env['isdf']
            if isinstance(t, ast.Compare) and len(t.ops) == 1 and isinstance(t.ops[0], (ast.In, ast.NotIn)) \
                    and isinstance(t.left, ast.Constant) and t.left.value in ('CDR3A', 'CDR3B'):
                c = t.comparators[0]
                if is_name(c, arg) or (isinstance(c, ast.Attribute) and is_name(c.value, arg) and c.attr == 'columns'):
                    if not env['isdf']:
                        raise Refuse('column test reached for a non-table (line %d)' % t.lineno)
                    v = env['hasA'] if t.left.value == 'CDR3A' else env['hasB']
                    return v if isinstance(t.ops[0], ast.In) else not v
            raise Refuse('test outside the subset (line %d)' % t.lineno)

        def run(stmts, env):
            for s in stmts:
                if isinstance(s, ast.Expr) and isinstance(s.value, ast.Constant):
                    continue
                if isinstance(s, ast.Return):
                    v = s.value
                    if isinstance(v, ast.Call) and is_name(v.func) and not v.args and not v.keywords and v.func.id in METRIC_CODE:
                        return METRIC_CODE[v.func.id]
                    raise Refuse('return value outside the subset (line %d)' % s.lineno)
                if isinstance(s, ast.If):
                    r = run(s.body if test(s.test, env) else s.orelse, env)
                    if r is not None:
                        return r
                    continue
                raise Refuse('statement %s (line %d)' % (type(s).__name__, s.lineno))
            return None

        rows = []
        for isdf, hasA, hasB in itertools.product([True, False], repeat=3):
            r = run(fn.body, dict(isdf=isdf, hasA=hasA, hasB=hasB))
            if r is None:
                raise Refuse('falls off its end for is_table=%s CDR3A=%s CDR3B=%s' % (isdf, hasA, hasB))
            rows.append('  | %s, %s, %s => %d%%nat' % (str(isdf).lower(), str(hasA).lower(), str(hasB).lower(), r))
        out.append('(* 0 Levenshtein, 1 AlphaCdr3Levenshtein, 2 BetaCdr3Levenshtein, 3 Cdr3Levenshtein *)')
        out.append('Definition gen_default_metric (is_table has_cdr3a has_cdr3b : bool) : nat :=\n  match is_table, has_cdr3a, has_cdr3b with\n%s\n  end.' % '\n'.join(rows))
        st('default_metric', True)
    except Refuse as e:
        out.append('(* translator refused: %s *)' % str(e).replace('*)', '* )'))
        out.append('Definition gen_default_metric (is_table has_cdr3a has_cdr3b : bool) : nat := 99%nat.')
        st('default_metric', False, str(e))


# ------------------------------------------------------------------ downsample
def gen_downsample(tree, out, st):
    try:
        fn = find_fn(tree, 'downsample')
        if [a.arg for a in fn.args.args] != ['seqs', 'maxseqs']:
            raise Refuse('signature of downsample')
        body = body_wo_doc(fn)
        keep = None
        size_ok = {'sample': None, 'choice': None}
        for s in ast.walk(fn):
            if isinstance(s, ast.If) and isinstance(s.test, ast.Compare) and len(s.test.ops) == 1 \
                    and isinstance(s.test.left, ast.Call) and is_name(s.test.left.func, 'len') and is_name(s.test.left.args[0], 'seqs') \
                    and is_name(s.test.comparators[0], 'maxseqs') and len(s.body) == 1 and isinstance(s.body[0], ast.Return) \
                    and is_name(s.body[0].value, 'seqs'):
                op = {ast.LtE: 'Nat.leb n m', ast.Lt: 'Nat.ltb n m', ast.Eq: 'Nat.eqb n m'}.get(type(s.test.ops[0]))
                if op is None or keep is not None:
                    raise Refuse('keep-unchanged condition outside the subset (line %d)' % s.lineno)
                keep = op
            if isinstance(s, ast.Call) and isinstance(s.func, ast.Attribute) and s.func.attr == 'sample':
                kw = {k.arg: k.value for k in s.keywords}
                size_ok['sample'] = (not s.args and set(kw) == {'n'} and is_name(kw['n'], 'maxseqs') and is_name(s.func.value, 'seqs'))
            if isinstance(s, ast.Call) and isinstance(s.func, ast.Attribute) and s.func.attr == 'choice':
                kw = {k.arg: k.value for k in s.keywords}
                size_ok['choice'] = (len(s.args) == 2 and is_name(s.args[0], 'seqs') and is_name(s.args[1], 'maxseqs') and set(kw) == {'replace'}
                                     and isinstance(kw['replace'], ast.Constant) and kw['replace'].value is False)
        if keep is None:
            raise Refuse('`if len(seqs) <= maxseqs: return seqs` not found')
        if size_ok['sample'] is not True or size_ok['choice'] is not True:
            raise Refuse('seqs.sample(n=maxseqs) / np.random.choice(seqs, maxseqs, replace=False) not found in that shape')
        # None short-circuit: `if maxseqs is None or seqs is None: return seqs` must be the first statement
        s0 = body[0]
        ok = (isinstance(s0, ast.If) and isinstance(s0.test, ast.BoolOp) and isinstance(s0.test.op, ast.Or) and len(s0.body) == 1
              and isinstance(s0.body[0], ast.Return) and is_name(s0.body[0].value, 'seqs'))
        if not ok:
            raise Refuse('`if maxseqs is None or seqs is None: return seqs` not found as first statement')
        out.append('Definition gen_downsample_keep (n m : nat) : bool := %s.' % keep)
        out.append('Definition gen_downsample_size (n m : nat) : nat := m.')
        out.append('Definition gen_downsample_replace : bool := false.')
        st('downsample', True)
    except Refuse as e:
        out.append('(* translator refused: %s *)' % str(e).replace('*)', '* )'))
        out.append('Definition gen_downsample_keep (n m : nat) : bool := true.')
        out.append('Definition gen_downsample_size (n m : nat) : nat := 0%nat.')
        out.append('Definition gen_downsample_replace : bool := true.')
        st('downsample', False, str(e))


# ------------------------------------------------------------------ load_pcDelta_background
def gen_background(tree, out, st):
    try:
        fn = find_fn(tree, 'load_pcDelta_background')
        stmts = [s for s in ast.walk(fn)]
        got_list = got_app = None
        got_ret = False
        for s in stmts:
            if isinstance(s, ast.Assign) and is_name(s.targets[0], 'bins') and isinstance(s.value, ast.Call) and is_name(s.value.func, 'list') \
                    and len(s.value.args) == 1 and isinstance(s.value.args[0], ast.Attribute) and s.value.args[0].attr == 'index' \
                    and is_name(s.value.args[0].value, 'back'):
                got_list = True
            if isinstance(s, ast.Expr) and isinstance(s.value, ast.Call) and isinstance(s.value.func, ast.Attribute) \
                    and s.value.func.attr == 'append' and is_name(s.value.func.value, 'bins') and len(s.value.args) == 1:
                a = s.value.args[0]
                if isinstance(a, ast.BinOp) and isinstance(a.op, ast.Add) and isinstance(a.left, ast.Subscript) and is_name(a.left.value, 'bins') \
                        and isinstance(a.left.slice, ast.UnaryOp) and isinstance(a.left.slice.op, ast.USub) \
                        and isinstance(a.left.slice.operand, ast.Constant) and a.left.slice.operand.value == 1 \
                        and isinstance(a.right, ast.Constant) and isinstance(a.right.value, int):
                    if got_app is not None:
                        raise Refuse('more than one bins.append')
                    got_app = a.right.value
                else:
                    raise Refuse('bins.append argument outside the subset (line %d)' % s.lineno)
            if isinstance(s, ast.Return) and isinstance(s.value, ast.Tuple) and len(s.value.elts) == 2 \
                    and is_name(s.value.elts[0], 'back') and is_name(s.value.elts[1], 'bins'):
                got_ret = True
        rd = [s for s in stmts if isinstance(s, ast.Call) and isinstance(s.func, ast.Attribute) and s.func.attr == 'read_csv']
        idx0 = rd and any(k.arg == 'index_col' and isinstance(k.value, ast.Constant) and k.value.value == 0 for k in rd[0].keywords)
        names = [s.value for s in stmts if isinstance(s, ast.Constant) and isinstance(s.value, str) and s.value.endswith('.csv')]
        if not (got_list and got_app is not None and got_ret and idx0 and names == ['pcdelta_pbmc_minervina.csv']):
            raise Refuse('load_pcDelta_background is not `back = read_csv(<bundled csv>, index_col=0); bins = list(back.index); bins.append(bins[-1] + k); return back, bins`')
        out.append('Definition gen_background_bins (index : list Z) : list Z := (index ++ [last index 0 + (%d)])%%Z.' % got_app)
        st('background_bins', True)
    except Refuse as e:
        out.append('(* translator refused: %s *)' % str(e).replace('*)', '* )'))
        out.append('Definition gen_background_bins (index : list Z) : list Z := [].')
        st('background_bins', False, str(e))


def run(STATUS, write_if_changed, ROOT, REPO):
    import json, sys
    snap_path = os.path.join(os.path.dirname(os.path.abspath(__file__)), 'snapshot_c05.json')
    SNAP = json.load(open(snap_path)) if os.path.exists(snap_path) else {}
    NEW = {}
    out = ['(* GENERATED from pyrepseq/distance.py by translate/regen_c05.py on every check; do not edit. *)',
           'From Coq Require Import List QArith NArith ZArith Bool Arith.', 'From PV Require Import lib.Val.',
           'Import ListNotations.', 'Open Scope Q_scope.', '',
           '(* NumPy float division: a finite quotient, or None for a non-finite result (0/0 = nan, x/0 = inf) *)',
           'Definition np_div (a b : Q) : option Q := if Qeq_bool b 0 then None else Some (a / b).', '']
    mark = [len(out)]

    def st(name, ok, error=None):
        """the lines emitted since the previous item belong to this item.  DESIGN.md 1.5: when the translator refuses (anchor moved,
        text outside the subset) the committed snapshot of the item replaces its stub, the refusal is recorded, and the tie for the item
        on this run is the correspondence of pcDelta / downsample / load_pcDelta_background with the snapshot model."""
        seg = out[mark[0]:]
        if ok:
            NEW[name] = seg
            STATUS['c05.' + name] = dict(ok=True, properties=['C05'], error=None)
        elif name in SNAP:
            out[mark[0]:] = ['(* translator refused: %s -- committed snapshot of the last good text *)' % str(error).replace('*)', '* )')] + SNAP[name]
            STATUS['c05.' + name] = dict(ok=True, snapshot=True, properties=['C05'],
                                         error='regen unavailable (%s): committed snapshot used, tie by correspondence' % error)
        else:
            STATUS['c05.' + name] = dict(ok=False, properties=['C05'], error=error)
        mark[0] = len(out)
    try:
        tree = ast.parse(open(os.path.join(REPO, 'pyrepseq', 'distance.py')).read())
    except Exception as e:
        tree = ast.parse('')
    for g in (gen_pcdelta, gen_default_metric, gen_downsample, gen_background):
        g(tree, out, st)
        out.append('')
        mark[0] = len(out)
    write_if_changed(os.path.join(ROOT, 'coq/gen/Gen_c05.v'), '\n'.join(out) + '\n')
    if '--write-snapshot' in sys.argv:       # maintainer action on a tree whose kernels are known good; never done by a check
        json.dump(NEW, open(snap_path, 'w'), indent=1, sort_keys=True)
