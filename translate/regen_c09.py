"""C09: facts regenerated from pyrepseq/metric/tcr_metric/{tcr_levenshtein,tcr_metric}.py -> coq/gen/Gen_c09.v

  gen_c09_weight_tests  the if/elif chains of `"<s>" in column` tests of TcrLevenshtein._calc_cdist_matrix_for_column and the
                        weight each branch multiplies the per-column matrix by, in program order
  gen_c09_columns       the column list returned by TcrLevenshtein._get_columns_to_compare for each of the 3 x 2 scopes
                        (a small fail-closed evaluator of that function's body)
  gen_c09_classes       the (_chain_scope, _cdr_scope) class attributes of the six public metric classes
  gen_c09_tcr_columns   the set literal `tcr_columns` of tcr_metric.is_in_standard_format

Fail-closed: anything outside the subset raises Refuse and nothing is guessed: the committed snapshot of that item is
written instead and the refusal is recorded (`regen unavailable (...)`, shown in the evidence), as DESIGN.md 1.5 prescribes;
the tie for that run is the correspondence of the implementation with the specification oracle (which uses no generated
fact).  A translator crash is recorded ok=False and reported by the check."""
import ast, itertools, os

WEIGHTS = {'alpha_weight': 'WAlpha', 'beta_weight': 'WBeta', 'cdr1_weight': 'WCdr1', 'cdr2_weight': 'WCdr2', 'cdr3_weight': 'WCdr3'}
CHAIN_SCOPES = [('PAIRED', 'Paired'), ('ALPHA', 'AlphaOnly'), ('BETA', 'BetaOnly')]
CDR_SCOPES = [('ALL', 'AllCdr'), ('CDR3', 'Cdr3Only')]
PUBLIC = ['AlphaCdr3Levenshtein', 'AlphaCdrLevenshtein', 'BetaCdr3Levenshtein', 'BetaCdrLevenshtein', 'Cdr3Levenshtein', 'CdrLevenshtein']

SNAPSHOT = dict(
    weight_tests=[[('A', 'WAlpha'), ('B', 'WBeta')], [('1', 'WCdr1'), ('2', 'WCdr2'), ('3', 'WCdr3')]],
    columns={('Paired', 'AllCdr'): ['CDR3A', 'CDR3B', 'CDR1A', 'CDR1B', 'CDR2A', 'CDR2B'],
             ('Paired', 'Cdr3Only'): ['CDR3A', 'CDR3B'],
             ('AlphaOnly', 'AllCdr'): ['CDR3A', 'CDR1A', 'CDR2A'], ('AlphaOnly', 'Cdr3Only'): ['CDR3A'],
             ('BetaOnly', 'AllCdr'): ['CDR3B', 'CDR1B', 'CDR2B'], ('BetaOnly', 'Cdr3Only'): ['CDR3B']},
    classes=[('AlphaCdr3Levenshtein', 'AlphaOnly', 'Cdr3Only'), ('AlphaCdrLevenshtein', 'AlphaOnly', 'AllCdr'),
             ('BetaCdr3Levenshtein', 'BetaOnly', 'Cdr3Only'), ('BetaCdrLevenshtein', 'BetaOnly', 'AllCdr'),
             ('Cdr3Levenshtein', 'Paired', 'Cdr3Only'), ('CdrLevenshtein', 'Paired', 'AllCdr')],
    tcr_columns=['CDR3A', 'CDR3B', 'TRAJ', 'TRAV', 'TRBJ', 'TRBV'])


class Refuse(Exception):
    pass


def coq_str(s):
    return '[' + ';'.join(str(ord(c)) for c in s) + ']%N' if s else '(@nil N)'


def find_class(tree, name):
    for n in tree.body:
        if isinstance(n, ast.ClassDef) and n.name == name:
            return n
    raise Refuse('class %s not found' % name)


def find_method(cls, name):
    for n in cls.body:
        if isinstance(n, ast.FunctionDef) and n.name == name:
            return n
    raise Refuse('method %s.%s not found' % (cls.name, name))


# ------------------------------------------------------------------ weight tests
def weight_of_expr(e):
    """self.<holder>.<weight name>  /  self.<weight name>  ->  constructor name"""
    if isinstance(e, ast.Attribute):
        name = e.attr.lstrip('_')
        base = e.value
        while isinstance(base, ast.Attribute):
            base = base.value
        if isinstance(base, ast.Name) and base.id == 'self' and name in WEIGHTS:
            return WEIGHTS[name]
    raise Refuse('not a weight attribute: ' + ast.dump(e)[:100])


def scaled_by(stmt):
    """`m *= w`, `m = m * w`, `m = w * m` -> weight constructor"""
    if isinstance(stmt, ast.AugAssign) and isinstance(stmt.op, ast.Mult) and isinstance(stmt.target, ast.Name):
        return weight_of_expr(stmt.value)
    if isinstance(stmt, ast.Assign) and len(stmt.targets) == 1 and isinstance(stmt.targets[0], ast.Name) \
            and isinstance(stmt.value, ast.BinOp) and isinstance(stmt.value.op, ast.Mult):
        t = stmt.targets[0].id
        l, r = stmt.value.left, stmt.value.right
        if isinstance(l, ast.Name) and l.id == t:
            return weight_of_expr(r)
        if isinstance(r, ast.Name) and r.id == t:
            return weight_of_expr(l)
    raise Refuse('branch body is not a multiplication by a weight: ' + ast.dump(stmt)[:120])


def if_chain(node, col):
    out = []
    while True:
        t = node.test
        if not (isinstance(t, ast.Compare) and len(t.ops) == 1 and isinstance(t.ops[0], ast.In)
                and isinstance(t.left, ast.Constant) and isinstance(t.left.value, str)
                and isinstance(t.comparators[0], ast.Name) and t.comparators[0].id == col):
            raise Refuse('test is not `"<s>" in %s`: %s' % (col, ast.dump(t)[:120]))
        if len(node.body) != 1:
            raise Refuse('branch with %d statements' % len(node.body))
        out.append((t.left.value, scaled_by(node.body[0])))
        if not node.orelse:
            return out
        if len(node.orelse) == 1 and isinstance(node.orelse[0], ast.If):
            node = node.orelse[0]
            continue
        raise Refuse('else branch outside the subset')


def weight_tests(cls):
    fn = find_method(cls, '_calc_cdist_matrix_for_column')
    args = [a.arg for a in fn.args.args]
    if len(args) != 4:
        raise Refuse('_calc_cdist_matrix_for_column takes %d parameters' % len(args))
    col = args[3]
    chains = []
    for st in fn.body:
        if isinstance(st, ast.If):
            chains.append(if_chain(st, col))
        else:
            for sub in ast.walk(st):
                if isinstance(sub, (ast.If, ast.IfExp, ast.For, ast.While, ast.Try, ast.With)):
                    raise Refuse('control flow outside the subset in _calc_cdist_matrix_for_column')
                if isinstance(sub, ast.Attribute) and sub.attr.lstrip('_') in WEIGHTS:
                    raise Refuse('a weight is used outside an `in column` branch')
    return chains


# ------------------------------------------------------------------ evaluator for _get_columns_to_compare
class Ret(Exception):
    def __init__(self, v):
        self.v = v


class Eval:
    def __init__(self, chain_scope, cdr_scope):
        self.env = {}
        self.scopes = {'_chain_scope': ('ChainScope', chain_scope), '_cdr_scope': ('CdrScope', cdr_scope)}
        self.steps = 0

    def expr(self, e):
        self.steps += 1
        if self.steps > 10000:
            raise Refuse('evaluation too long')
        if isinstance(e, ast.Constant) and isinstance(e.value, (str, bool)):
            return e.value
        if isinstance(e, ast.List):
            return [self.expr(x) for x in e.elts]
        if isinstance(e, ast.Tuple):
            return tuple(self.expr(x) for x in e.elts)
        if isinstance(e, ast.Name):
            if e.id in self.env:
                return self.env[e.id]
            raise Refuse('unbound name ' + e.id)
        if isinstance(e, ast.Attribute) and isinstance(e.value, ast.Name):
            if e.value.id == 'self' and e.attr in self.scopes:
                return self.scopes[e.attr]
            if e.value.id in ('ChainScope', 'CdrScope'):
                return (e.value.id, e.attr)
        if isinstance(e, ast.BinOp) and isinstance(e.op, ast.Add):
            l, r = self.expr(e.left), self.expr(e.right)
            if type(l) is type(r) and isinstance(l, (str, list, tuple)):
                return l + r
            raise Refuse('+ on %s and %s' % (type(l).__name__, type(r).__name__))
        if isinstance(e, ast.JoinedStr):
            out = ''
            for v in e.values:
                if isinstance(v, ast.Constant) and isinstance(v.value, str):
                    out += v.value
                elif isinstance(v, ast.FormattedValue) and v.conversion == -1 and v.format_spec is None:
                    s = self.expr(v.value)
                    if not isinstance(s, str):
                        raise Refuse('f-string of a non-string')
                    out += s
                else:
                    raise Refuse('f-string outside the subset')
            return out
        if isinstance(e, ast.Call) and not e.keywords:
            f = e.func
            if isinstance(f, ast.Attribute) and isinstance(f.value, ast.Name) and f.value.id == 'itertools' and f.attr == 'product' \
                    or isinstance(f, ast.Name) and f.id == 'product':
                seqs = [self.seq(a) for a in e.args]
                return [tuple(t) for t in itertools.product(*seqs)]
            if isinstance(f, ast.Name) and f.id in ('list', 'tuple', 'sorted') and len(e.args) == 1:
                v = self.seq(e.args[0])
                return {'list': list, 'tuple': tuple, 'sorted': sorted}[f.id](v)
        if isinstance(e, (ast.ListComp, ast.GeneratorExp)):
            out = []
            self.comp(e.generators, 0, lambda: out.append(self.expr(e.elt)))
            return out
        if isinstance(e, ast.Compare) or isinstance(e, ast.BoolOp) or isinstance(e, ast.UnaryOp):
            return self.test(e)
        raise Refuse('expression outside the subset: ' + ast.dump(e)[:120])

    def seq(self, e):
        v = self.expr(e)
        if not isinstance(v, (list, tuple)):
            raise Refuse('iteration over a %s' % type(v).__name__)
        return list(v)

    def comp(self, gens, k, emit):
        if k == len(gens):
            emit()
            return
        g = gens[k]
        if g.is_async:
            raise Refuse('async comprehension')
        for v in self.seq(g.iter):
            self.bind(g.target, v)
            if all(self.test(c) for c in g.ifs):
                self.comp(gens, k + 1, emit)

    def bind(self, target, v):
        if isinstance(target, ast.Name):
            self.env[target.id] = v
        elif isinstance(target, (ast.Tuple, ast.List)) and isinstance(v, (tuple, list)) and len(target.elts) == len(v):
            for t, x in zip(target.elts, v):
                self.bind(t, x)
        else:
            raise Refuse('assignment target outside the subset')

    def test(self, e):
        if isinstance(e, ast.BoolOp):
            vals = [self.test(v) for v in e.values]
            return all(vals) if isinstance(e.op, ast.And) else any(vals)
        if isinstance(e, ast.UnaryOp) and isinstance(e.op, ast.Not):
            return not self.test(e.operand)
        if isinstance(e, ast.Compare) and len(e.ops) == 1:
            l, r, op = self.expr(e.left), self.expr(e.comparators[0]), e.ops[0]
            if isinstance(op, (ast.Is, ast.Eq)):
                return l == r
            if isinstance(op, (ast.IsNot, ast.NotEq)):
                return l != r
            if isinstance(op, ast.In) and isinstance(r, (list, tuple)):
                return l in r
            if isinstance(op, ast.NotIn) and isinstance(r, (list, tuple)):
                return l not in r
        if isinstance(e, ast.Constant) and isinstance(e.value, bool):
            return e.value
        raise Refuse('test outside the subset: ' + ast.dump(e)[:120])

    def block(self, stmts):
        for st in stmts:
            self.stmt(st)

    def stmt(self, st):
        if isinstance(st, ast.Expr) and isinstance(st.value, ast.Constant) and isinstance(st.value.value, str):
            return
        if isinstance(st, ast.Pass):
            return
        if isinstance(st, ast.Assign) and len(st.targets) == 1:
            self.bind(st.targets[0], self.expr(st.value))
            return
        if isinstance(st, ast.AnnAssign) and st.value is not None and isinstance(st.target, ast.Name):
            self.env[st.target.id] = self.expr(st.value)
            return
        if isinstance(st, ast.AugAssign) and isinstance(st.op, ast.Add) and isinstance(st.target, ast.Name):
            cur = self.expr(st.target)
            add = self.expr(st.value)
            if isinstance(cur, list) and isinstance(add, (list, tuple)):
                cur.extend(add)
                return
            if isinstance(cur, str) and isinstance(add, str):
                self.env[st.target.id] = cur + add
                return
            raise Refuse('+= outside the subset')
        if isinstance(st, ast.Expr) and isinstance(st.value, ast.Call) and isinstance(st.value.func, ast.Attribute) \
                and isinstance(st.value.func.value, ast.Name) and st.value.func.attr in ('append', 'extend') \
                and len(st.value.args) == 1 and not st.value.keywords:
            lst = self.expr(st.value.func.value)
            if not isinstance(lst, list):
                raise Refuse('.%s on a non-list' % st.value.func.attr)
            v = self.expr(st.value.args[0])
            if st.value.func.attr == 'append':
                lst.append(v)
            else:
                if not isinstance(v, (list, tuple)):
                    raise Refuse('extend with a non-sequence')
                lst.extend(v)
            return
        if isinstance(st, ast.If):
            self.block(st.body if self.test(st.test) else st.orelse)
            return
        if isinstance(st, ast.For) and not st.orelse:
            for v in self.seq(st.iter):
                self.bind(st.target, v)
                self.block(st.body)
            return
        if isinstance(st, ast.Return) and st.value is not None:
            raise Ret(self.expr(st.value))
        raise Refuse('statement outside the subset: ' + ast.dump(st)[:120])


def columns(cls):
    fn = find_method(cls, '_get_columns_to_compare')
    if len(fn.args.args) != 1:
        raise Refuse('_get_columns_to_compare takes parameters')
    out = {}
    for py_cs, cs in CHAIN_SCOPES:
        for py_ls, ls in CDR_SCOPES:
            ev = Eval(py_cs, py_ls)
            try:
                ev.block(fn.body)
                raise Refuse('no return statement reached')
            except Ret as r:
                v = r.v
            if not isinstance(v, (list, tuple)) or not all(isinstance(x, str) for x in v):
                raise Refuse('_get_columns_to_compare does not return a list of strings')
            out[(cs, ls)] = list(v)
    return out


# ------------------------------------------------------------------ class attributes, tcr_columns
def classes(tree):
    out = []
    for name in PUBLIC:
        cls = find_class(tree, name)
        if not any(isinstance(b, ast.Name) and b.id == 'TcrLevenshtein' for b in cls.bases):
            raise Refuse('%s does not derive from TcrLevenshtein' % name)
        got = {}
        for st in cls.body:
            if isinstance(st, ast.Assign) and len(st.targets) == 1 and isinstance(st.targets[0], ast.Name) \
                    and st.targets[0].id in ('_chain_scope', '_cdr_scope'):
                v = st.value
                if not (isinstance(v, ast.Attribute) and isinstance(v.value, ast.Name)):
                    raise Refuse('%s.%s is not an enum member' % (name, st.targets[0].id))
                got[st.targets[0].id] = (v.value.id, v.attr)
        try:
            cs = dict(CHAIN_SCOPES)[got['_chain_scope'][1]] if got['_chain_scope'][0] == 'ChainScope' else None
            ls = dict(CDR_SCOPES)[got['_cdr_scope'][1]] if got['_cdr_scope'][0] == 'CdrScope' else None
        except KeyError as e:
            raise Refuse('%s: scope attribute missing or unknown (%s)' % (name, e))
        if cs is None or ls is None:
            raise Refuse('%s: scope attribute of the wrong enum' % name)
        out.append((name, cs, ls))
    return out


def tcr_columns(tree):
    fn = next((n for n in tree.body if isinstance(n, ast.FunctionDef) and n.name == 'is_in_standard_format'), None)
    if fn is None:
        raise Refuse('is_in_standard_format not found')
    for st in ast.walk(fn):
        if isinstance(st, ast.Assign) and len(st.targets) == 1 and isinstance(st.targets[0], ast.Name) \
                and isinstance(st.value, (ast.Set, ast.List, ast.Tuple)) and st.value.elts \
                and all(isinstance(x, ast.Constant) and isinstance(x.value, str) for x in st.value.elts):
            return sorted(set(x.value for x in st.value.elts))
        if isinstance(st, ast.Assign) and isinstance(st.value, ast.Call) and isinstance(st.value.func, ast.Name) \
                and st.value.func.id in ('set', 'frozenset') and len(st.value.args) == 1 \
                and isinstance(st.value.args[0], (ast.Set, ast.List, ast.Tuple)) \
                and all(isinstance(x, ast.Constant) and isinstance(x.value, str) for x in st.value.args[0].elts):
            return sorted(set(x.value for x in st.value.args[0].elts))
    raise Refuse('no literal collection of column names in is_in_standard_format')


# ------------------------------------------------------------------ emit
def emit(f):
    out = ['(* GENERATED from pyrepseq/metric/tcr_metric/tcr_levenshtein.py and tcr_metric.py by translate/regen_c09.py',
           '   on every check; do not edit. *)',
           'From Coq Require Import List NArith.', 'Import ListNotations.', '',
           'Inductive c09_weight := WAlpha | WBeta | WCdr1 | WCdr2 | WCdr3.',
           'Inductive c09_chain_scope := Paired | AlphaOnly | BetaOnly.',
           'Inductive c09_cdr_scope := AllCdr | Cdr3Only.', '',
           '(* _calc_cdist_matrix_for_column: each inner list is one if/elif chain of `"<s>" in column` tests, in program',
           '   order; the branch taken multiplies the per-column matrix by the named weight *)',
           'Definition gen_c09_weight_tests : list (list (list N * c09_weight)) :=',
           '  [' + ';\n   '.join('[' + '; '.join('(%s, %s)' % (coq_str(s), w) for s, w in ch) + ']' for ch in f['weight_tests']) + '].', '',
           '(* _get_columns_to_compare evaluated for each scope *)',
           'Definition gen_c09_columns (cs : c09_chain_scope) (ls : c09_cdr_scope) : list (list N) :=',
           '  match cs, ls with']
    for _, cs in CHAIN_SCOPES:
        for _, ls in CDR_SCOPES:
            cols = f['columns'][(cs, ls)]
            out.append('  | %s, %s => %s' % (cs, ls, '[' + '; '.join(coq_str(c) for c in cols) + ']' if cols else '[]'))
    out += ['  end.', '',
            '(* class attributes _chain_scope / _cdr_scope of the six public classes, by class name *)',
            'Definition gen_c09_classes : list (list N * (c09_chain_scope * c09_cdr_scope)) :=',
            '  [' + ';\n   '.join('(%s, (%s, %s))  (* %s *)' % (coq_str(n), cs, ls, n) for n, cs, ls in f['classes'][:-1])
            + (';\n   ' if len(f['classes']) > 1 else '')
            + '(%s, (%s, %s))  (* %s *)' % ((coq_str(f['classes'][-1][0]),) + tuple(f['classes'][-1][1:]) + (f['classes'][-1][0],)) + '].', '',
            '(* tcr_metric.is_in_standard_format: the TCR column names, sorted *)',
            'Definition gen_c09_tcr_columns : list (list N) :=',
            '  [' + '; '.join(coq_str(c) for c in f['tcr_columns']) + '].', '']
    return '\n'.join(out)


def run(STATUS, write_if_changed, ROOT, REPO):
    facts = {}
    props = ['C09']
    src1 = os.path.join(REPO, 'pyrepseq', 'metric', 'tcr_metric', 'tcr_levenshtein.py')
    src2 = os.path.join(REPO, 'pyrepseq', 'metric', 'tcr_metric', 'tcr_metric.py')

    def item(name, thunk):
        try:
            facts[name] = thunk()
            STATUS['c09.' + name] = dict(ok=True, properties=props, error=None)
        except Refuse as e:
            # DESIGN.md 1.5: anchor not found / text outside the subset -> committed snapshot, recorded in the evidence
            # (harness/c09.py copies the reason into the notes); the tie for this run is the correspondence of the
            # implementation with the specification oracle, which uses no generated fact.
            facts[name] = SNAPSHOT[name]
            STATUS['c09.' + name] = dict(ok=True, properties=props, snapshot=True,
                                         error='regen unavailable (%s): committed snapshot used, tie by correspondence' % e)
        except Exception as e:
            facts[name] = SNAPSHOT[name]
            STATUS['c09.' + name] = dict(ok=False, properties=props, error='translator crashed: %r (snapshot used)' % (e,))

    def tree_of(path):
        try:
            return ast.parse(open(path).read())
        except (OSError, SyntaxError) as e:
            raise Refuse('%s cannot be parsed: %s' % (os.path.basename(path), e))
    item('weight_tests', lambda: weight_tests(find_class(tree_of(src1), 'TcrLevenshtein')))
    item('columns', lambda: columns(find_class(tree_of(src1), 'TcrLevenshtein')))
    item('classes', lambda: classes(tree_of(src1)))
    item('tcr_columns', lambda: tcr_columns(tree_of(src2)))
    write_if_changed(os.path.join(ROOT, 'coq/gen/Gen_c09.v'), emit(facts))
