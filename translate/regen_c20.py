"""C20 effect-summary translator: pyrepseq/**/*.py -> coq/gen/Gen_c20.v (fail-closed).

Per callable of every pyrepseq module a conservative syntactic summary:
  * module globals read / written, in program order, as a structured effect (Seq / Alt / Loop) so that
    Coq computes which reads are dominated by a write of the same call (callees inlined, function
    references and nested functions treated as callbacks that may run any number of times);
  * mutating operations (subscript / attribute store, augmented assignment, del, mutator methods,
    inplace=True, out=, known in-place library calls) applied to a parameter, to an alias of one
    (views, elements, pass-through calls such as np.asarray; aliases die on rebinding to a fresh
    object: literals, constructor calls, .copy(), dict(...), results of non-in-place library calls),
    to a default object, or to a module-level object; propagated through calls inside pyrepseq;
  * switches of PROCESS-WIDE settings of other libraries (np.seterr, warnings filters, rcParams, pandas options,
    os.environ, cwd, ...) that are not restored on every exit (try/finally or the library's context manager);
  * use of NumPy's global generator; constructs that cannot be classified (exec, eval of arbitrary
    text, globals(), ...), which Coq treats as possible mutation of everything the callable sees.
Abstract value of an expression: (direct, inner) - the tracked objects it may BE / may CONTAIN.
Assumption (third-party contract, validated dynamically by harness/c20.py): library functions outside
the lists below neither mutate their arguments nor return them."""
import ast, os

MUTATORS = {'update', 'append', 'extend', 'insert', 'pop', 'popitem', 'remove', 'clear', 'sort', 'reverse',
            'setdefault', 'add', 'discard', 'fill', 'put', 'itemset', 'resize', 'setflags', 'appendleft',
            'extendleft', 'popleft', 'intersection_update', 'difference_update', 'symmetric_difference_update',
            '__setitem__', '__delitem__', 'setfield', 'byteswap_inplace'}
INPLACE_FUNCS = {'numpy.random.shuffle': 0, 'numpy.fill_diagonal': 0, 'numpy.put': 0, 'numpy.place': 0,
                 'numpy.putmask': 0, 'numpy.copyto': 0, 'numpy.put_along_axis': 0, 'random.shuffle': 0,
                 'heapq.heappush': 0, 'heapq.heappop': 0, 'heapq.heapify': 0, 'bisect.insort': 0,
                 'setattr': 0, 'delattr': 0, 'numpy.add.at': 0, 'numpy.ndarray.sort': 0}
PASSTHROUGH = {'numpy.asarray', 'numpy.asanyarray', 'numpy.ascontiguousarray', 'numpy.asfortranarray',
               'numpy.atleast_1d', 'numpy.atleast_2d', 'numpy.ravel', 'numpy.reshape', 'numpy.squeeze',
               'numpy.transpose', 'numpy.swapaxes', 'numpy.broadcast_to', 'numpy.diagonal', 'numpy.real',
               'pandas.DataFrame', 'pandas.Series', 'pandas.Index', 'pandas.core.frame.DataFrame',
               'iter', 'reversed', 'getattr', 'copy.copy'}
ELEMENT_FUNCS = {'next', 'max', 'min', 'sum', 'functools.reduce'}
CONTAINER_FUNCS = {'list', 'tuple', 'set', 'frozenset', 'dict', 'sorted', 'zip', 'enumerate', 'map', 'filter',
                   'collections.OrderedDict', 'collections.defaultdict', 'collections.deque'}
VIEW_METHODS = {'to_numpy', 'view', 'reshape', 'ravel', 'squeeze', 'transpose', 'swapaxes', 'get', 'values',
                'items', 'keys', 'item', 'iterrows', 'itertuples', 'head', 'tail', 'tolist', '__getitem__',
                '__iter__', 'as_clustering', 'get_group', 'first', 'last', 'flatten_view', 'diagonal'}
UNCLASSIFIABLE = {'exec', 'globals', 'locals', 'vars', 'compile', '__import__', 'importlib.import_module',
                  'importlib.reload', 'ctypes'}
# Decorators (and module-level wrappers `g = deco(f)`) that hand the call through without keeping results.  Every
# OTHER decorator on a pyrepseq callable - functools.lru_cache / cache, cachetools, joblib Memory.cache, a home-made
# memoize, anything unknown - may keep the returned object and hand the SAME object to a later call: the result is then
# a module-level object shared between calls (token ('G', '<callable>:cache')), and an in-place operation on it is a
# mutation of module-level state.  Memoisation alone stays pure (filling the cache is not observable).
TRANSPARENT_DECORATORS = {'staticmethod', 'classmethod', 'property', 'abstractmethod', 'abstractproperty',
                          'abstractclassmethod', 'abstractstaticmethod', 'wraps', 'overload', 'final', 'override',
                          'setter', 'getter', 'deleter', 'jit', 'njit', 'vectorize', 'guvectorize', 'contextmanager',
                          'asynccontextmanager', 'singledispatch', 'singledispatchmethod', 'register',
                          'total_ordering', 'deprecated', 'no_type_check', 'partial', 'partialmethod', 'dataclass'}
# PROCESS-WIDE state outside pyrepseq's own modules (round 3): library calls that switch a setting of the whole
# interpreter.  Such a call leaves module-level state changed for every later call (NumPy's floating-point error mode
# decides whether 0/0 is nan or FloatingPointError) unless the function restores it ON EVERY EXIT: the call sits in /
# directly before a `try` whose `finally` calls a setter of the same state again, or inside a `with` block of the
# library's own restoring context manager.  A restore that is merely the next statement is skipped when anything in
# between raises, so it does not count.  Token: ('G', '<process>:<state>') in `module objects mutated`.
PROCESS_SETTERS = {
    'numpy.seterr': 'numpy.errstate', 'numpy.seterrcall': 'numpy.errstate', 'numpy.setbufsize': 'numpy.errstate',
    'numpy.set_printoptions': 'numpy.printoptions', 'numpy.set_string_function': 'numpy.printoptions',
    'warnings.filterwarnings': 'warnings.filters', 'warnings.simplefilter': 'warnings.filters',
    'warnings.resetwarnings': 'warnings.filters',
    'matplotlib.pyplot.ion': 'matplotlib.interactive', 'matplotlib.pyplot.ioff': 'matplotlib.interactive',
    'matplotlib.interactive': 'matplotlib.interactive',
    'matplotlib.rc': 'matplotlib.rcParams', 'matplotlib.pyplot.rc': 'matplotlib.rcParams',
    'matplotlib.rcdefaults': 'matplotlib.rcParams', 'matplotlib.pyplot.rcdefaults': 'matplotlib.rcParams',
    'matplotlib.rc_file': 'matplotlib.rcParams', 'matplotlib.rc_file_defaults': 'matplotlib.rcParams',
    'matplotlib.use': 'matplotlib.rcParams', 'matplotlib.pyplot.switch_backend': 'matplotlib.rcParams',
    'matplotlib.style.use': 'matplotlib.rcParams', 'matplotlib.pyplot.style.use': 'matplotlib.rcParams',
    'matplotlib.pyplot.xkcd': 'matplotlib.rcParams',
    'seaborn.set': 'matplotlib.rcParams', 'seaborn.set_theme': 'matplotlib.rcParams', 'seaborn.set_style': 'matplotlib.rcParams',
    'seaborn.set_context': 'matplotlib.rcParams', 'seaborn.set_palette': 'matplotlib.rcParams',
    'seaborn.reset_defaults': 'matplotlib.rcParams', 'seaborn.reset_orig': 'matplotlib.rcParams',
    'pandas.set_option': 'pandas.options', 'pandas.reset_option': 'pandas.options',
    'os.chdir': 'os.cwd', 'os.fchdir': 'os.cwd', 'os.putenv': 'os.environ', 'os.unsetenv': 'os.environ', 'os.umask': 'os.umask',
    'random.seed': 'python.random', 'random.setstate': 'python.random', 'igraph.set_random_number_generator': 'python.random',
    'locale.setlocale': 'locale', 'sys.setrecursionlimit': 'sys.recursionlimit', 'sys.setswitchinterval': 'sys.switchinterval',
    'decimal.setcontext': 'decimal.context', 'logging.disable': 'logging', 'logging.basicConfig': 'logging',
    'numpy.random.set_state': 'numpy.random', 'numpy.random.set_bit_generator': 'numpy.random',
}
# objects of other libraries that ARE such a setting: item / attribute assignment, del and mutator methods on them
PROCESS_OBJECTS = {
    'os.environ': 'os.environ', 'matplotlib.rcParams': 'matplotlib.rcParams', 'matplotlib.pyplot.rcParams': 'matplotlib.rcParams',
    'matplotlib.rcParamsDefault': 'matplotlib.rcParams', 'warnings.filters': 'warnings.filters', 'pandas.options': 'pandas.options',
    'sys.path': 'sys.path', 'sys.modules': 'sys.modules', 'sys.argv': 'sys.argv', 'sys.stdout': 'sys.stdout', 'sys.stderr': 'sys.stderr',
}
# `with <guard>(...):` restores the state on every exit
PROCESS_GUARDS = {
    'warnings.catch_warnings': 'warnings.filters', 'numpy.errstate': 'numpy.errstate', 'numpy.printoptions': 'numpy.printoptions',
    'matplotlib.rc_context': 'matplotlib.rcParams', 'matplotlib.pyplot.rc_context': 'matplotlib.rcParams',
    'matplotlib.style.context': 'matplotlib.rcParams', 'matplotlib.pyplot.style.context': 'matplotlib.rcParams',
    'seaborn.axes_style': 'matplotlib.rcParams', 'seaborn.plotting_context': 'matplotlib.rcParams',
    'pandas.option_context': 'pandas.options', 'contextlib.chdir': 'os.cwd',
    'contextlib.redirect_stdout': 'sys.stdout', 'contextlib.redirect_stderr': 'sys.stderr',
    'decimal.localcontext': 'decimal.context',
}
BOT = (frozenset(), frozenset())


class Refuse(Exception):
    pass


def join(a, b):
    return (a[0] | b[0], a[1] | b[1])


def allof(a):
    return a[0] | a[1]


# ------------------------------------------------------------------ effect trees
def seq(*es):
    out = None
    for e in es:
        if e == ('skip',):
            continue
        if out is not None and e[0] == 'loop' and (out == e or (out[0] == 'seq' and out[2] == e)):
            continue        # loop x ; loop x  =  loop x
        out = e if out is None else ('seq', out, e)
    return out or ('skip',)


def alt(a, b):
    if a == b:
        return a
    return ('alt', a, b)


def loop(a):
    while a[0] == 'alt' and (a[2] == ('skip',) or a[1] == ('skip',)):
        a = a[1] if a[2] == ('skip',) else a[2]      # loop (x | skip) = loop x
    return ('skip',) if a == ('skip',) else (a if a[0] == 'loop' else ('loop', a))


def esize(e):
    return 1 + sum(esize(x) for x in e[1:] if isinstance(x, tuple))


def eatoms(e, out):
    if e[0] in ('read', 'write'):
        out.add(e)
    else:
        for x in e[1:]:
            if isinstance(x, tuple):
                eatoms(x, out)
    return out


def collapse(e):
    """Conservative flattening of an oversized tree: any of its reads / writes, any number of times."""
    atoms = sorted(eatoms(e, set()))
    t = ('skip',)
    for a in atoms:
        t = ('alt', a, t)
    return loop(t)


def ecoq(e):
    k = e[0]
    if k == 'skip':
        return 'ESkip'
    if k in ('read', 'write'):
        return '(%s %s)' % ('ERead' if k == 'read' else 'EWrite', cstr(e[1]))
    if k == 'loop':
        return '(ELoop %s)' % ecoq(e[1])
    return '(%s %s %s)' % ('ESeq' if k == 'seq' else 'EAlt', ecoq(e[1]), ecoq(e[2]))


def cstr(s):
    return '"' + s.replace('"', '""') + '"'


def clist(xs):
    return '[' + '; '.join(cstr(x) for x in xs) + ']'


# ------------------------------------------------------------------ program model
class Module:
    def __init__(self, name, tree):
        self.name, self.tree = name, tree
        self.imports = {}      # local name -> ('ext', dotted) | ('py', module, name) | ('pymod', module)
        self.stars = []        # pyrepseq modules star-imported
        self.funcs = {}        # top-level function name -> qual
        self.classes = {}      # class name -> {method: qual}
        self.bases = {}        # class name -> [base names]
        self.globals = set()   # module-level data names


class Func:
    def __init__(self, qual, module, node, cls=None):
        self.qual, self.module, self.node, self.cls = qual, module, node, cls
        a = node.args
        self.params = [x.arg for x in a.posonlyargs + a.args] + ([a.vararg.arg] if a.vararg else []) + \
                      [x.arg for x in a.kwonlyargs] + ([a.kwarg.arg] if a.kwarg else [])
        self.positional = [x.arg for x in a.posonlyargs + a.args]
        self.fresh_params = {x.arg for x in (a.vararg, a.kwarg) if x}     # *args / **kwargs are per-call objects
        pos = a.posonlyargs + a.args
        dmap = dict(zip([x.arg for x in pos[len(pos) - len(a.defaults):]], a.defaults))
        dmap.update({x.arg: d for x, d in zip(a.kwonlyargs, a.kw_defaults) if d is not None})
        self.defaults = [p for p in self.params if p in dmap and not is_const(dmap[p])]
        name = node.name
        self.public = (not name.startswith('_') or name == '__init__') and (cls is None or not cls.startswith('_'))
        self.cached = [deco_name(d) for d in node.decorator_list if keeps_results(d)]   # see TRANSPARENT_DECORATORS
        self.summary = dict(mut=set(), mutglob=set(), ret=BOT, rng=False, unknown=[], eff=('skip',),
                            selfstate=False, notes=[])


def deco_name(d):
    """last component of a decorator / wrapper expression: lru_cache, functools.lru_cache(maxsize=None), memory.cache"""
    while isinstance(d, ast.Call):
        d = d.func
    if isinstance(d, ast.Attribute):
        return d.attr
    if isinstance(d, ast.Name):
        return d.id
    return '<%s>' % type(d).__name__


def keeps_results(d):
    return deco_name(d) not in TRANSPARENT_DECORATORS


def is_const(d):
    if isinstance(d, ast.Constant):
        return True
    if isinstance(d, ast.UnaryOp) and isinstance(d.operand, ast.Constant):
        return True
    if isinstance(d, ast.Tuple):
        return all(is_const(x) for x in d.elts)
    return False


class Program:
    def __init__(self, repo):
        self.mods, self.funcs, self.methods = {}, {}, {}
        base = os.path.join(repo, 'pyrepseq')
        for dp, dn, fn in sorted(os.walk(base)):
            dn.sort()
            for f in sorted(fn):
                if not f.endswith('.py'):
                    continue
                rel = os.path.relpath(os.path.join(dp, f), base)[:-3].replace(os.sep, '.')
                pkg = rel.endswith('__init__')
                name = rel[:-len('.__init__')] if rel.endswith('.__init__') else ('' if rel == '__init__' else rel)
                try:
                    tree = ast.parse(open(os.path.join(dp, f)).read())
                except SyntaxError as e:
                    raise Refuse('%s does not parse: %s' % (rel, e))
                m = Module(name, tree)
                m.pkg = pkg
                self.mods[name] = m
        for m in self.mods.values():
            self.scan(m)
        for m in self.mods.values():
            self.scan_wrappers(m)

    def absmod(self, m, level, modname):
        """pyrepseq-relative module name of an import, or None if external."""
        if level == 0:
            if modname == 'pyrepseq':
                return ''
            if modname and modname.startswith('pyrepseq.'):
                return modname[len('pyrepseq.'):]
            return None
        parts = m.name.split('.') if m.name else []
        if not m.pkg:
            parts = parts[:-1]
        if level > 1:
            parts = parts[:len(parts) - (level - 1)]
        return '.'.join(parts + (modname.split('.') if modname else []))

    def scan(self, m):
        for node in m.tree.body:
            self.scan_stmt(m, node)
        for node in ast.walk(m.tree):
            if isinstance(node, ast.Global):
                m.globals.update(node.names)

    def scan_wrappers(self, m):
        """module level `g = lru_cache(maxsize=None)(f)`, `f = memoize(f)`: g is f behind a wrapper that may keep results"""
        def toplevel(body):
            for st in body:
                yield st
                if isinstance(st, (ast.If, ast.Try, ast.With)):
                    for sub in ast.iter_child_nodes(st):
                        if isinstance(sub, ast.stmt):
                            yield from toplevel([sub])
                        elif isinstance(sub, ast.ExceptHandler):
                            yield from toplevel(sub.body)
        for node in toplevel(m.tree.body):
            if not (isinstance(node, ast.Assign) and isinstance(node.value, ast.Call) and len(node.value.args) == 1
                    and not node.value.keywords and isinstance(node.value.args[0], ast.Name)):
                continue
            r = self.resolve(m, node.value.args[0].id)
            if not r or r[0] != 'func' or not keeps_results(node.value.func):
                continue
            f = self.funcs[r[1]]
            name = deco_name(node.value.func)
            if name not in f.cached:
                f.cached.append(name)
            for t in node.targets:
                if isinstance(t, ast.Name) and t.id not in m.funcs and t.id not in m.classes:
                    m.funcs[t.id] = r[1]

    def scan_stmt(self, m, node):
        if isinstance(node, ast.Import):
            for a in node.names:
                m.imports[(a.asname or a.name.split('.')[0])] = ('ext', a.name if a.asname else a.name.split('.')[0])
        elif isinstance(node, ast.ImportFrom):
            tgt = self.absmod(m, node.level, node.module)
            for a in node.names:
                if tgt is None:
                    m.imports[a.asname or a.name] = ('ext', (node.module or '') + '.' + a.name)
                elif a.name == '*':
                    m.stars.append(tgt)
                else:
                    m.imports[a.asname or a.name] = ('py', tgt, a.name)
        elif isinstance(node, (ast.FunctionDef, ast.AsyncFunctionDef)):
            q = (m.name + '.' if m.name else '') + node.name
            m.funcs[node.name] = q
            self.funcs[q] = Func(q, m, node)
        elif isinstance(node, ast.ClassDef):
            m.classes[node.name] = {}
            m.bases[node.name] = [b.id if isinstance(b, ast.Name) else (b.attr if isinstance(b, ast.Attribute) else '?')
                                  for b in node.bases]
            for sub in node.body:
                if isinstance(sub, (ast.FunctionDef, ast.AsyncFunctionDef)):
                    q = (m.name + '.' if m.name else '') + node.name + '.' + sub.name
                    m.classes[node.name][sub.name] = q
                    self.funcs[q] = Func(q, m, sub, cls=node.name)
                    self.methods.setdefault(sub.name, []).append(q)
        elif isinstance(node, (ast.Assign, ast.AnnAssign, ast.AugAssign)):
            tgts = node.targets if isinstance(node, ast.Assign) else [node.target]
            for t in tgts:
                for n in ast.walk(t):
                    if isinstance(n, ast.Name):
                        m.globals.add(n.id)
        elif isinstance(node, (ast.Try, ast.If, ast.With)):
            for sub in ast.iter_child_nodes(node):
                if isinstance(sub, ast.stmt):
                    self.scan_stmt(m, sub)
                elif isinstance(sub, ast.ExceptHandler):
                    for s2 in sub.body:
                        self.scan_stmt(m, s2)

    def resolve(self, m, name, depth=0):
        """-> ('func', qual) | ('class', module, cname) | ('glob', qual) | ('ext', dotted) | ('pymod', mod) | None"""
        if depth > 6:
            return None
        if name in m.funcs:
            return ('func', m.funcs[name])
        if name in m.classes:
            return ('class', m.name, name)
        if name in m.imports:
            imp = m.imports[name]
            if imp[0] == 'ext':
                return imp
            tgt = imp[1]
            if tgt in self.mods:
                r = self.resolve(self.mods[tgt], imp[2], depth + 1)
                if r:
                    return r
                sub = (tgt + '.' if tgt else '') + imp[2]
                if sub in self.mods:
                    return ('pymod', sub)
            full = (tgt + '.' if tgt else '') + imp[2]
            if full in self.mods:
                return ('pymod', full)
            return ('ext', 'pyrepseq.' + full)
        if name in m.globals:
            return ('glob', (m.name + '.' if m.name else '') + name)
        for s in m.stars:
            if s in self.mods and not name.startswith('_'):
                r = self.resolve(self.mods[s], name, depth + 1)
                if r:
                    return r
        return None


# ------------------------------------------------------------------ per-function abstract interpretation
class Analyzer:
    def __init__(self, prog, fn):
        self.P, self.fn, self.m = prog, fn, fn.module
        self.mut, self.mutglob, self.unknown, self.notes = set(), set(), [], []
        self.rng, self.selfstate = False, False
        self.ret = BOT
        self.globals_decl = set()
        self.seen = {}          # name -> join of every value it ever held (for closures)
        self.nested = []        # nested defs / lambdas, re-analysed after the body with the closure environment
        self.local_effs = {}    # key of a nested def / lambda -> its global effect
        self.guards = []        # process-wide states that the enclosing statements restore on every exit
        self.nested_guards = {}  # nested def / lambda -> the guards in force where it was written

    # ---- recording
    def mutate(self, av, how, node):
        for tok in av[0]:
            if tok[0] == 'P':
                self.mut.add(tok[1])
                self.notes.append('%s: %s on parameter %s (line %d)' % (self.fn.qual, how, tok[1], getattr(node, 'lineno', 0)))
            elif tok[0] == 'G':
                self.mutglob.add(tok[1])
                what = ('the result of %s, which its wrapper %s may keep and hand to later calls (shared between calls)' % (
                    tok[1][:-len(':cache')], '/'.join(self.P.funcs[tok[1][:-len(':cache')]].cached))
                    if tok[1].endswith(':cache') and tok[1][:-len(':cache')] in self.P.funcs else 'module object ' + tok[1])
                self.notes.append('%s: %s on %s (line %d)' % (self.fn.qual, how, what, getattr(node, 'lineno', 0)))

    def process_state(self, state, how, node):
        """a switch of a process-wide setting; harmless only if the enclosing statements restore it on every exit"""
        if state in self.guards or '*' in self.guards:
            return
        self.mutglob.add('<process>:' + state)
        self.notes.append('%s: %s changes the process-wide state %s and is not restored on every exit (no try/finally or '
                          'restoring context manager around it): it stays changed for all later calls whenever the code in '
                          'between raises (line %d)' % (self.fn.qual, how, state, getattr(node, 'lineno', 0)))

    def process_object(self, env, node):
        """state token if the expression is (a part of) a process-wide object of another library, e.g. os.environ"""
        while isinstance(node, (ast.Attribute, ast.Subscript)):
            d = self.dotted(env, node) if isinstance(node, ast.Attribute) else None
            if d in PROCESS_OBJECTS:
                return PROCESS_OBJECTS[d]
            node = node.value
        return None

    def restored_states(self, env, stmts):
        """process-wide states that these statements (a `finally` block) set again"""
        out = set()
        for st in stmts:
            for x in ast.walk(st):
                if isinstance(x, ast.Call):
                    d = self.dotted(env, x.func)
                    if d in PROCESS_SETTERS:
                        out.add(PROCESS_SETTERS[d])
                    elif d is not None and d.rsplit('.', 1)[0] in PROCESS_OBJECTS and d.rsplit('.', 1)[-1] in MUTATORS:
                        out.add(PROCESS_OBJECTS[d.rsplit('.', 1)[0]])
                elif isinstance(x, (ast.Assign, ast.AugAssign, ast.Delete)):
                    for t in (x.targets if not isinstance(x, ast.AugAssign) else [x.target]):
                        if isinstance(t, (ast.Subscript, ast.Attribute)):
                            g = self.process_object(env, t.value)
                            if g:
                                out.add(g)
        return out

    def unk(self, what, node):
        self.unknown.append('%s (line %d)' % (what, getattr(node, 'lineno', 0)))

    # ---- names
    def lookup(self, env, name):
        if name in env:
            return ('val', env[name])
        r = self.P.resolve(self.m, name)
        return r

    def dotted(self, env, node):
        """external dotted name of an expression like np.random.shuffle, or None"""
        if isinstance(node, ast.Name):
            if node.id in env:
                return None
            r = self.P.resolve(self.m, node.id)
            if r is None:
                return node.id          # builtin
            if r[0] == 'ext':
                return r[1]
            return None
        if isinstance(node, ast.Attribute):
            b = self.dotted(env, node.value)
            return None if b is None else b + '.' + node.attr
        return None

    # ---- expressions: returns (abstract value, effect)
    def ev(self, env, node):
        if node is None:
            return BOT, ('skip',)
        meth = getattr(self, 'ev_' + type(node).__name__, None)
        if meth is None:
            self.unk('expression ' + type(node).__name__, node)
            return BOT, ('skip',)
        return meth(env, node)

    def evs(self, env, nodes):
        av, ef = BOT, ('skip',)
        for n in nodes:
            a, e = self.ev(env, n)
            av, ef = join(av, a), seq(ef, e)
        return av, ef

    def ev_Constant(self, env, n):
        return BOT, ('skip',)

    def ev_JoinedStr(self, env, n):
        _, e = self.evs(env, [v.value for v in n.values if isinstance(v, ast.FormattedValue)])
        return BOT, e

    def ev_FormattedValue(self, env, n):
        _, e = self.ev(env, n.value)
        return BOT, e

    def ev_Name(self, env, n):
        r = self.lookup(env, n.id)
        if r is None:
            return BOT, ('skip',)
        if r[0] == 'val':
            return r[1], ('skip',)
        if r[0] == 'glob':
            return (frozenset([('G', r[1])]), frozenset()), ('read', r[1])
        if r[0] == 'func':          # reference to a function: a callback, invoked where the value is used
            return (frozenset([('F', r[1])]), frozenset()), ('skip',)
        return BOT, ('skip',)

    def ev_Attribute(self, env, n):
        r = self.module_attr(env, n)
        if r is not None:
            return r
        if n.attr in ('__globals__', '__defaults__', '__kwdefaults__', '__code__'):
            self.unk('access to ' + n.attr, n)
        a, e = self.ev(env, n.value)
        s = allof(a)
        return (s, s), e

    def module_attr(self, env, n):
        """mod.name where mod is a pyrepseq module object"""
        if isinstance(n.value, ast.Name) and n.value.id not in env:
            r = self.P.resolve(self.m, n.value.id)
            if r and r[0] == 'pymod' and r[1] in self.P.mods:
                r2 = self.P.resolve(self.P.mods[r[1]], n.attr)
                if r2 and r2[0] == 'glob':
                    return (frozenset([('G', r2[1])]), frozenset()), ('read', r2[1])
                if r2 and r2[0] == 'func':
                    return (frozenset([('F', r2[1])]), frozenset()), ('skip',)
                return BOT, ('skip',)
        return None

    def ev_Subscript(self, env, n):
        a, e1 = self.ev(env, n.value)
        _, e2 = self.ev(env, n.slice)
        s = allof(a)
        return (s, s), seq(e1, e2)

    def ev_Slice(self, env, n):
        _, e = self.evs(env, [x for x in (n.lower, n.upper, n.step) if x is not None])
        return BOT, e

    def ev_Starred(self, env, n):
        a, e = self.ev(env, n.value)
        s = allof(a)
        return (s, s), e

    def container(self, env, elts):
        a, e = self.evs(env, elts)
        return (frozenset(), allof(a)), e

    def ev_List(self, env, n):
        return self.container(env, n.elts)
    ev_Tuple = ev_Set = ev_List

    def ev_Dict(self, env, n):
        return self.container(env, [x for x in list(n.keys) + list(n.values) if x is not None])

    def ev_BinOp(self, env, n):
        av, e = self.evs(env, [n.left, n.right])
        if isinstance(n.op, (ast.Add, ast.Mult)):
            # `[f] * k`, `[f] + [g]`, `(f,) + t`: a NEW container that holds the same callables (data elements of an arithmetic result are
            # fresh values and are not followed) - without this a default table of functions built by list arithmetic loses its callables
            # and the callee's effects with them (harmless rewrite C20-g2: `[labels_to_colors_hls] * (n_meta + 1)`)
            held = frozenset(t for t in av[1] if t[0] in ('F', 'L'))
            return (frozenset(), held), e
        return BOT, e

    def ev_UnaryOp(self, env, n):
        _, e = self.ev(env, n.operand)
        return BOT, e

    def ev_Compare(self, env, n):
        _, e = self.evs(env, [n.left] + list(n.comparators))
        return BOT, e

    def ev_BoolOp(self, env, n):
        a, e0 = self.ev(env, n.values[0])
        ef = e0
        for v in n.values[1:]:
            b, e = self.ev(env, v)
            a, ef = join(a, b), seq(ef, alt(e, ('skip',)))
        return a, ef

    def ev_IfExp(self, env, n):
        _, e0 = self.ev(env, n.test)
        a, e1 = self.ev(env, n.body)
        b, e2 = self.ev(env, n.orelse)
        return join(a, b), seq(e0, alt(e1, e2))

    def ev_NamedExpr(self, env, n):
        a, e = self.ev(env, n.value)
        self.bind(env, n.target.id, a)
        return a, e

    def ev_Lambda(self, env, n):
        self.nested.append(n)
        key = '%s@%d:%d' % (self.fn.qual, n.lineno, n.col_offset)
        self.local_effs[key] = self.nested_eff(env, n)
        return (frozenset([('L', key)]), frozenset()), ('skip',)

    def invoke(self, av, node, argav=BOT):
        """The callables held in av may be run (any number of times) from here on."""
        ef = ('skip',)
        for tok in sorted(av[0]):      # the value itself is a callable (callables buried in containers are not followed)
            if tok[0] == 'F':
                s = self.P.funcs[tok[1]].summary
                for p in s['mut']:      # a callback is fed with pieces of the other arguments
                    self.mutate(argav, 'mutation inside callback %s (its parameter %s)' % (tok[1], p), node)
                self.mutglob |= s['mutglob']
                self.rng = self.rng or s['rng']
                for u in s['unknown']:
                    u2 = u if u.startswith('[') else '[%s] %s' % (tok[1], u)
                    if u2 not in self.unknown:
                        self.unknown.append(u2)
                ef = alt(s['eff'], ef) if s['eff'] != ('skip',) else ef
            elif tok[0] == 'L':
                e = self.local_effs.get(tok[1], ('skip',))
                ef = alt(e, ef) if e != ('skip',) else ef
        return loop(ef)

    def ev_Yield(self, env, n):
        a, e = self.ev(env, n.value)
        self.ret = join(self.ret, (frozenset(), allof(a)))
        return BOT, e
    ev_YieldFrom = ev_Yield

    def ev_Await(self, env, n):
        return self.ev(env, n.value)

    def comp(self, env, n, elts):
        env2 = dict(env)
        ef = ('skip',)
        for g in n.generators:
            a, e = self.ev(env2, g.iter)
            s = allof(a)
            self.assign(env2, g.target, (s, s), g)
            _, e2 = self.evs(env2, g.ifs)
            ef = seq(ef, e, loop(e2))
        a, e = self.evs(env2, elts)
        return (frozenset(), allof(a)), seq(ef, loop(e))

    def ev_ListComp(self, env, n):
        return self.comp(env, n, [n.elt])
    ev_SetComp = ev_GeneratorExp = ev_ListComp

    def ev_DictComp(self, env, n):
        return self.comp(env, n, [n.key, n.value])

    # ---- calls
    def ev_Call(self, env, n):
        args = [self.ev(env, a) for a in n.args]
        kws = [(k.arg, self.ev(env, k.value), k.value) for k in n.keywords]
        aeff = seq(*([e for _, e in args] + [e for _, (_, e), _ in kws]))
        allargs = BOT
        for a, _ in args:
            allargs = join(allargs, a)
        for _, (a, _), _ in kws:
            allargs = join(allargs, a)
        kwconst = {k: v.value for k, _, v in kws if k and isinstance(v, ast.Constant)}
        f = n.func
        # out= : the array named there is written
        for k, (a, _), _ in kws:
            if k == 'out':
                self.mutate(a, 'out= of a library call', n)
        aeff = seq(aeff, self.invoke(allargs, n, allargs))      # callables passed along may be run by the callee
        # ---- callee inside pyrepseq (function, class, module attribute)
        tgt = None
        if isinstance(f, ast.Name) and f.id not in env:
            tgt = self.P.resolve(self.m, f.id)
        elif isinstance(f, ast.Attribute) and isinstance(f.value, ast.Name) and f.value.id not in env:
            r = self.P.resolve(self.m, f.value.id)
            if r and r[0] == 'pymod' and r[1] in self.P.mods:
                tgt = self.P.resolve(self.P.mods[r[1]], f.attr) or ('ext', 'pyrepseq.' + r[1] + '.' + f.attr)
        if tgt and tgt[0] == 'func':
            av, e = self.apply([tgt[1]], None, n, args, kws)
            return av, seq(aeff, e)
        if tgt and tgt[0] == 'class':
            init = self.find_method(tgt[1], tgt[2], '__init__')
            if init:
                av, e = self.apply([init], BOT, n, args, kws)
            else:
                e = ('skip',)
            return (frozenset(), allof(allargs)), seq(aeff, e)
        # ---- external function by dotted name
        d = self.dotted(env, f)
        if d is not None:
            return self.external(env, n, d, args, kws, kwconst, allargs, aeff)
        # ---- method call on an object
        if isinstance(f, ast.Attribute):
            is_super = isinstance(f.value, ast.Call) and isinstance(f.value.func, ast.Name) and f.value.func.id == 'super'
            if is_super:
                recv, e0 = env.get('self', BOT), ('skip',)
            else:
                recv, e0 = self.ev(env, f.value)
            m = f.attr
            if m in ('__dict__',):
                self.unk('call through __dict__', n)
            cands = [q for q in self.P.methods.get(m, []) if not (is_super and self.P.funcs[q].cls == self.fn.cls)]
            if cands:
                av, e = self.apply(cands, recv, n, args, kws)
                if is_super:     # the base class may be a library class
                    av = join(av, BOT)
                return av, seq(e0, aeff, e)
            if kwconst.get('inplace') is True or (any(k == 'inplace' for k, _, _ in kws) and 'inplace' not in kwconst):
                self.mutate(recv, '.%s(inplace=True)' % m, n)
            if m in MUTATORS:
                self.mutate(recv, 'mutator method .%s()' % m, n)
                s = allof(recv) if m in ('pop', 'popitem', 'setdefault', 'popleft') else frozenset()
                return (s, s), seq(e0, aeff)
            if m == 'sample' and not any(k == 'random_state' for k, _, _ in kws):
                self.rng = True
            if m in VIEW_METHODS or kwconst.get('copy') is False:
                s = allof(recv)
                return (s, s), seq(e0, aeff)
            if m in ('copy', '__copy__'):
                return (frozenset(), allof(recv)), seq(e0, aeff)
            return BOT, seq(e0, aeff)
        # ---- call of a computed callable (a local holding a function, a call result, ...)
        fa, e0 = self.ev(env, f)
        quals = sorted(t[1] for t in allof(fa) if t[0] == 'F')
        out, e1 = BOT, ('skip',)
        if quals:
            out, e1 = self.apply(quals, None, n, args, kws)
        e2 = self.invoke((frozenset(t for t in allof(fa) if t[0] == 'L'), frozenset()), n, allargs)
        return out, seq(e0, aeff, alt(e1, e2) if quals else e2)

    def external(self, env, n, d, args, kws, kwconst, allargs, aeff):
        base = d.split('.')[0]
        if d in UNCLASSIFIABLE or base in ('ctypes',):
            self.unk('call of ' + d, n)
        if d == 'eval':
            ok = False
            if n.args and isinstance(n.args[0], (ast.JoinedStr, ast.Constant)):
                v = n.args[0]
                head = v.value if isinstance(v, ast.Constant) else (
                    v.values[0].value if v.values and isinstance(v.values[0], ast.Constant) else '')
                import re
                mm = re.match(r'^([A-Za-z_]\w*)\.[A-Za-z_]\w*$', head) if isinstance(head, str) else None
                if mm:          # eval(f'obj.prefix{...}') is an attribute lookup on obj
                    ok = True
                    a = env.get(mm.group(1), BOT)
                    s = allof(a)
                    return (s, s), aeff
            if not ok:
                self.unk('eval of arbitrary text', n)
        if d.startswith('numpy.random.') or d.startswith('random.') or d.startswith('scipy.stats.') and d.endswith('.rvs'):
            if d.split('.')[-1] not in ('RandomState', 'default_rng', 'Generator', 'get_state'):
                self.rng = True
        if d in INPLACE_FUNCS and len(args) > INPLACE_FUNCS[d]:
            self.mutate(args[INPLACE_FUNCS[d]][0], 'in-place library call %s' % d, n)
        if d in PROCESS_SETTERS:
            self.process_state(PROCESS_SETTERS[d], 'library call %s' % d, n)
        elif d.rsplit('.', 1)[0] in PROCESS_OBJECTS and d.rsplit('.', 1)[-1] in MUTATORS:
            self.process_state(PROCESS_OBJECTS[d.rsplit('.', 1)[0]], 'mutator method %s()' % d, n)
        first = args[0][0] if args else next((a for k, (a, _), _ in kws if k in ('data', 'a', 'object')), BOT)
        if d in PASSTHROUGH or kwconst.get('copy') is False:
            return first, aeff
        if d in ELEMENT_FUNCS:
            s = allof(allargs)
            return (s, s), aeff
        if d in CONTAINER_FUNCS or d.startswith('itertools.'):
            return (frozenset(), allof(allargs)), aeff
        return BOT, aeff

    def find_method(self, mod, cname, mname, depth=0):
        m = self.P.mods.get(mod)
        if m is None or cname not in m.classes or depth > 8:
            return None
        if mname in m.classes[cname]:
            return m.classes[cname][mname]
        for b in m.bases.get(cname, []):
            r = self.P.resolve(m, b)
            if r and r[0] == 'class':
                q = self.find_method(r[1], r[2], mname, depth + 1)
                if q:
                    return q
        return None

    def apply(self, quals, recv, n, args, kws):
        """Apply the summaries of the candidate callees (joined) to the actual arguments."""
        out, effs = BOT, []
        for q in quals:
            cal = self.P.funcs[q]
            s = cal.summary
            pos = list(cal.positional)
            bound = {}
            if recv is not None and pos:
                bound[pos[0]] = recv
                pos = pos[1:]
            spill = BOT
            for i, (a, _) in enumerate(args):
                if isinstance(n.args[i], ast.Starred) or i >= len(pos):
                    spill = join(spill, a)
                else:
                    bound[pos[i]] = join(bound.get(pos[i], BOT), a)
            for k, (a, _), _ in kws:
                if k is None or k not in cal.params:
                    spill = join(spill, a)
                else:
                    bound[k] = join(bound.get(k, BOT), a)
            if spill != BOT:          # cannot tell where these land: every parameter may receive them
                for p in cal.params:
                    if p not in cal.fresh_params or p not in bound:
                        bound[p] = join(bound.get(p, BOT), spill)
            for p in s['mut']:
                self.mutate(bound.get(p, BOT), 'mutation inside %s (its parameter %s)' % (q, p), n)
            for g in s['mutglob']:
                self.mutglob.add(g)
            self.rng = self.rng or s['rng']
            for u in s['unknown']:
                u2 = u if u.startswith('[') else '[%s] %s' % (q, u)
                if u2 not in self.unknown:
                    self.unknown.append(u2)
            rd, ri = s['ret']
            d, i = set(), set()
            for tok in rd:
                if tok[0] == 'P':
                    d |= bound.get(tok[1], BOT)[0]
                    i |= bound.get(tok[1], BOT)[1]
                else:
                    d.add(tok)
            for tok in ri:
                if tok[0] == 'P':
                    i |= allof(bound.get(tok[1], BOT))
                else:
                    i.add(tok)
            out = join(out, (frozenset(d), frozenset(i)))
            effs.append(s['eff'])
        e = effs[0]
        for x in effs[1:]:
            e = alt(e, x) if x != e else e
        return out, e

    # ---- statements
    def bind(self, env, name, av):
        env[name] = av
        self.seen[name] = join(self.seen.get(name, BOT), av)

    def store_into(self, env, target, node):
        """target is a Subscript / Attribute being assigned or deleted: its base object is mutated."""
        base = target.value
        if isinstance(target, ast.Attribute) and isinstance(base, ast.Name) and base.id == 'self' \
                and self.fn.cls is not None and self.fn.positional[:1] == ['self']:
            self.selfstate = True       # rebinding an attribute of the receiver: object state, not an argument
            return ('skip',)
        a, e = self.ev(env, base)
        self.mutate(a, 'item assignment' if isinstance(target, ast.Subscript) else 'attribute assignment', node)
        pg = self.process_object(env, base)
        if pg:
            self.process_state(pg, 'assignment into %s' % (self.dotted(env, base) or pg), node)
        if isinstance(target, ast.Subscript):
            _, e2 = self.ev(env, target.slice)
            e = seq(e, e2)
        # a store into a module-level object is a read-modify-write of that global
        for tok in a[0]:
            if tok[0] == 'G':
                e = seq(e, ('read', tok[1]), ('write', tok[1]))
        return e

    def assign(self, env, target, av, node, value_node=None):
        if isinstance(target, ast.Name):
            if target.id in self.globals_decl:
                q = (self.m.name + '.' if self.m.name else '') + target.id
                return ('write', q)
            self.bind(env, target.id, av)
            return ('skip',)
        if isinstance(target, (ast.Tuple, ast.List)):
            ef = ('skip',)
            if isinstance(value_node, (ast.Tuple, ast.List)) and len(value_node.elts) == len(target.elts) \
                    and not any(isinstance(x, ast.Starred) for x in list(target.elts) + list(value_node.elts)):
                for t, v in zip(target.elts, value_node.elts):
                    a, _ = self.ev(env, v)
                    ef = seq(ef, self.assign(env, t, a, node, v))
                return ef
            s = allof(av)
            for t in target.elts:
                ef = seq(ef, self.assign(env, t.value if isinstance(t, ast.Starred) else t, (s, s), node))
            return ef
        if isinstance(target, (ast.Subscript, ast.Attribute)):
            ef = self.store_into(env, target, node)
            if isinstance(value_node, ast.Name) and value_node.id in env and not (
                    isinstance(target, ast.Attribute) and isinstance(target.value, ast.Name) and target.value.id == 'self'):
                # `_memo[key] = ans`: from here on the local IS an object kept at module level (memo dictionary)
                base, _ = self.ev(env, target.value)
                g = frozenset(t for t in allof(base) if t[0] == 'G')
                if g:
                    self.bind(env, value_node.id, join(env[value_node.id], (g, g)))
            return ef
        self.unk('assignment target ' + type(target).__name__, node)
        return ('skip',)

    def block(self, env, stmts):
        ef = ('skip',)
        for i, s in enumerate(stmts):
            nxt = stmts[i + 1] if i + 1 < len(stmts) else None
            # `old = np.seterr(...)` DIRECTLY before `try: ... finally: np.seterr(**old)` is the restoring idiom
            g = sorted(self.restored_states(env, nxt.finalbody)) if isinstance(nxt, ast.Try) and nxt.finalbody \
                and isinstance(s, (ast.Assign, ast.AnnAssign, ast.Expr)) else []
            self.guards.extend(g)
            ef = seq(ef, self.stmt(env, s))
            if g:
                del self.guards[-len(g):]
        return ef

    @staticmethod
    def merge(envs):
        out = {}
        for e in envs:
            for k, v in e.items():
                out[k] = join(out.get(k, BOT), v)
        return out

    def stmt(self, env, s):
        meth = getattr(self, 'st_' + type(s).__name__, None)
        if meth is None:
            self.unk('statement ' + type(s).__name__, s)
            return ('skip',)
        return meth(env, s)

    def st_Expr(self, env, s):
        return self.ev(env, s.value)[1]

    def st_Pass(self, env, s):
        return ('skip',)
    st_Break = st_Continue = st_Import = st_ImportFrom = st_Nonlocal = st_Pass

    def st_Global(self, env, s):
        self.globals_decl.update(s.names)
        return ('skip',)

    def st_Assign(self, env, s):
        av, e = self.ev(env, s.value)
        for t in s.targets:
            e = seq(e, self.assign(env, t, av, s, s.value))
        return e

    def st_AnnAssign(self, env, s):
        if s.value is None:
            return ('skip',)
        av, e = self.ev(env, s.value)
        return seq(e, self.assign(env, s.target, av, s, s.value))

    def st_AugAssign(self, env, s):
        av, e = self.ev(env, s.value)
        t = s.target
        if isinstance(t, ast.Name):
            if t.id in self.globals_decl:
                q = (self.m.name + '.' if self.m.name else '') + t.id
                return seq(e, ('read', q), ('write', q))
            cur, e2 = self.ev(env, t)
            self.mutate(cur, 'augmented assignment', s)
            for tok in cur[0]:
                if tok[0] == 'G':
                    e2 = seq(e2, ('write', tok[1]))
            if t.id in env:
                self.bind(env, t.id, (cur[0], cur[1] | allof(av)))
            return seq(e, e2)
        return seq(e, self.store_into(env, t, s))

    def st_Delete(self, env, s):
        ef = ('skip',)
        for t in s.targets:
            if isinstance(t, (ast.Subscript, ast.Attribute)):
                ef = seq(ef, self.store_into(env, t, s))
            elif isinstance(t, ast.Name):
                env.pop(t.id, None)
        return ef

    def st_Return(self, env, s):
        av, e = self.ev(env, s.value)
        self.ret = join(self.ret, av)
        return seq(e, self.invoke(av, s))       # lazily evaluated results are modelled as evaluated before return

    def st_Raise(self, env, s):
        return self.evs(env, [x for x in (s.exc, s.cause) if x is not None])[1]

    def st_Assert(self, env, s):
        return self.evs(env, [x for x in (s.test, s.msg) if x is not None])[1]

    def st_If(self, env, s):
        _, e0 = self.ev(env, s.test)
        e1env, e2env = dict(env), dict(env)
        e1 = self.block(e1env, s.body)
        e2 = self.block(e2env, s.orelse)
        env.clear()
        env.update(self.merge([e1env, e2env]))
        return seq(e0, alt(e1, e2))

    def loop_body(self, env, pre, body):
        """fixpoint of a loop body over the finite lattice of abstract values"""
        ef = ('skip',)
        for _ in range(12):
            before = dict(env)
            pre(env)
            ef = self.block(env, body)
            merged = self.merge([before, env])
            env.clear()
            env.update(merged)
            if merged == before:
                break
        return ef

    def st_For(self, env, s):
        a, e0 = self.ev(env, s.iter)
        el = allof(a)
        tgt_eff = []

        def pre(en):
            tgt_eff[:] = [self.assign(en, s.target, (el, el), s)]
        body = self.loop_body(env, pre, s.body)
        e2 = self.block(env, s.orelse)
        return seq(e0, loop(seq(tgt_eff[0] if tgt_eff else ('skip',), body)), e2)
    st_AsyncFor = st_For

    def st_While(self, env, s):
        test = []

        def pre(en):
            test[:] = [self.ev(en, s.test)[1]]
        body = self.loop_body(env, pre, s.body)
        _, e0 = self.ev(env, s.test)
        e2 = self.block(env, s.orelse)
        return seq(e0, loop(seq(body, e0)), e2)

    def st_With(self, env, s):
        ef = ('skip',)
        pushed = 0
        for it in s.items:
            c = it.context_expr
            d = self.dotted(env, c.func) if isinstance(c, ast.Call) else None
            # the library's restoring context manager (or a setter that is one: `with plt.ioff():`) guards its block
            g = PROCESS_GUARDS.get(d) or PROCESS_SETTERS.get(d)
            if g:
                self.guards.append(g)
                pushed += 1
            a, e = self.ev(env, c)
            ef = seq(ef, e)
            if it.optional_vars is not None:
                ef = seq(ef, self.assign(env, it.optional_vars, (frozenset(), allof(a)), s))
        ef = seq(ef, self.block(env, s.body))
        if pushed:
            del self.guards[-pushed:]
        return ef
    st_AsyncWith = st_With

    def st_Try(self, env, s):
        start = dict(env)
        g = sorted(self.restored_states(env, s.finalbody)) if s.finalbody else []
        self.guards.extend(g)           # whatever the finally block sets again is restored on every exit of the body
        try:
            return self.st_Try_guarded(env, s, start)
        finally:
            if g:
                del self.guards[-len(g):]

    def st_Try_guarded(self, env, s, start):
        body = self.block(env, s.body)
        mid = self.merge([start, env])
        henvs, heffs = [], ('skip',)
        for h in s.handlers:
            he = dict(mid)
            if h.name:
                self.bind(he, h.name, BOT)
            _, e0 = self.ev(he, h.type) if h.type is not None else (BOT, ('skip',))
            heffs = alt(seq(e0, self.block(he, h.body)), heffs)
            henvs.append(he)
        oe = self.block(env, s.orelse)
        merged = self.merge([env] + henvs)
        env.clear()
        env.update(merged)
        self.guards.append('*')          # the finally block is the restore
        fin = self.block(env, s.finalbody)
        self.guards.pop()
        # the body may stop anywhere before a handler runs: its writes are then not guaranteed
        return seq(alt(seq(body, oe), seq(loop(body), heffs)), fin)
    st_TryStar = st_Try

    def st_FunctionDef(self, env, s):
        self.nested.append(s)
        key = '%s@%d:%d' % (self.fn.qual, s.lineno, s.col_offset)
        self.local_effs[key] = self.nested_eff(env, s)
        self.bind(env, s.name, (frozenset([('L', key)]), frozenset()))
        return self.evs(env, s.decorator_list)[1]
    st_AsyncFunctionDef = st_FunctionDef

    def st_ClassDef(self, env, s):
        self.unk('class defined inside a function', s)
        return ('skip',)

    # ---- nested functions and lambdas: callbacks that see the enclosing variables
    def nested_env(self, env, node):
        a = node.args
        names = [x.arg for x in a.posonlyargs + a.args + a.kwonlyargs] + [x.arg for x in (a.vararg, a.kwarg) if x]
        amb = frozenset(('P', p) for p in self.fn.params if p not in self.fn.fresh_params)
        e2 = self.merge([env, self.seen])
        for nm in names:
            e2[nm] = (amb, amb)     # a callback is fed with pieces of whatever the enclosing call was given
        return e2

    def nested_eff(self, env, node):
        e2 = self.nested_env(env, node)
        saved = (self.ret, self.seen, self.guards)
        self.seen = dict(self.seen)
        self.guards = list(self.nested_guards.setdefault(id(node), list(self.guards)))
        if isinstance(node, ast.Lambda):
            _, ef = self.ev(e2, node.body)
        else:
            ef = self.block(e2, node.body)
        self.ret, self.seen, self.guards = saved[0], self.merge([saved[1], self.seen]), saved[2]
        return ef

    # ---- whole function
    def run(self):
        fn = self.fn
        env = {}
        for p in fn.params:
            env[p] = BOT if p in fn.fresh_params else (frozenset([('P', p)]), frozenset())
            self.seen[p] = env[p]
        for d in fn.node.args.defaults + [d for d in fn.node.args.kw_defaults if d is not None]:
            pass    # default expressions are evaluated once at import time, not per call
        ef = self.block(env, fn.node.body)
        # closures may run after later rebinding: re-analyse nested bodies with every value a name ever held
        for node in list(self.nested):
            self.nested_eff(self.merge([env, self.seen]), node)
        mut = set(self.mut)
        if fn.node.name == '__init__':
            mut.discard('self')         # the object under construction is fresh
        if fn.cached and fn.node.name != '__init__':
            # the wrapper may hand out the object it kept from an earlier call: the result is shared between calls
            c = frozenset([('G', fn.qual + ':cache')])
            self.ret = (self.ret[0] | c, self.ret[1] | c)
        if esize(ef) > 3000:
            ef = collapse(ef)
        return dict(mut=mut, mutglob=set(self.mutglob), ret=self.ret, rng=self.rng,
                    unknown=sorted(set(self.unknown)), eff=ef, selfstate=self.selfstate, notes=sorted(set(self.notes)))


def analyse(repo):
    P = Program(repo)
    order = sorted(P.funcs)
    collapsed = set()       # callables on a call cycle: their global effect is kept as a flat may-set
    for rnd in range(40):
        changed = False
        for q in order:
            new = Analyzer(P, P.funcs[q]).run()
            old = P.funcs[q].summary
            if q in collapsed:
                new['eff'] = collapse(new['eff'])
            elif rnd >= 6 and new['eff'] != old['eff']:
                collapsed.add(q)
                new['eff'] = collapse(new['eff'])
            if any(new[k] != old[k] for k in ('mut', 'mutglob', 'ret', 'rng', 'unknown', 'eff')):
                changed = True
            P.funcs[q].summary = new
        if not changed:
            break
    else:
        raise Refuse('effect summaries did not reach a fixpoint')
    return P


HEADER = '''(* GENERATED from pyrepseq/**/*.py by translate/regen_c20.py on every check; do not edit. *)
From Coq Require Import List String Bool.
From PV Require Import model.Effects.
Import ListNotations.
Open Scope string_scope.
Open Scope list_scope.
'''


def emit(P):
    out = [HEADER]
    names = []
    for k, q in enumerate(sorted(P.funcs)):
        f, s = P.funcs[q], P.funcs[q].summary
        params = [p for p in f.params]
        mutp = sorted(p for p in s['mut'] if p in params)
        mutd = [p for p in mutp if p in f.defaults]
        cname = 'ent_%d' % k
        names.append(cname)
        out.append('Definition %s : entry := mk_entry %s %s %s\n  %s %s\n  %s %s %s\n  %s\n  %s.' % (
            cname, cstr(q), 'true' if f.public else 'false', 'true' if s['rng'] else 'false',
            clist(params), clist(f.defaults), clist(mutp), clist(mutd), clist(sorted(s['mutglob'])),
            clist(s['unknown']), ecoq(s['eff'])))
    out.append('')
    out.append('Definition gen_table : table :=\n  [' + ';\n   '.join(names) + '].')
    out.append('')
    return '\n'.join(out)


STUB = HEADER + '''
(* translator refused: %s *)
Definition gen_table : table :=
  [mk_entry "translator-refused" true false [] [] [] [] [] ["translator refused the source"] ESkip].
'''


def run(STATUS, write_if_changed, ROOT, REPO):
    path = os.path.join(ROOT, 'coq/gen/Gen_c20.v')
    try:
        P = analyse(REPO)
        text = emit(P)
        write_if_changed(path, text)
        import json
        rep = {q: dict(public=f.public, params=f.params, defaults=f.defaults, mut=sorted(f.summary['mut']),
                       mutglob=sorted(f.summary['mutglob']), rng=f.summary['rng'], unknown=f.summary['unknown'],
                       selfstate=f.summary['selfstate'], notes=f.summary['notes'])
               for q, f in P.funcs.items()}
        os.makedirs(os.path.join(ROOT, 'build'), exist_ok=True)
        with open(os.path.join(ROOT, 'build', 'c20_effects.json'), 'w') as fh:
            json.dump(rep, fh, indent=1)
        STATUS['effects.table'] = dict(ok=True, properties=['C20'], error=None)
    except Exception as e:
        import traceback
        err = '%s: %s' % (type(e).__name__, str(e)[:300])
        write_if_changed(path, STUB % err.replace('*)', '* )'))
        STATUS['effects.table'] = dict(ok=False, properties=['C20'], error=err + ' ' + traceback.format_exc()[-300:])


if __name__ == '__main__':
    import sys, json
    P = analyse(sys.argv[1] if len(sys.argv) > 1 else os.environ.get('PV_REPO', '/repo'))
    for q in sorted(P.funcs):
        f, s = P.funcs[q], P.funcs[q].summary
        flag = [k for k in ('mut', 'mutglob', 'unknown') if s[k]] + (['rng'] if s['rng'] else []) + (['selfstate'] if s['selfstate'] else [])
        print('%-70s %s %s %s' % (q, 'pub' if f.public else '   ', ','.join(flag), ecoq(s['eff']) if s['eff'] != ('skip',) else ''))
        for nline in s['notes']:
            print('      ' + nline)
        for u in s['unknown']:
            print('      ? ' + u)
