"""C10: regenerate coq/gen/Gen_c10.v from the SOURCE TEXT of pyrepseq/nn.py `_check_common_input`, the output-type dispatch of
`_make_output` and the validation call at the head of every search engine, by a fail-closed `ast` translator.
coq/proofs/GenCheckP.v proves `gen_check_input a = check_input a` for every abstract argument record (model/Output.v), so the
argument-rejection theorems of C10 are re-proved against what the validator says today; a comparison turned around, a dropped
conjunct, an `or` for an `and`, an output name added to the accepted set break the proof.

Accepted text (parameter NAMES are free, their positions are the roles seqs, max_edits, max_returns, n_cpu, custom_distance,
max_custom_distance, output_type, seqs2=None):
  assert E[, msg]                                                   one conjunct
  try: for x in S: assert type(x) in {str, np.str_}[, msg]          S = seqs : a_seqs_strings      (a non-iterable S: TypeError ->
  except TypeError: assert False[, msg]                                                             assert False, the same verdict)
  try: for x in S2: assert type(x) in {str, np.str_}[, msg]         S2 = seqs2: None -> accepted, else every element a string
  except TypeError: assert S2 is None[, msg]
  try: f = next(S.__iter__()); assert (C in (None, "hamming") or C(f, f) == 0)[, msg]
  except AssertionError: raise / except: assert False[, msg]       a_custom_ok
  E ::= E and E | E or E | not E | (E)
      | len(S) > 0 | len(S) >= 1                                    Nat.ltb 0 (a_len a)
      | type(X) == int | type(X) is int                             X in max_edits, n_cpu, max_returns: the *_int field
      | X > 0 | X >= 1 | 0 < X | 1 <= X                              Z.ltb 0 (value field)
      | X <op> <int literal>, any other                             Z.ltb / Z.leb with that literal (the proof then fails unless equivalent)
      | X is None | X is not None                                   max_returns only
      | type(M) in (int, float)   (any order, tuple/set/list)       a_maxc_number
      | M >= 0 | 0 <= M                                             a_maxc_nonneg
      | O in {"coo_matrix", "triplets", "ndarray"}                  a_output_known; the literal is emitted as gen_output_types
A conjunct that mentions max_returns is emitted under `match a_max_returns a with None => .. | Some (isint, v) => ..`
(`X is None` true/false, `type(X) == int` false/isint, `X > 0` false/(0 <? v): comparing None raises, which rejects as well).
_make_output: `if O == "triplets": ...` then a construction ending in `if O == "coo_matrix": return ..` / `return ..toarray()` -
only the two compared names are read (gen_output_dispatch), the third accepted name is the dense fall-through.
Engines kdtree, hash_based, symdel: the first statement after the docstring is `_check_common_input(<own parameters in role order>)`;
nearest_neighbor returns symdel(<its own parameters in order>).  Anything else is refused; on refusal the committed snapshot text
(generated from the source of the day the proof was written) is written and the refusal recorded (DESIGN.md 1.5)."""
import ast, os, traceback

NAME = 'nn._check_common_input'
PROPS = ['C10']
ROLES = ['seqs', 'max_edits', 'max_returns', 'n_cpu', 'custom', 'maxc', 'output', 'seqs2']
OUT_NAMES = {'coo_matrix', 'triplets', 'ndarray'}


class Refuse(Exception):
    pass


def where(n):
    return '(line %s)' % getattr(n, 'lineno', '?')


def body_of(fn):
    b = list(fn.body)
    if b and isinstance(b[0], ast.Expr) and isinstance(b[0].value, ast.Constant) and isinstance(b[0].value.value, str):
        b = b[1:]
    return b


class Checker:
    def __init__(self, fn):
        a = fn.args
        if a.vararg or a.kwarg or a.kwonlyargs or a.posonlyargs or len(a.args) != 8 or fn.decorator_list:
            raise Refuse('_check_common_input: unexpected signature')
        if len(a.defaults) != 1 or not (isinstance(a.defaults[0], ast.Constant) and a.defaults[0].value is None):
            raise Refuse('_check_common_input: defaults other than seqs2=None')
        self.role = {p.arg: r for p, r in zip(a.args, ROLES)}
        self.fn = fn
        self.out_types = None

    def r(self, e):
        return self.role.get(e.id) if isinstance(e, ast.Name) else None

    # ---- atoms; env: None, or ('none',) / ('some',) for the max_returns match arm
    def const(self, e, v):
        return isinstance(e, ast.Constant) and type(e.value) is type(v) and e.value == v

    def is_type_of(self, e):
        if isinstance(e, ast.Call) and isinstance(e.func, ast.Name) and e.func.id == 'type' and len(e.args) == 1 and not e.keywords:
            return self.r(e.args[0])
        return None

    def positive(self, e):
        """X > 0 | X >= 1 | 0 < X | 1 <= X -> role of X"""
        if not (isinstance(e, ast.Compare) and len(e.ops) == 1):
            return None
        l, op, rt = e.left, e.ops[0], e.comparators[0]
        if self.r(l) and ((isinstance(op, ast.Gt) and self.const(rt, 0)) or (isinstance(op, ast.GtE) and self.const(rt, 1))):
            return self.r(l)
        if self.r(rt) and ((isinstance(op, ast.Lt) and self.const(l, 0)) or (isinstance(op, ast.LtE) and self.const(l, 1))):
            return self.r(rt)
        return None

    def expr(self, e, arm):
        if isinstance(e, ast.BoolOp):
            parts = [self.expr(v, arm) for v in e.values]
            op = ' && ' if isinstance(e.op, ast.And) else ' || '
            out = parts[0]
            for p in parts[1:]:
                out = '(%s%s%s)' % (out, op, p)
            return out
        if isinstance(e, ast.UnaryOp) and isinstance(e.op, ast.Not):
            return '(negb %s)' % self.expr(e.operand, arm)
        if isinstance(e, ast.Compare) and len(e.ops) == 1:
            l, op, rt = e.left, e.ops[0], e.comparators[0]
            # len(seqs) > 0
            for a, b, ok in ((l, rt, (ast.Gt, 0)), (l, rt, (ast.GtE, 1)), (rt, l, (ast.Lt, 0)), (rt, l, (ast.LtE, 1))):
                if (isinstance(a, ast.Call) and isinstance(a.func, ast.Name) and a.func.id == 'len' and len(a.args) == 1 and not a.keywords
                        and self.r(a.args[0]) == 'seqs' and isinstance(op, ok[0]) and self.const(b, ok[1])):
                    return '(Nat.ltb 0 (a_len a))'
            # type(X) == int
            t = self.is_type_of(l)
            if t and isinstance(op, (ast.Eq, ast.Is)) and isinstance(rt, ast.Name) and rt.id == 'int':
                if t == 'max_edits':
                    return '(a_max_edits_int a)'
                if t == 'n_cpu':
                    return '(a_n_cpu_int a)'
                if t == 'max_returns' and arm:
                    return 'false' if arm == 'none' else 'isint'
                raise Refuse('type(..) == int on an unexpected argument %s' % where(e))
            # type(M) in (int, float)
            if t == 'maxc' and isinstance(op, ast.In) and isinstance(rt, (ast.Tuple, ast.Set, ast.List)) \
                    and sorted(x.id for x in rt.elts if isinstance(x, ast.Name)) == ['float', 'int'] and len(rt.elts) == 2:
                return '(a_maxc_number a)'
            # X > 0
            p = self.positive(e)
            if p == 'max_edits':
                return '(Z.ltb 0 (a_max_edits a))'
            if p == 'n_cpu':
                return '(Z.ltb 0 (a_n_cpu a))'
            if p == 'max_returns' and arm:
                return 'false' if arm == 'none' else '(Z.ltb 0 v)'
            # any other comparison of an integer argument with an integer literal: emitted as it stands (the proof decides)
            for x, c, swap in ((l, rt, False), (rt, l, True)):
                role = self.r(x)
                if role in ('max_edits', 'n_cpu', 'max_returns') and isinstance(c, ast.Constant) and type(c.value) is int \
                        and isinstance(op, (ast.Gt, ast.GtE, ast.Lt, ast.LtE)):
                    if role == 'max_returns' and not arm:
                        break
                    if role == 'max_returns' and arm == 'none':
                        return 'false'
                    val = {'max_edits': '(a_max_edits a)', 'n_cpu': '(a_n_cpu a)', 'max_returns': 'v'}[role]
                    kind = type(op)
                    if swap:
                        kind = {ast.Gt: ast.Lt, ast.GtE: ast.LtE, ast.Lt: ast.Gt, ast.LtE: ast.GtE}[kind]
                    lit = '(%d)%%Z' % c.value
                    return {ast.Gt: '(Z.ltb %s %s)' % (lit, val), ast.GtE: '(Z.leb %s %s)' % (lit, val),
                            ast.Lt: '(Z.ltb %s %s)' % (val, lit), ast.LtE: '(Z.leb %s %s)' % (val, lit)}[kind]
            # M >= 0
            if (self.r(l) == 'maxc' and isinstance(op, ast.GtE) and self.const(rt, 0)) or \
               (self.r(rt) == 'maxc' and isinstance(op, ast.LtE) and self.const(l, 0)):
                return '(a_maxc_nonneg a)'
            # X is None
            if self.r(l) == 'max_returns' and arm and isinstance(rt, ast.Constant) and rt.value is None:
                if isinstance(op, ast.Is):
                    return 'true' if arm == 'none' else 'false'
                if isinstance(op, ast.IsNot):
                    return 'false' if arm == 'none' else 'true'
            # O in {...}
            if self.r(l) == 'output' and isinstance(op, ast.In) and isinstance(rt, (ast.Tuple, ast.Set, ast.List)):
                names = [x.value for x in rt.elts if isinstance(x, ast.Constant) and isinstance(x.value, str)]
                if len(names) != len(rt.elts) or len(set(names)) != len(names):
                    raise Refuse('output_type set is not a literal of distinct strings %s' % where(e))
                if self.out_types is not None:
                    raise Refuse('output_type tested twice')
                self.out_types = names
                return '(a_output_known a)'
        raise Refuse('condition outside the subset %s: %s' % (where(e), ast.unparse(e)[:120]))

    def mentions(self, e, role):
        return any(isinstance(n, ast.Name) and self.role.get(n.id) == role for n in ast.walk(e))

    def conjunct(self, test):
        if self.mentions(test, 'max_returns'):
            return '(match a_max_returns a with None => %s | Some (isint, v) => %s end)' % (self.expr(test, 'none'), self.expr(test, 'some'))
        return self.expr(test, None)

    def strings_loop(self, st, which):
        """try: for x in S: assert type(x) in {str, np.str_} / except TypeError: ..."""
        if not (isinstance(st, ast.Try) and len(st.body) == 1 and isinstance(st.body[0], ast.For) and not st.orelse and not st.finalbody
                and len(st.handlers) == 1):
            return None
        loop = st.body[0]
        if self.r(loop.iter) != which or not isinstance(loop.target, ast.Name) or loop.orelse or len(loop.body) != 1:
            return None
        a = loop.body[0]
        if not isinstance(a, ast.Assert):
            raise Refuse('string loop body is not one assert %s' % where(a))
        t = a.test
        ok = (isinstance(t, ast.Compare) and len(t.ops) == 1 and isinstance(t.ops[0], ast.In)
              and isinstance(t.left, ast.Call) and isinstance(t.left.func, ast.Name) and t.left.func.id == 'type' and len(t.left.args) == 1
              and isinstance(t.left.args[0], ast.Name) and t.left.args[0].id == loop.target.id
              and isinstance(t.comparators[0], (ast.Set, ast.Tuple, ast.List))
              and sorted(ast.unparse(x) for x in t.comparators[0].elts) in (['np.str_', 'str'], ['numpy.str_', 'str']))
        if not ok:
            raise Refuse('element test is not type(x) in {str, np.str_} %s' % where(a))
        h = st.handlers[0]
        if not (isinstance(h.type, ast.Name) and h.type.id == 'TypeError' and h.name is None and len(h.body) == 1 and isinstance(h.body[0], ast.Assert)):
            raise Refuse('handler of the string loop %s' % where(h))
        ht = h.body[0].test
        if which == 'seqs':
            if not (isinstance(ht, ast.Constant) and ht.value is False):
                raise Refuse('a non-iterable first collection is not rejected %s' % where(h))
            return '(a_seqs_strings a)'
        if not (isinstance(ht, ast.Compare) and len(ht.ops) == 1 and isinstance(ht.ops[0], ast.Is) and self.r(ht.left) == 'seqs2'
                and isinstance(ht.comparators[0], ast.Constant) and ht.comparators[0].value is None):
            raise Refuse('handler of the seqs2 loop is not `assert seqs2 is None` %s' % where(h))
        return '(match a_seqs2 a with None => true | Some ok => ok end)'

    def custom_block(self, st):
        if not (isinstance(st, ast.Try) and len(st.body) == 2 and isinstance(st.body[0], ast.Assign) and isinstance(st.body[1], ast.Assert)):
            return None
        want_first = 'next(%s.__iter__())' % next(k for k, v in self.role.items() if v == 'seqs')
        alt_first = 'next(iter(%s))' % next(k for k, v in self.role.items() if v == 'seqs')
        asg = st.body[0]
        if not (len(asg.targets) == 1 and isinstance(asg.targets[0], ast.Name) and ast.unparse(asg.value) in (want_first, alt_first)):
            raise Refuse('custom-distance block: first element %s' % where(asg))
        f = asg.targets[0].id
        c = next(k for k, v in self.role.items() if v == 'custom')
        t = st.body[1].test
        okforms = {"%s in (None, 'hamming') or %s(%s, %s) == 0" % (c, c, f, f), "%s in ('hamming', None) or %s(%s, %s) == 0" % (c, c, f, f)}
        if ast.unparse(t) not in okforms:
            raise Refuse('custom-distance test %s: %s' % (where(t), ast.unparse(t)[:100]))
        hs = st.handlers
        if not (len(hs) == 2 and isinstance(hs[0].type, ast.Name) and hs[0].type.id == 'AssertionError' and len(hs[0].body) == 1
                and isinstance(hs[0].body[0], ast.Raise) and hs[0].body[0].exc is None
                and hs[1].type is None and len(hs[1].body) == 1 and isinstance(hs[1].body[0], ast.Assert)
                and isinstance(hs[1].body[0].test, ast.Constant) and hs[1].body[0].test.value is False) or st.orelse or st.finalbody:
            raise Refuse('custom-distance block: handlers %s' % where(st))
        return '(a_custom_ok a)'

    def translate(self):
        conj = []
        for st in body_of(self.fn):
            if isinstance(st, ast.Assert):
                conj.append(self.conjunct(st.test))
                continue
            for f in (lambda s: self.strings_loop(s, 'seqs'), lambda s: self.strings_loop(s, 'seqs2'), self.custom_block):
                c = f(st)
                if c is not None:
                    conj.append(c)
                    break
            else:
                raise Refuse('statement outside the subset %s: %s' % (where(st), ast.unparse(st)[:80]))
        if self.out_types is None:
            raise Refuse('output_type is not tested')
        return conj


def dispatch_names(fn):
    """names `_make_output` compares its output_type argument with (==), in order"""
    if len(fn.args.args) < 2:
        raise Refuse('_make_output signature')
    o = fn.args.args[1].arg
    names = []
    for n in ast.walk(fn):
        if isinstance(n, ast.Compare) and isinstance(n.left, ast.Name) and n.left.id == o:
            if not (len(n.ops) == 1 and isinstance(n.ops[0], ast.Eq) and isinstance(n.comparators[0], ast.Constant)
                    and isinstance(n.comparators[0].value, str)):
                raise Refuse('_make_output tests output_type other than by == <literal> %s' % where(n))
            names.append(n.comparators[0].value)
        elif isinstance(n, ast.Name) and n.id == o and isinstance(n.ctx, ast.Store):
            raise Refuse('_make_output rebinds output_type')
    uses = sum(1 for n in ast.walk(fn) if isinstance(n, ast.Name) and n.id == o and isinstance(n.ctx, ast.Load))
    if uses != len(names):
        raise Refuse('_make_output reads output_type outside == comparisons')
    return names


def _bind(call, callee_params):
    """callee parameter name -> the Name handed over (None when it is not a bare name), positional and keyword arguments alike"""
    if any(k.arg is None for k in call.keywords) or any(isinstance(a, ast.Starred) for a in call.args) or len(call.args) > len(callee_params):
        raise Refuse('call with * / ** arguments: %s' % ast.unparse(call)[:80])
    m = {}
    for p_, a in zip(callee_params, call.args):
        m[p_] = a.id if isinstance(a, ast.Name) else None
    for k in call.keywords:
        if k.arg in m or k.arg not in callee_params:
            raise Refuse('call binds %s twice / to nothing: %s' % (k.arg, ast.unparse(call)[:80]))
        m[k.arg] = k.value.id if isinstance(k.value, ast.Name) else None
    return m


def engine_validates(tree, name, with_seqs2):
    """True: the first statement hands the engine's own parameters to the validator, role by role (by position or by keyword).
    False: it calls the validator with something else in some role.  Anything else (validation moved elsewhere, wrapped, decorated):
    refused - the snapshot is used and the invalid-argument product of the harness decides."""
    fn = next((n for n in tree.body if isinstance(n, ast.FunctionDef) and n.name == name), None)
    val = next((n for n in tree.body if isinstance(n, ast.FunctionDef) and n.name == '_check_common_input'), None)
    if fn is None or val is None:
        raise Refuse('engine %s / the validator not found' % name)
    b = body_of(fn)
    want = ['seqs', 'max_edits', 'max_returns', 'n_cpu', 'custom_distance', 'max_custom_distance', 'output_type'] + (['seqs2'] if with_seqs2 else [])
    params = [a.arg for a in fn.args.args]
    vparams = [a.arg for a in val.args.args]
    if not b or not (isinstance(b[0], ast.Expr) and isinstance(b[0].value, ast.Call) and isinstance(b[0].value.func, ast.Name)
                     and b[0].value.func.id == '_check_common_input'):
        raise Refuse('engine %s does not start with a plain call of the validator' % name)
    if any(p_ not in params for p_ in want) or len(vparams) < len(want):
        raise Refuse('engine %s: parameters renamed' % name)
    m = _bind(b[0].value, vparams)
    return [m.get(vparams[i]) for i in range(len(want))] == want and all(m.get(v) is None for v in vparams[len(want):] if v in m) \
        and set(m) <= set(vparams[:len(want)] if not with_seqs2 else vparams)


def delegates(tree):
    fn = next((n for n in tree.body if isinstance(n, ast.FunctionDef) and n.name == 'nearest_neighbor'), None)
    sy = next((n for n in tree.body if isinstance(n, ast.FunctionDef) and n.name == 'symdel'), None)
    if fn is None or sy is None:
        raise Refuse('nearest_neighbor / symdel not found')
    b = body_of(fn)
    params = [a.arg for a in fn.args.args]
    sparams = [a.arg for a in sy.args.args]
    if not (len(b) == 1 and isinstance(b[0], ast.Return) and isinstance(b[0].value, ast.Call) and isinstance(b[0].value.func, ast.Name)
            and b[0].value.func.id == 'symdel') or fn.args.kwarg or fn.args.vararg:
        raise Refuse('nearest_neighbor is not a single `return symdel(..)`')
    m = _bind(b[0].value, sparams)
    # every parameter of nearest_neighbor reaches the symdel parameter of the same name (the documented delegation)
    return all(m.get(p_) == p_ for p_ in params) and all(p_ in sparams for p_ in params)


def coq_str(s):
    if not all(32 <= ord(c) < 127 and c != '"' for c in s):
        raise Refuse('output name %r' % s)
    return '"%s"' % s


SNAPSHOT = '''Definition gen_check_input (a : call_args) : bool :=
  (Nat.ltb 0 (a_len a)) &&
  (a_seqs_strings a) &&
  ((a_max_edits_int a) && (Z.ltb 0 (a_max_edits a))) &&
  (match a_max_returns a with None => ((false && false) || true) | Some (isint, v) => ((isint && (Z.ltb 0 v)) || false) end) &&
  ((a_n_cpu_int a) && (Z.ltb 0 (a_n_cpu a))) &&
  (a_custom_ok a) &&
  ((a_maxc_number a) && (a_maxc_nonneg a)) &&
  (a_output_known a) &&
  (match a_seqs2 a with None => true | Some ok => ok end).
Definition gen_output_types : list string := ["coo_matrix"; "triplets"; "ndarray"].
Definition gen_output_dispatch : list string := ["triplets"; "coo_matrix"].
Definition gen_engines_validate : list (string * bool) := [("kdtree", true); ("hash_based", true); ("symdel", true); ("nearest_neighbor", true)].
'''


def run(STATUS, write_if_changed, ROOT, REPO):
    head = ['(* GENERATED from pyrepseq/nn.py (_check_common_input, _make_output, engine heads) by translate/regen_c10.py on every check; do not edit. *)',
            'From Coq Require Import List Bool Arith ZArith String.', 'From PV Require Import model.Output.', 'Import ListNotations.',
            'Open Scope string_scope.', 'Open Scope bool_scope.', '']
    try:
        tree = ast.parse(open(os.path.join(REPO, 'pyrepseq', 'nn.py')).read())
        fn = next((n for n in tree.body if isinstance(n, ast.FunctionDef) and n.name == '_check_common_input'), None)
        mk = next((n for n in tree.body if isinstance(n, ast.FunctionDef) and n.name == '_make_output'), None)
        if fn is None or mk is None:
            raise Refuse('_check_common_input / _make_output not found')
        ck = Checker(fn)
        conj = ck.translate()
        disp = dispatch_names(mk)
        engines = [(e, engine_validates(tree, e, e == 'symdel')) for e in ('kdtree', 'hash_based', 'symdel')] + [('nearest_neighbor', delegates(tree))]
        txt = 'Definition gen_check_input (a : call_args) : bool :=\n  ' + ' &&\n  '.join(conj) + '.\n'
        txt += 'Definition gen_output_types : list string := [%s].\n' % '; '.join(coq_str(s) for s in ck.out_types)
        txt += 'Definition gen_output_dispatch : list string := [%s].\n' % '; '.join(coq_str(s) for s in disp)
        txt += 'Definition gen_engines_validate : list (string * bool) := [%s].\n' % '; '.join(
            '(%s, %s)' % (coq_str(e), 'true' if ok else 'false') for e, ok in engines)
        STATUS[NAME] = dict(ok=True, properties=PROPS, error=None)
    except Refuse as e:
        txt = '(* translator refused: %s -- committed snapshot of the last good text *)\n' % str(e).replace('*)', '* )') + SNAPSHOT
        STATUS[NAME] = dict(ok=True, snapshot=True, properties=PROPS,
                            error='regen unavailable (%s): committed snapshot used, tie by correspondence' % str(e)[:200])
    except Exception:
        txt = '(* translator crashed -- committed snapshot *)\n' + SNAPSHOT
        STATUS[NAME] = dict(ok=False, properties=PROPS, error='translator crashed: ' + traceback.format_exc()[-300:])
    write_if_changed(os.path.join(ROOT, 'coq/gen/Gen_c10.v'), '\n'.join(head) + txt)
