"""C08: regenerate coq/gen/Gen_c08.v from the SOURCE TEXT of the loop nests of pyrepseq/distance.py `pdist` and `cdist`
(fail-closed `ast` translator, store-passing encoding).  proofs/GenDistP.v proves the generated functions EQUAL to the
hand-written layout model `pdist_loop f d0 xs` / `cdist_loop f xa xb` of lib/Condensed.v for all inputs, so a semantic
change to the loops inside the subset makes a proof fail on the next run.

Encoding (vocabulary in coq/lib/PyStore.v):
  Python int            -> Z  (`+ - *` and `//` = Z.div, floor division; `m - 1` at m = 0 is -1 as in Python)
  metric(a, b, **kw)    -> f a b        f : X -> X -> D an uninterpreted Section variable (kwargs are part of f)
  s[e]                  -> znth e s d0  (Python index rules incl. negative wrap; d0 the out-of-range default)
  len(s)                -> Z.of_nat (length s)
  np.empty(n, ...)      -> repeat dd (Z.to_nat n)          np.empty((r, c), ...) -> repeat (repeat dd (Z.to_nat c)) (Z.to_nat r)
  dm[e] = v             -> zupd e v dm                     dm[e1, e2] = v -> zupd2 e1 e2 v dm
  for v in range(a, b)  -> fold_left (fun st v => ...) (zrange a b) st   the state = the variables bound before the loop
                           and assigned inside it, in binding order (e.g. (dm, k)); a single variable is passed bare
  x = e / x += e        -> let x := ... in
Recognised and DROPPED (bookkeeping): the docstring; `if metric is None: metric = <name>` (the default metric is one
instance of f); `list(<parameter>)` (a copy: the list itself); `dtype=` of np.empty; `**kwargs` of the metric call.
Anything else raises Refuse -> the committed snapshot text of that function (constants below, from the source of the day
the proofs were written) is emitted instead and the refusal is recorded (DESIGN.md 1.5: tie by correspondence)."""
import ast, os, traceback

PROPS = ['C08']


class Refuse(Exception):
    pass


def _where(n):
    return ' (line %d)' % n.lineno if hasattr(n, 'lineno') else ''


def is_name(e, n=None):
    return isinstance(e, ast.Name) and (n is None or e.id == n)


def is_np(e, attr):
    return isinstance(e, ast.Attribute) and is_name(e.value) and e.value.id in ('np', 'numpy') and e.attr == attr


def assigned_names(stmts):
    """names stored to (plain, augmented, subscript base, loop variables excluded) anywhere below stmts"""
    out = []
    for s in stmts:
        for n in ast.walk(s):
            if isinstance(n, ast.Assign):
                for t in n.targets:
                    if is_name(t):
                        out.append(t.id)
                    elif isinstance(t, ast.Subscript) and is_name(t.value):
                        out.append(t.value.id)
                    else:
                        raise Refuse('assignment target outside the subset' + _where(n))
            elif isinstance(n, ast.AugAssign):
                if not is_name(n.target):
                    raise Refuse('augmented assignment target outside the subset' + _where(n))
                out.append(n.target.id)
            elif isinstance(n, (ast.AnnAssign, ast.NamedExpr, ast.Delete, ast.Global, ast.Nonlocal, ast.With, ast.Try,
                                ast.While, ast.FunctionDef, ast.Lambda, ast.ListComp, ast.GeneratorExp, ast.Import)):
                raise Refuse('%s outside the subset' % type(n).__name__ + _where(n))
    return out


class Fn:
    """One function: env maps a Python name to (coq name, type); types: int | xs (list X) | vec (list D) | mat (list (list D)) | val (D)"""

    def __init__(self, fn, n_seq_params, result_type):
        self.fn, self.result_type = fn, result_type
        a = fn.args
        if a.posonlyargs or a.kwonlyargs or a.vararg:
            raise Refuse('signature outside the subset')
        names = [x.arg for x in a.args]
        if len(names) < n_seq_params + 1 or 'metric' not in names[n_seq_params:]:
            raise Refuse('expected %d sequence parameters followed by `metric`' % n_seq_params)
        self.seq_params = names[:n_seq_params]
        self.metric = 'metric'
        self.kwargs = a.kwarg.arg if a.kwarg else None
        self.other_params = set(names[n_seq_params:]) - {'metric'}
        self.env = {p: ('v_' + p, 'xs') for p in self.seq_params}
        self.dropped = []

    # ---------------------------------------------------------------- expressions
    def lookup(self, e, typ):
        if e.id not in self.env:
            raise Refuse('name %s unbound or outside the subset' % e.id + _where(e))
        c, t = self.env[e.id]
        if t != typ:
            raise Refuse('name %s has type %s, expected %s' % (e.id, t, typ) + _where(e))
        return c

    def int_expr(self, e):
        if isinstance(e, ast.Constant) and isinstance(e.value, int) and not isinstance(e.value, bool) and abs(e.value) < 4096:
            return str(e.value) if e.value >= 0 else '(%d)' % e.value
        if is_name(e):
            return self.lookup(e, 'int')
        if isinstance(e, ast.UnaryOp) and isinstance(e.op, ast.USub):
            return '(- %s)' % self.int_expr(e.operand)
        if isinstance(e, ast.BinOp):
            op = {ast.Add: '+', ast.Sub: '-', ast.Mult: '*', ast.FloorDiv: '/'}.get(type(e.op))
            if op is None:
                raise Refuse('integer operator %s outside the subset' % type(e.op).__name__ + _where(e))
            return '(%s %s %s)' % (self.int_expr(e.left), op, self.int_expr(e.right))
        if isinstance(e, ast.Call) and is_name(e.func, 'len') and len(e.args) == 1 and not e.keywords and is_name(e.args[0]):
            return '(Z.of_nat (length %s))' % self.lookup(e.args[0], 'xs')
        raise Refuse('integer expression outside the subset: ' + ast.dump(e)[:120] + _where(e))

    def elt_expr(self, e):
        if isinstance(e, ast.Subscript) and is_name(e.value) and not isinstance(e.slice, (ast.Slice, ast.Tuple)):
            return '(znth %s %s d0)' % (self.int_expr(e.slice), self.lookup(e.value, 'xs'))
        raise Refuse('metric argument outside the subset: ' + ast.dump(e)[:120] + _where(e))

    def val_expr(self, e):
        if is_name(e):
            return self.lookup(e, 'val')
        if isinstance(e, ast.Call) and is_name(e.func, self.metric) and len(e.args) == 2:
            for kw in e.keywords:
                if not (kw.arg is None and self.kwargs and is_name(kw.value, self.kwargs)):
                    raise Refuse('metric call with an argument outside the subset' + _where(e))
            if e.keywords:
                self.note('**%s of the metric call (part of f)' % self.kwargs)
            return '(f %s %s)' % (self.elt_expr(e.args[0]), self.elt_expr(e.args[1]))
        raise Refuse('stored value outside the subset: ' + ast.dump(e)[:120] + _where(e))

    def note(self, s):
        if s not in self.dropped:
            self.dropped.append(s)

    # ---------------------------------------------------------------- statements
    def fresh(self, name, where):
        if name in self.env or name in self.other_params or name == self.metric or name == self.kwargs:
            raise Refuse('name %s re-used' % name + _where(where))

    def rhs(self, name, e):
        """right-hand side of `name = e` -> (coq, type)"""
        if isinstance(e, ast.Call) and is_name(e.func, 'list') and len(e.args) == 1 and not e.keywords and is_name(e.args[0]) \
                and self.env.get(e.args[0].id, (0, 0))[1] == 'xs':
            self.note('list(%s) (a copy)' % e.args[0].id)
            return self.env[e.args[0].id][0], 'xs'
        if isinstance(e, ast.Call) and is_np(e.func, 'empty') and len(e.args) == 1:
            for kw in e.keywords:
                if kw.arg != 'dtype':
                    raise Refuse('np.empty keyword %s outside the subset' % kw.arg + _where(e))
                self.note('dtype= of np.empty')
            shape = e.args[0]
            dims = shape.elts if isinstance(shape, ast.Tuple) else [shape]
            if len(dims) == 1:
                return 'repeat dd (Z.to_nat %s)' % self.int_expr(dims[0]), 'vec'
            if len(dims) == 2:
                return 'repeat (repeat dd (Z.to_nat %s)) (Z.to_nat %s)' % (self.int_expr(dims[1]), self.int_expr(dims[0])), 'mat'
            raise Refuse('np.empty shape outside the subset' + _where(e))
        if isinstance(e, ast.Call) and is_name(e.func, self.metric):
            return self.val_expr(e), 'val'
        return self.int_expr(e), 'int'

    def is_default_metric(self, s):
        """if metric is None: metric = <name>"""
        t = s.test
        return (isinstance(s, ast.If) and not s.orelse and isinstance(t, ast.Compare) and is_name(t.left, self.metric)
                and len(t.ops) == 1 and isinstance(t.ops[0], ast.Is) and isinstance(t.comparators[0], ast.Constant)
                and t.comparators[0].value is None and len(s.body) == 1 and isinstance(s.body[0], ast.Assign)
                and len(s.body[0].targets) == 1 and is_name(s.body[0].targets[0], self.metric)
                and isinstance(s.body[0].value, (ast.Name, ast.Attribute)))

    def bind(self, vars_, expr, rest, ind):
        if rest.strip() == self.tuple_of(vars_):       # tail position: the loop's result is the block's result
            return ind + expr
        pat = self.env[vars_[0]][0] if len(vars_) == 1 else "'(%s)" % ', '.join(self.env[v][0] for v in vars_)
        return '%slet %s := %s in\n%s' % (ind, pat, expr, rest)

    def tuple_of(self, vars_):
        return self.env[vars_[0]][0] if len(vars_) == 1 else '(%s)' % ', '.join(self.env[v][0] for v in vars_)

    def block(self, stmts, state, final, ind, top):
        """stmts executed in order, then `final()` (a Coq expression text, evaluated in the environment reached)"""
        if not stmts:
            return ind + final()
        s, rest = stmts[0], stmts[1:]
        if top and isinstance(s, ast.If) and self.is_default_metric(s):
            self.note('`if %s is None: %s = ...` (the default metric is one instance of f)' % (self.metric, self.metric))
            return self.block(rest, state, final, ind, top)
        if isinstance(s, ast.Return):
            if not top or rest or s.value is None or not is_name(s.value):
                raise Refuse('return outside the subset' + _where(s))
            return ind + self.lookup(s.value, self.result_type)
        if isinstance(s, ast.Assign) and len(s.targets) == 1 and is_name(s.targets[0]):
            name = s.targets[0].id
            coq, typ = self.rhs(name, s.value)
            if name in self.env and (self.env[name][1] != typ or (not top and name not in state)):
                raise Refuse('name %s rebound' % name + _where(s))
            if name not in self.env:
                self.fresh(name, s)
                if not top and typ not in ('int', 'val'):
                    raise Refuse('array created inside a loop' + _where(s))
            self.env[name] = ('v_' + name, typ)
            return '%slet %s := %s in\n%s' % (ind, 'v_' + name, coq, self.block(rest, state, final, ind, top))
        if isinstance(s, ast.AugAssign) and is_name(s.target) and isinstance(s.op, (ast.Add, ast.Sub)):
            c = self.lookup(s.target, 'int')
            if not top and s.target.id not in state:
                raise Refuse('name %s is not loop state' % s.target.id + _where(s))
            op = '+' if isinstance(s.op, ast.Add) else '-'
            return '%slet %s := (%s %s %s) in\n%s' % (ind, c, c, op, self.int_expr(s.value), self.block(rest, state, final, ind, top))
        if isinstance(s, ast.Assign) and len(s.targets) == 1 and isinstance(s.targets[0], ast.Subscript) and is_name(s.targets[0].value):
            t = s.targets[0]
            if top:
                raise Refuse('store outside a loop' + _where(s))
            name = t.value.id
            if name not in state:
                raise Refuse('store to %s, which is not loop state' % name + _where(s))
            typ = self.env[name][1]
            c = self.env[name][0]
            if isinstance(t.slice, ast.Slice):
                raise Refuse('slice store' + _where(s))
            idx = t.slice.elts if isinstance(t.slice, ast.Tuple) else [t.slice]
            if typ == 'vec' and len(idx) == 1:
                coq = 'zupd %s %s %s' % (self.int_expr(idx[0]), self.val_expr(s.value), c)
            elif typ == 'mat' and len(idx) == 2:
                coq = 'zupd2 %s %s %s %s' % (self.int_expr(idx[0]), self.int_expr(idx[1]), self.val_expr(s.value), c)
            else:
                raise Refuse('store with %d indices into a %s' % (len(idx), typ) + _where(s))
            return '%slet %s := %s in\n%s' % (ind, c, coq, self.block(rest, state, final, ind, top))
        if isinstance(s, ast.For) and not s.orelse and is_name(s.target) and isinstance(s.iter, ast.Call) and is_name(s.iter.func, 'range') \
                and not s.iter.keywords and len(s.iter.args) in (1, 2):
            v = s.target.id
            self.fresh(v, s)
            if top:
                if state:
                    raise Refuse('more than one loop nest' + _where(s))
                asg = assigned_names(s.body)
                state = [n for n in self.env if n in asg]        # binding order (dict order)
                if not state:
                    raise Refuse('loop without state' + _where(s))
                for n in state:
                    if self.env[n][1] not in ('int', 'vec', 'mat'):
                        raise Refuse('loop state %s of type %s' % (n, self.env[n][1]) + _where(s))
            a = s.iter.args
            lo, hi = ('0', self.int_expr(a[0])) if len(a) == 1 else (self.int_expr(a[0]), self.int_expr(a[1]))
            if v in assigned_names(s.body):
                raise Refuse('loop variable %s assigned in the loop' % v + _where(s))
            outer = dict(self.env)
            self.env[v] = ('v_' + v, 'int')
            ind2 = ind + '    '
            body = self.block(s.body, state, lambda: self.tuple_of(state), ind2, False)
            if len(state) > 1:
                body = "%slet '(%s) := st in\n%s" % (ind2, ', '.join(outer[n][0] for n in state), body)
            else:
                body = '%slet %s := st in\n%s' % (ind2, outer[state[0]][0], body)
            self.env = outer
            loop = 'fold_left (fun st v_%s =>\n%s)\n%s  (zrange %s %s) %s' % (v, body, ind, lo, hi, self.tuple_of(state))
            if top:
                if not (len(rest) == 1 and isinstance(rest[0], ast.Return)):
                    raise Refuse('statements after the loop nest other than `return <name>`' + _where(s))
                return self.bind(state, loop, self.block(rest, state, final, ind, top), ind)
            return self.bind(state, loop, self.block(rest, state, final, ind, False), ind)
        raise Refuse('statement outside the subset: %s' % type(s).__name__ + _where(s))

    def emit(self, cname):
        body = list(self.fn.body)
        if body and isinstance(body[0], ast.Expr) and isinstance(body[0].value, ast.Constant) and isinstance(body[0].value.value, str):
            body = body[1:]
        if not body or not isinstance(body[-1], ast.Return):
            raise Refuse('function does not end in `return <name>`')
        if sum(isinstance(s, ast.For) for s in body) != 1:
            raise Refuse('expected exactly one top-level loop nest')
        text = self.block(body, [], lambda: '', '  ', True)
        params = ' '.join('v_' + p for p in self.seq_params)
        rty = {'vec': 'list D', 'mat': 'list (list D)'}[self.result_type]
        head = '(* %s: dropped as bookkeeping: %s *)\n' % (self.fn.name, '; '.join(self.dropped) or 'nothing')
        return head + '#[using="f d0 dd"] Definition %s (%s : list X) : %s :=\n%s.' % (cname, params, rty, text)


HEADER = '''(* GENERATED from pyrepseq/distance.py (the loop nests of pdist and cdist) by translate/regen_c08.py on every check; do not edit.
   Store-passing encoding, vocabulary in lib/PyStore.v; proofs/GenDistP.v proves gen_pdist = pdist_loop and gen_cdist = cdist_loop. *)
From Coq Require Import List ZArith.
From PV Require Import lib.PyStore.
Import ListNotations.
Local Open Scope Z_scope.

Section GenC08.
Context {X D : Type}.
Variable f : X -> X -> D.     (* the metric, uninterpreted (keyword arguments included) *)
Variable d0 : X.              (* default of an out-of-range load *)
Variable dd : D.              (* content of an uninitialised np.empty cell *)
'''
FOOTER = '\nEnd GenC08.\n'

# committed snapshots (DESIGN.md 1.5): the translator's output on the source of the day the proofs were written
SNAP = {
    'pdist': '''(* pdist: dropped as bookkeeping: `if metric is None: metric = ...` (the default metric is one instance of f); list(strings) (a copy); dtype= of np.empty; **kwargs of the metric call (part of f) *)
#[using="f d0 dd"] Definition gen_pdist (v_strings : list X) : list D :=
  let v_strings := v_strings in
  let v_m := (Z.of_nat (length v_strings)) in
  let v_dm := repeat dd (Z.to_nat ((v_m * (v_m - 1)) / 2)) in
  let v_k := 0 in
  let '(v_dm, v_k) := fold_left (fun st v_i =>
      let '(v_dm, v_k) := st in
      fold_left (fun st v_j =>
          let '(v_dm, v_k) := st in
          let v_dm := zupd v_k (f (znth v_i v_strings d0) (znth v_j v_strings d0)) v_dm in
          let v_k := (v_k + 1) in
          (v_dm, v_k))
        (zrange (v_i + 1) v_m) (v_dm, v_k))
    (zrange 0 (v_m - 1)) (v_dm, v_k) in
  v_dm.''',
    'cdist': '''(* cdist: dropped as bookkeeping: `if metric is None: metric = ...` (the default metric is one instance of f); list(stringsA) (a copy); list(stringsB) (a copy); dtype= of np.empty; **kwargs of the metric call (part of f) *)
#[using="f d0 dd"] Definition gen_cdist (v_stringsA v_stringsB : list X) : list (list D) :=
  let v_stringA := v_stringsA in
  let v_stringB := v_stringsB in
  let v_mA := (Z.of_nat (length v_stringA)) in
  let v_mB := (Z.of_nat (length v_stringB)) in
  let v_dm := repeat (repeat dd (Z.to_nat v_mB)) (Z.to_nat v_mA) in
  fold_left (fun st v_i =>
      let v_dm := st in
      fold_left (fun st v_j =>
          let v_dm := st in
          let v_dm := zupd2 v_i v_j (f (znth v_i v_stringA d0) (znth v_j v_stringB d0)) v_dm in
          v_dm)
        (zrange 0 v_mB) v_dm)
    (zrange 0 v_mA) v_dm.''',
}
ITEMS = [('pdist', 1, 'vec', 'gen_pdist'), ('cdist', 2, 'mat', 'gen_cdist')]


def translate(src, fname, nseq, rtype, cname):
    try:
        tree = ast.parse(src)
    except SyntaxError as e:
        raise Refuse('distance.py does not parse: %s' % e)
    fns = [n for n in tree.body if isinstance(n, ast.FunctionDef) and n.name == fname]
    if len(fns) != 1:
        raise Refuse('function %s not found' % fname)
    return Fn(fns[0], nseq, rtype).emit(cname)


def run(STATUS, write_if_changed, ROOT, REPO):
    out = [HEADER]
    try:
        src = open(os.path.join(REPO, 'pyrepseq', 'distance.py')).read()
    except OSError as e:
        src = None
        why = 'distance.py unreadable: %r' % e
    for fname, nseq, rtype, cname in ITEMS:
        name = 'c08.' + fname
        try:
            if src is None:
                raise Refuse(why)
            out.append(translate(src, fname, nseq, rtype, cname))
            STATUS[name] = dict(ok=True, properties=PROPS, error=None)
        except Refuse as e:
            reason = str(e)[:200]
            out.append('(* translator refused: %s -- committed snapshot of the last good text *)\n' % reason.replace('*)', '* )').replace('(*', '( *')
                       + SNAP[fname])
            STATUS[name] = dict(ok=True, snapshot=True, properties=PROPS,
                                error='regen unavailable (%s): committed snapshot used, tie by correspondence' % reason)
        except Exception:
            out.append('(* translator crashed -- committed snapshot so that the build proceeds; the item is reported as failed *)\n' + SNAP[fname])
            STATUS[name] = dict(ok=False, properties=PROPS, error='translator crashed: ' + traceback.format_exc()[-400:])
        out.append('')
    write_if_changed(os.path.join(ROOT, 'coq/gen/Gen_c08.v'), '\n'.join(out) + FOOTER)


if __name__ == '__main__':      # print the text for today's source (maintainer: paste into SNAP after the proofs pass)
    import sys
    repo = os.environ.get('PV_REPO', '/repo')
    for fname, nseq, rtype, cname in ITEMS:
        print(translate(open(os.path.join(repo, 'pyrepseq', 'distance.py')).read(), fname, nseq, rtype, cname))
        print()
