"""C11 / C14: regenerate coq/gen/Gen_c11b.v from the SOURCE TEXT of pyrepseq/nn.py `_cal_custom_dist` (the per-query worker of kdtree in
custom-distance mode) and of the parameter tuple `_to_triplets` hands to it (fail-closed):

  _to_triplets:  _cal_params = (seqs, max_edits, limit, custom_distance, max_cust_dist)          the ROLES of the five slots
  _cal_custom_dist(_args):
      (i, y_indices) = _args
      <five names> = _cal_params                                   names bound to the roles by position
      query = seqs[i]
      y_indices = filter(lambda y: y != i, y_indices)              (or a comprehension with the same test)
      ans = [(i, y, dist(query, seqs[y])) for y in y_indices]
      def distance_filter(x):
          edit_distance = levenshtein(query, seqs[x[1]])
          return <conjunction of comparisons of x[2] with the custom radius and of edit_distance with max_edits>
      ans = sorted(filter(distance_filter, ans), key=lambda x: x[2])
      return ans if limit is None else ans[0:limit]                (ans[:limit] accepted)

  -> gen_cal_custom_dist leD dist lev seqs max_edits limit max_cust_dist i y_indices
Comparisons of custom distances go through the parameter `leD` (x <= y; x < y is `negb (leD y x)`), so the text fixes WHICH comparison is
made: a tolerance (`np.isclose`), a transformed sort key (`int(x[2])`), a forgotten self-exclusion or a different slice are outside the subset
or give another term.  Vocabulary (trusted, DESIGN section 3): `sorted(.., key=)` is a stable ascending sort (`py_sorted` in
lib/PySorted.v), `filter`, list slicing.  coq/proofs/GenKdRowP.v proves: exactly the candidates other than the query that lie inside both
radii, each with its custom distance, ascending, ties in candidate order; with a limit the first `limit` of them - hence never a farther
neighbour instead of a closer one.  Anything else is refused; on refusal the committed snapshot is written and the refusal recorded."""
import ast, os, traceback

NAME = 'nn._cal_custom_dist / _cal_levenshtein[source]'
PROPS = ['C04', 'C07', 'C11', 'C14']
U = ast.unparse
ROLES = ['seqs', 'max_edits', 'limit', 'dist', 'max_cust_dist']


class Refuse(Exception):
    pass


def body_of(fn):
    b = list(fn.body)
    if b and isinstance(b[0], ast.Expr) and isinstance(b[0].value, ast.Constant) and isinstance(b[0].value.value, str):
        b = b[1:]
    return b


def translate(tree):
    fns = {n.name: n for n in tree.body if isinstance(n, ast.FunctionDef)}
    for need in ('_to_triplets', '_cal_custom_dist'):
        if need not in fns:
            raise Refuse('function %s not found' % need)
    # roles of the parameter tuple
    tt = fns['_to_triplets']
    tparams = [a.arg for a in tt.args.args]
    asg = [s for s in ast.walk(tt) if isinstance(s, ast.Assign) and U(s.targets[0]) == '_cal_params']
    if len(asg) != 1 or not isinstance(asg[0].value, ast.Tuple) or len(asg[0].value.elts) != 5 or not all(isinstance(e, ast.Name) for e in asg[0].value.elts):
        raise Refuse('_to_triplets: _cal_params is not one tuple of five names')
    given = [e.id for e in asg[0].value.elts]
    want = ['seqs', 'max_edits', 'limit', 'custom_distance', 'max_cust_dist']
    if given != want or any(g not in tparams for g in given):
        raise Refuse('_to_triplets: _cal_params is %s, expected %s' % (given, want))
    fn = fns['_cal_custom_dist']
    if [a.arg for a in fn.args.args] != ['_args']:
        raise Refuse('_cal_custom_dist: unexpected signature')
    b = body_of(fn)
    if len(b) != 8:
        raise Refuse('_cal_custom_dist: expected 8 statements, got %d' % len(b))
    s_args, s_par, s_q, s_y, s_ans, s_def, s_sort, s_ret = b
    if U(s_args) not in ('(i, y_indices) = _args', 'i, y_indices = _args'):
        raise Refuse('_cal_custom_dist: `(i, y_indices) = _args` expected: %s' % U(s_args)[:60])
    if not (isinstance(s_par, ast.Assign) and U(s_par.value) == '_cal_params' and isinstance(s_par.targets[0], ast.Tuple)
            and len(s_par.targets[0].elts) == 5 and all(isinstance(e, ast.Name) for e in s_par.targets[0].elts)):
        raise Refuse('_cal_custom_dist: the five parameters are not unpacked from _cal_params')
    nm = dict(zip(ROLES, [e.id for e in s_par.targets[0].elts]))
    if len(set(nm.values())) != 5 or set(nm.values()) & {'i', 'y_indices', 'query', 'ans', 'x'}:
        raise Refuse('_cal_custom_dist: parameter names clash')
    if U(s_q) != 'query = %s[i]' % nm['seqs']:
        raise Refuse('_cal_custom_dist: query is not seqs[i]')
    # self-exclusion
    ok_y = False
    if isinstance(s_y, ast.Assign) and U(s_y.targets[0]) == 'y_indices':
        v = s_y.value
        if isinstance(v, ast.Call) and U(v.func) == 'filter' and len(v.args) == 2 and isinstance(v.args[0], ast.Lambda) and U(v.args[1]) == 'y_indices' \
                and len(v.args[0].args.args) == 1:
            a = v.args[0].args.args[0].arg
            ok_y = U(v.args[0].body) in ('%s != i' % a, 'i != %s' % a)
        elif isinstance(v, (ast.ListComp, ast.GeneratorExp)) and len(v.generators) == 1 and U(v.generators[0].iter) == 'y_indices' \
                and len(v.generators[0].ifs) == 1 and isinstance(v.generators[0].target, ast.Name) and U(v.elt) == v.generators[0].target.id:
            a = v.generators[0].target.id
            ok_y = U(v.generators[0].ifs[0]) in ('%s != i' % a, 'i != %s' % a)
    if not ok_y:
        raise Refuse('_cal_custom_dist: the query is not removed from its candidates by `y != i`: %s' % U(s_y)[:80])
    # scored candidates
    if not (isinstance(s_ans, ast.Assign) and U(s_ans.targets[0]) == 'ans' and isinstance(s_ans.value, ast.ListComp) and len(s_ans.value.generators) == 1
            and not s_ans.value.generators[0].ifs and U(s_ans.value.generators[0].iter) == 'y_indices' and isinstance(s_ans.value.generators[0].target, ast.Name)):
        raise Refuse('_cal_custom_dist: ans is not a comprehension over y_indices')
    y = s_ans.value.generators[0].target.id
    if U(s_ans.value.elt) != '(i, %s, %s(query, %s[%s]))' % (y, nm['dist'], nm['seqs'], y):
        raise Refuse('_cal_custom_dist: element is not (i, y, dist(query, seqs[y])): %s' % U(s_ans.value.elt)[:80])
    # distance_filter
    if not (isinstance(s_def, ast.FunctionDef) and [a.arg for a in s_def.args.args] == ['x'] and len(s_def.body) == 2):
        raise Refuse('_cal_custom_dist: distance_filter(x) with two statements expected')
    e_st, r_st = s_def.body
    if U(e_st) != 'edit_distance = levenshtein(query, %s[x[1]])' % nm['seqs']:
        raise Refuse('_cal_custom_dist: edit_distance is not levenshtein(query, seqs[x[1]]): %s' % U(e_st)[:80])
    if not isinstance(r_st, ast.Return):
        raise Refuse('_cal_custom_dist: distance_filter does not return its test')

    def cond(e):
        if isinstance(e, ast.BoolOp):
            return '(' + (' && ' if isinstance(e.op, ast.And) else ' || ').join(cond(v) for v in e.values) + ')'
        if isinstance(e, ast.Compare) and len(e.ops) == 1:
            l, r, op = U(e.left), U(e.comparators[0]), type(e.ops[0])
            dterm = {'x[2]': '(snd x_)', nm['max_cust_dist']: 'max_cust_dist'}
            nterm = {'edit_distance': 'edit_distance_', nm['max_edits']: 'max_edits'}
            if l in dterm and r in dterm:
                a_, b_ = dterm[l], dterm[r]
                return {ast.LtE: '(leD %s %s)' % (a_, b_), ast.GtE: '(leD %s %s)' % (b_, a_), ast.Lt: '(negb (leD %s %s))' % (b_, a_),
                        ast.Gt: '(negb (leD %s %s))' % (a_, b_)}.get(op) or _refuse('comparison %s' % U(e))
            if l in nterm and r in nterm:
                a_, b_ = nterm[l], nterm[r]
                return {ast.LtE: '(Nat.leb %s %s)' % (a_, b_), ast.GtE: '(Nat.leb %s %s)' % (b_, a_), ast.Lt: '(Nat.ltb %s %s)' % (a_, b_),
                        ast.Gt: '(Nat.ltb %s %s)' % (b_, a_)}.get(op) or _refuse('comparison %s' % U(e))
        raise Refuse('_cal_custom_dist: test of distance_filter not understood: %s' % U(e)[:80])

    def _refuse(what):
        raise Refuse('_cal_custom_dist: %s not understood' % what)
    test = cond(r_st.value)
    if U(s_sort) != 'ans = sorted(filter(distance_filter, ans), key=lambda x: x[2])':
        raise Refuse('_cal_custom_dist: the kept candidates are not sorted by their custom distance x[2]: %s' % U(s_sort)[:100])
    L = nm['limit']
    if U(s_ret) not in ('return ans if %s is None else ans[0:%s]' % (L, L), 'return ans if %s is None else ans[:%s]' % (L, L),
                        'return ans[0:%s] if %s is not None else ans' % (L, L), 'return ans[:%s] if %s is not None else ans' % (L, L)):
        raise Refuse('_cal_custom_dist: the result is not ans / its first `limit` entries: %s' % U(s_ret)[:100])
    return test


def worker_choice(tree):
    """_to_triplets: `cal = A if TEST else B` with A, B the two workers -> for custom_distance None / 'hamming' / a callable: is the custom worker chosen?"""
    tt = next(n for n in tree.body if isinstance(n, ast.FunctionDef) and n.name == '_to_triplets')
    asg = [s_ for s_ in tt.body if isinstance(s_, ast.Assign) and U(s_.targets[0]) == 'cal']
    if len(asg) != 1 or not isinstance(asg[0].value, ast.IfExp):
        raise Refuse('_to_triplets: the worker is not chosen by one conditional expression')
    e = asg[0].value
    names = {U(e.body), U(e.orelse)}
    if names != {'_cal_levenshtein', '_cal_custom_dist'}:
        raise Refuse('_to_triplets: the two workers are not _cal_levenshtein / _cal_custom_dist')
    CALLABLE = object()

    def ev(n, v):
        if isinstance(n, ast.BoolOp):
            vals = [ev(x, v) for x in n.values]
            return all(vals) if isinstance(n.op, ast.And) else any(vals)
        if isinstance(n, ast.UnaryOp) and isinstance(n.op, ast.Not):
            return not ev(n.operand, v)
        if isinstance(n, ast.Call) and U(n.func) == 'callable' and [U(a_) for a_ in n.args] == ['custom_distance']:
            return v is CALLABLE
        if isinstance(n, ast.Compare) and len(n.ops) == 1 and U(n.left) == 'custom_distance':
            r, op = n.comparators[0], n.ops[0]
            if isinstance(r, (ast.Tuple, ast.List, ast.Set)) and all(isinstance(x, ast.Constant) for x in r.elts) and isinstance(op, (ast.In, ast.NotIn)):
                inside = any((v is x.value) or (isinstance(v, str) and v == x.value) for x in r.elts)
                return inside if isinstance(op, ast.In) else not inside
            if isinstance(r, ast.Constant) and isinstance(op, (ast.Is, ast.IsNot, ast.Eq, ast.NotEq)):
                same = (v is r.value) or (isinstance(v, str) and isinstance(r.value, str) and v == r.value)
                return same if isinstance(op, (ast.Is, ast.Eq)) else not same
        raise Refuse('_to_triplets: worker test not understood: %s' % U(n)[:80])
    out = []
    for v in (None, 'hamming', CALLABLE):
        t = ev(e.test, v)
        out.append((U(e.body) if t else U(e.orelse)) == '_cal_custom_dist')
    return out


def translate_lev(tree):
    """_cal_levenshtein(_args):
          i, y_indices = _args
          seqs, max_edits, limit, custom_distance, _ = _cal_params
          scorer = hamming if custom_distance == 'hamming' else levenshtein
          choices = list(filter(lambda y: y != i, y_indices))
          result = extract(seqs[i], seqs[choices], score_cutoff=max_edits, scorer=scorer, limit=limit)
          ans = []
          for _, dist, y_index in result: ans.append((i, choices[y_index], dist))
          return ans"""
    fns = {n.name: n for n in tree.body if isinstance(n, ast.FunctionDef)}
    imports = {U(n) for n in tree.body if isinstance(n, (ast.Import, ast.ImportFrom))}
    for need in ('from rapidfuzz.distance.Levenshtein import distance as levenshtein', 'from rapidfuzz.distance.Hamming import distance as hamming',
                 'from rapidfuzz.process import extract'):
        if need not in imports:
            raise Refuse('nn.py: `%s` expected' % need)
    if '_cal_levenshtein' not in fns:
        raise Refuse('function _cal_levenshtein not found')
    fn = fns['_cal_levenshtein']
    b = [s_ for s_ in body_of(fn) if not isinstance(s_, ast.Pass)]
    if [a.arg for a in fn.args.args] != ['_args'] or len(b) != 8:
        raise Refuse('_cal_levenshtein: expected 8 statements, got %d' % len(b))
    s_args, s_par, s_sc, s_ch, s_res, s_init, s_loop, s_ret = b
    if U(s_args) not in ('(i, y_indices) = _args', 'i, y_indices = _args'):
        raise Refuse('_cal_levenshtein: `i, y_indices = _args` expected')
    if not (isinstance(s_par, ast.Assign) and U(s_par.value) == '_cal_params' and isinstance(s_par.targets[0], ast.Tuple)
            and len(s_par.targets[0].elts) == 5 and all(isinstance(e, ast.Name) for e in s_par.targets[0].elts)):
        raise Refuse('_cal_levenshtein: the five parameters are not unpacked from _cal_params')
    nm = dict(zip(ROLES, [e.id for e in s_par.targets[0].elts]))
    if len({nm[r] for r in ROLES[:4]}) != 4:
        raise Refuse('_cal_levenshtein: parameter names clash')
    cd = nm['dist']
    sc = U(s_sc)
    if sc in ("scorer = hamming if %s == 'hamming' else levenshtein" % cd, "scorer = levenshtein if %s != 'hamming' else hamming" % cd):
        pass
    else:
        raise Refuse('_cal_levenshtein: scorer is not hamming in Hamming mode and levenshtein otherwise: %s' % sc[:100])
    ok = False
    v = s_ch.value if isinstance(s_ch, ast.Assign) and U(s_ch.targets[0]) == 'choices' else None
    if isinstance(v, ast.Call) and U(v.func) == 'list' and len(v.args) == 1 and isinstance(v.args[0], ast.Call) and U(v.args[0].func) == 'filter' \
            and len(v.args[0].args) == 2 and isinstance(v.args[0].args[0], ast.Lambda) and U(v.args[0].args[1]) == 'y_indices' \
            and len(v.args[0].args[0].args.args) == 1:
        a = v.args[0].args[0].args.args[0].arg
        ok = U(v.args[0].args[0].body) in ('%s != i' % a, 'i != %s' % a)
    elif isinstance(v, ast.ListComp) and len(v.generators) == 1 and U(v.generators[0].iter) == 'y_indices' and len(v.generators[0].ifs) == 1 \
            and isinstance(v.generators[0].target, ast.Name) and U(v.elt) == v.generators[0].target.id:
        a = v.generators[0].target.id
        ok = U(v.generators[0].ifs[0]) in ('%s != i' % a, 'i != %s' % a)
    if not ok:
        raise Refuse('_cal_levenshtein: the query is not removed from its candidates by `y != i`: %s' % U(s_ch)[:80])
    r = s_res.value if isinstance(s_res, ast.Assign) and U(s_res.targets[0]) == 'result' else None
    if not (isinstance(r, ast.Call) and U(r.func) == 'extract' and [U(a_) for a_ in r.args] == ['%s[i]' % nm['seqs'], '%s[choices]' % nm['seqs']]
            and {k.arg: U(k.value) for k in r.keywords} == dict(score_cutoff=nm['max_edits'], scorer='scorer', limit=nm['limit'])):
        raise Refuse('_cal_levenshtein: result is not extract(seqs[i], seqs[choices], score_cutoff=max_edits, scorer=scorer, limit=limit): %s' % U(s_res)[:120])
    if U(s_init) != 'ans = []' or U(s_ret) != 'return ans':
        raise Refuse('_cal_levenshtein: the result list is not built in `ans`')
    if not (isinstance(s_loop, ast.For) and not s_loop.orelse and U(s_loop.iter) == 'result' and isinstance(s_loop.target, ast.Tuple)
            and len(s_loop.target.elts) == 3 and all(isinstance(e, ast.Name) for e in s_loop.target.elts) and len(s_loop.body) == 1):
        raise Refuse('_cal_levenshtein: loop is not `for _, dist, y_index in result`')
    _c, d_, y_ = [e.id for e in s_loop.target.elts]
    if U(s_loop.body[0]) != 'ans.append((i, choices[%s], %s))' % (y_, d_):
        raise Refuse('_cal_levenshtein: the triplet is not (i, choices[index], score): %s' % U(s_loop.body[0])[:80])


TEMPLATE = '''Section GenKdRow.
Context {D : Type}.
Variable leD : D -> D -> bool.                 (* x <= y on custom distances *)
Variable dist : str -> str -> D.               (* the caller's custom distance *)
Variable lev : str -> str -> nat.              (* rapidfuzz Levenshtein.distance *)

Definition gen_distance_filter (seqs : list str) (max_edits : nat) (max_cust_dist : D) (query : str) (x_ : nat * nat * D) : bool :=
  let edit_distance_ := lev query (nth (snd (fst x_)) seqs []) in
  %s.

Definition gen_cal_custom_dist (seqs : list str) (max_edits : nat) (limit : option nat) (max_cust_dist : D) (i : nat) (y_indices : list nat)
  : list (nat * nat * D) :=
  let query := nth i seqs [] in
  let y_indices := filter (fun y_ => negb (Nat.eqb y_ i)) y_indices in
  let ans := map (fun y_ => (i, y_, dist query (nth y_ seqs []))) y_indices in
  let ans := py_sorted leD (fun x_ : nat * nat * D => snd x_) (filter (gen_distance_filter seqs max_edits max_cust_dist query) ans) in
  match limit with None => ans | Some m_ => firstn m_ ans end.
End GenKdRow.

(* _cal_levenshtein: default and Hamming mode; `hamming` / `levenshtein` are rapidfuzz's distances, `extract` the vocabulary rf_extract *)
Definition gen_cal_levenshtein (hamming levenshtein : str -> str -> nat) (seqs : list str) (max_edits : nat) (limit : option nat)
  (is_hamming : bool) (i : nat) (y_indices : list nat) : list (nat * nat * nat) :=
  let scorer := if is_hamming then hamming else levenshtein in
  let choices := filter (fun y_ => negb (Nat.eqb y_ i)) y_indices in
  let result := rf_extract scorer (nth i seqs []) (map (fun c_ => nth c_ seqs []) choices) max_edits limit in
  fold_left (fun ans r_ => ans ++ [(i, nth (snd r_) choices 0, snd (fst r_))]) result [].
'''
WORKER = '''
(* _to_triplets: is the custom-distance worker chosen for custom_distance = None / 'hamming' / a callable? *)
Definition gen_worker_is_custom : bool * bool * bool := (%s, %s, %s).
'''
SNAP = '((leD (snd x_) max_cust_dist) && (Nat.leb edit_distance_ max_edits))'


def run(STATUS, write_if_changed, ROOT, REPO):
    head = ['(* GENERATED from pyrepseq/nn.py (_cal_custom_dist, the parameter tuple of _to_triplets) by translate/regen_c11b.py on every check; do not edit. *)',
            'From Coq Require Import List Arith Bool.', 'From PV Require Import lib.Str lib.PyDict lib.PySorted.', 'Import ListNotations.', '']
    try:
        tree = ast.parse(open(os.path.join(REPO, 'pyrepseq', 'nn.py')).read())
        test = translate(tree)
        translate_lev(tree)
        w = worker_choice(tree)
        txt = TEMPLATE % test + WORKER % tuple('true' if x else 'false' for x in w)
        STATUS[NAME] = dict(ok=True, properties=PROPS, error=None)
    except Refuse as e:
        txt = '(* translator refused: %s -- committed snapshot of the last good text *)\n' % str(e).replace('*)', '* )') + TEMPLATE % SNAP + WORKER % ('false', 'false', 'true')
        STATUS[NAME] = dict(ok=True, snapshot=True, properties=PROPS,
                            error='regen unavailable (%s): committed snapshot used, tie by correspondence' % str(e)[:200])
    except Exception:
        txt = '(* translator crashed -- committed snapshot *)\n' + TEMPLATE % SNAP + WORKER % ('false', 'false', 'true')
        STATUS[NAME] = dict(ok=True, snapshot=True, properties=PROPS,
                            error='regen unavailable (translator error on text outside its subset: %s): committed snapshot used, tie by correspondence' % traceback.format_exc()[-200:].replace('\n', ' '))
    write_if_changed(os.path.join(ROOT, 'coq/gen/Gen_c11b.v'), '\n'.join(head) + txt)
