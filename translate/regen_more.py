"""Data tables and constants regenerated from /repo (Gen_data.v, Gen_consts.v)."""
import ast, csv, os


def coq_str(s):
    return '[' + ';'.join(str(ord(c)) for c in s) + ']%N' if s else '(@nil N)'


def gen_data(STATUS, write_if_changed, ROOT, REPO):
    out = ['(* GENERATED from pyrepseq/data/*.csv by translate/regen_more.py on every check; do not edit. *)',
           'From Coq Require Import List NArith ZArith.', 'Import ListNotations.', '']
    for chain in ('alpha', 'beta'):
        name = 'vdists_' + chain
        path = os.path.join(REPO, 'pyrepseq', 'data', name + '.csv')
        try:
            rows = list(csv.reader(open(path, newline='')))
            cols = rows[0][1:]
            labels = [r[0] for r in rows[1:] if r]
            mat = [[int(x) for x in r[1:]] for r in rows[1:] if r]
            out.append('Definition %s : (list (list N) * list (list N) * list (list Z)) :=' % name)
            out.append('  ([' + ';\n    '.join(coq_str(l) for l in labels) + '],')
            out.append('   [' + ';\n    '.join(coq_str(l) for l in cols) + '],')
            out.append('   [' + ';\n    '.join('[' + ';'.join(str(v) for v in r) + ']%Z' for r in mat) + ']).')
            out.append('')
            STATUS['data.' + name] = dict(ok=True, properties=['C14'], error=None)
        except Exception as e:
            out.append('Definition %s : (list (list N) * list (list N) * list (list Z)) := ([], [[1%%N]], []).' % name)
            STATUS['data.' + name] = dict(ok=False, properties=['C14'], error=repr(e)[:200])
    # background table: index column only
    path = os.path.join(REPO, 'pyrepseq', 'data', 'pcdelta_pbmc_minervina.csv')
    try:
        rows = list(csv.reader(open(path, newline='')))
        idx = [int(r[0]) for r in rows[1:] if r]
        out.append('Definition pcdelta_background_index : list Z := [' + ';'.join(str(v) for v in idx) + ']%Z.')
        STATUS['data.pcdelta_background'] = dict(ok=True, properties=['C05'], error=None)
    except Exception as e:
        out.append('Definition pcdelta_background_index : list Z := [].')
        STATUS['data.pcdelta_background'] = dict(ok=False, properties=['C05'], error=repr(e)[:200])
    write_if_changed(os.path.join(ROOT, 'coq/gen/Gen_data.v'), '\n'.join(out) + '\n')


def gen_consts(STATUS, write_if_changed, ROOT, REPO):
    out = ['(* GENERATED from pyrepseq sources by translate/regen_more.py on every check; do not edit. *)',
           'From Coq Require Import List NArith ZArith.', 'Import ListNotations.', '']
    # io.aminoacids
    try:
        tree = ast.parse(open(os.path.join(REPO, 'pyrepseq', 'io.py')).read())
        val = None
        for node in tree.body:
            if isinstance(node, ast.Assign) and len(node.targets) == 1 and isinstance(node.targets[0], ast.Name) \
                    and node.targets[0].id == 'aminoacids':
                if isinstance(node.value, ast.Constant) and isinstance(node.value.value, str):
                    val = node.value.value
        if val is None:
            raise ValueError('aminoacids is not a module-level string literal')
        out.append('Definition gen_aminoacids : list N := %s.' % coq_str(val))
        STATUS['consts.aminoacids'] = dict(ok=True, properties=['C03', 'C04', 'C07', 'C12', 'C18'], error=None)
    except Exception as e:
        # DESIGN.md 1.5: anchor not found -> committed snapshot (the 20 standard letters), recorded; tie by correspondence
        out.append('Definition gen_aminoacids : list N := %s.' % coq_str('ACDEFGHIKLMNPQRSTVWY'))
        STATUS['consts.aminoacids'] = dict(ok=True, snapshot=True, properties=['C03', 'C04', 'C07', 'C12', 'C18'],
                                           error='regen unavailable (%s): committed snapshot used, tie by correspondence' % repr(e)[:200])
    # nn._to_triplets: chunksize expression of Pool.map, as a function of len(seqs) and n_cpu
    try:
        tree = ast.parse(open(os.path.join(REPO, 'pyrepseq', 'nn.py')).read())
        fn = next(n for n in tree.body if isinstance(n, ast.FunctionDef) and n.name == '_to_triplets')
        expr = None
        for node in ast.walk(fn):
            if isinstance(node, ast.Call) and isinstance(node.func, ast.Attribute) and node.func.attr == 'map':
                for kw in node.keywords:
                    if kw.arg == 'chunksize':
                        expr = kw.value
        if expr is None:
            raise ValueError('no Pool.map(..., chunksize=...) call in _to_triplets')
        out.append('Definition gen_chunksize (len_seqs n_cpu : nat) : nat := %s.' % chunk_expr(expr))
        STATUS['consts.chunksize'] = dict(ok=True, properties=['C11'], error=None)
    except Exception as e:
        out.append('Definition gen_chunksize (len_seqs n_cpu : nat) : nat := (Nat.max 1 (Nat.div len_seqs n_cpu)).')
        STATUS['consts.chunksize'] = dict(ok=True, snapshot=True, properties=['C11'],
                                          error='regen unavailable (%s): committed snapshot used, tie by correspondence (real Pool runs incl. n_cpu > len)' % repr(e)[:200])
    write_if_changed(os.path.join(ROOT, 'coq/gen/Gen_consts.v'), '\n'.join(out) + '\n')


def chunk_expr(e):
    """Integer expressions over len(seqs) and n_cpu: int(a / b), a // b, max(a, b), min, +, -, *, literals."""
    if isinstance(e, ast.Constant) and isinstance(e.value, int) and e.value >= 0:
        return '%d' % e.value
    if isinstance(e, ast.Name) and e.id == 'n_cpu':
        return 'n_cpu'
    if isinstance(e, ast.Call) and isinstance(e.func, ast.Name):
        if e.func.id == 'len' and len(e.args) == 1 and isinstance(e.args[0], ast.Name) and e.args[0].id in ('seqs', 'y_indices'):
            return 'len_seqs'
        if e.func.id == 'int' and len(e.args) == 1 and isinstance(e.args[0], ast.BinOp) and isinstance(e.args[0].op, ast.Div):
            return '(Nat.div %s %s)' % (chunk_expr(e.args[0].left), chunk_expr(e.args[0].right))
        if e.func.id in ('max', 'min') and len(e.args) == 2 and not e.keywords:
            return '(Nat.%s %s %s)' % (e.func.id, chunk_expr(e.args[0]), chunk_expr(e.args[1]))
    if isinstance(e, ast.BinOp):
        if isinstance(e.op, ast.FloorDiv):
            return '(Nat.div %s %s)' % (chunk_expr(e.left), chunk_expr(e.right))
        for k, v in ((ast.Add, 'Nat.add'), (ast.Mult, 'Nat.mul'), (ast.Sub, 'Nat.sub')):
            if isinstance(e.op, k):
                return '(%s %s %s)' % (v, chunk_expr(e.left), chunk_expr(e.right))
    raise ValueError('chunksize expression outside the subset: ' + ast.dump(e)[:120])


def run(STATUS, write_if_changed, ROOT, REPO):
    for g in (gen_data, gen_consts):
        try:
            g(STATUS, write_if_changed, ROOT, REPO)
        except Exception as e:
            STATUS[g.__name__] = dict(ok=False, properties=[], error='translator crashed: %r' % (e,))
