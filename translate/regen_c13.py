"""C13: decision facts of the entropy / grouped functions, regenerated from the source on every check.

For each function the `if` tree is executed abstractly for every combination of the decision inputs
(`not by`, `type(features) == list`, `type(on) == list`) and the coincidence-probability functions called on the
executed path are recorded.  Only conditions and call sites are looked at, so renaming locals, reordering independent
statements or rewriting the arithmetic does not disturb the translation.  Anything outside the subset (a decision that
depends on something else, a tracked call inside a loop / try) is refused (fail-closed); the last good text is then
written so that the build proceeds."""
import ast, os

TRACK = ('pc', 'pc_joint', 'pc_conditional', 'stdpc', 'stdpc_joint')
CODE = {'pc': 0, 'pc_joint': 1, 'pc_conditional': 2, 'stdpc': 0, 'stdpc_joint': 1}


class Refuse(Exception):
    pass


def call_name(node):
    if isinstance(node, ast.Call):
        f = node.func
        if isinstance(f, ast.Name) and f.id in TRACK:
            return f.id
        if isinstance(f, ast.Attribute) and f.attr in TRACK:
            return f.attr
    return None


def tracked_calls(node):
    return [n for n in ast.walk(node) if call_name(n)]


def is_type_of(node, var):
    return (isinstance(node, ast.Call) and isinstance(node.func, ast.Name) and node.func.id == 'type'
            and len(node.args) == 1 and isinstance(node.args[0], ast.Name) and node.args[0].id == var)


def ev(test, env):
    """env: {'truthy': {name: bool}, 'islist': {name: bool}}"""
    if isinstance(test, ast.UnaryOp) and isinstance(test.op, ast.Not):
        return not ev(test.operand, env)
    if isinstance(test, ast.BoolOp):
        vals = [ev(v, env) for v in test.values]
        return all(vals) if isinstance(test.op, ast.And) else any(vals)
    if isinstance(test, ast.Name) and test.id in env['truthy']:
        return env['truthy'][test.id]
    if isinstance(test, ast.Compare) and len(test.ops) == 1:
        l, op, r = test.left, test.ops[0], test.comparators[0]
        for var in env['islist']:
            if is_type_of(l, var) and isinstance(r, ast.Name) and r.id == 'list':
                if isinstance(op, (ast.Eq, ast.Is)):
                    return env['islist'][var]
                if isinstance(op, (ast.NotEq, ast.IsNot)):
                    return not env['islist'][var]
    if (isinstance(test, ast.Call) and isinstance(test.func, ast.Name) and test.func.id == 'isinstance' and len(test.args) == 2
            and isinstance(test.args[0], ast.Name) and test.args[0].id in env['islist']
            and isinstance(test.args[1], ast.Name) and test.args[1].id == 'list'):
        return env['islist'][test.args[0].id]
    raise Refuse('condition outside the subset: ' + ast.unparse(test))


def walk(stmts, env, out):
    """Returns True when the path has returned / raised."""
    decision = set(env['truthy']) | set(env['islist'])
    for s in stmts:
        if isinstance(s, ast.If):
            names = {n.id for n in ast.walk(s.test) if isinstance(n, ast.Name)}
            if names & decision:
                if tracked_calls(s.test):
                    raise Refuse('tracked call inside a condition')
                if walk(s.body if ev(s.test, env) else s.orelse, env, out):
                    return True
            elif tracked_calls(s):
                raise Refuse('tracked call under a condition that is not a decision input: ' + ast.unparse(s.test))
        elif isinstance(s, (ast.Return, ast.Raise)):
            out += tracked_calls(s)
            return True
        elif isinstance(s, (ast.Assign, ast.AugAssign, ast.AnnAssign, ast.Expr, ast.Pass, ast.Import, ast.ImportFrom)):
            out += tracked_calls(s)
        elif isinstance(s, (ast.For, ast.While, ast.With)):
            if walk(s.body, env, out):      # the body, executed once
                return True
        elif tracked_calls(s):
            raise Refuse('tracked call inside %s' % type(s).__name__)
    return False


def arg_shape(c):
    """positional arguments of a tracked call as text, '**' appended when **kwargs is passed on"""
    a = [ast.unparse(x) for x in c.args]
    if any(k.arg is None for k in c.keywords):
        a.append('**')
    a += ['%s=%s' % (k.arg, ast.unparse(k.value)) for k in c.keywords if k.arg is not None]
    return a


def find(tree, name):
    for n in tree.body:
        if isinstance(n, ast.FunctionDef) and n.name == name:
            return n
    raise Refuse('function %s not found' % name)


def paths(fn, truthy_vars, list_vars):
    res = {}
    import itertools
    for bits in itertools.product([True, False], repeat=len(truthy_vars) + len(list_vars)):
        env = dict(truthy=dict(zip(truthy_vars, bits)), islist=dict(zip(list_vars, bits[len(truthy_vars):])))
        out = []
        walk(fn.body, env, out)
        res[bits] = out
    return res


def b(x):
    return 'true' if x else 'false'


def gen_entropy(tree):
    fn = find(tree, 'renyi2_entropy')
    argn = [a.arg for a in fn.args.args]
    if argn[:3] != ['df', 'features', 'by'] or fn.args.kwarg is None:
        raise Refuse('renyi2_entropy signature changed: %s' % argn)
    rows, ok = [], True
    # decision inputs: truthiness of `by`, type(features) == list
    for (by_truthy, is_list), calls in sorted(paths(fn, ['by'], ['features']).items()):
        if len(calls) != 1:
            raise Refuse('renyi2_entropy: %d coincidence-probability calls on one path' % len(calls))
        nm = call_name(calls[0])
        if nm not in ('pc', 'pc_joint', 'pc_conditional'):
            raise Refuse('renyi2_entropy calls ' + nm)
        want = {'pc': ['df[features]'], 'pc_joint': ['df', 'features'], 'pc_conditional': ['df', 'by', 'features', '**']}[nm]
        ok = ok and arg_shape(calls[0]) == want
        rows.append('  | %s, %s => %d' % (b(not by_truthy), b(is_list), CODE[nm]))
    txt = ['Definition gen_renyi2_dispatch (by_falsy is_list : bool) : nat :=', '  match by_falsy, is_list with'] + rows + ['  end.',
           'Definition gen_renyi2_args_ok : bool := %s.' % b(ok)]
    fn = find(tree, 'stdrenyi2_entropy')
    rows, ok = [], True
    for (is_list,), calls in sorted(paths(fn, [], ['features']).items()):
        nms = sorted(call_name(c) for c in calls)
        if len(nms) != 2 or not nms[1].startswith('stdpc') or nms[0].startswith('stdpc'):
            raise Refuse('stdrenyi2_entropy: calls %s on one path' % nms)
        for c in calls:
            want = {'pc': [['df[features]']], 'stdpc': [['df[features]']], 'pc_joint': [['df', 'features']],
                    'stdpc_joint': [['df', 'features', '**'], ['df', 'features']]}[call_name(c)]
            ok = ok and arg_shape(c) in want
        rows.append('  | %s => (%d, %d)' % (b(is_list), CODE[nms[1]], CODE[nms[0]]))
    txt += ['(* (which stdpc, which pc): 0 = on the column, 1 = joint *)',
            'Definition gen_stdrenyi2_dispatch (is_list : bool) : nat * nat :=', '  match is_list with'] + rows + ['  end.',
            'Definition gen_stdrenyi2_args_ok : bool := %s.' % b(ok)]
    return txt


def gen_grouped(tree):
    txt = []
    for fname, cname in (('pc_conditional', 'gen_conditional_dispatch'), ('pc_grouped_cross', 'gen_grouped_cross_dispatch')):
        fn = find(tree, fname)
        rows = []
        for (is_list,), calls in sorted(paths(fn, [], ['on']).items()):
            nms = [call_name(c) for c in calls]
            if len(nms) != 1 or nms[0] not in ('pc', 'pc_joint'):
                raise Refuse('%s: calls %s on one path' % (fname, nms))
            rows.append('  | %s => %d' % (b(is_list), CODE[nms[0]]))
        txt += ['Definition %s (is_list : bool) : nat :=' % cname, '  match is_list with'] + rows + ['  end.']
    return txt


HEADER = ['(* GENERATED from pyrepseq/entropy.py and pyrepseq/stats.py by translate/regen_c13.py on every check; do not edit. *)',
          'From Coq Require Import Bool Arith.', '']

# last good text (the pinned source), written when the translator refuses so that the build proceeds
SNAPSHOT = {
    'entropy': ['Definition gen_renyi2_dispatch (by_falsy is_list : bool) : nat :=', '  match by_falsy, is_list with',
                '  | true, false => 0', '  | true, true => 1', '  | false, false => 2', '  | false, true => 2', '  end.',
                'Definition gen_renyi2_args_ok : bool := true.',
                'Definition gen_stdrenyi2_dispatch (is_list : bool) : nat * nat :=', '  match is_list with',
                '  | false => (0, 0)', '  | true => (1, 1)', '  end.',
                'Definition gen_stdrenyi2_args_ok : bool := true.'],
    'grouped': ['Definition gen_conditional_dispatch (is_list : bool) : nat :=', '  match is_list with', '  | false => 0', '  | true => 1', '  end.',
                'Definition gen_grouped_cross_dispatch (is_list : bool) : nat :=', '  match is_list with', '  | false => 0', '  | true => 1', '  end.'],
}


def run(STATUS, write_if_changed, ROOT, REPO):
    out = list(HEADER)
    for name, path, gen in (('entropy', 'pyrepseq/entropy.py', gen_entropy), ('grouped', 'pyrepseq/stats.py', gen_grouped)):
        key = 'c13.%s_dispatch' % name
        try:
            try:
                tree = ast.parse(open(os.path.join(REPO, path)).read())
            except (SyntaxError, OSError) as e:
                raise Refuse('%s does not parse: %s' % (path, e))
            out += gen(tree)
            STATUS[key] = dict(ok=True, properties=['C13'], error=None)
        except Refuse as e:
            out += ['(* translator refused: %s -- snapshot of the last good text *)' % str(e).replace('*)', '* )')] + SNAPSHOT[name]
            # DESIGN.md 1.5: the snapshot is used and the refusal recorded; the tie for the dispatch on this run is the correspondence
            STATUS[key] = dict(ok=True, snapshot=True, properties=['C13'],
                               error='regen unavailable (%s): committed snapshot used, tie by correspondence' % e)
        out.append('')
    write_if_changed(os.path.join(ROOT, 'coq/gen/Gen_c13.v'), '\n'.join(out) + '\n')
