"""C11 (also C04, C07): regenerate coq/gen/Gen_c11.v from the SOURCE TEXT of pyrepseq/nn.py `_histogram_encode` and
`_to_len_bucket` by a fail-closed `ast` translator.  coq/proofs/GenKdtreeP.v proves the generated functions EQUAL, for all
inputs, to the hand-written definitions of the kdtree model (model/Engines.v `encode`, model/LenBucket.v `to_len_bucket`,
model/Engines.v `length_buckets`), so a semantic change of the source inside the subset breaks a proof on the next run.

Target language (vocabulary: coq/lib/PyDict.v, `upd` of coq/lib/PyStore.v).  A function body is a computation in
`res T` (`Ok v` | `Raise ZeroDivisionError/KeyError/IndexError`); sub-expressions that can raise are bound with `rbind`
in Python's evaluation order; `gen_<f>_exc` is that computation, `gen_<f>` its value (`unwrap []`).
  parameters                 _histogram_encode(<str>, <int >= 0>)   _to_len_bucket(<list of str>)   (names are free)
  the global `aminoacids`    the alphabet parameter v_aminoacids : list N (instantiated with gen_aminoacids by the theorems)
  Python int, provably >= 0  nat      (constants, len(..), enumerate indices, + *, results of the divisions below)
  a - b                      Z        ((Z.of_nat a - Z.of_nat b)%Z: may be negative; usable as a dict key only)
  int(np.ceil(a / b))        py_ceil_truediv a b      int(np.floor(a / b))  py_floor_truediv a b      a // b  py_floordiv a b
                             (nat operands only; ZeroDivisionError at b = 0; math.ceil / math.floor accepted as well.
                              The binary64 quotient is exact enough: for 0 <= a <= 20 -- the operands are len(aminoacids)
                              and an index below it -- and 1 <= b < 2^1000 floor and ceil of the rounded quotient are those
                              of the rational; `_selfcheck_division` re-tests this on every run)
  len(x)                     length v_x
  x = <int expr>             let v_x : T := .. in                    (fresh name only)
  x = {K: V for [i,] c in [enumerate(]S[)]}     rfold (fun d '(v_i, v_c) => .. Ok (dict_set eqb K V d)) (enumerate v_S) []
                             (association list in insertion order; a repeated key keeps its place and takes the last value)
  x = np.zeros(n, dtype=int) repeat 0%Z n                            x = {} / dict()   []
  for c in S: / for i, c in enumerate(S):       rfold (fun state item => BODY) items state -- the state is THE variable
                             bound before the loop and updated in it (exactly one, else refused)
  a[e] += k / a[e] = k       arr_get / arr_set at position e : nat (IndexError outside the array), cells are Z
  d[k]                       dict_get eqb k d (KeyError)             k not in d        negb (dict_mem eqb k d)
  if k not in d: d[k] = ([], [])               let d := if dict_mem eqb k d then d else dict_set eqb k ([], []) d in
  d[k][0|1].append(e)        rbind (dict_get eqb k d) (fun t => let d := dict_set eqb k (fst t ++ [e], snd t) d in ..)
                             (a fresh pair of lists per key: only the literal `([], [])` is accepted as the value, so two
                              buckets never share a list); the element types of the two lists are inferred from the appends
  c = d.setdefault(k, ([], [])) ; c[0|1].append(e)    the same two forms (c is an alias of the cell d[k])
  return x                   Ok v_x
Every Python name n becomes the Coq binder v_n, so renaming a local cannot clash with Coq.  Everything else raises Refuse.
On refusal (DESIGN.md 1.5) the committed snapshot of that function (SNAPSHOT below, generated from the source of the day
the proofs were written) is written instead and the refusal is recorded in the status: the tie on that run is the
correspondence of the public function with the model.  A translator crash is reported with ok=False."""
import ast, math, os, re, sys, traceback

PROPS = ['C04', 'C07', 'C11']
FUNCS = ['_histogram_encode', '_to_len_bucket']
COQ_NAME = {'_histogram_encode': 'gen_histogram_encode', '_to_len_bucket': 'gen_to_len_bucket'}
SIGNATURE = {'_histogram_encode': ['str', 'nat'], '_to_len_bucket': ['liststr']}
ALPHABET_GLOBAL = 'aminoacids'


class Refuse(Exception):
    pass


def where(node):
    return '(line %s)' % getattr(node, 'lineno', '?')


# ---------------------------------------------------------------------------------------------------------------- types
class T:
    """kind: nat Z chr str liststr alphabet array dict pair list; args: component types (mutable for inference)"""

    def __init__(self, kind, *args):
        self.kind, self.args = kind, list(args)

    def coq(self):
        k = self.kind
        if k == 'nat':
            return 'nat'
        if k == 'Z':
            return 'Z'
        if k == 'chr':
            return 'N'
        if k == 'str':
            return 'str'
        if k == 'liststr':
            return 'list str'
        if k == 'alphabet':
            return 'list N'
        if k == 'array':
            return 'list Z'
        if k == 'unknown':
            raise Refuse('a type could not be inferred (a dict key or a list that nothing is stored into)')
        if k == 'list':
            return 'list %s' % paren(self.args[0].coq())
        if k == 'pair':
            return '%s * %s' % tuple(paren(a.coq()) if a.kind == 'pair' else a.coq() for a in self.args)
        if k == 'dict':
            return 'list (%s * %s)' % (paren(self.args[0].coq()), paren(self.args[1].coq()))
        raise Refuse('type %s' % k)

    def same(self, o):
        return self.kind == o.kind and len(self.args) == len(o.args) and all(a.same(b) for a, b in zip(self.args, o.args))


def paren(s):
    return s if re.fullmatch(r'\w+', s) else '(%s)' % s


def unify(slot_owner, i, t, node, what):
    """slot_owner.args[i] := t if unknown, else must be the same type"""
    cur = slot_owner.args[i]
    if cur.kind == 'unknown':
        slot_owner.args[i] = t
    elif not cur.same(t):
        raise Refuse('%s: a %s where a %s was used before %s' % (what, t.kind, cur.kind, where(node)))


def eqb_of(t, node):
    if t.kind == 'nat':
        return 'Nat.eqb'
    if t.kind == 'Z':
        return 'Z.eqb'
    if t.kind == 'chr':
        return 'N.eqb'
    raise Refuse('dict keys of type %s are outside the subset %s' % (t.kind, where(node)))


class Var:
    def __init__(self, t, coq, alias=None):
        self.t, self.coq, self.alias = t, coq, alias      # alias = (dict name, key coq, key type) for a cell alias


def is_name(e, n=None):
    return isinstance(e, ast.Name) and (n is None or e.id == n)


def is_mod_attr(e, mods, attr):
    return isinstance(e, ast.Attribute) and is_name(e.value) and e.value.id in mods and e.attr == attr


def small_const(e):
    if isinstance(e, ast.Constant) and type(e.value) is int and 0 <= e.value <= 1000:
        return e.value
    return None


def is_empty_pair(e):
    return isinstance(e, ast.Tuple) and len(e.elts) == 2 and all(isinstance(x, ast.List) and not x.elts for x in e.elts)


# ------------------------------------------------------------------------------------------------------------ translator
class Fn:
    def __init__(self, fn):
        self.fn = fn
        self.env = {}
        self.ntmp = 0
        self.holes = []            # (token, T) : type annotations filled in at the end (inference of dict / list types)
        self.aliased = set()       # dicts that have a cell alias: no direct store to them afterwards

    # ------------------------------------------------------------ names
    def tmp(self):
        self.ntmp += 1
        return 't%d' % self.ntmp

    def ty(self, t):
        tok = '@@%d@@' % len(self.holes)
        self.holes.append((tok, t))
        return tok

    def bind(self, name, var, node):
        if not re.fullmatch(r'[A-Za-z_][A-Za-z0-9_]*', name):
            raise Refuse('unsupported identifier %r' % name)
        if name in self.env or name == ALPHABET_GLOBAL or name in ('np', 'numpy', 'math', 'len', 'int', 'enumerate', 'dict'):
            raise Refuse('name %s is rebound %s' % (name, where(node)))
        self.env = dict(self.env)
        self.env[name] = var

    def look(self, e):
        if not isinstance(e, ast.Name):
            raise Refuse('a name is needed %s' % where(e))
        if e.id in self.env:
            return self.env[e.id]
        if e.id == ALPHABET_GLOBAL:
            return Var(T('alphabet'), 'v_' + ALPHABET_GLOBAL)
        raise Refuse('unbound name %s %s' % (e.id, where(e)))

    def builtin(self, e, name):
        return is_name(e, name) and name not in self.env

    # ------------------------------------------------------------ expressions -> (binds, coq, T); binds = [(tmp, T, computation)]
    def expr(self, e):
        c = small_const(e)
        if c is not None:
            return [], str(c), T('nat')
        if isinstance(e, ast.Name):
            v = self.look(e)
            if v.alias is not None:
                raise Refuse('%s is an alias of a dict cell; only %s[0|1].append(..) is in the subset %s' % (e.id, e.id, where(e)))
            return [], v.coq, v.t
        if isinstance(e, ast.Call) and self.builtin(e.func, 'len') and len(e.args) == 1 and not e.keywords:
            b, x, t = self.expr(e.args[0])
            if t.kind not in ('str', 'liststr', 'alphabet'):
                raise Refuse('len of a %s %s' % (t.kind, where(e)))
            return b, '(length %s)' % x, T('nat')
        if isinstance(e, ast.BinOp) and isinstance(e.op, (ast.Add, ast.Mult, ast.Sub, ast.FloorDiv)):
            b1, x, t1 = self.expr(e.left)
            b2, y, t2 = self.expr(e.right)
            if t1.kind not in ('nat', 'Z') or t2.kind not in ('nat', 'Z'):
                raise Refuse('arithmetic on %s and %s %s' % (t1.kind, t2.kind, where(e)))
            if isinstance(e.op, ast.FloorDiv):
                if t1.kind != 'nat' or t2.kind != 'nat':
                    raise Refuse('// on a possibly negative integer %s' % where(e))
                t = self.tmp()
                return b1 + b2 + [(t, T('nat'), 'py_floordiv %s %s' % (x, y))], t, T('nat')
            if isinstance(e.op, ast.Sub) or 'Z' in (t1.kind, t2.kind):
                zx = x if t1.kind == 'Z' else '(Z.of_nat %s)' % x
                zy = y if t2.kind == 'Z' else '(Z.of_nat %s)' % y
                op = {ast.Add: '+', ast.Mult: '*', ast.Sub: '-'}[type(e.op)]
                return b1 + b2, '(%s %s %s)%%Z' % (zx, op, zy), T('Z')
            return b1 + b2, '(%s %s %s)' % (x, '+' if isinstance(e.op, ast.Add) else '*', y), T('nat')
        r = self.rounded_quotient(e)
        if r is not None:
            return r
        if isinstance(e, ast.Subscript) and not isinstance(e.slice, ast.Slice) and isinstance(e.value, ast.Name):
            d = self.look(e.value)
            if d.t.kind == 'dict' and d.alias is None:
                bk, k, tk = self.expr(e.slice)
                unify(d.t, 0, tk, e, 'key of %s' % e.value.id)
                t = self.tmp()
                return bk + [(t, d.t.args[1], 'dict_get %s %s %s' % (eqb_of(tk, e), k, d.coq))], t, d.t.args[1]
            raise Refuse('subscript of a %s in an expression %s' % (d.t.kind, where(e)))
        raise Refuse('expression outside the subset %s: %s' % (where(e), ast.dump(e)[:90]))

    def rounded_quotient(self, e):
        """int(np.ceil(a / b)), int(np.floor(a / b)), int(math.ceil(a / b)), math.ceil(a / b), ... (a, b : nat)"""
        inner, wrapped = e, False
        if isinstance(e, ast.Call) and self.builtin(e.func, 'int') and len(e.args) == 1 and not e.keywords:
            inner, wrapped = e.args[0], True
        if not (isinstance(inner, ast.Call) and len(inner.args) == 1 and not inner.keywords):
            return None
        which = None
        for w in ('ceil', 'floor'):
            if is_mod_attr(inner.func, ('np', 'numpy'), w) and wrapped and not ({'np', 'numpy'} & set(self.env)):
                which = w
            if is_mod_attr(inner.func, ('math',), w) and 'math' not in self.env:
                which = w
        if which is None:
            return None
        q = inner.args[0]
        if not (isinstance(q, ast.BinOp) and isinstance(q.op, ast.Div)):
            raise Refuse('%s of something that is not a quotient a / b %s' % (which, where(e)))
        b1, x, t1 = self.expr(q.left)
        b2, y, t2 = self.expr(q.right)
        if t1.kind != 'nat' or t2.kind != 'nat':
            raise Refuse('rounded quotient of possibly negative integers %s' % where(e))
        t = self.tmp()
        return b1 + b2 + [(t, T('nat'), 'py_%s_truediv %s %s' % (which, x, y))], t, T('nat')

    def pure(self, e, what):
        b, x, t = self.expr(e)
        if b:
            raise Refuse('%s must not contain a lookup or a division %s' % (what, where(e)))
        return x, t

    @staticmethod
    def wrap(binds, ty, body):
        """rbind c1 (fun t1 : T1 => rbind c2 (fun t2 : T2 => body))"""
        out = body
        for t, tt, comp in reversed(binds):
            out = 'rbind (%s) (fun %s : %s =>\n%s)' % (comp, t, ty(tt), out)
        return out

    # ------------------------------------------------------------ iterables -> (coq list, binder pattern, [(name, Var)])
    def iterable(self, it, target, node):
        enum = isinstance(it, ast.Call) and self.builtin(it.func, 'enumerate') and len(it.args) == 1 and not it.keywords
        src = it.args[0] if enum else it
        if not isinstance(src, ast.Name):
            raise Refuse('loop over something that is not a variable %s' % where(node))
        s = self.look(src)
        if s.t.kind in ('str', 'alphabet'):
            et = T('chr')
        elif s.t.kind == 'liststr':
            et = T('str')
        else:
            raise Refuse('loop over a %s %s' % (s.t.kind, where(node)))
        if enum:
            if not (isinstance(target, ast.Tuple) and len(target.elts) == 2 and all(isinstance(x, ast.Name) for x in target.elts)):
                raise Refuse('enumerate needs the target `i, x` %s' % where(node))
            i, x = target.elts[0].id, target.elts[1].id
            if i == x:
                raise Refuse('repeated loop variable %s' % where(node))
            return ('(enumerate %s)' % s.coq, "'((v_%s, v_%s) : nat * %s)" % (i, x, et.coq()),
                    [(i, Var(T('nat'), 'v_' + i)), (x, Var(et, 'v_' + x))])
        if not isinstance(target, ast.Name):
            raise Refuse('tuple loop target without enumerate %s' % where(node))
        return s.coq, '(v_%s : %s)' % (target.id, et.coq()), [(target.id, Var(et, 'v_' + target.id))]

    # ------------------------------------------------------------ statements
    def block(self, stmts, in_loop, final):
        """the computation of `stmts` followed by `final` (None at top level: the block must end with return)"""
        if not stmts:
            if final is None:
                raise Refuse('the function does not end with `return <variable>`')
            return final
        st, rest = stmts[0], stmts[1:]
        saved = self.env
        try:
            if isinstance(st, ast.Return):
                if in_loop or rest or st.value is None:
                    raise Refuse('return inside a loop / before the end / without a value %s' % where(st))
                v = self.look(st.value)
                if v.alias is not None:
                    raise Refuse('return of a cell alias')
                self.ret_type = v.t
                return 'Ok %s' % v.coq
            if isinstance(st, ast.Assign) and len(st.targets) == 1:
                tg = st.targets[0]
                if isinstance(tg, ast.Name):
                    return self.assign_name(tg.id, st, rest, in_loop, final)
                if isinstance(tg, ast.Subscript) and isinstance(tg.value, ast.Name) and not isinstance(tg.slice, ast.Slice):
                    return self.store(tg, st.value, None, st, rest, in_loop, final)
                raise Refuse('assignment target outside the subset %s' % where(st))
            if isinstance(st, ast.AugAssign) and isinstance(st.target, ast.Subscript) and isinstance(st.target.value, ast.Name) \
                    and not isinstance(st.target.slice, ast.Slice) and isinstance(st.op, (ast.Add, ast.Sub)):
                return self.store(st.target, st.value, st.op, st, rest, in_loop, final)
            if isinstance(st, ast.For):
                return self.loop(st, rest, in_loop, final)
            if isinstance(st, ast.If):
                return self.if_absent(st, rest, in_loop, final)
            if isinstance(st, ast.Expr) and isinstance(st.value, ast.Call):
                return self.append(st.value, st, rest, in_loop, final)
            raise Refuse('statement outside the subset %s: %s' % (where(st), type(st).__name__))
        finally:
            self.env = saved

    def assign_name(self, name, st, rest, in_loop, final):
        v = st.value
        # x = {} / dict()
        if (isinstance(v, ast.Dict) and not v.keys) or \
                (isinstance(v, ast.Call) and self.builtin(v.func, 'dict') and not v.args and not v.keywords):
            if in_loop:
                raise Refuse('a dict created inside a loop %s' % where(st))
            t = T('dict', T('unknown'), T('unknown'))
            self.bind(name, Var(t, 'v_' + name), st)
            return 'let v_%s : %s := [] in\n%s' % (name, self.ty(t), self.block(rest, in_loop, final))
        # x = {K: V for ...}
        if isinstance(v, ast.DictComp):
            if in_loop:
                raise Refuse('a comprehension inside a loop %s' % where(st))
            comp, t = self.dictcomp(v)
            self.bind(name, Var(t, 'v_' + name), st)
            return 'rbind (%s) (fun v_%s : %s =>\n%s)' % (comp, name, self.ty(t), self.block(rest, in_loop, final))
        # x = np.zeros(n, dtype="int")
        if isinstance(v, ast.Call) and is_mod_attr(v.func, ('np', 'numpy'), 'zeros') and len(v.args) == 1 \
                and not ({'np', 'numpy'} & set(self.env)):
            if in_loop:
                raise Refuse('an array created inside a loop %s' % where(st))
            for kw in v.keywords:
                ok = kw.arg == 'dtype' and (
                    (isinstance(kw.value, ast.Constant) and kw.value.value in ('int', 'int64')) or self.builtin(kw.value, 'int')
                    or is_mod_attr(kw.value, ('np', 'numpy'), 'int64'))
                if not ok:
                    raise Refuse('np.zeros with something else than dtype=int %s' % where(st))
            if not v.keywords:
                raise Refuse('np.zeros without dtype=int is an array of floats %s' % where(st))
            b, n, tn = self.expr(v.args[0])
            if tn.kind != 'nat':
                raise Refuse('np.zeros of a possibly negative size %s' % where(st))
            t = T('array')
            self.bind(name, Var(t, 'v_' + name), st)
            body = 'let v_%s : %s := repeat 0%%Z %s in\n%s' % (name, t.coq(), n, self.block(rest, in_loop, final))
            return self.wrap(b, self.ty, body)
        # c = d.setdefault(k, ([], []))
        if isinstance(v, ast.Call) and isinstance(v.func, ast.Attribute) and v.func.attr == 'setdefault' \
                and isinstance(v.func.value, ast.Name) and len(v.args) == 2 and not v.keywords and is_empty_pair(v.args[1]):
            dname = v.func.value.id
            d = self.look(v.func.value)
            if d.t.kind != 'dict' or d.alias is not None:
                raise Refuse('setdefault on a %s %s' % (d.t.kind, where(st)))
            k, tk = self.pure(v.args[0], 'the key of setdefault')
            self.dict_cell_types(d, tk, st, dname)
            self.need_state(dname, in_loop, st)
            self.aliased = self.aliased | {dname}
            self.bind(name, Var(d.t.args[1], None, alias=(dname, k, tk)), st)
            eqb = eqb_of(tk, st)
            return 'let %s : %s := (if dict_mem %s %s %s then %s else dict_set %s %s ([], []) %s) in\n%s' % (
                d.coq, self.ty(d.t), eqb, k, d.coq, d.coq, eqb, k, d.coq, self.block(rest, in_loop, final))
        # x = <int expr>
        b, x, t = self.expr(v)
        if t.kind not in ('nat', 'Z'):
            raise Refuse('assignment of a %s to a variable %s' % (t.kind, where(st)))
        self.bind(name, Var(t, 'v_' + name), st)
        body = 'let v_%s : %s := %s in\n%s' % (name, t.coq(), x, self.block(rest, in_loop, final))
        return self.wrap(b, self.ty, body)

    def dictcomp(self, v):
        if len(v.generators) != 1:
            raise Refuse('comprehension with several loops %s' % where(v))
        g = v.generators[0]
        if g.ifs or g.is_async:
            raise Refuse('comprehension with a condition %s' % where(v))
        saved = self.env
        try:
            items, pat, binds = self.iterable(g.iter, g.target, v)
            for n, var in binds:
                self.bind(n, var, v)
            bk, k, tk = self.expr(v.key)
            bv, x, tv = self.expr(v.value)
            if tv.kind not in ('nat', 'Z'):
                raise Refuse('comprehension values of type %s %s' % (tv.kind, where(v)))
            t = T('dict', tk, tv)
            body = self.wrap(bk + bv, self.ty, 'Ok (dict_set %s %s %s d)' % (eqb_of(tk, v), k, x))
            return 'rfold (fun (d : %s) %s =>\n%s)\n%s []' % (t.coq(), pat, body, items), t
        finally:
            self.env = saved

    def need_state(self, name, in_loop, node):
        if in_loop and name not in self.state:
            raise Refuse('%s is updated in a loop but is not the loop state %s' % (name, where(node)))

    def store(self, tg, value, op, st, rest, in_loop, final):
        name = tg.value.id
        a = self.look(tg.value)
        self.need_state(name, in_loop, st)
        if a.t.kind == 'array':
            # a[e] = k  /  a[e] += k  /  a[e] -= k
            bi, i, ti = self.expr(tg.slice)
            if ti.kind != 'nat':
                raise Refuse('array position that may be negative %s' % where(st))
            bv, x, tv = self.expr(value)
            if tv.kind not in ('nat', 'Z'):
                raise Refuse('a %s stored into an integer array %s' % (tv.kind, where(st)))
            zx = x + '%Z' if re.fullmatch(r'\d+', x) else (x if tv.kind == 'Z' else '(Z.of_nat %s)' % x)
            binds = list(bi)
            if op is None:
                binds += bv
                newv = zx
            else:
                told = self.tmp()
                binds += [(told, T('Z'), 'arr_get %s %s' % (i, a.coq))] + bv     # Python loads a[e] before it evaluates the operand
                newv = '(%s %s %s)%%Z' % (told, '+' if isinstance(op, ast.Add) else '-', zx)
            binds += [(a.coq, a.t, 'arr_set %s %s %s' % (i, newv, a.coq))]
            return self.wrap(binds, self.ty, self.block(rest, in_loop, final))
        if a.t.kind == 'dict' and a.alias is None and op is None and is_empty_pair(value):
            # d[k] = ([], [])
            if name in self.aliased:
                raise Refuse('store into %s while a cell alias exists %s' % (name, where(st)))
            k, tk = self.pure(tg.slice, 'the key of a dict store')
            self.dict_cell_types(a, tk, st, name)
            return 'let %s : %s := dict_set %s %s ([], []) %s in\n%s' % (
                a.coq, self.ty(a.t), eqb_of(tk, st), k, a.coq, self.block(rest, in_loop, final))
        raise Refuse('store outside the subset %s' % where(st))

    def dict_cell_types(self, d, tk, node, name):
        unify(d.t, 0, tk, node, 'key of %s' % name)
        if d.t.args[1].kind == 'unknown':
            d.t.args[1] = T('pair', T('list', T('unknown')), T('list', T('unknown')))
        if d.t.args[1].kind != 'pair':
            raise Refuse('%s holds %s, not pairs of lists %s' % (name, d.t.args[1].kind, where(node)))

    def if_absent(self, st, rest, in_loop, final):
        """if k not in d: d[k] = ([], [])"""
        t = st.test
        ok = not st.orelse and len(st.body) == 1 and isinstance(t, ast.Compare) and len(t.ops) == 1 and isinstance(t.ops[0], ast.NotIn) \
            and isinstance(t.comparators[0], ast.Name) and isinstance(st.body[0], ast.Assign) and len(st.body[0].targets) == 1
        if not ok:
            raise Refuse('only `if k not in d: d[k] = ([], [])` is in the subset %s' % where(st))
        tg = st.body[0].targets[0]
        dname = t.comparators[0].id
        if not (isinstance(tg, ast.Subscript) and is_name(tg.value, dname) and not isinstance(tg.slice, ast.Slice)
                and is_empty_pair(st.body[0].value)):
            raise Refuse('only `if k not in d: d[k] = ([], [])` is in the subset %s' % where(st))
        d = self.look(t.comparators[0])
        if d.t.kind != 'dict' or d.alias is not None:
            raise Refuse('membership test on a %s %s' % (d.t.kind, where(st)))
        if dname in self.aliased:
            raise Refuse('store into %s while a cell alias exists %s' % (dname, where(st)))
        self.need_state(dname, in_loop, st)
        k1, tk1 = self.pure(t.left, 'the key of a membership test')
        k2, tk2 = self.pure(tg.slice, 'the key of a dict store')
        self.dict_cell_types(d, tk1, st, dname)
        unify(d.t, 0, tk2, st, 'key of %s' % dname)
        eqb = eqb_of(tk1, st)
        return 'let %s : %s := (if dict_mem %s %s %s then %s else dict_set %s %s ([], []) %s) in\n%s' % (
            d.coq, self.ty(d.t), eqb, k1, d.coq, d.coq, eqb, k2, d.coq, self.block(rest, in_loop, final))

    def append(self, call, st, rest, in_loop, final):
        """d[k][i].append(e)   /   c[i].append(e) with c an alias of d[k]"""
        f = call.func
        if not (isinstance(f, ast.Attribute) and f.attr == 'append' and len(call.args) == 1 and not call.keywords
                and isinstance(f.value, ast.Subscript) and not isinstance(f.value.slice, ast.Slice)):
            raise Refuse('call statement outside the subset %s' % where(st))
        comp = small_const(f.value.slice)
        if comp not in (0, 1):
            raise Refuse('component %s of a pair %s' % (ast.dump(f.value.slice)[:40], where(st)))
        cell = f.value.value
        if isinstance(cell, ast.Name):
            c = self.look(cell)
            if c.alias is None:
                raise Refuse('%s is not a dict cell %s' % (cell.id, where(st)))
            dname, k, tk = c.alias
            d = self.env[dname]
        elif isinstance(cell, ast.Subscript) and isinstance(cell.value, ast.Name) and not isinstance(cell.slice, ast.Slice):
            dname = cell.value.id
            d = self.look(cell.value)
            if d.t.kind != 'dict' or d.alias is not None:
                raise Refuse('%s is not a dict %s' % (dname, where(st)))
            k, tk = self.pure(cell.slice, 'the key of a dict cell')
            self.dict_cell_types(d, tk, st, dname)
        else:
            raise Refuse('append target outside the subset %s' % where(st))
        self.need_state(dname, in_loop, st)
        x, tx = self.pure(call.args[0], 'the appended value')
        if tx.kind not in ('nat', 'Z', 'str', 'chr'):
            raise Refuse('append of a %s %s' % (tx.kind, where(st)))
        unify(d.t.args[1].args[comp], 0, tx, st, 'element of component %d of the cells of %s' % (comp, dname))
        eqb = eqb_of(tk, st)
        t = self.tmp()
        newv = '(fst %s ++ [%s], snd %s)' % (t, x, t) if comp == 0 else '(fst %s, snd %s ++ [%s])' % (t, t, x)
        body = 'let %s : %s := dict_set %s %s %s %s in\n%s' % (d.coq, self.ty(d.t), eqb, k, newv, d.coq, self.block(rest, in_loop, final))
        return self.wrap([(t, d.t.args[1], 'dict_get %s %s %s' % (eqb, k, d.coq))], self.ty, body)

    def loop(self, st, rest, in_loop, final):
        if in_loop:
            raise Refuse('nested loop %s' % where(st))
        if st.orelse:
            raise Refuse('for/else %s' % where(st))
        items, pat, binds = self.iterable(st.iter, st.target, st)
        # the state: names bound before the loop that the body updates
        upd = []
        for n in ast.walk(ast.Module(body=st.body, type_ignores=[])):
            if isinstance(n, (ast.Assign, ast.AugAssign)):
                for tg in (n.targets if isinstance(n, ast.Assign) else [n.target]):
                    base = tg
                    while isinstance(base, ast.Subscript):
                        base = base.value
                    if isinstance(base, ast.Name) and base.id in self.env and base.id not in upd:
                        upd.append(base.id)
            if isinstance(n, ast.Call) and isinstance(n.func, ast.Attribute) and n.func.attr in ('append', 'setdefault'):
                base = n.func.value
                while isinstance(base, ast.Subscript):
                    base = base.value
                if isinstance(base, ast.Name) and base.id in self.env and base.id not in upd:
                    upd.append(base.id)
        if len(upd) != 1:
            raise Refuse('a loop must update exactly one variable bound before it (found %s) %s' % (upd, where(st)))
        sname = upd[0]
        s = self.env[sname]
        if s.t.kind not in ('array', 'dict') or s.alias is not None:
            raise Refuse('loop state of type %s %s' % (s.t.kind, where(st)))
        saved, saved_aliased = self.env, self.aliased
        self.state = [sname]
        try:
            for n, var in binds:
                self.bind(n, var, st)
            body = self.block(st.body, True, 'Ok %s' % s.coq)
        finally:
            self.env, self.aliased, self.state = saved, saved_aliased, []
        tok = self.ty(s.t)
        return 'rbind (rfold (fun (%s : %s) %s =>\n%s)\n%s %s) (fun %s : %s =>\n%s)' % (
            s.coq, tok, pat, body, items, s.coq, s.coq, tok, self.block(rest, in_loop, final))


def body_wo_doc(fn):
    b = list(fn.body)
    if b and isinstance(b[0], ast.Expr) and isinstance(b[0].value, ast.Constant) and isinstance(b[0].value.value, str):
        b = b[1:]
    return b


def indent(text):
    """one line per binder, indented by nesting depth of parentheses"""
    out, depth = [], 1
    for line in text.split('\n'):
        out.append('  ' * min(depth, 12) + line)
        depth += line.count('(') - line.count(')')
    return '\n'.join(out)


def translate(tree, name):
    fns = [n for n in tree.body if isinstance(n, ast.FunctionDef) and n.name == name]
    if len(fns) != 1:
        raise Refuse('function %s not found (or defined more than once)' % name)
    fn = fns[0]
    a = fn.args
    if fn.decorator_list or a.vararg or a.kwarg or a.kwonlyargs or a.posonlyargs or a.defaults:
        raise Refuse('signature of %s outside the subset' % name)
    for n in ast.walk(fn):
        if n is not fn and isinstance(n, (ast.FunctionDef, ast.AsyncFunctionDef, ast.Lambda, ast.Global, ast.Nonlocal, ast.While, ast.Try,
                                          ast.With, ast.Break, ast.Continue, ast.Yield, ast.YieldFrom, ast.NamedExpr, ast.Delete,
                                          ast.ListComp, ast.SetComp, ast.GeneratorExp, ast.Import, ast.ImportFrom, ast.Starred)):
            raise Refuse('%s in %s %s' % (type(n).__name__, name, where(n)))
    kinds = SIGNATURE[name]
    if len(a.args) != len(kinds):
        raise Refuse('signature of %s changed: %s' % (name, [p.arg for p in a.args]))
    t = Fn(fn)
    t.state = []
    params = []
    for p, k in zip(a.args, kinds):
        t.bind(p.arg, Var(T(k), 'v_' + p.arg), fn)
        params.append('(v_%s : %s)' % (p.arg, T(k).coq()))
    term = t.block(body_wo_doc(fn), False, None)
    for tok, ty in t.holes:
        term = term.replace(tok, ty.coq())
    rt = t.ret_type.coq()
    uses_alphabet = re.search(r'\bv_%s\b' % ALPHABET_GLOBAL, term) is not None
    if name == '_histogram_encode' or uses_alphabet:
        params = ['(v_%s : list N)' % ALPHABET_GLOBAL] + params
    if t.ret_type.kind not in ('array', 'dict'):
        raise Refuse('%s returns a %s' % (name, t.ret_type.kind))
    cname = COQ_NAME[name]
    args = ' '.join(re.match(r'\((\w+) ', p).group(1) for p in params)
    return ('Definition %s_exc %s : res (%s) :=\n%s.\n'
            '(* the returned value ([] stands for "an exception was raised") *)\n'
            'Definition %s %s : %s :=\n  unwrap [] (%s_exc %s).'
            % (cname, ' '.join(params), rt, indent(term), cname, ' '.join(params), rt, cname, args))


def _selfcheck_division():
    """floor / ceil of the binary64 quotient = floor / ceil of the rational, on the operands that occur (a <= 20) and beyond"""
    bs = list(range(1, 600)) + [2 ** k for k in range(10, 1001, 10)] + [2 ** k + 1 for k in range(10, 1001, 30)] + [10 ** 300]
    for a in range(0, 65):
        for b in bs:
            if math.floor(a / b) != a // b or math.ceil(a / b) != -((-a) // b):
                raise AssertionError('binary64 quotient %d / %d rounds across an integer' % (a, b))


# Committed snapshot: the generated text for pyrepseq/nn.py as of the day this check was built
# (regenerate with `python3 translate/regen_c11.py --print-snapshot` on a tree whose functions are known good).
SNAPSHOT = {
    '_histogram_encode': '''Definition gen_histogram_encode_exc (v_aminoacids : list N) (v_cdr3 : str) (v_compression : nat) : res (list Z) :=
  rbind (py_ceil_truediv (length v_aminoacids) v_compression) (fun t1 : nat =>
    let v_dimension : nat := t1 in
    rbind (rfold (fun (d : list (N * nat)) '((v_index, v_char) : nat * N) =>
        rbind (py_floor_truediv v_index v_compression) (fun t2 : nat =>
          Ok (dict_set N.eqb v_char t2 d)))
      (enumerate v_aminoacids) []) (fun v_position_map : list (N * nat) =>
      let v_ans : list Z := repeat 0%Z v_dimension in
      rbind (rfold (fun (v_ans : list Z) (v_char : N) =>
          rbind (dict_get N.eqb v_char v_position_map) (fun t3 : nat =>
            rbind (arr_get t3 v_ans) (fun t4 : Z =>
              rbind (arr_set t3 (t4 + 1%Z)%Z v_ans) (fun v_ans : list Z =>
                Ok v_ans))))
        v_cdr3 v_ans) (fun v_ans : list Z =>
        Ok v_ans))).
(* the returned value ([] stands for "an exception was raised") *)
Definition gen_histogram_encode (v_aminoacids : list N) (v_cdr3 : str) (v_compression : nat) : list Z :=
  unwrap [] (gen_histogram_encode_exc v_aminoacids v_cdr3 v_compression).''',
    '_to_len_bucket': '''Definition gen_to_len_bucket_exc (v_seqs : list str) : res (list (nat * (list nat * list str))) :=
  let v_ans : list (nat * (list nat * list str)) := [] in
  rbind (rfold (fun (v_ans : list (nat * (list nat * list str))) '((v_index, v_seq) : nat * str) =>
      let v__len : nat := (length v_seq) in
      let v_ans : list (nat * (list nat * list str)) := (if dict_mem Nat.eqb v__len v_ans then v_ans else dict_set Nat.eqb v__len ([], []) v_ans) in
      rbind (dict_get Nat.eqb v__len v_ans) (fun t1 : list nat * list str =>
        let v_ans : list (nat * (list nat * list str)) := dict_set Nat.eqb v__len (fst t1 ++ [v_index], snd t1) v_ans in
        rbind (dict_get Nat.eqb v__len v_ans) (fun t2 : list nat * list str =>
          let v_ans : list (nat * (list nat * list str)) := dict_set Nat.eqb v__len (fst t2, snd t2 ++ [v_seq]) v_ans in
          Ok v_ans)))
    (enumerate v_seqs) v_ans) (fun v_ans : list (nat * (list nat * list str)) =>
    Ok v_ans).
(* the returned value ([] stands for "an exception was raised") *)
Definition gen_to_len_bucket (v_seqs : list str) : list (nat * (list nat * list str)) :=
  unwrap [] (gen_to_len_bucket_exc v_seqs).''',
}

HEADER = ['(* GENERATED from pyrepseq/nn.py (_histogram_encode, _to_len_bucket) by translate/regen_c11.py on every check; do not edit.',
          '   Vocabulary: lib/PyDict.v (res / rbind / rfold, dicts as association lists in insertion order, arrays, rounded quotients).',
          '   proofs/GenKdtreeP.v proves these equal to model/Engines.v encode and model/LenBucket.v to_len_bucket. *)',
          'From Coq Require Import List NArith ZArith Bool Arith.', 'From PV Require Import lib.Str lib.PyStore lib.PyDict.',
          'Import ListNotations.', '']


def run(STATUS, write_if_changed, ROOT, REPO):
    out = list(HEADER)
    tree, perr = None, None
    try:
        tree = ast.parse(open(os.path.join(REPO, 'pyrepseq', 'nn.py')).read())
    except (SyntaxError, OSError, ValueError) as e:
        perr = 'pyrepseq/nn.py cannot be read/parsed: %r' % (e,)
    for name in FUNCS:
        key = 'c11.' + name
        try:
            if tree is None:
                raise Refuse(perr)
            txt = translate(tree, name)
            if name == '_histogram_encode':
                _selfcheck_division()
            out.append('(* %s: translated from today\'s source *)' % name)
            out.append(txt)
            STATUS[key] = dict(ok=True, properties=PROPS, error=None)
        except Refuse as e:
            reason = str(e)[:200]
            out.append('(* %s: translator refused: %s -- committed snapshot of the last good text *)' % (name, reason.replace('*)', '* )').replace('(*', '( *')))
            out.append(SNAPSHOT[name])
            STATUS[key] = dict(ok=True, snapshot=True, properties=PROPS,
                               error='regen unavailable (%s): committed snapshot used, tie by correspondence' % reason)
        except Exception:
            out.append('(* %s: translator crashed -- committed snapshot so that the build proceeds *)' % name)
            out.append(SNAPSHOT[name])
            STATUS[key] = dict(ok=False, properties=PROPS, error='translator crashed: ' + traceback.format_exc()[-400:])
        out.append('')
    write_if_changed(os.path.join(ROOT, 'coq/gen/Gen_c11.v'), '\n'.join(out))


if __name__ == '__main__':
    repo = os.environ.get('PV_REPO', '/repo')
    tree = ast.parse(open(os.path.join(repo, 'pyrepseq', 'nn.py')).read())
    if '--print-snapshot' in sys.argv:
        for n in FUNCS:
            print('    %r: %r,' % (n, translate(tree, n)))
    else:
        for n in FUNCS:
            try:
                print(translate(tree, n))
            except Refuse as e:
                print('REFUSED %s: %s' % (n, e))
