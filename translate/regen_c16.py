"""C16: regenerate coq/gen/Gen_c16.v from the SOURCE TEXT of pyrepseq/stats.py `jaccard_index`, `overlap`, `overlap_coefficient`
by a fail-closed `ast` translator (the Chao kernels are translated by regen.py).  coq/proofs/GenSetsP.v proves the generated functions
equal to the set-measure model of model/Richness.v, so the statement "|A n B| / |A u B|, |A n B|, |A n B| / min(|A|, |B|) on the
element sets after the documented removal of missing values" is re-proved against what the three functions say today.

Each function takes two collections; a collection is modelled as (is it a pandas Series : bool, its elements : list (option N)) with
None for a missing value.  Accepted statements (V one of the two parameters, names free):
    if type(V) == pd.Series: V = V.dropna()          V := if <V is a Series> then py_dropna V else V
    if type(V) != pd.Series: V = pd.Series(list(V))  V is a Series from here on (same elements)     (isinstance forms accepted too)
    V = V.dropna()                                   only where V is known to be a Series: V := py_dropna V
    V = set(V)                                       V := py_set V; V is a set from here on
    if len(A) == 0 or len(B) == 0: return np.nan     (both sets; `and` is translated as well - the proof then fails)
    return E       E ::= len(S) | len(S.intersection(T)) | len(S.union(T)) | len(S & T) | len(S | T) | min(E, E) | max(E, E) | E / E | (E)
                   with S, T the two parameters after `set(..)`; a quotient is py_truediv (ZeroDivisionError at 0); at most one division
Anything else is refused; on refusal the committed snapshot is written and the refusal recorded (DESIGN.md 1.5)."""
import ast, os, traceback

PROPS = ['C16']
FUNCS = ['jaccard_index', 'overlap', 'overlap_coefficient']


class Refuse(Exception):
    pass


def body_of(fn):
    b = list(fn.body)
    if b and isinstance(b[0], ast.Expr) and isinstance(b[0].value, ast.Constant) and isinstance(b[0].value.value, str):
        b = b[1:]
    return b


def series_test(t, params):
    """type(V) ==/!= pd.Series | isinstance(V, pd.Series) | not isinstance(..) -> (V, positive?)"""
    neg = False
    if isinstance(t, ast.UnaryOp) and isinstance(t.op, ast.Not):
        neg, t = True, t.operand
    if isinstance(t, ast.Compare) and len(t.ops) == 1 and isinstance(t.left, ast.Call) and isinstance(t.left.func, ast.Name) \
            and t.left.func.id == 'type' and len(t.left.args) == 1 and isinstance(t.left.args[0], ast.Name) \
            and ast.unparse(t.comparators[0]) in ('pd.Series', 'pandas.Series'):
        if isinstance(t.ops[0], (ast.Eq, ast.Is)):
            return t.left.args[0].id, not neg
        if isinstance(t.ops[0], (ast.NotEq, ast.IsNot)):
            return t.left.args[0].id, neg
    if isinstance(t, ast.Call) and isinstance(t.func, ast.Name) and t.func.id == 'isinstance' and len(t.args) == 2 \
            and isinstance(t.args[0], ast.Name) and ast.unparse(t.args[1]) in ('pd.Series', 'pandas.Series'):
        return t.args[0].id, not neg
    return None


class Fn:
    def __init__(self, fn):
        a = fn.args
        if len(a.args) != 2 or a.vararg or a.kwarg or a.kwonlyargs or a.defaults or fn.decorator_list:
            raise Refuse('%s: unexpected signature' % fn.name)
        self.fn = fn
        self.P = [x.arg for x in a.args]
        self.coq = {self.P[0]: 'A', self.P[1]: 'B'}
        self.flag = {self.P[0]: 'sA', self.P[1]: 'sB'}      # Coq bool expression: is it a Series ('true' once converted)
        self.isset = {self.P[0]: False, self.P[1]: False}
        self.lets = []

    def let(self, v, expr):
        self.lets.append('  let %s := %s in' % (self.coq[v], expr))

    def setexpr(self, e):
        if isinstance(e, ast.Name) and e.id in self.P:
            if not self.isset[e.id]:
                raise Refuse('%s is used as a set before set(..) (line %d)' % (e.id, e.lineno))
            return self.coq[e.id]
        if isinstance(e, ast.Call) and isinstance(e.func, ast.Attribute) and e.func.attr in ('intersection', 'union') and len(e.args) == 1 \
                and not e.keywords:
            return '(%s %s %s)' % ('py_inter' if e.func.attr == 'intersection' else 'py_union', self.setexpr(e.func.value), self.setexpr(e.args[0]))
        if isinstance(e, ast.BinOp) and isinstance(e.op, (ast.BitAnd, ast.BitOr)):
            return '(%s %s %s)' % ('py_inter' if isinstance(e.op, ast.BitAnd) else 'py_union', self.setexpr(e.left), self.setexpr(e.right))
        raise Refuse('set expression outside the subset (line %d): %s' % (e.lineno, ast.unparse(e)[:80]))

    def natexpr(self, e):
        if isinstance(e, ast.Call) and isinstance(e.func, ast.Name) and e.func.id == 'len' and len(e.args) == 1 and not e.keywords:
            return '(length %s)' % self.setexpr(e.args[0])
        if isinstance(e, ast.Call) and isinstance(e.func, ast.Name) and e.func.id in ('min', 'max') and len(e.args) == 2 and not e.keywords:
            return '(Nat.%s %s %s)' % (e.func.id, self.natexpr(e.args[0]), self.natexpr(e.args[1]))
        raise Refuse('count expression outside the subset (line %d): %s' % (e.lineno, ast.unparse(e)[:80]))

    def result(self, e):
        if isinstance(e, ast.BinOp) and isinstance(e.op, ast.Div):
            return '(py_truediv %s %s)' % (self.natexpr(e.left), self.natexpr(e.right))
        return '(SNat %s)' % self.natexpr(e)

    def translate(self):
        out = None
        guard = None
        for st in body_of(self.fn):
            if out is not None:
                raise Refuse('statement after the return (line %d)' % st.lineno)
            if isinstance(st, ast.If) and not st.orelse and len(st.body) == 1:
                t = series_test(st.test, self.P)
                b = st.body[0]
                if t and t[0] in self.P and isinstance(b, ast.Assign) and len(b.targets) == 1 and isinstance(b.targets[0], ast.Name) \
                        and b.targets[0].id == t[0] and not self.isset[t[0]]:
                    v, pos = t
                    src = ast.unparse(b.value)
                    if pos and src == '%s.dropna()' % v:
                        self.let(v, '(if %s then py_dropna %s else %s)' % (self.flag[v], self.coq[v], self.coq[v]))
                        continue
                    if not pos and src in ('pd.Series(list(%s))' % v, 'pd.Series(%s)' % v, 'pandas.Series(list(%s))' % v):
                        self.flag[v] = 'true'
                        continue
                # if len(A) == 0 or len(B) == 0: return np.nan
                if isinstance(b, ast.Return) and b.value is not None and ast.unparse(b.value) in ('np.nan', 'numpy.nan', "float('nan')") \
                        and isinstance(st.test, ast.BoolOp) and len(st.test.values) == 2 and guard is None:
                    zs = []
                    for c in st.test.values:
                        if not (isinstance(c, ast.Compare) and len(c.ops) == 1 and isinstance(c.ops[0], ast.Eq)
                                and isinstance(c.comparators[0], ast.Constant) and c.comparators[0].value == 0 and type(c.comparators[0].value) is int):
                            raise Refuse('nan guard outside the subset (line %d)' % st.lineno)
                        zs.append('(Nat.eqb %s 0)' % self.natexpr(c.left))
                    guard = '(%s %s %s)' % (zs[0], '||' if isinstance(st.test.op, ast.Or) else '&&', zs[1])
                    continue
                raise Refuse('if statement outside the subset (line %d): %s' % (st.lineno, ast.unparse(st.test)[:80]))
            if isinstance(st, ast.Assign) and len(st.targets) == 1 and isinstance(st.targets[0], ast.Name) and st.targets[0].id in self.P:
                v = st.targets[0].id
                src = ast.unparse(st.value)
                if src == '%s.dropna()' % v and not self.isset[v]:
                    if self.flag[v] != 'true':
                        raise Refuse('%s.dropna() where %s need not be a Series (line %d)' % (v, v, st.lineno))
                    self.let(v, '(py_dropna %s)' % self.coq[v])
                    continue
                if src == 'set(%s)' % v and not self.isset[v]:
                    self.let(v, '(py_set %s)' % self.coq[v])
                    self.isset[v] = True
                    continue
                raise Refuse('assignment outside the subset (line %d): %s' % (st.lineno, src[:80]))
            if isinstance(st, ast.Return) and st.value is not None:
                out = self.result(st.value)
                continue
            raise Refuse('statement outside the subset (line %d): %s' % (st.lineno, ast.unparse(st)[:80]))
        if out is None:
            raise Refuse('%s: no return' % self.fn.name)
        if guard:
            out = '(if %s then SNaN else %s)' % (guard, out)
        return '\n'.join(self.lets + ['  %s.' % out])


SNAP = {
    'jaccard_index': '''  let A := (if sA then py_dropna A else A) in
  let B := (if sB then py_dropna B else B) in
  let A := (py_set A) in
  let B := (py_set B) in
  (py_truediv (length (py_inter A B)) (length (py_union A B))).''',
    'overlap': '''  let A := (py_dropna A) in
  let B := (py_dropna B) in
  let A := (py_set A) in
  let B := (py_set B) in
  (SNat (length (py_inter A B))).''',
    'overlap_coefficient': '''  let A := (py_dropna A) in
  let B := (py_dropna B) in
  let A := (py_set A) in
  let B := (py_set B) in
  (if ((Nat.eqb (length A) 0) || (Nat.eqb (length B) 0)) then SNaN else (py_truediv (length (py_inter A B)) (Nat.min (length A) (length B)))).''',
}


def run(STATUS, write_if_changed, ROOT, REPO):
    out = ['(* GENERATED from pyrepseq/stats.py (jaccard_index, overlap, overlap_coefficient) by translate/regen_c16.py on every check; do not edit. *)',
           'From Coq Require Import List Arith Bool NArith QArith.', 'From PV Require Import lib.PySet.', 'Import ListNotations.',
           'Open Scope bool_scope.', '']
    try:
        tree = ast.parse(open(os.path.join(REPO, 'pyrepseq', 'stats.py')).read())
    except Exception:
        tree = None
    for name in FUNCS:
        key = 'stats.' + name
        head = 'Definition gen_%s (sA sB : bool) (A B : list (option N)) : sres :=\n' % name
        try:
            fn = next((n for n in tree.body if isinstance(n, ast.FunctionDef) and n.name == name), None) if tree else None
            if fn is None:
                raise Refuse('function %s not found' % name)
            out.append(head + Fn(fn).translate())
            STATUS[key] = dict(ok=True, properties=PROPS, error=None)
        except Refuse as e:
            out.append('(* translator refused: %s -- committed snapshot of the last good text *)\n' % str(e).replace('*)', '* )') + head + SNAP[name])
            STATUS[key] = dict(ok=True, snapshot=True, properties=PROPS,
                               error='regen unavailable (%s): committed snapshot used, tie by correspondence' % str(e)[:200])
        except Exception:
            out.append('(* translator crashed -- committed snapshot *)\n' + head + SNAP[name])
            STATUS[key] = dict(ok=False, properties=PROPS, error='translator crashed: ' + traceback.format_exc()[-300:])
    write_if_changed(os.path.join(ROOT, 'coq/gen/Gen_c16.v'), '\n'.join(out) + '\n')
