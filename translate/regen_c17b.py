"""C17: regenerate coq/gen/Gen_c17b.v from the SOURCE TEXT of pyrepseq/stats.py `subsample` and pyrepseq/distance.py `downsample`
(fail-closed).  Statement by statement:

  subsample(counts, n)
      n = int(n)                                                                    (optional; the same number)
      unpacked = np.concatenate([np.repeat(<E>, <C>) for <i>, <c> in enumerate(counts[, start])] [+ [np.array([], dtype=int)]])
                 with <E> in {i, np.array(i), np.array(i,)} and <C> a loop name         -> concat (map (fun ic => repeat E C) (enumerate ..)) ++ []
      sample = np.random.choice(unpacked, size=<n>, replace=False)                     -> np_choice 0 unpacked (draw n)
      unique, counts = np.unique(sample, return_counts=True)                           -> np_unique_counts
      return unique, counts

  downsample(seqs, maxseqs=None): a chain of `if <cond>: return <r>` closed by `return <r>`, with
      <cond> built from `x is None`, `x is not None`, `len(seqs) <cmp> <size>`, `isinstance(seqs, DataFrame)`, and / or / not
      <r>    one of `seqs`, `seqs.sample(n=<size>)`, `np.random.choice(seqs, <size>, replace=False)` (size positional or size=)
      <size> `maxseqs`, `maxseqs + k`, `maxseqs - k`, a literal, or `len(seqs)`

Vocabulary (trusted, DESIGN section 3): `np.random.choice(a, k, replace=False)` and `DataFrame.sample(n=k)` return the elements / rows of
`a` at k distinct positions below len(a) - the draw is the parameter `draw : nat -> list nat` (size |-> positions); np.unique returns the
distinct values ascending (`uniq`, with the hypothesis sorted_uniq_ok in the theorems).  coq/proofs/GenResampleP.v proves the generated
functions equal to model/Resample.v for every such draw.  Anything else is refused; on refusal the committed snapshot is written and the
refusal recorded (DESIGN.md 1.5)."""
import ast, os, sys, traceback

NAME_S = 'stats.subsample[source]'
NAME_D = 'distance.downsample[source]'
PROPS = ['C17']
U = ast.unparse


class Refuse(Exception):
    pass


def _is_np(node, *path):
    parts = []
    while isinstance(node, ast.Attribute):
        parts.append(node.attr)
        node = node.value
    return isinstance(node, ast.Name) and node.id == 'np' and list(reversed(parts)) == list(path)


def _body(fn):
    return [s for s in fn.body if not (isinstance(s, ast.Expr) and isinstance(s.value, ast.Constant))]


def _kw(call, allowed):
    kws = {}
    for k in call.keywords:
        if k.arg is None or k.arg not in allowed or k.arg in kws:
            raise Refuse('unexpected keyword in %s' % U(call)[:80])
        kws[k.arg] = k.value
    return kws


def _const(node, value):
    return isinstance(node, ast.Constant) and node.value is value


def _choice(call, arr_name):
    """np.random.choice(arr, size, replace=False) -> the size expression (AST)"""
    if not (isinstance(call, ast.Call) and _is_np(call.func, 'random', 'choice')):
        raise Refuse('not np.random.choice: %s' % U(call)[:80])
    kws = _kw(call, ('size', 'replace', 'a'))
    args = list(call.args)
    if 'a' in kws:
        args.insert(0, kws['a'])
    if not args or not (isinstance(args[0], ast.Name) and args[0].id == arr_name):
        raise Refuse('np.random.choice does not draw from %s: %s' % (arr_name, U(call)[:80]))
    if len(args) == 2 and 'size' not in kws:
        size = args[1]
    elif len(args) == 1 and 'size' in kws:
        size = kws['size']
    elif len(args) == 3 and 'size' not in kws and 'replace' not in kws:
        size = args[1]
        kws['replace'] = args[2]
    else:
        raise Refuse('np.random.choice: arguments not understood: %s' % U(call)[:80])
    if 'replace' not in kws or not _const(kws['replace'], False):
        raise Refuse('np.random.choice is not drawn with replace=False: %s' % U(call)[:80])
    return size


# ---------------------------------------------------------------------------------------------- subsample
def translate_subsample(fn):
    params = [a.arg for a in fn.args.args]
    if params != ['counts', 'n'] or fn.args.vararg or fn.args.kwarg or fn.args.kwonlyargs:
        raise Refuse('subsample: unexpected signature %s' % params)
    b = _body(fn)
    if b and U(b[0]) in ('n = int(n)',):
        b = b[1:]
    if len(b) != 4:
        raise Refuse('subsample: expected unpack / choice / unique / return, got %d statements' % len(b))
    unp, cho, uni, ret = b
    # 1. unpacked
    if not (isinstance(unp, ast.Assign) and len(unp.targets) == 1 and isinstance(unp.targets[0], ast.Name) and isinstance(unp.value, ast.Call)
            and _is_np(unp.value.func, 'concatenate') and len(unp.value.args) == 1 and not unp.value.keywords):
        raise Refuse('subsample: first statement is not X = np.concatenate(..): %s' % U(unp)[:100])
    arr = unp.targets[0].id
    inner = unp.value.args[0]
    tail = False
    if isinstance(inner, ast.BinOp) and isinstance(inner.op, ast.Add):
        if U(inner.right) not in ('[np.array([], dtype=int)]', '[np.array([], dtype=np.int64)]', '[np.empty(0, dtype=int)]'):
            raise Refuse('subsample: appended block is not one empty integer array: %s' % U(inner.right)[:80])
        tail = True
        inner = inner.left
    if not (isinstance(inner, ast.ListComp) and len(inner.generators) == 1):
        raise Refuse('subsample: not a list comprehension over the counts')
    g = inner.generators[0]
    if g.ifs or g.is_async:
        raise Refuse('subsample: filtered comprehension')
    if not (isinstance(g.target, ast.Tuple) and len(g.target.elts) == 2 and all(isinstance(e, ast.Name) for e in g.target.elts)):
        raise Refuse('subsample: loop target is not a pair of names')
    iname, cname = g.target.elts[0].id, g.target.elts[1].id
    if iname == cname:
        raise Refuse('subsample: loop names coincide')
    it = g.iter
    if not (isinstance(it, ast.Call) and isinstance(it.func, ast.Name) and it.func.id == 'enumerate' and 1 <= len(it.args) <= 2
            and isinstance(it.args[0], ast.Name) and it.args[0].id == 'counts'):
        raise Refuse('subsample: loop is not over enumerate(counts): %s' % U(it)[:80])
    start = 0
    kws = _kw(it, ('start',))
    st = it.args[1] if len(it.args) == 2 else kws.get('start')
    if len(it.args) == 2 and 'start' in kws:
        raise Refuse('subsample: enumerate start given twice')
    if st is not None:
        if not (isinstance(st, ast.Constant) and type(st.value) is int and 0 <= st.value < 1000):
            raise Refuse('subsample: enumerate start is not a small literal')
        start = st.value
    e = inner.elt
    if not (isinstance(e, ast.Call) and _is_np(e.func, 'repeat') and len(e.args) == 2 and not e.keywords):
        raise Refuse('subsample: element is not np.repeat(x, k): %s' % U(e)[:80])
    what, times = e.args

    def loopvar(node, unwrap):
        if unwrap and isinstance(node, ast.Call) and (_is_np(node.func, 'array') or _is_np(node.func, 'asarray')) and len(node.args) == 1 \
                and not node.keywords:
            node = node.args[0]
            if isinstance(node, ast.Tuple) and len(node.elts) == 1:
                node = node.elts[0]
        if isinstance(node, ast.Name) and node.id in (iname, cname):
            return 'fst ic_' if node.id == iname else 'snd ic_'
        raise Refuse('subsample: np.repeat argument is not a loop name: %s' % U(node)[:60])
    w, t = loopvar(what, True), loopvar(times, False)
    # 2. sample
    if not (isinstance(cho, ast.Assign) and len(cho.targets) == 1 and isinstance(cho.targets[0], ast.Name)):
        raise Refuse('subsample: second statement is not an assignment')
    sname = cho.targets[0].id
    size = _choice(cho.value, arr)
    if not (isinstance(size, ast.Name) and size.id == 'n') and U(size) != 'int(n)':
        raise Refuse('subsample: the number drawn is not n: %s' % U(size)[:60])
    # 3. unique
    if not (isinstance(uni, ast.Assign) and len(uni.targets) == 1 and isinstance(uni.targets[0], ast.Tuple) and len(uni.targets[0].elts) == 2
            and all(isinstance(x, ast.Name) for x in uni.targets[0].elts) and isinstance(uni.value, ast.Call) and _is_np(uni.value.func, 'unique')
            and len(uni.value.args) == 1 and isinstance(uni.value.args[0], ast.Name) and uni.value.args[0].id == sname):
        raise Refuse('subsample: third statement is not a, b = np.unique(sample, return_counts=True): %s' % U(uni)[:100])
    kws = _kw(uni.value, ('return_counts',))
    if not _const(kws.get('return_counts'), True):
        raise Refuse('subsample: np.unique without return_counts=True')
    a, c = [x.id for x in uni.targets[0].elts]
    if a == c:
        raise Refuse('subsample: np.unique results bound to one name')
    # 4. return
    if not (isinstance(ret, ast.Return) and isinstance(ret.value, ast.Tuple) and len(ret.value.elts) == 2
            and all(isinstance(x, ast.Name) and x.id in (a, c) for x in ret.value.elts)):
        raise Refuse('subsample: does not return the pair of np.unique results: %s' % U(ret)[:80])
    r1, r2 = [('unique_' if x.id == a else 'ucounts_') for x in ret.value.elts]
    return dict(w=w, t=t, start=start, tail=' ++ []' if tail else '', r1=r1, r2=r2)


SUB_TEMPLATE = '''Definition gen_subsample (uniq : list nat -> list nat) (counts : list nat) (n : nat) (draw : nat -> list nat) : list nat * list nat :=
  let unpacked := concat (map (fun ic_ => repeat (%(w)s) (%(t)s)) (enumerate_from %(start)d counts))%(tail)s in
  let sample := np_choice 0 unpacked (draw n) in
  let '(unique_, ucounts_) := np_unique_counts Nat.eq_dec uniq sample in
  (%(r1)s, %(r2)s).
'''
SUB_SNAP = dict(w='fst ic_', t='snd ic_', start=0, tail=' ++ []', r1='unique_', r2='ucounts_')


# ---------------------------------------------------------------------------------------------- downsample
def _size(node):
    """size expression -> Gallina nat term over m_ (= maxseqs) and (length xs_)"""
    if isinstance(node, ast.Name) and node.id == 'maxseqs':
        return 'm_'
    if isinstance(node, ast.Constant) and type(node.value) is int and 0 <= node.value < 1000:
        return '%d' % node.value
    if U(node) == 'len(seqs)':
        return '(length xs_)'
    if isinstance(node, ast.BinOp) and isinstance(node.op, (ast.Add, ast.Sub)) and isinstance(node.right, ast.Constant) \
            and type(node.right.value) is int and 0 <= node.right.value < 1000:
        return '(%s %s %d)' % (_size(node.left), '+' if isinstance(node.op, ast.Add) else '-', node.right.value)
    raise Refuse('downsample: size expression not understood: %s' % U(node)[:60])


CMP = {ast.LtE: 'Nat.leb %s %s', ast.Lt: 'Nat.ltb %s %s', ast.GtE: 'Nat.leb %s %s', ast.Gt: 'Nat.ltb %s %s', ast.Eq: 'Nat.eqb %s %s'}


def _cond(node):
    if isinstance(node, ast.BoolOp):
        op = ' || ' if isinstance(node.op, ast.Or) else ' && '
        return '(' + op.join(_cond(v) for v in node.values) + ')'
    if isinstance(node, ast.UnaryOp) and isinstance(node.op, ast.Not):
        return '(negb %s)' % _cond(node.operand)
    if isinstance(node, ast.Compare) and len(node.ops) == 1:
        l, op, r = node.left, node.ops[0], node.comparators[0]
        if isinstance(op, (ast.Is, ast.IsNot)) and _const(r, None) and isinstance(l, ast.Name) and l.id in ('maxseqs', 'seqs'):
            t = 'maxseqs_none' if l.id == 'maxseqs' else 'seqs_none'
            return t if isinstance(op, ast.Is) else '(negb %s)' % t
        if type(op) in CMP:
            a, b = _size(l), _size(r)
            if isinstance(op, (ast.GtE, ast.Gt)):
                a, b = b, a
            return '(' + CMP[type(op)] % (a, b) + ')'
    if U(node) in ('isinstance(seqs, DataFrame)', 'isinstance(seqs, pd.DataFrame)'):
        return 'is_df'
    raise Refuse('downsample: condition not understood: %s' % U(node)[:80])


def _result(node):
    if isinstance(node, ast.Name) and node.id == 'seqs':
        return 'RSame'
    if isinstance(node, ast.Call) and isinstance(node.func, ast.Attribute) and node.func.attr == 'sample' \
            and isinstance(node.func.value, ast.Name) and node.func.value.id == 'seqs' and not node.args:
        kws = _kw(node, ('n',))
        if 'n' not in kws:
            raise Refuse('downsample: seqs.sample without n=')
        return 'RRows (%s)' % _size(kws['n'])
    if isinstance(node, ast.Call) and _is_np(node.func, 'random', 'choice'):
        return 'RChoice (%s)' % _size(_choice(node, 'seqs'))
    raise Refuse('downsample: result not understood: %s' % U(node)[:80])


def translate_downsample(fn):
    params = [a.arg for a in fn.args.args]
    if params != ['seqs', 'maxseqs'] or fn.args.vararg or fn.args.kwarg or fn.args.kwonlyargs:
        raise Refuse('downsample: unexpected signature %s' % params)
    if len(fn.args.defaults) != 1 or not _const(fn.args.defaults[0], None):
        raise Refuse('downsample: default of maxseqs is not None')
    b = _body(fn)
    if not b or not isinstance(b[-1], ast.Return) or b[-1].value is None:
        raise Refuse('downsample: does not end in a return')
    chain = []
    for s in b[:-1]:
        if not (isinstance(s, ast.If) and not s.orelse and len(s.body) == 1 and isinstance(s.body[0], ast.Return) and s.body[0].value is not None):
            raise Refuse('downsample: statement is not `if ..: return ..`: %s' % U(s)[:80])
        chain.append((_cond(s.test), _result(s.body[0].value)))
    return chain, _result(b[-1].value)


DOWN_HEAD = '''(* what a branch returns: the argument itself, `seqs.sample(n=k)`, or `np.random.choice(seqs, k, replace=False)` *)
Inductive dresult := RSame | RRows (k : nat) | RChoice (k : nat).
(* the branch downsample takes; seqs_none / maxseqs_none: the argument is None; xs_ the elements (rows) of seqs, m_ the number maxseqs *)
Definition gen_downsample_branch {X : Type} (seqs_none maxseqs_none is_df : bool) (xs_ : list X) (m_ : nat) : dresult :=
'''
DOWN_TAIL = '''
Definition gen_downsample {X : Type} (d : X) (seqs : option (list X)) (maxseqs : option nat) (is_df : bool) (draw : nat -> list nat)
  : option (list X) :=
  let xs := match seqs with Some l => l | None => [] end in
  match gen_downsample_branch (match seqs with None => true | _ => false end) (match maxseqs with None => true | _ => false end)
                              is_df xs (match maxseqs with Some m => m | None => 0 end) with
  | RSame => seqs
  | RRows k => Some (df_sample d xs (draw k))
  | RChoice k => Some (np_choice d xs (draw k))
  end.
'''
DOWN_SNAP = ([('(maxseqs_none || seqs_none)', 'RSame'), ('(Nat.leb (length xs_) m_)', 'RSame'), ('is_df', 'RRows (m_)')], 'RChoice (m_)')


def down_text(chain, last):
    out = DOWN_HEAD
    for c, r in chain:
        out += '  if %s then %s else\n' % (c, r)
    out += '  %s.\n' % last
    return out + DOWN_TAIL


HEAD = ['(* GENERATED from pyrepseq/stats.py (subsample) and pyrepseq/distance.py (downsample) by translate/regen_c17b.py on every check; '
        'do not edit. *)',
        'From Coq Require Import List Arith Bool.', 'From PV Require Import lib.NpUnique lib.NpChoice.', 'Import ListNotations.', '']


def _get(REPO, rel, name):
    tree = ast.parse(open(os.path.join(REPO, 'pyrepseq', rel)).read())
    fn = next((n for n in tree.body if isinstance(n, ast.FunctionDef) and n.name == name), None)
    if fn is None:
        raise Refuse('function %s not found' % name)
    return fn


def run(STATUS, write_if_changed, ROOT, REPO):
    parts = []
    for name, rel, fname, tr, render, snap in (
            (NAME_S, 'stats.py', 'subsample', translate_subsample, lambda r: SUB_TEMPLATE % r, SUB_SNAP),
            (NAME_D, 'distance.py', 'downsample', translate_downsample, lambda r: down_text(*r), DOWN_SNAP)):
        try:
            txt = render(tr(_get(REPO, rel, fname)))
            STATUS[name] = dict(ok=True, properties=PROPS, error=None)
        except Refuse as e:
            txt = '(* translator refused: %s -- committed snapshot of the last good text *)\n' % str(e).replace('*)', '* )') + render(snap)
            STATUS[name] = dict(ok=True, snapshot=True, properties=PROPS,
                                error='regen unavailable (%s): committed snapshot used, tie by correspondence' % str(e)[:200])
        except Exception:
            txt = '(* translator crashed -- committed snapshot *)\n' + render(snap)
            STATUS[name] = dict(ok=True, snapshot=True, properties=PROPS,
                                error='regen unavailable (translator error on text outside its subset: %s): committed snapshot used, tie by correspondence' % traceback.format_exc()[-200:].replace('\n', ' '))
        parts.append(txt)
    write_if_changed(os.path.join(ROOT, 'coq/gen/Gen_c17b.v'), '\n'.join(HEAD) + '\n'.join(parts))
