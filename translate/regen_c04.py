"""C04/C11: the KD-tree search radius expression of nn._kdtree_leven (params = {"r": <expr>, ...}) translated to a
binary64 function of max_edits (Coq PrimFloat), so that the radius theorem is checked against today's expression.
Fail-closed: anything outside {float/int literal, max_edits, np.sqrt(e), math.sqrt(e), e*e, e+e, e**2} is refused."""
import ast, os

NAME = 'consts.kdtree_radius'
PROPS = ['C04', 'C11']


def fexpr(e):
    if isinstance(e, ast.Constant) and isinstance(e.value, (int, float)) and not isinstance(e.value, bool) and e.value >= 0:
        v = float(e.value)
        if v != int(v) or v > 2 ** 50:
            raise ValueError('literal %r outside the subset' % e.value)
        return '(of_uint63 %d%%uint63)' % int(v)
    if isinstance(e, ast.Name) and e.id == 'max_edits':
        return 'k'
    if isinstance(e, ast.Call) and isinstance(e.func, ast.Attribute) and e.func.attr == 'sqrt' and len(e.args) == 1 and not e.keywords \
            and isinstance(e.func.value, ast.Name) and e.func.value.id in ('np', 'numpy', 'math'):
        return '(PrimFloat.sqrt %s)' % fexpr(e.args[0])
    if isinstance(e, ast.BinOp):
        if isinstance(e.op, ast.Mult):
            return '(PrimFloat.mul %s %s)' % (fexpr(e.left), fexpr(e.right))
        if isinstance(e.op, ast.Add):
            return '(PrimFloat.add %s %s)' % (fexpr(e.left), fexpr(e.right))
        if isinstance(e.op, ast.Pow) and isinstance(e.right, ast.Constant) and e.right.value == 2:
            return '(PrimFloat.mul %s %s)' % (fexpr(e.left), fexpr(e.left))
    raise ValueError('radius expression outside the subset: ' + ast.dump(e)[:160])


def run(STATUS, write_if_changed, ROOT, REPO):
    out = ['(* GENERATED from pyrepseq/nn.py (_kdtree_leven: params["r"]) by translate/regen_c04.py on every check; do not edit. *)',
           'From Coq Require Import PrimFloat Uint63.', '']
    try:
        tree = ast.parse(open(os.path.join(REPO, 'pyrepseq', 'nn.py')).read())
        fn = next(n for n in tree.body if isinstance(n, ast.FunctionDef) and n.name == '_kdtree_leven')
        expr = None
        for node in ast.walk(fn):
            if isinstance(node, ast.Dict):
                for k, v in zip(node.keys, node.values):
                    if isinstance(k, ast.Constant) and k.value == 'r':
                        expr = v
            if isinstance(node, ast.Call) and isinstance(node.func, ast.Attribute) and node.func.attr == 'query_ball_point':
                for kw in node.keywords:
                    if kw.arg == 'r':
                        expr = kw.value
        if expr is None:
            raise ValueError('no radius ("r") found in _kdtree_leven')
        out.append('Definition gen_radius (k : float) : float := %s.' % fexpr(expr))
        out.append('Definition gen_radius_known : bool := true.')
        # every option handed to query_ball_point (through the params dict and / or keywords): the query is the exact Euclidean ball
        # iff no approximation (eps) and no other norm (p) is requested; workers / return_sorted do not change the set
        opts = {}
        for node in ast.walk(fn):
            if isinstance(node, ast.Dict) and any(isinstance(k, ast.Constant) and k.value == 'r' for k in node.keys):
                for k, v in zip(node.keys, node.values):
                    if not (isinstance(k, ast.Constant) and isinstance(k.value, str)):
                        raise ValueError('query_ball_point options: non-literal key')
                    opts[k.value] = v
            if isinstance(node, ast.Call) and isinstance(node.func, ast.Attribute) and node.func.attr == 'query_ball_point':
                for kw in node.keywords:
                    if kw.arg is not None:
                        opts[kw.arg] = kw.value
                    elif not isinstance(kw.value, ast.Name):
                        raise ValueError('query_ball_point(**<expression>)')
        def lit(v, ok):
            return isinstance(v, ast.Constant) and not isinstance(v.value, bool) and isinstance(v.value, (int, float)) and v.value in ok
        exact = all(k in ('r', 'workers', 'return_sorted') or (k == 'eps' and lit(v, (0, 0.0))) or (k == 'p' and lit(v, (2, 2.0))) for k, v in opts.items())
        out.append('Definition gen_ball_query_exact : bool := %s.   (* options: %s *)' % ('true' if exact else 'false', ', '.join(sorted(opts))))
        STATUS[NAME] = dict(ok=True, properties=PROPS, error=None)
    except Exception as e:
        # DESIGN.md 1.5: expression outside the subset / anchor moved -> committed snapshot (np.sqrt(2) * max_edits), recorded;
        # the tie for the radius on this run is the kdtree correspondence (boundary families exactly on the radius, k up to 64)
        out.append('Definition gen_radius (k : float) : float := (PrimFloat.mul (PrimFloat.sqrt (of_uint63 2%uint63)) k).')
        out.append('Definition gen_radius_known : bool := false.')
        out.append('Definition gen_ball_query_exact : bool := true.')
        STATUS[NAME] = dict(ok=True, snapshot=True, properties=PROPS,
                            error='regen unavailable (%s): committed snapshot used, tie by correspondence' % repr(e)[:200])
    write_if_changed(os.path.join(ROOT, 'coq/gen/Gen_c04.v'), '\n'.join(out) + '\n')
