"""C12: regenerate coq/gen/Gen_c12c.v from the SOURCE TEXT of pyrepseq/distance.py `_flatten_list`, `next_nearest_neighbors`,
`find_neighbor_pairs` and `find_neighbor_pairs_index` (fail-closed `ast` translator).  coq/proofs/GenNbrs2P.v proves the generated
functions equal (as sets / up to the order in which Python iterates over a set) to the models of model/Nbrs.v.

  _flatten_list(inlist):   return [item for sublist in inlist for item in sublist]                 -> concat
  next_nearest_neighbors(x, neighborhood, maxdistance=2):
      neighbors = [list(neighborhood(x))]
      distance = D0
      while distance < maxdistance:        (or <=)                                                -> fuel maxdistance - D0 (S maxdistance - D0)
          neighbors_dist = []
          for y in neighbors[-1]: neighbors_dist.extend(neighborhood(y))
          neighbors.append(set(neighbors_dist))
          distance += 1
      neighbor_set = set(_flatten_list(neighbors))
      neighbor_set.discard(x)
      return neighbor_set
  find_neighbor_pairs(seqs, neighborhood=hamming_neighbors):
      reference = set(seqs); pairs = []
      for x in sorted(set(seqs)):
          for y in set(neighborhood(x)) & reference:  pairs.append((x, y))        (operands of & in either order; the pair as written)
          reference.remove(x)                                                        (or discard; or absent - then emitted without it)
      return pairs
  find_neighbor_pairs_index(seqs, neighborhood=hamming_neighbors):
      reference = set(seqs); seqs_list = list(seqs); pairs = []
      for i, x in enumerate(seqs):
          for y in set(neighborhood(x)) & reference:  pairs.append((i, seqs_list.index(y)))
      return pairs

Vocabulary (trusted, DESIGN section 3): `set(l)` = the distinct elements of l in SOME order (`iterS`, any duplicate-free enumeration);
`sorted(set(l))` = the distinct elements in a fixed order (`sortedS`); `a & b` = the elements of a that are in b; list.index = first
position.  Anything else is refused; on refusal the committed snapshot is written and the refusal recorded (DESIGN.md 1.5)."""
import ast, os, traceback

NAME = 'distance.find_neighbor_pairs[source]'
PROPS = ['C12']
U = ast.unparse


class Refuse(Exception):
    pass


def body_of(fn):
    b = list(fn.body)
    if b and isinstance(b[0], ast.Expr) and isinstance(b[0].value, ast.Constant) and isinstance(b[0].value.value, str):
        b = b[1:]
    return b


def sig(fn):
    names = [a.arg for a in fn.args.args]
    if fn.args.vararg or fn.args.kwarg or fn.args.kwonlyargs:
        raise Refuse('%s: unexpected signature' % fn.name)
    return names, dict(zip(names[len(names) - len(fn.args.defaults):], [U(d) for d in fn.args.defaults]))


def tr_flatten(fn):
    names, d = sig(fn)
    b = body_of(fn)
    if len(names) != 1 or d or len(b) != 1 or not isinstance(b[0], ast.Return):
        raise Refuse('_flatten_list: unexpected shape')
    v = b[0].value
    if not (isinstance(v, ast.ListComp) and len(v.generators) == 2 and not any(g.ifs or g.is_async for g in v.generators)):
        raise Refuse('_flatten_list: not a two-level comprehension')
    g1, g2 = v.generators
    if not (isinstance(g1.target, ast.Name) and isinstance(g2.target, ast.Name) and isinstance(v.elt, ast.Name)
            and U(g1.iter) == names[0] and U(g2.iter) == g1.target.id and v.elt.id == g2.target.id and g1.target.id != g2.target.id):
        raise Refuse('_flatten_list: not [item for sublist in inlist for item in sublist]')


def tr_nnn(fn):
    names, d = sig(fn)
    if names != ['x', 'neighborhood', 'maxdistance'] or set(d) != {'maxdistance'}:
        raise Refuse('next_nearest_neighbors: unexpected signature')
    try:
        default = int(d['maxdistance'])
    except ValueError:
        raise Refuse('next_nearest_neighbors: default of maxdistance is not a literal')
    b = body_of(fn)
    if len(b) != 6:
        raise Refuse('next_nearest_neighbors: expected 6 statements, got %d' % len(b))
    s0, s1, wh, s3, s4, s5 = b
    if U(s0) not in ('neighbors = [list(neighborhood(x))]', 'neighbors = [set(neighborhood(x))]'):
        raise Refuse('next_nearest_neighbors: first level is not [list(neighborhood(x))]: %s' % U(s0)[:80])
    first = 'nb x' if 'list(' in U(s0) else 'iterS (nb x)'
    if not (isinstance(s1, ast.Assign) and U(s1.targets[0]) == 'distance' and isinstance(s1.value, ast.Constant) and type(s1.value.value) is int
            and 0 <= s1.value.value < 100):
        raise Refuse('next_nearest_neighbors: counter is not initialised by a literal')
    d0 = s1.value.value
    if not (isinstance(wh, ast.While) and not wh.orelse and isinstance(wh.test, ast.Compare) and len(wh.test.ops) == 1
            and U(wh.test.left) == 'distance' and U(wh.test.comparators[0]) == 'maxdistance' and isinstance(wh.test.ops[0], (ast.Lt, ast.LtE))):
        raise Refuse('next_nearest_neighbors: loop is not `while distance < maxdistance`')
    fuel = '(maxdistance - %d)' % d0 if isinstance(wh.test.ops[0], ast.Lt) else '(S maxdistance - %d)' % d0
    w = wh.body
    if len(w) != 4:
        raise Refuse('next_nearest_neighbors: loop body has %d statements' % len(w))
    if U(w[0]) != 'neighbors_dist = []':
        raise Refuse('next_nearest_neighbors: level accumulator is not reset')
    if U(w[1]) != 'for y in neighbors[-1]:\n    neighbors_dist.extend(neighborhood(y))':
        raise Refuse('next_nearest_neighbors: level is not the neighbours of the previous level: %s' % U(w[1])[:100])
    if U(w[2]) == 'neighbors.append(set(neighbors_dist))':
        level = 'iterS neighbors_dist'
    elif U(w[2]) in ('neighbors.append(neighbors_dist)', 'neighbors.append(list(neighbors_dist))'):
        level = 'neighbors_dist'
    else:
        raise Refuse('next_nearest_neighbors: level is not appended: %s' % U(w[2])[:80])
    if U(w[3]) not in ('distance += 1', 'distance = distance + 1'):
        raise Refuse('next_nearest_neighbors: counter does not advance by one')
    if U(s3) != 'neighbor_set = set(_flatten_list(neighbors))':
        raise Refuse('next_nearest_neighbors: result is not the set of all levels: %s' % U(s3)[:80])
    if U(s4) != 'neighbor_set.discard(x)':
        raise Refuse('next_nearest_neighbors: x is not discarded: %s' % U(s4)[:80])
    if U(s5) != 'return neighbor_set':
        raise Refuse('next_nearest_neighbors: does not return the set')
    return dict(first=first, fuel=fuel, level=level, default=default)


def _inter(node, x):
    """set(neighborhood(x)) & reference in either order -> True"""
    if not (isinstance(node, ast.BinOp) and isinstance(node.op, ast.BitAnd)):
        return False
    return sorted([U(node.left), U(node.right)]) == sorted(['set(neighborhood(%s))' % x, 'reference'])


def _pair(stmt, allowed):
    """pairs.append((A, B)) -> (A, B) as source strings, each in `allowed`"""
    if not (isinstance(stmt, ast.Expr) and isinstance(stmt.value, ast.Call) and U(stmt.value.func) == 'pairs.append' and len(stmt.value.args) == 1
            and not stmt.value.keywords and isinstance(stmt.value.args[0], ast.Tuple) and len(stmt.value.args[0].elts) == 2):
        raise Refuse('pairs.append((a, b)) expected: %s' % U(stmt)[:80])
    a, b = [U(e) for e in stmt.value.args[0].elts]
    if a not in allowed or b not in allowed:
        raise Refuse('pair components not understood: %s' % U(stmt)[:80])
    return allowed[a], allowed[b]


def tr_pairs(fn):
    names, d = sig(fn)
    if names != ['seqs', 'neighborhood'] or set(d) != {'neighborhood'}:
        raise Refuse('find_neighbor_pairs: unexpected signature')
    b = body_of(fn)
    if len(b) != 4 or U(b[0]) != 'reference = set(seqs)' or U(b[1]) != 'pairs = []' or U(b[3]) != 'return pairs':
        raise Refuse('find_neighbor_pairs: unexpected statements')
    lo = b[2]
    if not (isinstance(lo, ast.For) and not lo.orelse and isinstance(lo.target, ast.Name) and U(lo.iter) == 'sorted(set(seqs))'):
        raise Refuse('find_neighbor_pairs: outer loop is not over sorted(set(seqs)): %s' % U(lo.iter)[:60])
    x = lo.target.id
    if not (1 <= len(lo.body) <= 2):
        raise Refuse('find_neighbor_pairs: outer loop body has %d statements' % len(lo.body))
    inner = lo.body[0]
    if not (isinstance(inner, ast.For) and not inner.orelse and isinstance(inner.target, ast.Name) and _inter(inner.iter, x) and len(inner.body) == 1):
        raise Refuse('find_neighbor_pairs: inner loop is not over set(neighborhood(x)) & reference')
    y = inner.target.id
    if x == y:
        raise Refuse('find_neighbor_pairs: loop names coincide')
    p1, p2 = _pair(inner.body[0], {x: 'x_', y: 'y_'})
    removal = 'reference'
    if len(lo.body) == 2:
        if U(lo.body[1]) not in ('reference.remove(%s)' % x, 'reference.discard(%s)' % x):
            raise Refuse('find_neighbor_pairs: second statement of the loop is not reference.remove(x): %s' % U(lo.body[1])[:60])
        removal = 'remove str_eq_dec x_ reference'
    return dict(p1=p1, p2=p2, removal=removal, default=d['neighborhood'])


def tr_pairs_index(fn):
    names, d = sig(fn)
    if names != ['seqs', 'neighborhood'] or set(d) != {'neighborhood'}:
        raise Refuse('find_neighbor_pairs_index: unexpected signature')
    b = body_of(fn)
    if len(b) != 5 or sorted([U(b[0]), U(b[1]), U(b[2])]) != sorted(['reference = set(seqs)', 'seqs_list = list(seqs)', 'pairs = []']) \
            or U(b[4]) != 'return pairs':
        raise Refuse('find_neighbor_pairs_index: unexpected statements')
    lo = b[3]
    if not (isinstance(lo, ast.For) and not lo.orelse and isinstance(lo.target, ast.Tuple) and len(lo.target.elts) == 2
            and all(isinstance(e, ast.Name) for e in lo.target.elts) and U(lo.iter) in ('enumerate(seqs)', 'enumerate(seqs_list)')
            and len(lo.body) == 1):
        raise Refuse('find_neighbor_pairs_index: outer loop is not `for i, x in enumerate(seqs)`')
    i, x = [e.id for e in lo.target.elts]
    inner = lo.body[0]
    if not (isinstance(inner, ast.For) and not inner.orelse and isinstance(inner.target, ast.Name) and _inter(inner.iter, x) and len(inner.body) == 1):
        raise Refuse('find_neighbor_pairs_index: inner loop is not over set(neighborhood(x)) & reference')
    y = inner.target.id
    if len({i, x, y}) != 3:
        raise Refuse('find_neighbor_pairs_index: loop names coincide')
    p1, p2 = _pair(inner.body[0], {i: 'fst ix_', 'seqs_list.index(%s)' % y: 'index_of str_eq_dec y_ seqs',
                                   'seqs_list.index(%s)' % x: 'index_of str_eq_dec (snd ix_) seqs'})
    return dict(p1=p1, p2=p2, default=d['neighborhood'])


TEMPLATE = '''Definition gen_flatten_list {A : Type} (inlist : list (list A)) : list A := concat inlist.

(* one pass of the while loop per unit of fuel (the counter runs from its initial value up to maxdistance) *)
Fixpoint gen_nnn_while (iterS : list str -> list str) (nb : str -> list str) (fuel : nat) (neighbors : list (list str)) : list (list str) :=
  match fuel with
  | 0 => neighbors
  | S fuel' =>
      let neighbors_dist := fold_left (fun acc y_ => acc ++ nb y_) (last neighbors []) [] in
      gen_nnn_while iterS nb fuel' (neighbors ++ [%(level)s])
  end.
Definition gen_next_nearest_neighbors (iterS : list str -> list str) (nb : str -> list str) (x : str) (maxdistance : nat) : list str :=
  let neighbors := gen_nnn_while iterS nb %(fuel)s [%(first)s] in
  let neighbor_set := iterS (gen_flatten_list neighbors) in
  remove str_eq_dec x neighbor_set.
Definition gen_nnn_default_maxdistance : nat := %(default)d.

Definition gen_find_neighbor_pairs (sortedS iterS : list str -> list str) (nb : str -> list str) (seqs : list str) : list (str * str) :=
  let reference := iterS seqs in
  fst (fold_left (fun (st : list (str * str) * list str) x_ =>
                    let '(pairs, reference) := st in
                    (pairs ++ map (fun y_ => (%(fp1)s, %(fp2)s)) (iterS (filter (fun c => memb str_eq_dec c reference) (iterS (nb x_)))),
                     %(removal)s))
                 (sortedS seqs) ([], reference)).

Definition gen_find_neighbor_pairs_index (iterS : list str -> list str) (nb : str -> list str) (seqs : list str) : list (nat * nat) :=
  let reference := iterS seqs in
  fold_left (fun (pairs : list (nat * nat)) (ix_ : nat * str) =>
               pairs ++ map (fun y_ => (%(ip1)s, %(ip2)s))
                            (iterS (filter (fun c => memb str_eq_dec c reference) (iterS (nb (snd ix_))))))
            (enumerate seqs) [].
(* defaults of `neighborhood`: %(fdefault)s / %(idefault)s *)
Definition gen_find_pairs_default_is_hamming : bool := %(dh)s.
'''
SNAP = dict(level='iterS neighbors_dist', fuel='(maxdistance - 1)', first='nb x', default=2, fp1='x_', fp2='y_',
            removal='remove str_eq_dec x_ reference', ip1='fst ix_', ip2='index_of str_eq_dec y_ seqs', fdefault='hamming_neighbors',
            idefault='hamming_neighbors', dh='true')


def run(STATUS, write_if_changed, ROOT, REPO):
    head = ['(* GENERATED from pyrepseq/distance.py (_flatten_list, next_nearest_neighbors, find_neighbor_pairs, find_neighbor_pairs_index) by '
            'translate/regen_c12c.py on every check; do not edit. *)',
            'From Coq Require Import List Arith Bool.', 'From PV Require Import lib.Str lib.PyDict lib.NpUnique.', 'Import ListNotations.', '']
    try:
        tree = ast.parse(open(os.path.join(REPO, 'pyrepseq', 'distance.py')).read())
        fns = {n.name: n for n in tree.body if isinstance(n, ast.FunctionDef)}
        for need in ('_flatten_list', 'next_nearest_neighbors', 'find_neighbor_pairs', 'find_neighbor_pairs_index'):
            if need not in fns:
                raise Refuse('function %s not found' % need)
        tr_flatten(fns['_flatten_list'])
        n = tr_nnn(fns['next_nearest_neighbors'])
        p = tr_pairs(fns['find_neighbor_pairs'])
        q = tr_pairs_index(fns['find_neighbor_pairs_index'])
        vals = dict(level=n['level'], fuel=n['fuel'], first=n['first'], default=n['default'], fp1=p['p1'], fp2=p['p2'], removal=p['removal'],
                    ip1=q['p1'], ip2=q['p2'], fdefault=p['default'], idefault=q['default'],
                    dh='true' if p['default'] == q['default'] == 'hamming_neighbors' else 'false')
        txt = TEMPLATE % vals
        STATUS[NAME] = dict(ok=True, properties=PROPS, error=None)
    except Refuse as e:
        txt = '(* translator refused: %s -- committed snapshot of the last good text *)\n' % str(e).replace('*)', '* )') + TEMPLATE % SNAP
        STATUS[NAME] = dict(ok=True, snapshot=True, properties=PROPS,
                            error='regen unavailable (%s): committed snapshot used, tie by correspondence' % str(e)[:200])
    except Exception:
        txt = '(* translator crashed -- committed snapshot *)\n' + TEMPLATE % SNAP
        STATUS[NAME] = dict(ok=True, snapshot=True, properties=PROPS,
                            error='regen unavailable (translator error on text outside its subset: %s): committed snapshot used, tie by correspondence' % traceback.format_exc()[-200:].replace('\n', ' '))
    write_if_changed(os.path.join(ROOT, 'coq/gen/Gen_c12c.v'), '\n'.join(head) + txt)
