"""C02: regenerate coq/gen/Gen_c02.v from the SOURCE TEXT of pyrepseq/stats.py `pc` (the counting tails of the one-sample and of the
two-sample branch) by a fail-closed `ast` translator.  coq/proofs/GenPcP.v proves the generated functions equal to the counting
model (pc_num / pc_den, pc2_num / pc2_den of model/Pc.v) for every sample and for EVERY order in which the distinct values may be
listed (np.unique sorts them; the theorems do not depend on it).

Accepted shape of `pc(array, array2=None)` (names are free; docstring and the two `convert_tuple_to_dataframe_if_necessary` lines and the
nested `convert_to_array` helper are not translated - table rows -> row keys is the part of C02 tied by correspondence and by
C02_rows_coincide_iff_all_columns):
    A = convert_to_array(A)
    if A2 is None:
        N = A.shape[0]                                   | N = len(A)
        _, C = np.unique(A, return_counts=True)
        return <formula over np.sum(..C..), N>           translated by py2coq_arith (Q)
    A2 = convert_to_array(A2)
    V, C = np.unique(A, return_counts=True)
    V2, C2 = np.unique(A2, return_counts=True)
    W, I1, I2 = np.intersect1d(V, V2, assume_unique=True, return_indices=True)
    return np.sum(C[I1] * C2[I2]) / (len(A) * len(A2))   (factors in either order; A.shape[0] for len(A))
Anything else is refused; on refusal the committed snapshot is written and the refusal recorded (DESIGN.md 1.5)."""
import ast, os, sys, traceback
HERE = os.path.dirname(os.path.abspath(__file__))
sys.path.insert(0, HERE)
import py2coq_arith as A

NAME = 'stats.pc'
PROPS = ['C02']


class Refuse(Exception):
    pass


def is_name(e, n=None):
    return isinstance(e, ast.Name) and (n is None or e.id == n)


def unique_call(st):
    """X, C = np.unique(ARR, return_counts=True) -> (X, C, ARR)"""
    if not (isinstance(st, ast.Assign) and len(st.targets) == 1 and isinstance(st.targets[0], ast.Tuple) and len(st.targets[0].elts) == 2
            and all(isinstance(t, ast.Name) for t in st.targets[0].elts)):
        return None
    v = st.value
    if not (isinstance(v, ast.Call) and A._is_np(v.func, 'unique') and len(v.args) == 1 and is_name(v.args[0]) and len(v.keywords) == 1
            and v.keywords[0].arg == 'return_counts' and isinstance(v.keywords[0].value, ast.Constant) and v.keywords[0].value.value is True):
        return None
    a, b = st.targets[0].elts
    if a.id == b.id:
        return None
    return a.id, b.id, v.args[0].id


def length_of(e):
    """len(X) | X.shape[0] -> X"""
    if isinstance(e, ast.Call) and is_name(e.func, 'len') and len(e.args) == 1 and not e.keywords and is_name(e.args[0]):
        return e.args[0].id
    if (isinstance(e, ast.Subscript) and isinstance(e.value, ast.Attribute) and e.value.attr == 'shape' and is_name(e.value.value)
            and isinstance(e.slice, ast.Constant) and e.slice.value == 0):
        return e.value.value.id
    return None


def translate(fn):
    a = fn.args
    if len(a.args) != 2 or a.vararg or a.kwarg or a.kwonlyargs or fn.decorator_list or len(a.defaults) != 1 or \
            not (isinstance(a.defaults[0], ast.Constant) and a.defaults[0].value is None):
        raise Refuse('pc: unexpected signature')
    P, P2 = a.args[0].arg, a.args[1].arg
    body = [s for s in fn.body if not (isinstance(s, ast.Expr) and isinstance(s.value, ast.Constant))]
    # skip the preamble up to and including  P = convert_to_array(P)
    k = None
    for i, s in enumerate(body):
        if isinstance(s, ast.Assign) and ast.unparse(s) == '%s = convert_to_array(%s)' % (P, P):
            k = i
    if k is None:
        raise Refuse('pc: `%s = convert_to_array(%s)` not found' % (P, P))
    for s in body[:k]:
        ok = isinstance(s, ast.FunctionDef) and s.name == 'convert_to_array'
        ok = ok or (isinstance(s, ast.Assign) and ast.unparse(s) in ('%s = convert_tuple_to_dataframe_if_necessary(%s)' % (x, x) for x in (P, P2)))
        if not ok:
            raise Refuse('pc: unexpected statement before the counting part (line %d)' % s.lineno)
    rest = body[k + 1:]
    if len(rest) != 6:
        raise Refuse('pc: the counting part has %d statements, expected 6' % len(rest))
    g = rest[0]
    if not (isinstance(g, ast.If) and not g.orelse and ast.unparse(g.test) == '%s is None' % P2 and len(g.body) == 3):
        raise Refuse('pc: one-sample branch is not `if %s is None:` with three statements' % P2)
    s0, s1, s2 = g.body
    if not (isinstance(s0, ast.Assign) and len(s0.targets) == 1 and is_name(s0.targets[0]) and length_of(s0.value) == P):
        raise Refuse('pc: sample size is not len / shape[0] of the sample (line %d)' % s0.lineno)
    N = s0.targets[0].id
    u = unique_call(s1)
    if u is None or u[2] != P or u[1] in (N, P, P2) or u[0] in (N, u[1]):
        raise Refuse('pc: one-sample counts are not np.unique(%s, return_counts=True) (line %d)' % (P, s1.lineno))
    C = u[1]
    if not (isinstance(s2, ast.Return) and s2.value is not None):
        raise Refuse('pc: one-sample branch does not end in a return')
    f = ast.parse('def f(%s):\n    pass' % C).body[0]
    ex = A.ExprFn(f)
    ex.dens = []
    try:
        one = ex.scalar(s2.value, {N: 'v_N'}, 'Q')
    except A.TranslateError as e:
        raise Refuse('pc: one-sample formula: %s' % e)
    if any(isinstance(n, ast.Name) and n.id not in (C, N, 'np', 'numpy') for n in ast.walk(s2.value)):
        raise Refuse('pc: one-sample formula reads something else than the counts and the sample size')
    # two-sample branch
    t0, t1, t2, t3, t4 = rest[1:]
    if not (isinstance(t0, ast.Assign) and ast.unparse(t0) == '%s = convert_to_array(%s)' % (P2, P2)):
        raise Refuse('pc: `%s = convert_to_array(%s)` expected (line %d)' % (P2, P2, t0.lineno))
    u1, u2 = unique_call(t1), unique_call(t2)
    if u1 is None or u2 is None or u1[2] != P or u2[2] != P2 or len({u1[0], u1[1], u2[0], u2[1], P, P2}) != 6:
        raise Refuse('pc: two-sample counts are not np.unique of the two samples')
    V, C1 = u1[0], u1[1]
    V2, C2 = u2[0], u2[1]
    if not (isinstance(t3, ast.Assign) and len(t3.targets) == 1 and isinstance(t3.targets[0], ast.Tuple) and len(t3.targets[0].elts) == 3
            and all(isinstance(x, ast.Name) for x in t3.targets[0].elts)):
        raise Refuse('pc: intersect1d result is not unpacked into three names')
    W, I1, I2 = [x.id for x in t3.targets[0].elts]
    v = t3.value
    kws = {k.arg: k.value for k in getattr(v, 'keywords', [])}
    if not (isinstance(v, ast.Call) and A._is_np(v.func, 'intersect1d') and [ast.unparse(x) for x in v.args] == [V, V2]
            and set(kws) == {'assume_unique', 'return_indices'}
            and all(isinstance(x, ast.Constant) and x.value is True for x in kws.values())) or len({W, I1, I2, V, C1, V2, C2, P, P2}) != 9:
        raise Refuse('pc: common values are not np.intersect1d(%s, %s, assume_unique=True, return_indices=True)' % (V, V2))
    if not (isinstance(t4, ast.Return) and isinstance(t4.value, ast.BinOp) and isinstance(t4.value.op, ast.Div)):
        raise Refuse('pc: two-sample return is not a quotient')
    num, den = t4.value.left, t4.value.right
    okn = (isinstance(num, ast.Call) and A._is_np(num.func, 'sum') and len(num.args) == 1 and not num.keywords
           and isinstance(num.args[0], ast.BinOp) and isinstance(num.args[0].op, ast.Mult)
           and sorted([ast.unparse(num.args[0].left), ast.unparse(num.args[0].right)]) == sorted(['%s[%s]' % (C1, I1), '%s[%s]' % (C2, I2)]))
    okd = (isinstance(den, ast.BinOp) and isinstance(den.op, ast.Mult)
           and sorted([length_of(den.left) or '', length_of(den.right) or '']) == sorted([P, P2]))
    if not okn or not okd:
        raise Refuse('pc: two-sample quotient is not sum(c[i1] * c2[i2]) / (len(a) * len(a2)): %s' % ast.unparse(t4.value)[:120])
    return one


TEMPLATE = '''Section GenPc.
Context {X : Type} (eqd : forall a b : X, {a = b} + {a <> b}) (uniq : list X -> list X).
(* one sample: N = len(array); _, counts = np.unique(array, return_counts=True); return <formula> *)
Definition gen_pc_one_formula (v_N : Q) (counts : list Q) : Q := %s.
Definition gen_pc_one (array : list X) : Q :=
  let v_N := gq (length array) in
  let '(_, v_counts) := np_unique_counts eqd uniq array in
  gen_pc_one_formula v_N (map gq v_counts).
(* two samples: v, c = np.unique(array, ..); v2, c2 = np.unique(array2, ..); _, i1, i2 = np.intersect1d(v, v2, ..);
   return np.sum(c[i1] * c2[i2]) / (len(array) * len(array2)) *)
Definition gen_pc_two (array array2 : list X) : Q :=
  let '(v_v, v_c) := np_unique_counts eqd uniq array in
  let '(v_v2, v_c2) := np_unique_counts eqd uniq array2 in
  let '(_, v_i1, v_i2) := np_intersect1d eqd v_v v_v2 in
  sumQ (map2 Qmult (map gq (take_idx 0%%nat v_c v_i1)) (map gq (take_idx 0%%nat v_c2 v_i2))) / (gq (length array) * gq (length array2)).
End GenPc.
'''
SNAP_FORMULA = '((sumQf (fun x_ => (x_ * (x_ - ((1) # 1)))) counts) / (v_N * (v_N - ((1) # 1))))'


def run(STATUS, write_if_changed, ROOT, REPO):
    head = ['(* GENERATED from pyrepseq/stats.py (pc: counting tails of both branches) by translate/regen_c02.py on every check; do not edit. *)',
            'From Coq Require Import List QArith ZArith Bool Arith.', 'From PV Require Import lib.Val lib.NpUnique gen.Gen_stats.',
            'Import ListNotations.', 'Open Scope Q_scope.', '',
            'Definition gq (n : nat) : Q := inject_Z (Z.of_nat n).', '']
    try:
        tree = ast.parse(open(os.path.join(REPO, 'pyrepseq', 'stats.py')).read())
        fn = next((n for n in tree.body if isinstance(n, ast.FunctionDef) and n.name == 'pc'), None)
        if fn is None:
            raise Refuse('function pc not found')
        one = translate(fn)
        txt = TEMPLATE % one
        STATUS[NAME] = dict(ok=True, properties=PROPS, error=None)
    except Refuse as e:
        txt = '(* translator refused: %s -- committed snapshot of the last good text *)\n' % str(e).replace('*)', '* )') + TEMPLATE % SNAP_FORMULA
        STATUS[NAME] = dict(ok=True, snapshot=True, properties=PROPS,
                            error='regen unavailable (%s): committed snapshot used, tie by correspondence' % str(e)[:200])
    except Exception:
        txt = '(* translator crashed -- committed snapshot *)\n' + TEMPLATE % SNAP_FORMULA
        STATUS[NAME] = dict(ok=False, properties=PROPS, error='translator crashed: ' + traceback.format_exc()[-300:])
    write_if_changed(os.path.join(ROOT, 'coq/gen/Gen_c02.v'), '\n'.join(head) + txt)
