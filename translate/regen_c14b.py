"""C14: regenerate coq/gen/Gen_c14b.v from the SOURCE TEXT of pyrepseq/nn.py `_lookup` and of the glue of `nearest_neighbor_tcrdist`
(fail-closed).  Read from the source, piece by piece:

  _lookup(df, row_labels, col_labels)
      flat_index = ridx * len(df.columns) + cidx ; return values.flat[flat_index]     -> gen_flat_index ridx cidx ncols  (any + - * over the
                                                                                          three numbers)
  nearest_neighbor_tcrdist
      tcrdist_kwargs_this = dict(use_numba=.., fixed_gappos=.., ntrim=N, ctrim=C, dist_weight=W, gap_penalty=G)   (literals, products of
      tcrdist_kwargs_this.update(tcrdist_kwargs)                                       literals) -> gen_tcrdist_defaults; caller's entries win
      if edit_on_trimmed: ... .str[<start>:<stop>] ... nearest_neighbor(seqs, max_edits=max_edits, **kwargs)
            <start>, <stop> ::= ntrim | ctrim | -ctrim | None | <int> | (A if <name> else B)     -> gen_trim_slice ntrim ctrim s  (Python slice
                                                                                                    semantics: lib/PySlice.v)
      else: nearest_neighbor(list(df[..]), max_edits=max_edits, **kwargs)               -> gen_untrimmed_is_identity
      tcrdist = tcrdist_v + tcrdist_cdr3                                                -> gen_tcrdist_sum v c
      return neighbors_arr[neighbors_arr[:, 2] <cmp> max_tcrdist]                       -> gen_tcrdist_keep d maxt
      chain == 'both': candidates from 'beta', both tables added (`+=`)                  -> gen_both_search_chain, gen_both_adds

coq/proofs/GenTcrdistP.v proves: the generated slice is the model's `pyslice` for EVERY ntrim, ctrim (ctrim = 0 included - the defect D22 was
exactly a slice `s[ntrim:-ctrim]` here), the flat index addresses row `ridx`, column `cidx` of a table with `ncols` columns, the kept pairs
are those with distance <= max_tcrdist, and the defaults are TCRdist's (3, 2, 3, 12).  Anything else is refused; on refusal the committed
snapshot is written and the refusal recorded (DESIGN.md 1.5)."""
import ast, os, traceback

NAME = 'nn.nearest_neighbor_tcrdist[glue]'
PROPS = ['C14']
U = ast.unparse


class Refuse(Exception):
    pass


def lit(e):
    """int literal or product of int literals"""
    if isinstance(e, ast.Constant) and type(e.value) is int and 0 <= e.value < 10000:
        return e.value
    if isinstance(e, ast.BinOp) and isinstance(e.op, ast.Mult):
        return lit(e.left) * lit(e.right)
    raise Refuse('not an integer literal: %s' % U(e)[:40])


def arith(e, names):
    if isinstance(e, ast.Name) and e.id in names:
        return names[e.id]
    if U(e) in names:
        return names[U(e)]
    if isinstance(e, ast.Constant) and type(e.value) is int and 0 <= e.value < 10000:
        return '%d' % e.value
    if isinstance(e, ast.BinOp) and isinstance(e.op, (ast.Add, ast.Sub, ast.Mult)):
        return '(%s %s %s)' % (arith(e.left, names), {ast.Add: '+', ast.Sub: '-', ast.Mult: '*'}[type(e.op)], arith(e.right, names))
    raise Refuse('arithmetic not understood: %s' % U(e)[:60])


def tr_lookup(fn):
    if [a.arg for a in fn.args.args] != ['df', 'row_labels', 'col_labels']:
        raise Refuse('_lookup: unexpected signature')
    b = [s for s in fn.body if not (isinstance(s, ast.Expr) and isinstance(s.value, ast.Constant))]
    src = {U(s.targets[0]): s.value for s in b if isinstance(s, ast.Assign) and len(s.targets) == 1}
    if len(b) != 5 or not isinstance(b[-1], ast.Return):
        raise Refuse('_lookup: expected four assignments and a return')
    if any(k not in src for k in ('values', 'ridx', 'cidx')):
        raise Refuse('_lookup: values / ridx / cidx are not all assigned')
    if U(src['values']) != 'df.values' or U(src['ridx']) != 'df.index.get_indexer(row_labels)' \
            or U(src['cidx']) != 'df.columns.get_indexer(col_labels)':
        raise Refuse('_lookup: values / ridx / cidx are not the table values and the positions of the labels')
    if U(b[-1]) != 'return values.flat[flat_index]' or 'flat_index' not in src:
        raise Refuse('_lookup: does not return values.flat[flat_index]')
    return arith(src['flat_index'], {'ridx': 'ridx', 'cidx': 'cidx', 'len(df.columns)': 'ncols', 'df.shape[1]': 'ncols'})


def slice_part(e, none_default):
    """one bound of the slice -> Gallina term of type option Z over ntrim ctrim : nat"""
    if e is None or (isinstance(e, ast.Constant) and e.value is None):
        return 'None'
    if isinstance(e, ast.Name) and e.id in ('ntrim', 'ctrim'):
        return '(Some (Z.of_nat %s))' % e.id
    if isinstance(e, ast.UnaryOp) and isinstance(e.op, ast.USub) and isinstance(e.operand, ast.Name) and e.operand.id in ('ntrim', 'ctrim'):
        return '(Some (- Z.of_nat %s)%%Z)' % e.operand.id
    if isinstance(e, ast.Constant) and type(e.value) is int and abs(e.value) < 10000:
        return '(Some (%d)%%Z)' % e.value
    if isinstance(e, ast.IfExp):
        t = e.test
        if isinstance(t, ast.Name) and t.id in ('ntrim', 'ctrim'):
            c = '(negb (Nat.eqb %s 0))' % t.id
        elif isinstance(t, ast.Compare) and len(t.ops) == 1 and isinstance(t.left, ast.Name) and t.left.id in ('ntrim', 'ctrim') \
                and isinstance(t.comparators[0], ast.Constant) and type(t.comparators[0].value) is int and 0 <= t.comparators[0].value < 100:
            k, n = t.comparators[0].value, t.left.id
            c = {ast.Gt: '(Nat.ltb %d %s)' % (k, n), ast.GtE: '(Nat.leb %d %s)' % (k, n), ast.Eq: '(Nat.eqb %s %d)' % (n, k),
                 ast.NotEq: '(negb (Nat.eqb %s %d))' % (n, k)}.get(type(t.ops[0]))
            if c is None:
                raise Refuse('slice condition not understood: %s' % U(t))
        else:
            raise Refuse('slice condition not understood: %s' % U(t)[:60])
        return '(if %s then %s else %s)' % (c, slice_part(e.body, none_default), slice_part(e.orelse, none_default))
    raise Refuse('slice bound not understood: %s' % U(e)[:60])


def find_slice(node):
    """the .str[a:b] subscript inside the trimmed branch"""
    found = [n for n in ast.walk(node) if isinstance(n, ast.Subscript) and isinstance(n.value, ast.Attribute) and n.value.attr == 'str'
             and isinstance(n.slice, ast.Slice)]
    if len(found) != 1:
        raise Refuse('trimmed branch: expected exactly one .str[a:b] slice, found %d' % len(found))
    sl = found[0].slice
    if sl.step is not None:
        raise Refuse('trimmed branch: slice with a step')
    return slice_part(sl.lower, 'None'), slice_part(sl.upper, 'None')


def tr_tcrdist(fn):
    names = [a.arg for a in fn.args.args]
    if names[:6] != ['df', 'chain', 'max_edits', 'edit_on_trimmed', 'max_tcrdist', 'tcrdist_kwargs'] or fn.args.kwarg is None:
        raise Refuse('nearest_neighbor_tcrdist: unexpected signature %s' % names)
    dflt = dict(zip(names[len(names) - len(fn.args.defaults):], [U(d) for d in fn.args.defaults]))
    out = dict(d_chain=dflt.get('chain'), d_edits=dflt.get('max_edits'), d_trimmed=dflt.get('edit_on_trimmed'), d_maxt=dflt.get('max_tcrdist'))
    if out['d_chain'] != "'beta'" or out['d_trimmed'] not in ('True', 'False'):
        raise Refuse('nearest_neighbor_tcrdist: defaults of chain / edit_on_trimmed not understood')
    try:
        out['d_edits'], out['d_maxt'] = int(out['d_edits']), int(out['d_maxt'])
    except (TypeError, ValueError):
        raise Refuse('nearest_neighbor_tcrdist: defaults of max_edits / max_tcrdist are not integer literals')
    body = [s for s in fn.body if not (isinstance(s, ast.Expr) and isinstance(s.value, ast.Constant))]
    # chain == 'both'
    first = body[0]
    if not (isinstance(first, ast.If) and U(first.test) == "chain == 'both'" and sorted(U(s) for s in first.body) == ["both = True", "chain = 'beta'"]
            and [U(s) for s in first.orelse] == ['both = False']):
        raise Refuse("nearest_neighbor_tcrdist: the chain == 'both' preamble changed")
    # defaults dict + update
    dd = [s for s in body if isinstance(s, ast.Assign) and U(s.targets[0]) == 'tcrdist_kwargs_this']
    if len(dd) != 1 or not (isinstance(dd[0].value, ast.Call) and U(dd[0].value.func) == 'dict' and not dd[0].value.args):
        raise Refuse('nearest_neighbor_tcrdist: tcrdist_kwargs_this is not built by dict(..)')
    kws = {k.arg: k.value for k in dd[0].value.keywords}
    if set(kws) != {'use_numba', 'fixed_gappos', 'ntrim', 'ctrim', 'dist_weight', 'gap_penalty'}:
        raise Refuse('nearest_neighbor_tcrdist: default TCRdist parameters changed: %s' % sorted(kws))
    for k in ('ntrim', 'ctrim', 'dist_weight', 'gap_penalty'):
        out[k] = lit(kws[k])
    i = body.index(dd[0])
    if U(body[i + 1]) != 'tcrdist_kwargs_this.update(tcrdist_kwargs)':
        raise Refuse("nearest_neighbor_tcrdist: the caller's tcrdist_kwargs are not merged over the defaults by update()")
    # trimmed / untrimmed search
    br = body[i + 2]
    if not (isinstance(br, ast.If) and U(br.test) == 'edit_on_trimmed' and len(br.orelse) == 1):
        raise Refuse('nearest_neighbor_tcrdist: no `if edit_on_trimmed: .. else: ..` after the parameters')
    tb = [U(s) for s in br.body]
    if tb[:2] != ["ntrim = tcrdist_kwargs_this['ntrim']", "ctrim = tcrdist_kwargs_this['ctrim']"] or len(br.body) != 4:
        raise Refuse('nearest_neighbor_tcrdist: trimmed branch does not read ntrim / ctrim from the merged parameters')
    if not tb[2].startswith("seqs = list(df[f'CDR3{chain_letter}'].str[") or tb[3] != 'neighbors = nearest_neighbor(seqs, max_edits=max_edits, **kwargs)':
        raise Refuse('nearest_neighbor_tcrdist: trimmed branch is not a slice of the CDR3 column handed to nearest_neighbor')
    out['lo'], out['hi'] = find_slice(br.body[2])
    if U(br.orelse[0]) != "neighbors = nearest_neighbor(list(df[f'CDR3{chain_letter}']), max_edits=max_edits, **kwargs)":
        raise Refuse('nearest_neighbor_tcrdist: untrimmed branch changed')
    # sum and filter
    sm = [s for s in body if isinstance(s, ast.Assign) and U(s.targets[0]) == 'tcrdist']
    if len(sm) != 1:
        raise Refuse('nearest_neighbor_tcrdist: tcrdist is not assigned exactly once')
    out['sum'] = arith(sm[0].value, {'tcrdist_v': 'v_', 'tcrdist_cdr3': 'c_'}).replace('+', '+').replace('(', '(', 1)
    j = body.index(sm[0])
    if U(body[j + 1]) != 'neighbors_arr[:, 2] = tcrdist':
        raise Refuse('nearest_neighbor_tcrdist: the distance column is not overwritten by tcrdist')
    ret = body[-1]
    if not (isinstance(ret, ast.Return) and isinstance(ret.value, ast.Subscript) and U(ret.value.value) == 'neighbors_arr'
            and isinstance(ret.value.slice, ast.Compare) and len(ret.value.slice.ops) == 1 and U(ret.value.slice.left) == 'neighbors_arr[:, 2]'
            and U(ret.value.slice.comparators[0]) == 'max_tcrdist'):
        raise Refuse('nearest_neighbor_tcrdist: the result is not the rows filtered on the distance column: %s' % U(ret)[:80])
    op = type(ret.value.slice.ops[0])
    out['keep'] = {ast.LtE: 'Z.leb d_ maxt_', ast.Lt: 'Z.ltb d_ maxt_', ast.GtE: 'Z.leb maxt_ d_', ast.Gt: 'Z.ltb maxt_ d_'}.get(op)
    if out['keep'] is None:
        raise Refuse('nearest_neighbor_tcrdist: comparison with max_tcrdist not understood')
    # both: second chain added
    bo = [s for s in body if isinstance(s, ast.If) and U(s.test) == 'both']
    if len(bo) != 1:
        raise Refuse('nearest_neighbor_tcrdist: no `if both:` block')
    aug = [s for s in bo[0].body if isinstance(s, ast.AugAssign)]
    out['both_adds'] = 'true' if (sorted(U(a.target) for a in aug) == ['tcrdist_cdr3', 'tcrdist_v'] and all(isinstance(a.op, ast.Add) for a in aug)
                                  and "chain = 'alpha'" in [U(s) for s in bo[0].body]) else 'false'
    return out


TEMPLATE = '''(* values.flat[..] of a table with ncols columns *)
Definition gen_flat_index (ridx cidx ncols : nat) : nat := %(flat)s.

(* dict(ntrim=.., ctrim=.., dist_weight=.., gap_penalty=..) before the caller's tcrdist_kwargs are merged in *)
Definition gen_tcrdist_defaults : nat * nat * nat * nat := (%(ntrim)d, %(ctrim)d, %(dist_weight)d, %(gap_penalty)d).
Definition gen_tcrdist_call_defaults : nat * nat * bool := (%(d_edits)d, %(d_maxt)d, %(d_trimmed)s).   (* max_edits, max_tcrdist, edit_on_trimmed *)

(* the CDR3 the candidate search runs on when edit_on_trimmed *)
Definition gen_trim_slice (ntrim ctrim : nat) (s : str) : str := py_slice s %(lo)s %(hi)s.

Definition gen_tcrdist_sum (v_ c_ : Z) : Z := %(sum)s%%Z.
Definition gen_tcrdist_keep (d_ maxt_ : Z) : bool := %(keep)s.
(* chain='both': candidates from the beta chain, the alpha table and alpha CDR3 distance ADDED *)
Definition gen_both_adds : bool := %(both_adds)s.
'''
SNAP = dict(flat='((ridx * ncols) + cidx)', ntrim=3, ctrim=2, dist_weight=3, gap_penalty=12, d_edits=2, d_maxt=20, d_trimmed='true',
            lo='(Some (Z.of_nat ntrim))', hi='(if (negb (Nat.eqb ctrim 0)) then (Some (- Z.of_nat ctrim)%Z) else None)', sum='(v_ + c_)',
            keep='Z.leb d_ maxt_', both_adds='true')


def run(STATUS, write_if_changed, ROOT, REPO):
    head = ['(* GENERATED from pyrepseq/nn.py (_lookup, glue of nearest_neighbor_tcrdist) by translate/regen_c14b.py on every check; do not edit. *)',
            'From Coq Require Import List ZArith Bool Arith NArith.', 'From PV Require Import lib.Str lib.PySlice.', 'Import ListNotations.', '']
    try:
        tree = ast.parse(open(os.path.join(REPO, 'pyrepseq', 'nn.py')).read())
        fns = {n.name: n for n in tree.body if isinstance(n, ast.FunctionDef)}
        for need in ('_lookup', 'nearest_neighbor_tcrdist'):
            if need not in fns:
                raise Refuse('function %s not found' % need)
        vals = tr_tcrdist(fns['nearest_neighbor_tcrdist'])
        vals['flat'] = tr_lookup(fns['_lookup'])
        vals['d_trimmed'] = vals['d_trimmed'].lower()
        txt = TEMPLATE % vals
        STATUS[NAME] = dict(ok=True, properties=PROPS, error=None)
    except Refuse as e:
        txt = '(* translator refused: %s -- committed snapshot of the last good text *)\n' % str(e).replace('*)', '* )') + TEMPLATE % SNAP
        STATUS[NAME] = dict(ok=True, snapshot=True, properties=PROPS,
                            error='regen unavailable (%s): committed snapshot used, tie by correspondence' % str(e)[:200])
    except Exception:
        txt = '(* translator crashed -- committed snapshot *)\n' + TEMPLATE % SNAP
        STATUS[NAME] = dict(ok=True, snapshot=True, properties=PROPS,
                            error='regen unavailable (translator error on text outside its subset: %s): committed snapshot used, tie by correspondence' % traceback.format_exc()[-200:].replace('\n', ' '))
    write_if_changed(os.path.join(ROOT, 'coq/gen/Gen_c14b.v'), '\n'.join(head) + txt)
