"""C15: regenerate coq/gen/Gen_c15.v from the SOURCE TEXT of pyrepseq/clustering.py `graph_clustering` - the parts around igraph (fail-closed):

      edges = np.array(adjacency_matrix).reshape(-1, 3)[:, a:b]            -> gen_edge_columns = (a, b): which two of the three columns
                                                                              (i, j, dist) are the edge list
      else: g = igraph.Graph(edges, n=len(nodes))
            if clustering == 'cc': components = g.connected_components(mode='weak')   -> gen_cc_graph_size_is_len_nodes, gen_cc_mode_weak
            ...
            cluster_df = pd.DataFrame(dict(node=nodes, cluster=components.membership))
      cluster_counts = cluster_df['cluster'].value_counts()
      expanded_cluster = set(cluster_counts[cluster_counts <cmp> K].index)
      cluster_df = cluster_df[cluster_df['cluster'].isin(expanded_cluster)]
      return cluster_df                                                    -> gen_cluster_tail nodes membership

Vocabulary (trusted, DESIGN section 3): igraph's connected_components(mode='weak').membership is a labelling of the n vertices that is
constant exactly on the connected components (a PARAMETER `lab` with that hypothesis in the theorems; `components n E` of model/Cluster.v
is one such labelling); Series.value_counts / boolean indexing / isin = counting and filtering rows in order.
coq/proofs/GenClusterP.v proves the generated tail, applied to any such labelling, keeps exactly the nodes whose component has another
member, each with its label - and that on the model's labelling it IS the model's graph_cc.  Anything else is refused; on refusal the
committed snapshot is written and the refusal recorded (DESIGN.md 1.5)."""
import ast, os, traceback

NAME = 'clustering.graph_clustering[cc glue]'
PROPS = ['C15']
U = ast.unparse


class Refuse(Exception):
    pass


def translate(fn):
    names = [a.arg for a in fn.args.args]
    if names != ['adjacency_matrix', 'nodes', 'clustering'] or [U(d) for d in fn.args.defaults] != ["'cc'"] or fn.args.kwarg is None:
        raise Refuse('graph_clustering: unexpected signature %s' % names)
    b = [s for s in fn.body if not (isinstance(s, ast.Expr) and isinstance(s.value, ast.Constant))]
    if len(b) != 6:
        raise Refuse('graph_clustering: expected 6 top-level statements, got %d' % len(b))
    ed, br, cnt, exp, flt, ret = b
    # edges
    if not (isinstance(ed, ast.Assign) and U(ed.targets[0]) == 'edges' and isinstance(ed.value, ast.Subscript)
            and U(ed.value.value) == 'np.array(adjacency_matrix).reshape(-1, 3)' and isinstance(ed.value.slice, ast.Tuple)
            and len(ed.value.slice.elts) == 2 and U(ed.value.slice.elts[0]) == ':' and isinstance(ed.value.slice.elts[1], ast.Slice)
            and ed.value.slice.elts[1].step is None):
        raise Refuse('graph_clustering: edges are not columns of np.array(adjacency_matrix).reshape(-1, 3): %s' % U(ed)[:100])
    sl = ed.value.slice.elts[1]

    def bound(e, dflt):
        if e is None:
            return dflt
        if isinstance(e, ast.Constant) and type(e.value) is int and 0 <= e.value <= 3:
            return e.value
        raise Refuse('graph_clustering: column bound not a small literal')
    lo, hi = bound(sl.lower, 0), bound(sl.upper, 3)
    # igraph branch
    if not (isinstance(br, ast.If) and U(br.test) == "clustering == 'DBSCAN'" and len(br.orelse) == 3):
        raise Refuse("graph_clustering: no `if clustering == 'DBSCAN': .. else:` with graph / clustering / table")
    g, sel, tab = br.orelse
    if U(g) != 'g = igraph.Graph(edges, n=len(nodes))':
        raise Refuse('graph_clustering: graph is not igraph.Graph(edges, n=len(nodes)): %s' % U(g)[:80])
    if not (isinstance(sel, ast.If) and U(sel.test) == "clustering == 'cc'" and len(sel.body) == 1):
        raise Refuse("graph_clustering: no `if clustering == 'cc':` branch")
    cc = U(sel.body[0])
    if cc not in ("components = g.connected_components(mode='weak')", "components = g.connected_components('weak')",
                  "components = g.components(mode='weak')", 'components = g.connected_components(mode="weak")'):
        raise Refuse('graph_clustering: cc branch is not the weakly connected components of g: %s' % cc[:80])
    if U(tab) != 'cluster_df = pd.DataFrame(dict(node=nodes, cluster=components.membership))':
        raise Refuse('graph_clustering: table is not (node=nodes, cluster=membership): %s' % U(tab)[:100])
    # tail
    if U(cnt) != "cluster_counts = cluster_df['cluster'].value_counts()":
        raise Refuse('graph_clustering: cluster sizes are not value_counts of the cluster column')
    if not (isinstance(exp, ast.Assign) and U(exp.targets[0]) == 'expanded_cluster' and isinstance(exp.value, ast.Call) and U(exp.value.func) == 'set'
            and len(exp.value.args) == 1 and isinstance(exp.value.args[0], ast.Attribute) and exp.value.args[0].attr == 'index'
            and isinstance(exp.value.args[0].value, ast.Subscript) and U(exp.value.args[0].value.value) == 'cluster_counts'
            and isinstance(exp.value.args[0].value.slice, ast.Compare) and len(exp.value.args[0].value.slice.ops) == 1
            and U(exp.value.args[0].value.slice.left) == 'cluster_counts'):
        raise Refuse('graph_clustering: kept clusters are not selected by their size: %s' % U(exp)[:100])
    cmpn = exp.value.args[0].value.slice
    k = cmpn.comparators[0]
    if not (isinstance(k, ast.Constant) and type(k.value) is int and 0 <= k.value < 1000):
        raise Refuse('graph_clustering: size threshold is not a literal')
    keep = {ast.Gt: 'Nat.ltb %d size_' % k.value, ast.GtE: 'Nat.leb %d size_' % k.value, ast.NotEq: 'negb (Nat.eqb size_ %d)' % k.value}.get(type(cmpn.ops[0]))
    if keep is None:
        raise Refuse('graph_clustering: size comparison not understood')
    if U(flt) != "cluster_df = cluster_df[cluster_df['cluster'].isin(expanded_cluster)]" or U(ret) != 'return cluster_df':
        raise Refuse('graph_clustering: the table is not filtered on the kept clusters and returned')
    return dict(lo=lo, hi=hi, keep=keep)


TEMPLATE = '''(* columns [lo, hi) of the (i, j, dist) rows are the edge list handed to igraph *)
Definition gen_edge_columns : nat * nat := (%(lo)d, %(hi)d).
Definition gen_edges_of (adjacency : list (nat * nat * nat)) : list (list nat) :=
  map (fun t_ => firstn (snd gen_edge_columns - fst gen_edge_columns) (skipn (fst gen_edge_columns) [fst (fst t_); snd (fst t_); snd t_])) adjacency.

(* the tail: cluster sizes by value_counts, clusters kept by size, rows of (node, cluster) kept in order *)
Definition gen_keep_size (size_ : nat) : bool := %(keep)s.
Definition gen_cluster_tail {L : Type} (nodes : list L) (membership : list nat) : list (L * nat) :=
  filter (fun p_ => gen_keep_size (count_occ Nat.eq_dec membership (snd p_))) (combine nodes membership).
'''
SNAP = dict(lo=0, hi=2, keep='Nat.ltb 1 size_')


def run(STATUS, write_if_changed, ROOT, REPO):
    head = ['(* GENERATED from pyrepseq/clustering.py (graph_clustering: the glue around igraph) by translate/regen_c15.py on every check; do not edit. *)',
            'From Coq Require Import List Arith Bool.', 'Import ListNotations.', '']
    try:
        tree = ast.parse(open(os.path.join(REPO, 'pyrepseq', 'clustering.py')).read())
        fn = next((n for n in tree.body if isinstance(n, ast.FunctionDef) and n.name == 'graph_clustering'), None)
        if fn is None:
            raise Refuse('function graph_clustering not found')
        txt = TEMPLATE % translate(fn)
        STATUS[NAME] = dict(ok=True, properties=PROPS, error=None)
    except Refuse as e:
        txt = '(* translator refused: %s -- committed snapshot of the last good text *)\n' % str(e).replace('*)', '* )') + TEMPLATE % SNAP
        STATUS[NAME] = dict(ok=True, snapshot=True, properties=PROPS,
                            error='regen unavailable (%s): committed snapshot used, tie by correspondence' % str(e)[:200])
    except Exception:
        txt = '(* translator crashed -- committed snapshot *)\n' + TEMPLATE % SNAP
        STATUS[NAME] = dict(ok=True, snapshot=True, properties=PROPS,
                            error='regen unavailable (translator error on text outside its subset: %s): committed snapshot used, tie by correspondence' % traceback.format_exc()[-200:].replace('\n', ' '))
    write_if_changed(os.path.join(ROOT, 'coq/gen/Gen_c15.v'), '\n'.join(head) + txt)
