"""C12: regenerate coq/gen/Gen_c12b.v from the SOURCE TEXT of pyrepseq/distance.py `isdist1`, `calculate_neighbor_numbers` and the
if-cascade of `nndist_hamming` (fail-closed `ast` translator; the one-edit generators and the `_isdist2/3_hamming` loops are
translated by regen_c12.py).  coq/proofs/GenNndistP.v proves the generated functions equal to the models (model/Nbrs.v, model/Nndist.v).

  isdist1(x, reference, neighborhood=levenshtein_neighbors)
      for N in neighborhood(x):  if N in reference: return True       -> existsb (fun N => N in reference) (neighborhood x)
      return False
  calculate_neighbor_numbers(seqs, reference=None, neighborhood=levenshtein_neighbors)
      if reference is None: reference = set(seqs)
      return np.array([len(set(neighborhood(S)) & reference) for S in seqs])      (operands of & in either order)
  nndist_hamming(seq, reference, maxdist=4)
      if maxdist > 4: raise NotImplementedError                                    -> None
      if seq in reference: return 0
      if (maxdist == K) or F(seq, reference[, neighborhood=hamming_neighbors]): return K      (K = 1, 2, 3; F = isdist1, _isdist2_hamming,
      return 4                                                                                 _isdist3_hamming; operands in either order)
  The defaults of `neighborhood` (levenshtein_neighbors twice) and of maxdist (4) are emitted as gen_*_default constants.
Anything else is refused; on refusal the committed snapshot is written and the refusal recorded (DESIGN.md 1.5)."""
import ast, os, traceback

NAME = 'distance.nndist_hamming'
PROPS = ['C12']
U = ast.unparse


class Refuse(Exception):
    pass


def body_of(fn):
    b = list(fn.body)
    if b and isinstance(b[0], ast.Expr) and isinstance(b[0].value, ast.Constant) and isinstance(b[0].value.value, str):
        b = b[1:]
    return b


def defaults(fn):
    names = [a.arg for a in fn.args.args]
    return names, dict(zip(names[len(names) - len(fn.args.defaults):], [U(d) for d in fn.args.defaults]))


def tr_isdist1(fn):
    names, d = defaults(fn)
    if names != ['x', 'reference', 'neighborhood'] or set(d) != {'neighborhood'}:
        raise Refuse('isdist1: unexpected signature')
    b = body_of(fn)
    if len(b) != 2 or U(b[1]) != 'return False':
        raise Refuse('isdist1: body is not a search loop followed by `return False`')
    lo = b[0]
    if not (isinstance(lo, ast.For) and not lo.orelse and isinstance(lo.target, ast.Name) and U(lo.iter) == 'neighborhood(x)' and len(lo.body) == 1):
        raise Refuse('isdist1: loop is not `for n in neighborhood(x)`')
    n = lo.target.id
    if U(lo.body[0]) != 'if %s in reference:\n    return True' % n:
        raise Refuse('isdist1: loop body is not `if n in reference: return True`')
    return d['neighborhood']


def tr_numbers(fn):
    names, d = defaults(fn)
    if names != ['seqs', 'reference', 'neighborhood'] or d.get('reference') != 'None' or 'neighborhood' not in d:
        raise Refuse('calculate_neighbor_numbers: unexpected signature')
    b = body_of(fn)
    if len(b) != 2 or U(b[0]) != 'if reference is None:\n    reference = set(seqs)':
        raise Refuse('calculate_neighbor_numbers: default reference is not set(seqs)')
    r = b[1]
    ok = False
    if isinstance(r, ast.Return) and isinstance(r.value, ast.Call) and U(r.value.func) in ('np.array', 'np.asarray') and len(r.value.args) == 1 \
            and isinstance(r.value.args[0], ast.ListComp) and len(r.value.args[0].generators) == 1:
        lc = r.value.args[0]
        g = lc.generators[0]
        if isinstance(g.target, ast.Name) and U(g.iter) == 'seqs' and not g.ifs:
            s = g.target.id
            ok = U(lc.elt) in ('len(set(neighborhood(%s)) & reference)' % s, 'len(reference & set(neighborhood(%s)))' % s,
                               'len(set(neighborhood(%s)).intersection(reference))' % s)
    if not ok:
        raise Refuse('calculate_neighbor_numbers: result is not [len(set(neighborhood(s)) & reference) for s in seqs]: %s' % U(r)[:120])
    return d['neighborhood']


def tr_nndist(fn):
    names, d = defaults(fn)
    if names != ['seq', 'reference', 'maxdist'] or set(d) != {'maxdist'}:
        raise Refuse('nndist_hamming: unexpected signature')
    try:
        dflt = int(d['maxdist'])
    except ValueError:
        raise Refuse('nndist_hamming: default maxdist is not an integer literal')
    b = body_of(fn)
    if len(b) < 3:
        raise Refuse('nndist_hamming: too short')
    g = b[0]
    if not (isinstance(g, ast.If) and not g.orelse and len(g.body) == 1 and isinstance(g.body[0], ast.Raise)
            and isinstance(g.test, ast.Compare) and U(g.test.left) == 'maxdist' and len(g.test.ops) == 1 and isinstance(g.test.ops[0], ast.Gt)
            and isinstance(g.test.comparators[0], ast.Constant) and type(g.test.comparators[0].value) is int):
        raise Refuse('nndist_hamming: does not start with `if maxdist > N: raise ...`')
    cap = g.test.comparators[0].value
    if U(b[1]) != 'if seq in reference:\n    return 0':
        raise Refuse('nndist_hamming: `if seq in reference: return 0` expected')
    last = b[-1]
    if not (isinstance(last, ast.Return) and isinstance(last.value, ast.Constant) and type(last.value.value) is int):
        raise Refuse('nndist_hamming: does not end in `return <int>`')
    steps = []
    calls = {'isdist1(seq, reference, neighborhood=hamming_neighbors)': '(gen_isdist1 hamming_neighbors seq reference)',
             '_isdist2_hamming(seq, reference)': '(isdist2 seq reference)', '_isdist3_hamming(seq, reference)': '(isdist3 seq reference)'}
    for st in b[2:-1]:
        if not (isinstance(st, ast.If) and not st.orelse and len(st.body) == 1 and isinstance(st.body[0], ast.Return)
                and isinstance(st.body[0].value, ast.Constant) and type(st.body[0].value.value) is int
                and isinstance(st.test, ast.BoolOp) and isinstance(st.test.op, ast.Or) and len(st.test.values) == 2):
            raise Refuse('nndist_hamming: step is not `if (maxdist == K) or F(seq, reference): return K` (line %d)' % st.lineno)
        parts = []
        for v in st.test.values:
            if isinstance(v, ast.Compare) and U(v.left) == 'maxdist' and len(v.ops) == 1 and isinstance(v.ops[0], ast.Eq) \
                    and isinstance(v.comparators[0], ast.Constant) and type(v.comparators[0].value) is int:
                parts.append('(Nat.eqb maxdist %d)' % v.comparators[0].value)
            elif U(v) in calls:
                parts.append(calls[U(v)])
            else:
                raise Refuse('nndist_hamming: test outside the subset (line %d): %s' % (st.lineno, U(v)[:100]))
        if len([x for x in parts if x.startswith('(Nat.eqb')]) != 1:
            raise Refuse('nndist_hamming: step is not one `maxdist == K` test and one search (line %d)' % st.lineno)
        parts.sort(key=lambda x: not x.startswith('(Nat.eqb'))      # `or` of two total pure tests: emitted with the maxdist test first
        steps.append(('(%s || %s)' % tuple(parts), st.body[0].value.value))
    return dflt, cap, steps, last.value.value


def emit(d1, d2, nn):
    dflt, cap, steps, final = nn
    nbname = {'levenshtein_neighbors': 0, 'hamming_neighbors': 1}
    if d1 not in nbname or d2 not in nbname:
        raise Refuse('default neighborhood is neither levenshtein_neighbors nor hamming_neighbors')
    casc = ''.join('  else if %s then Some %d\n' % (c, k) for c, k in steps)
    return '''(* default `neighborhood` arguments: 0 = levenshtein_neighbors, 1 = hamming_neighbors *)
Definition gen_isdist1_default_neighborhood : nat := %d.
Definition gen_neighbor_numbers_default_neighborhood : nat := %d.
Definition gen_nndist_default_maxdist : nat := %d.

Definition gen_isdist1 (neighborhood : str -> list str) (x : str) (reference : list str) : bool :=
  existsb (fun neighbor => memb str_eq_dec neighbor reference) (neighborhood x).

(* reference=None stands for set(seqs); a Python set is a duplicate-free list, `&` keeps the members of the left operand found in the right *)
Definition gen_calculate_neighbor_numbers (neighborhood : str -> list str) (seqs : list str) (reference : option (list str)) : list nat :=
  let reference := match reference with None => nodup str_eq_dec seqs | Some r => r end in
  map (fun seq => length (filter (fun y => memb str_eq_dec y reference) (nodup str_eq_dec (neighborhood seq)))) seqs.

(* None = NotImplementedError *)
Definition gen_nndist_hamming (hamming_neighbors : str -> list str) (isdist2 isdist3 : str -> list str -> bool)
    (seq : str) (reference : list str) (maxdist : nat) : option nat :=
  if Nat.ltb %d maxdist then None
  else if memb str_eq_dec seq reference then Some 0
%s  else Some %d.
''' % (nbname[d1], nbname[d2], dflt, cap, casc, final)


SNAP = ('levenshtein_neighbors', 'levenshtein_neighbors',
        (4, 4, [('((Nat.eqb maxdist 1) || (gen_isdist1 hamming_neighbors seq reference))', 1),
                ('((Nat.eqb maxdist 2) || (isdist2 seq reference))', 2), ('((Nat.eqb maxdist 3) || (isdist3 seq reference))', 3)], 4))


def run(STATUS, write_if_changed, ROOT, REPO):
    head = ['(* GENERATED from pyrepseq/distance.py (isdist1, calculate_neighbor_numbers, nndist_hamming) by translate/regen_c12b.py on every check; do not edit. *)',
            'From Coq Require Import List Arith Bool.', 'From PV Require Import lib.Str.', 'Import ListNotations.', '']
    try:
        tree = ast.parse(open(os.path.join(REPO, 'pyrepseq', 'distance.py')).read())
        fns = {n.name: n for n in tree.body if isinstance(n, ast.FunctionDef)}
        for n in ('isdist1', 'calculate_neighbor_numbers', 'nndist_hamming'):
            if n not in fns:
                raise Refuse('function %s not found' % n)
        txt = emit(tr_isdist1(fns['isdist1']), tr_numbers(fns['calculate_neighbor_numbers']), tr_nndist(fns['nndist_hamming']))
        STATUS[NAME] = dict(ok=True, properties=PROPS, error=None)
    except Refuse as e:
        txt = '(* translator refused: %s -- committed snapshot of the last good text *)\n' % str(e).replace('*)', '* )') + emit(*SNAP)
        STATUS[NAME] = dict(ok=True, snapshot=True, properties=PROPS,
                            error='regen unavailable (%s): committed snapshot used, tie by correspondence' % str(e)[:200])
    except Exception:
        txt = '(* translator crashed -- committed snapshot *)\n' + emit(*SNAP)
        STATUS[NAME] = dict(ok=False, properties=PROPS, error='translator crashed: ' + traceback.format_exc()[-300:])
    write_if_changed(os.path.join(ROOT, 'coq/gen/Gen_c12b.v'), '\n'.join(head) + txt)
