"""C04 (also C03, C07, C14): regenerate coq/gen/Gen_c04b.v from the SOURCE TEXT of pyrepseq/nn.py `_generate_neighbors` and class
`LookupDB` (`__init__`, `lookup`) - the engine behind `hash_based` - by a fail-closed `ast` translator.  coq/proofs/GenLookupDBP.v
proves the generated functions EQUAL (as lists) to the model's breadth-first edit ball and lookup; coq/props/C04g.v instantiates the
three distance modes on the regenerated one-edit generators and alphabet.

What is read, and how it lands in the generated text:
  _generate_neighbors(query, max_edits, is_hamming)
      neighbor_func = hamming_neighbors if is_hamming else levenshtein_neighbors
      ans = {query: 0}
      for edit_distance in range(1, max_edits + 1):
          for seq in ans.copy() | list(ans) | tuple(ans) | list(ans.keys()):          (a SNAPSHOT of the keys)
              for new_seq in neighbor_func(seq):
                  if new_seq not in ans: ans[new_seq] = edit_distance
      return ans
  LookupDB.__init__(self, seqs)
      self.seqs = seqs ; self.seq_dict = {}
      for index, seq in enumerate(seqs):
          if seq not in self.seq_dict: self.seq_dict[seq] = []      (or the setdefault / if-else spellings)
          self.seq_dict[seq].append(index)
  LookupDB.lookup(self, seqs2, max_edits=1, pdist_mode=False, custom_distance=None, max_custom_distance=float('inf'), ...)
      ans = []
      is_hamming = custom_distance == 'hamming'                    -> gen_lookup_is_hamming
      is_custom = custom_distance not in (None, 'hamming')         -> gen_lookup_is_custom
      if is_hamming: custom_distance = _hamming_replacement
      elif custom_distance is None: custom_distance = levenshtein  -> gen_lookup_distance_used
      [progress wrapper around enumerate(seqs2)]
      for x_index, seq in ...:
          neighbors = _generate_neighbors(seq, max_edits, is_hamming)
          for possible_edit, edit_distance in neighbors.items():
              if possible_edit in self.seq_dict:
                  for y_index in self.seq_dict[possible_edit]:
                      if pdist_mode and x_index == y_index: continue
                      if custom_distance in (None, "hamming"): ans.append((x_index, y_index, edit_distance))
                      else:                                   -> gen_lookup_reports_bfs_depth: that test AFTER the substitutions
                          dist = custom_distance(seq, possible_edit)
                          if <COND over is_custom, dist <= max_custom_distance>: ans.append((x_index, y_index, dist))
      return _make_output(ans, output_type, self.seqs, seqs2)
      (the dead first branch may be absent; then the else-body stands alone)
Anything else is refused; on refusal the committed snapshot is written and the refusal recorded (DESIGN.md 1.5)."""
import ast, os, traceback

NAME = 'nn.LookupDB'
PROPS = ['C03', 'C04', 'C07', 'C14']
U = ast.unparse


class Refuse(Exception):
    pass


def body_of(fn):
    b = list(fn.body)
    if b and isinstance(b[0], ast.Expr) and isinstance(b[0].value, ast.Constant) and isinstance(b[0].value.value, str):
        b = b[1:]
    return b


def check_generate_neighbors(fn):
    if [a.arg for a in fn.args.args] != ['query', 'max_edits', 'is_hamming'] or fn.args.defaults or fn.args.vararg or fn.args.kwarg:
        raise Refuse('_generate_neighbors: unexpected signature')
    b = body_of(fn)
    if len(b) != 4:
        raise Refuse('_generate_neighbors: %d statements, expected 4' % len(b))
    if U(b[0]) != 'neighbor_func = hamming_neighbors if is_hamming else levenshtein_neighbors':
        raise Refuse('_generate_neighbors: neighbourhood selection: %s' % U(b[0])[:100])
    if U(b[1]) != 'ans = {query: 0}':
        raise Refuse('_generate_neighbors: `ans = {query: 0}` expected')
    if U(b[3]) != 'return ans':
        raise Refuse('_generate_neighbors: `return ans` expected')
    lo = b[2]
    if not (isinstance(lo, ast.For) and not lo.orelse and U(lo.target) == 'edit_distance' and U(lo.iter) == 'range(1, max_edits + 1)' and len(lo.body) == 1):
        raise Refuse('_generate_neighbors: round loop is not `for edit_distance in range(1, max_edits + 1)`')
    mid = lo.body[0]
    if not (isinstance(mid, ast.For) and not mid.orelse and U(mid.target) == 'seq'
            and U(mid.iter) in ('ans.copy()', 'list(ans)', 'tuple(ans)', 'list(ans.keys())', 'dict(ans)') and len(mid.body) == 1):
        raise Refuse('_generate_neighbors: the inner loop does not run over a snapshot of the keys: %s' % U(mid.iter)[:60])
    inn = mid.body[0]
    if not (isinstance(inn, ast.For) and not inn.orelse and U(inn.target) == 'new_seq' and U(inn.iter) == 'neighbor_func(seq)'):
        raise Refuse('_generate_neighbors: neighbour loop is not `for new_seq in neighbor_func(seq)`')
    src = [U(s) for s in inn.body]
    if src not in (['if new_seq not in ans:\n    ans[new_seq] = edit_distance'], ['ans.setdefault(new_seq, edit_distance)']):
        raise Refuse('_generate_neighbors: update outside the accepted forms: %s' % ' ; '.join(src)[:120])


def check_init(fn):
    if [a.arg for a in fn.args.args] != ['self', 'seqs'] or fn.args.defaults or fn.args.vararg or fn.args.kwarg:
        raise Refuse('LookupDB.__init__: unexpected signature')
    b = body_of(fn)
    if len(b) != 3 or sorted(U(s) for s in b[:2]) not in (sorted(['self.seqs = seqs', 'self.seq_dict = {}']), sorted(['self.seqs = seqs', 'self.seq_dict = dict()'])):
        raise Refuse('LookupDB.__init__: attribute assignments')
    lo = b[2]
    if not (isinstance(lo, ast.For) and not lo.orelse and U(lo.target) == '(index, seq)' and U(lo.iter) in ('enumerate(seqs)', 'enumerate(self.seqs)')):
        raise Refuse('LookupDB.__init__: loop is not `for index, seq in enumerate(seqs)`')
    D = 'self.seq_dict'
    src = [U(s) for s in lo.body]
    forms = [['if seq not in %s:\n    %s[seq] = []' % (D, D), '%s[seq].append(index)' % D],
             ['%s.setdefault(seq, []).append(index)' % D],
             ['if seq in %s:\n    %s[seq].append(index)\nelse:\n    %s[seq] = [index]' % (D, D, D)],
             ['if seq not in %s:\n    %s[seq] = [index]\nelse:\n    %s[seq].append(index)' % (D, D, D)]]
    if src not in forms:
        raise Refuse('LookupDB.__init__: bucket update outside the accepted forms: %s' % ' ; '.join(src)[:140])


def truth(e, kind, name='custom_distance'):
    """value of a test on the custom_distance ARGUMENT (kind in none / hamming / callable)"""
    if isinstance(e, ast.BoolOp):
        vs = [truth(v, kind, name) for v in e.values]
        return all(vs) if isinstance(e.op, ast.And) else any(vs)
    if isinstance(e, ast.UnaryOp) and isinstance(e.op, ast.Not):
        return not truth(e.operand, kind, name)
    if isinstance(e, ast.Compare) and len(e.ops) == 1 and U(e.left) == name:
        op, r = e.ops[0], e.comparators[0]
        if isinstance(op, (ast.In, ast.NotIn)) and isinstance(r, (ast.Tuple, ast.List, ast.Set)):
            vals = []
            for c in r.elts:
                if not (isinstance(c, ast.Constant) and (c.value is None or c.value == 'hamming')):
                    raise Refuse('literal %s in a test on custom_distance' % U(c))
                vals.append('none' if c.value is None else 'hamming')
            res = kind in vals
            return res if isinstance(op, ast.In) else not res
        if isinstance(op, (ast.Is, ast.IsNot, ast.Eq, ast.NotEq)) and isinstance(r, ast.Constant) and (r.value is None or r.value == 'hamming'):
            res = kind == ('none' if r.value is None else 'hamming')
            return res if isinstance(op, (ast.Is, ast.Eq)) else not res
    raise Refuse('test on custom_distance outside the subset: %s' % U(e)[:100])


def cond(e):
    if isinstance(e, ast.BoolOp):
        parts = [cond(v) for v in e.values]
        op = ' && ' if isinstance(e.op, ast.And) else ' || '
        out = parts[0]
        for p in parts[1:]:
            out = '(%s%s%s)' % (out, op, p)
        return out
    if isinstance(e, ast.UnaryOp) and isinstance(e.op, ast.Not):
        return '(negb %s)' % cond(e.operand)
    if isinstance(e, ast.Name) and e.id == 'is_custom':
        return 'is_custom'
    if isinstance(e, ast.Compare) and len(e.ops) == 1:
        l, op, r = U(e.left), e.ops[0], U(e.comparators[0])
        if (l, r) == ('dist', 'max_custom_distance') and isinstance(op, ast.LtE) or (l, r) == ('max_custom_distance', 'dist') and isinstance(op, ast.GtE):
            return '(leD dist max_custom_distance)'
        if (l, r) == ('dist', 'max_custom_distance') and isinstance(op, ast.Gt) or (l, r) == ('max_custom_distance', 'dist') and isinstance(op, ast.Lt):
            return '(negb (leD dist max_custom_distance))'
    raise Refuse('LookupDB.lookup: radius condition outside the subset: %s' % U(e)[:100])


def translate_lookup(fn):
    names = [a.arg for a in fn.args.args]
    if names[:6] != ['self', 'seqs2', 'max_edits', 'pdist_mode', 'custom_distance', 'max_custom_distance'] or fn.args.vararg or fn.args.kwarg:
        raise Refuse('LookupDB.lookup: unexpected signature %s' % names)
    b = body_of(fn)
    if not b or U(b[0]) != 'ans = []':
        raise Refuse('LookupDB.lookup: does not start with `ans = []`')
    b = b[1:]
    flags = {}
    while b and isinstance(b[0], ast.Assign) and len(b[0].targets) == 1 and U(b[0].targets[0]) in ('is_hamming', 'is_custom'):
        n = U(b[0].targets[0])
        if n in flags:
            raise Refuse('LookupDB.lookup: %s assigned twice' % n)
        flags[n] = {k: truth(b[0].value, k) for k in ('none', 'hamming', 'callable')}
        b = b[1:]
    if set(flags) != {'is_hamming', 'is_custom'}:
        raise Refuse('LookupDB.lookup: is_hamming / is_custom are not both computed before the substitution')
    # substitution
    used = {'none': None, 'hamming': None, 'callable': 2}
    fnno = {'_hamming_replacement': 0, 'levenshtein': 1}
    node = b[0]
    if not isinstance(node, ast.If):
        raise Refuse('LookupDB.lookup: distance substitution expected')
    while node is not None:
        t = U(node.test)
        kind = {'is_hamming': 'hamming', "custom_distance == 'hamming'": 'hamming', 'custom_distance is None': 'none', 'custom_distance == None': 'none'}.get(t)
        if t == 'is_hamming' and flags['is_hamming'] != {'none': False, 'hamming': True, 'callable': False}:
            raise Refuse('LookupDB.lookup: substitution keyed on an is_hamming that is not `custom_distance == "hamming"`')
        if kind is None or used[kind] is not None or len(node.body) != 1 or not isinstance(node.body[0], ast.Assign) \
                or U(node.body[0].targets[0]) != 'custom_distance' or U(node.body[0].value) not in fnno:
            raise Refuse('LookupDB.lookup: distance substitution branch: %s' % t[:80])
        used[kind] = fnno[U(node.body[0].value)]
        if len(node.orelse) == 1 and isinstance(node.orelse[0], ast.If):
            node = node.orelse[0]
        elif not node.orelse:
            node = None
        else:
            raise Refuse('LookupDB.lookup: distance substitution has an else branch')
    if used['none'] is None or used['hamming'] is None:
        raise Refuse('LookupDB.lookup: custom_distance None / hamming is not replaced by a function')
    b = b[1:]
    loopvar = 'enumerate(seqs2)'
    if isinstance(b[0], ast.If) and U(b[0].test) == 'progress':
        p = b[0]
        if not (len(p.body) == 1 and len(p.orelse) == 1 and isinstance(p.body[0], ast.Assign) and isinstance(p.orelse[0], ast.Assign)
                and U(p.body[0].targets[0]) == U(p.orelse[0].targets[0]) and U(p.orelse[0].value) == 'enumerate(seqs2)'
                and 'tqdm' in U(p.body[0].value) and 'enumerate(seqs2)' in U(p.body[0].value)):
            raise Refuse('LookupDB.lookup: progress wrapper')
        loopvar = U(p.body[0].targets[0])
        b = b[1:]
    if len(b) != 2 or U(b[1]) != 'return _make_output(ans, output_type, self.seqs, seqs2)':
        raise Refuse('LookupDB.lookup: loop and `return _make_output(ans, output_type, self.seqs, seqs2)` expected')
    lo = b[0]
    if not (isinstance(lo, ast.For) and not lo.orelse and U(lo.target) == '(x_index, seq)' and U(lo.iter) in (loopvar, 'enumerate(seqs2)') and len(lo.body) == 2):
        raise Refuse('LookupDB.lookup: query loop')
    if U(lo.body[0]) != 'neighbors = _generate_neighbors(seq, max_edits, is_hamming)':
        raise Refuse('LookupDB.lookup: `neighbors = _generate_neighbors(seq, max_edits, is_hamming)` expected')
    l2 = lo.body[1]
    if not (isinstance(l2, ast.For) and not l2.orelse and U(l2.target) == '(possible_edit, edit_distance)' and U(l2.iter) == 'neighbors.items()' and len(l2.body) == 1):
        raise Refuse('LookupDB.lookup: `for possible_edit, edit_distance in neighbors.items()` expected')
    g = l2.body[0]
    if not (isinstance(g, ast.If) and not g.orelse and U(g.test) == 'possible_edit in self.seq_dict' and len(g.body) == 1):
        raise Refuse('LookupDB.lookup: `if possible_edit in self.seq_dict:` expected')
    l3 = g.body[0]
    if not (isinstance(l3, ast.For) and not l3.orelse and U(l3.target) == 'y_index' and U(l3.iter) == 'self.seq_dict[possible_edit]'):
        raise Refuse('LookupDB.lookup: `for y_index in self.seq_dict[possible_edit]` expected')
    body = list(l3.body)
    if not body or U(body[0]) != 'if pdist_mode and x_index == y_index:\n    continue':
        raise Refuse('LookupDB.lookup: `if pdist_mode and x_index == y_index: continue` expected')
    body = body[1:]
    # after the substitution custom_distance is: none -> function, hamming -> function, callable -> the callable
    reports = {'none': False, 'hamming': False, 'callable': False}
    if len(body) == 1 and isinstance(body[0], ast.If) and body[0].orelse and 'custom_distance' in U(body[0].test):
        sw = body[0]
        if U(sw.body[0]) != 'ans.append((x_index, y_index, edit_distance))' or len(sw.body) != 1:
            raise Refuse('LookupDB.lookup: depth-reporting branch')
        # the test is evaluated on the SUBSTITUTED value, which is a callable in every case
        val = truth(sw.test, 'callable')
        reports = {'none': val, 'hamming': val, 'callable': val}
        body = list(sw.orelse)
    if len(body) != 2 or U(body[0]) != 'dist = custom_distance(seq, possible_edit)':
        raise Refuse('LookupDB.lookup: `dist = custom_distance(seq, possible_edit)` expected')
    fin = body[1]
    if not (isinstance(fin, ast.If) and not fin.orelse and len(fin.body) == 1 and U(fin.body[0]) == 'ans.append((x_index, y_index, dist))'):
        raise Refuse('LookupDB.lookup: guarded `ans.append((x_index, y_index, dist))` expected')
    return flags, used, reports, cond(fin.test)


def emit(flags, used, reports, radius):
    b = lambda x: 'true' if x else 'false'
    tab = lambda d: 'match c with CNone => %s | CHamming => %s | CCallable => %s end' % (b(d['none']), b(d['hamming']), b(d['callable']))
    return '''Section GenLookupDB.
Context {D : Type}.
Variable hamming_neighbors : str -> list str.        (* hamming_neighbors(seq): default alphabet, all positions *)
Variable levenshtein_neighbors : str -> list str.    (* levenshtein_neighbors(seq): default alphabet *)

Definition gen_generate_neighbors (query : str) (max_edits : nat) (is_hamming : bool) : list (str * nat) :=
  let neighbor_func := if is_hamming then hamming_neighbors else levenshtein_neighbors in
  let ans := [(query, 0)] in
  fold_left (fun ans edit_distance =>
    fold_left (fun ans seq =>
      fold_left (fun ans new_seq =>
          if negb (dict_mem str_eqb new_seq ans) then dict_set str_eqb new_seq edit_distance ans else ans)
        (neighbor_func seq) ans)
      (map fst ans) ans)
    (py_range 1 (max_edits + 1)) ans.

Definition gen_lookupdb_init (seqs : list str) : list (str * list nat) :=
  fold_left (fun seq_dict '(index, seq) =>
      let seq_dict := if negb (dict_mem str_eqb seq seq_dict) then dict_set str_eqb seq [] seq_dict else seq_dict in
      dict_set str_eqb seq (unwrap [] (dict_get str_eqb seq seq_dict) ++ [index]) seq_dict)
    (enumerate seqs) [].

(* what lookup does with its custom_distance argument *)
Definition gen_lookup_is_hamming (c : cdist_arg) : bool := %s.
Definition gen_lookup_is_custom (c : cdist_arg) : bool := %s.
Definition gen_lookup_distance_used (c : cdist_arg) : nat := match c with CHamming => %d | CNone => %d | CCallable => %d end.
(* `custom_distance in (None, "hamming")` evaluated AFTER the substitutions *)
Definition gen_lookup_reports_bfs_depth (c : cdist_arg) : bool := %s.

Variable custom_distance : str -> str -> D.
Variable leD : D -> D -> bool.          (* a <= b on distance values *)
Variable of_depth : nat -> D.

Definition gen_lookupdb_lookup (self_seq_dict : list (str * list nat)) (seqs2 : list str) (max_edits : nat) (pdist_mode : bool)
    (is_hamming is_custom reports_bfs_depth : bool) (max_custom_distance : D) : list (nat * nat * D) :=
  fold_left (fun ans '(x_index, seq) =>
    let neighbors := gen_generate_neighbors seq max_edits is_hamming in
    fold_left (fun ans '(possible_edit, edit_distance) =>
        if dict_mem str_eqb possible_edit self_seq_dict then
          fold_left (fun ans y_index =>
              if (pdist_mode && (Nat.eqb x_index y_index)) then ans else
              if reports_bfs_depth then ans ++ [(x_index, y_index, of_depth edit_distance)] else
              let dist := custom_distance seq possible_edit in
              if %s then ans ++ [(x_index, y_index, dist)] else ans)
            (unwrap [] (dict_get str_eqb possible_edit self_seq_dict)) ans
        else ans)
      neighbors ans)
    (enumerate seqs2) [].
End GenLookupDB.
''' % (tab(flags['is_hamming']), tab(flags['is_custom']), used['hamming'], used['none'], used['callable'], tab(reports), radius)


SNAP = ({'is_hamming': {'none': False, 'hamming': True, 'callable': False}, 'is_custom': {'none': False, 'hamming': False, 'callable': True}},
        {'none': 1, 'hamming': 0, 'callable': 2}, {'none': False, 'hamming': False, 'callable': False},
        '((negb is_custom) || (leD dist max_custom_distance))')


def run(STATUS, write_if_changed, ROOT, REPO):
    head = ['(* GENERATED from pyrepseq/nn.py (_generate_neighbors, class LookupDB: __init__, lookup) by translate/regen_c04b.py on every check; do not edit. *)',
            'From Coq Require Import List Arith Bool.', 'From PV Require Import lib.Str lib.PyDict lib.Combinations gen.Gen_c03.',
            'Import ListNotations.', '']
    try:
        tree = ast.parse(open(os.path.join(REPO, 'pyrepseq', 'nn.py')).read())
        gn = next((n for n in tree.body if isinstance(n, ast.FunctionDef) and n.name == '_generate_neighbors'), None)
        cls = next((n for n in tree.body if isinstance(n, ast.ClassDef) and n.name == 'LookupDB'), None)
        if gn is None or cls is None:
            raise Refuse('_generate_neighbors / class LookupDB not found')
        if cls.bases or cls.decorator_list or cls.keywords:
            raise Refuse('class LookupDB has bases / decorators')
        meth = {n.name: n for n in cls.body if isinstance(n, ast.FunctionDef)}
        if set(meth) != {'__init__', 'lookup'} or any(isinstance(n, (ast.Assign, ast.AnnAssign)) for n in cls.body):
            raise Refuse('class LookupDB has other members: %s' % sorted(meth))
        check_generate_neighbors(gn)
        check_init(meth['__init__'])
        txt = emit(*translate_lookup(meth['lookup']))
        STATUS[NAME] = dict(ok=True, properties=PROPS, error=None)
    except Refuse as e:
        txt = '(* translator refused: %s -- committed snapshot of the last good text *)\n' % str(e).replace('*)', '* )') + emit(*SNAP)
        STATUS[NAME] = dict(ok=True, snapshot=True, properties=PROPS,
                            error='regen unavailable (%s): committed snapshot used, tie by correspondence' % str(e)[:200])
    except Exception:
        txt = '(* translator crashed -- committed snapshot *)\n' + emit(*SNAP)
        STATUS[NAME] = dict(ok=False, properties=PROPS, error='translator crashed: ' + traceback.format_exc()[-300:])
    write_if_changed(os.path.join(ROOT, 'coq/gen/Gen_c04b.v'), '\n'.join(head) + txt)
