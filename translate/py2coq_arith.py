"""Fail-closed translator for the arithmetic kernels of pyrepseq/stats.py.

Two modes:
  val mode  (chao1, var_chao1, chao2, var_chao2): branching functions over a count vector,
            result in lib/Val.v's `val` (exact rational | NaN | Err).
  expr mode (pc_n, varpc_n): straight-line real-valued formulas over a count vector with
            np.sum of element-wise expressions; emitted once over Q (runs in the oracle)
            and once over R (what the C06 theorems are about) from the same AST.

Anything outside the subset raises TranslateError; the caller then emits a stub whose
value is Err, so every theorem about that function fails and the check reports it."""
import ast
from fractions import Fraction


class TranslateError(Exception):
    pass


def _const(node):
    if isinstance(node, ast.Constant) and isinstance(node.value, (int, float)) and not isinstance(node.value, bool):
        return Fraction(str(node.value))
    return None


def _is_np(node, attr):
    return isinstance(node, ast.Attribute) and isinstance(node.value, ast.Name) and node.value.id in ('np', 'numpy') \
        and node.attr == attr


# ------------------------------------------------------------------ val mode
class ValFn:
    def __init__(self, fn):
        self.fn = fn
        args = [a.arg for a in fn.args.args]
        if not args or fn.args.vararg or fn.args.kwarg or fn.args.kwonlyargs or fn.args.defaults:
            raise TranslateError('unsupported signature')
        self.vec = args[0]
        self.scalars = args[1:]
        self.fresh = 0

    def q(self, f):
        f = Fraction(f)
        if f.denominator == 1:
            return '(V (%d # 1))' % f.numerator if f.numerator >= 0 else '(V ((%d) # 1))' % f.numerator
        return '(V ((%d) # %d))' % (f.numerator, f.denominator)

    def expr(self, e, env):
        c = _const(e)
        if c is not None:
            return self.q(c)
        if isinstance(e, ast.Name):
            if e.id in env:
                return '(V %s)' % env[e.id]
            raise TranslateError('unbound name %s (line %d)' % (e.id, e.lineno))
        if _is_np(e, 'nan'):
            return 'NaN'
        if isinstance(e, ast.BinOp):
            if isinstance(e.op, ast.Pow):
                n = _const(e.right)
                if n is None or n.denominator != 1 or n < 0:
                    raise TranslateError('exponent must be a non-negative integer literal (line %d)' % e.lineno)
                return '(vpow %s %d)' % (self.expr(e.left, env), int(n))
            ops = {ast.Add: 'vadd', ast.Sub: 'vsub', ast.Mult: 'vmul', ast.Div: 'vdiv'}
            for k, v in ops.items():
                if isinstance(e.op, k):
                    return '(%s %s %s)' % (v, self.expr(e.left, env), self.expr(e.right, env))
            raise TranslateError('operator %s (line %d)' % (type(e.op).__name__, e.lineno))
        if isinstance(e, ast.UnaryOp) and isinstance(e.op, ast.USub):
            return '(vneg %s)' % self.expr(e.operand, env)
        if isinstance(e, ast.Subscript):
            i = _const(e.slice)
            if isinstance(e.value, ast.Name) and e.value.id == self.vec and self.vec in env and i is not None \
                    and i.denominator == 1 and i >= 0:
                return '(idx %s %d)' % (self.vec, int(i))
            raise TranslateError('subscript (line %d)' % e.lineno)
        if isinstance(e, ast.Call) and _is_np(e.func, 'sum') and len(e.args) == 1 and not e.keywords \
                and isinstance(e.args[0], ast.Name) and e.args[0].id == self.vec and self.vec in env:
            return '(vsum %s)' % self.vec
        raise TranslateError('expression %s (line %d)' % (type(e).__name__, getattr(e, 'lineno', 0)))

    def cond(self, c, env):
        if isinstance(c, ast.BoolOp):
            f = 'cor' if isinstance(c.op, ast.Or) else 'cand'
            parts = [self.cond(v, env) for v in c.values]
            out = parts[-1]
            for p in reversed(parts[:-1]):
                out = '(%s %s %s)' % (f, p, out)
            return out
        if isinstance(c, ast.UnaryOp) and isinstance(c.op, ast.Not):
            return '(cnot %s)' % self.cond(c.operand, env)
        if isinstance(c, ast.Compare) and len(c.ops) == 1 and isinstance(c.ops[0], ast.Eq):
            l, r = c.left, c.comparators[0]
            if isinstance(l, ast.Call) and isinstance(l.func, ast.Name) and l.func.id == 'len' and len(l.args) == 1 \
                    and isinstance(l.args[0], ast.Name) and l.args[0].id == self.vec and self.vec in env:
                n = _const(r)
                if n is None or n.denominator != 1 or n < 0:
                    raise TranslateError('len compared with non-literal (line %d)' % c.lineno)
                return '(clen %s %d)' % (self.vec, int(n))
            return '(ceq %s %s)' % (self.expr(l, env), self.expr(r, env))
        raise TranslateError('condition %s (line %d)' % (type(c).__name__, c.lineno))

    def block(self, stmts, env):
        if not stmts:
            raise TranslateError('function may fall off its end (returns None)')
        s, rest = stmts[0], stmts[1:]
        if isinstance(s, ast.Expr) and isinstance(s.value, ast.Constant) and isinstance(s.value.value, str):
            return self.block(rest, env)
        if isinstance(s, ast.Return):
            if s.value is None:
                raise TranslateError('bare return')
            return self.expr(s.value, env)
        if isinstance(s, ast.Assign) and len(s.targets) == 1 and isinstance(s.targets[0], ast.Name):
            name = s.targets[0].id
            if name == self.vec:
                raise TranslateError('vector rebound (line %d)' % s.lineno)
            self.fresh += 1
            cn = 'x%d_%s' % (self.fresh, name)
            env2 = dict(env)
            env2[name] = cn
            return '(bind %s (fun %s =>\n  %s))' % (self.expr(s.value, env), cn, self.block(rest, env2))
        if isinstance(s, ast.If):
            self.fresh += 1
            cn = 'c%d' % self.fresh
            els = s.orelse + rest if s.orelse else rest
            # the then-branch must end in return on every path; we require it syntactically
            if not self._returns(s.body):
                raise TranslateError('if-body without return (line %d)' % s.lineno)
            if s.orelse and not self._returns(s.orelse):
                raise TranslateError('else-body without return (line %d)' % s.lineno)
            return '(bindc %s (fun %s =>\n  if %s then %s\n  else %s))' % (
                self.cond(s.test, env), cn, cn, self.block(s.body, env), self.block(els, env))
        raise TranslateError('statement %s (line %d)' % (type(s).__name__, s.lineno))

    def _returns(self, body):
        last = body[-1]
        if isinstance(last, ast.Return):
            return True
        if isinstance(last, ast.If) and last.orelse:
            return self._returns(last.body) and self._returns(last.orelse)
        return False

    def emit(self, cname):
        env = {self.vec: self.vec}
        for s in self.scalars:
            env[s] = 'p_' + s
        body = self.block(self.fn.body, env)
        params = '(%s : list Q)' % self.vec + ''.join(' (p_%s : Q)' % s for s in self.scalars)
        return 'Definition %s %s : val :=\n  %s.\n' % (cname, params, body)


def val_stub(cname, nscalars, reason):
    params = '(counts : list Q)' + ''.join(' (p%d : Q)' % i for i in range(nscalars))
    return '(* translator refused: %s *)\nDefinition %s %s : val := Err.\n' % (reason.replace('*)', '* )'), cname, params)


# ------------------------------------------------------------------ expr mode
class ExprFn:
    """Straight-line formula over one vector parameter; emits Q and R versions."""
    IDENT_CALLS = {'ensure_numpy', 'asarray', 'array'}

    def __init__(self, fn):
        self.fn = fn
        args = [a.arg for a in fn.args.args]
        if len(args) != 1 or fn.args.vararg or fn.args.kwarg or fn.args.kwonlyargs or fn.args.defaults:
            raise TranslateError('unsupported signature')
        self.vec = args[0]

    def num(self, f, scope):
        f = Fraction(f)
        if scope == 'Q':
            return '((%d) # %d)' % (f.numerator, f.denominator)
        if f.denominator == 1:
            return '(IZR (%d))' % f.numerator
        return '(IZR (%d) / IZR %d)' % (f.numerator, f.denominator)

    def scalar(self, e, env, scope, elem=None):
        """elem: name of the bound variable standing for the vector element inside np.sum."""
        c = _const(e)
        if c is not None:
            return self.num(c, scope)
        if isinstance(e, ast.Name):
            if elem is not None and e.id == self.vec:
                return elem
            if e.id in env:
                return env[e.id]
            raise TranslateError('unbound name %s (line %d)' % (e.id, e.lineno))
        if isinstance(e, ast.BinOp):
            if isinstance(e.op, ast.Pow):
                n = _const(e.right)
                if n is None or n.denominator != 1 or n < 0:
                    raise TranslateError('exponent must be a non-negative integer literal (line %d)' % e.lineno)
                base = self.scalar(e.left, env, scope, elem)
                return '(%s ^ %d)' % (base, int(n))
            ops = {ast.Add: '+', ast.Sub: '-', ast.Mult: '*', ast.Div: '/'}
            for k, v in ops.items():
                if isinstance(e.op, k):
                    if v == '/':
                        self.dens.append(self.scalar(e.right, env, 'Q', elem) if elem is None else None)
                    return '(%s %s %s)' % (self.scalar(e.left, env, scope, elem), v, self.scalar(e.right, env, scope, elem))
            raise TranslateError('operator %s (line %d)' % (type(e.op).__name__, e.lineno))
        if isinstance(e, ast.UnaryOp) and isinstance(e.op, ast.USub):
            return '(- %s)' % self.scalar(e.operand, env, scope, elem)
        if isinstance(e, ast.Call) and _is_np(e.func, 'sum') and len(e.args) == 1 and not e.keywords and elem is None:
            inner = e.args[0]
            body = self.scalar(inner, env, scope, elem='x_')
            return '(%s (fun x_ => %s) %s)' % ('sumQf' if scope == 'Q' else 'sumRf', body, self.vec)
        raise TranslateError('expression %s (line %d)' % (type(e).__name__, getattr(e, 'lineno', 0)))

    def emit_scope(self, cname, scope):
        self.dens = []
        env = {}
        lets = []
        ret = None
        for s in self.fn.body:
            if isinstance(s, ast.Expr) and isinstance(s.value, ast.Constant) and isinstance(s.value.value, str):
                continue
            if ret is not None:
                raise TranslateError('statement after return')
            if isinstance(s, ast.Assign) and len(s.targets) == 1 and isinstance(s.targets[0], ast.Name):
                name = s.targets[0].id
                v = s.value
                if name == self.vec:
                    # n = ensure_numpy(n): identity on the mathematical vector
                    # n = np.asarray(n) / ensure_numpy(n) / np.asarray(n, dtype=float): the same numbers (a conversion to float is
                    # the identity on the exact-rational / real model; the float64 evaluation is tied by correspondence)
                    kw_ok = isinstance(v, ast.Call) and all(k.arg == 'dtype' and ((isinstance(k.value, ast.Name) and k.value.id == 'float') or
                                                      (isinstance(k.value, ast.Attribute) and k.value.attr in ('float64', 'double')))
                                for k in v.keywords)
                    if isinstance(v, ast.Call) and len(v.args) == 1 and isinstance(v.args[0], ast.Name) \
                            and v.args[0].id == self.vec and kw_ok and (
                            (isinstance(v.func, ast.Name) and v.func.id in self.IDENT_CALLS) or
                            (isinstance(v.func, ast.Attribute) and v.func.attr in self.IDENT_CALLS)):
                        continue
                    raise TranslateError('vector rebound (line %d)' % s.lineno)
                if isinstance(v, ast.Tuple) or (isinstance(v, ast.Constant) and isinstance(v.value, str)):
                    raise TranslateError('non-numeric assignment (line %d)' % s.lineno)
                # parenthesised multi-line expressions are ordinary expressions in the AST
                cn = 'v_' + name
                lets.append((cn, self.scalar(v, env, scope), list(self.dens)))
                env[name] = cn
            elif isinstance(s, ast.Return) and s.value is not None:
                ret = self.scalar(s.value, env, scope)
            else:
                raise TranslateError('statement %s (line %d)' % (type(s).__name__, s.lineno))
        if ret is None:
            raise TranslateError('no return')
        ty = 'Q' if scope == 'Q' else 'R'
        out = 'Definition %s_%s (%s : list %s) : %s :=\n' % (cname, scope, self.vec, ty, ty)
        for cn, ex, _ in lets:
            out += '  let %s := %s in\n' % (cn, ex)
        out += '  %s.\n' % ret
        if scope == 'Q':
            dens = [d for d in self.dens if d is not None]
            out += 'Definition %s_defined (%s : list Q) : bool :=\n' % (cname, self.vec)
            for cn, ex, _ in lets:
                out += '  let %s := %s in\n' % (cn, ex)
            out += '  ' + ' && '.join(['negb (Qeq_bool %s 0)' % d for d in dens] + ['true']) + '.\n'
        return out


def expr_stub(cname, scope, reason):
    ty = 'Q' if scope == 'Q' else 'R'
    out = '(* translator refused: %s *)\nDefinition %s_%s (n : list %s) : %s := 0.\n' % (
        reason.replace('*)', '* )'), cname, scope, ty, ty)
    if scope == 'Q':
        out += 'Definition %s_defined (n : list Q) : bool := false.\n' % cname
    return out


def find_function(tree, name):
    for node in tree.body:
        if isinstance(node, ast.FunctionDef) and node.name == name:
            return node
    raise TranslateError('function %s not found' % name)
