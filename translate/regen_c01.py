"""C01/C03/C07/C14: nn._comb_gen (the deletion-variant generator of the symmetric-delete search) translated from its
SOURCE TEXT into Gallina on every run (coq/gen/Gen_c01.v: gen_comb_gen), so that coq/proofs/GenCombP.v /
coq/props/C01g.v prove today's text equal (as a set) to the hand-written model comb_gen.

Fail-closed subset (anything else raises Refuse -> committed snapshot, DESIGN.md 1.5):
  def f(seq, max_edits) with straight-line body ending in `return <set variable>`;
  statements: `x = e`, `x, y = e1, e2` (independent), `l.append(e)`, `s.add(e)`, `for x in <iterable>:` (no else);
  expressions: names, small non-negative int literals, + - * min max len, range(a[,b]), combinations(it, r) (itertools),
  seq[a:b] (non-negative bounds), ''.join(l), [] / [e, ..], set() / set([e, ..]) / {e, ..} of strings.
  Integers are `nat`; an expression containing a subtraction is computed in Z (Python ints can go negative) and is accepted
  only where a negative value has a defined meaning that the translation keeps (the stop of a range).
  A set stands as the list of its insertions (the theorem is about membership).  A loop whose only effect is `s.add(..)`
  on one set that the body never reads becomes `s ++ flat_map ..`; any other loop becomes a `fold_left` over the tuple of the
  variables it updates."""
import ast, os, re

NAME = 'c01.comb_gen'
PROPS = ['C01', 'C03', 'C07', 'C14']
FUNC = '_comb_gen'

HEADER = ['(* GENERATED from pyrepseq/nn.py (_comb_gen) by translate/regen_c01.py on every check; do not edit. *)',
          'From Coq Require Import List Arith ZArith.',
          'From PV Require Import lib.Str lib.Combinations.',
          'Import ListNotations.', '']

# committed snapshot: the translation of the source as of the day this translator was written
SNAPSHOT = '''Definition gen_comb_gen (seq : str) (max_edits : nat) : list str :=
  let _len := (length seq) in
  let ans := [seq] in
  let ans := ans ++ flat_map (fun edit =>
    flat_map (fun indexes =>
      let new_seq := (@nil str) in
      let offset := 0 in
      let '(new_seq, offset) := fold_left (fun st index => let '(new_seq, offset) := st in
        let new_seq := new_seq ++ [(slice seq offset index)] in
        let offset := (index + 1) in
        (new_seq, offset)) indexes (new_seq, offset) in
      let new_seq := new_seq ++ [(slice seq offset _len)] in
      [(concat new_seq)])
      (combinations (py_range 0 _len) edit))
    (py_range 1 (max_edits + 1)) in
  ans.'''

RESERVED = set('''fun let in match with end if then else fix cofix forall exists return as at using where Type Prop Set SProp
    length concat flat_map fold_left combinations py_range slice str nat list nil cons app Z N fst snd pair map
    gen_comb_gen true false None Some'''.split())
IDENT = re.compile(r'^[A-Za-z_][A-Za-z0-9_]*$')


class Refuse(Exception):
    pass


class Cell:
    """element type of a list, unified lazily ([] has no element type until something is appended)"""
    def __init__(self, t=None):
        self.t = t

    def find(self):
        c = self
        while isinstance(c.t, Cell):
            c = c.t
        return c


class TList:
    def __init__(self, cell):
        self.cell = cell


NAT, ZT, STR, SET, COLLECTOR = 'nat', 'Z', 'str', 'set', 'collector'


def tname(t):
    if isinstance(t, TList):
        e = t.cell.find().t
        if e is None:
            raise Refuse('the element type of a list is never determined')
        s = tname(e)
        return 'list ' + (s if ' ' not in s else '(%s)' % s)
    if t == SET:
        return 'list str'
    if t in (NAT, ZT, STR):
        return t
    raise Refuse('no Coq type for %r' % (t,))


def unify(a, b, what):
    """a, b: types; make them equal or refuse"""
    if isinstance(a, TList) and isinstance(b, TList):
        ca, cb = a.cell.find(), b.cell.find()
        if ca is cb:
            return
        if ca.t is None:
            ca.t = cb
        elif cb.t is None:
            cb.t = ca
        else:
            unify(ca.t, cb.t, what)
        return
    if isinstance(a, TList) or isinstance(b, TList) or a != b:
        raise Refuse('type mismatch in %s' % what)


def unify_elem(lst, t, what):
    c = lst.cell.find()
    if c.t is None:
        c.t = t
    else:
        unify(c.t, t, what)


class Tr:
    def __init__(self, module, fn):
        self.holes = []
        self.itertools_combinations = any(
            isinstance(n, ast.ImportFrom) and n.module == 'itertools' and any(a.name == 'combinations' and a.asname is None for a in n.names)
            for n in module.body)
        rebound = [n for n in ast.walk(module) if isinstance(n, (ast.FunctionDef, ast.ClassDef)) and n.name == 'combinations']
        for n in module.body:
            if isinstance(n, (ast.Assign, ast.AugAssign, ast.AnnAssign)):
                for t in ast.walk(n):
                    if isinstance(t, ast.Name) and t.id == 'combinations' and isinstance(t.ctx, ast.Store):
                        rebound.append(t)
        if rebound:
            self.itertools_combinations = False
        self.fn = fn
        self.used = set()

    # ---------- names ----------
    def ident(self, name):
        if not IDENT.match(name) or name == '_' or name in RESERVED or name.startswith('st__'):
            raise Refuse('local name %r cannot be used as a Coq identifier here' % name)
        self.used.add(name)
        return name

    def fresh(self, base='st'):
        n, i = base, 0
        while n in self.used or n in RESERVED:
            i += 1
            n = '%s%d' % (base, i)
        self.used.add(n)
        return n

    # ---------- expressions ----------
    def to_z(self, txt, t):
        return txt if t == ZT else '(Z.of_nat %s)' % txt

    def int_args(self, args, env, what):
        out = [self.expr(a, env) for a in args]
        for _, t in out:
            if t not in (NAT, ZT):
                raise Refuse('%s of a non-integer' % what)
        return out

    def nat_expr(self, e, env, what):
        txt, t = self.expr(e, env)
        if t != NAT:
            raise Refuse('%s must be a non-negative integer expression without subtraction' % what)
        return txt

    def expr(self, e, env):
        if isinstance(e, ast.Name):
            if e.id not in env:
                raise Refuse('name %r is not a local bound on every path to its use' % e.id)
            t = env[e.id]
            if t == COLLECTOR:
                raise Refuse('the set %r is read inside the loop that fills it' % e.id)
            return e.id, t
        if isinstance(e, ast.Constant):
            if isinstance(e.value, int) and not isinstance(e.value, bool) and 0 <= e.value < 5000:
                return str(e.value), NAT
            raise Refuse('literal %r outside the subset' % (e.value,))
        if isinstance(e, ast.BinOp) and isinstance(e.op, (ast.Add, ast.Sub, ast.Mult)):
            (a, ta), (b, tb) = self.int_args([e.left, e.right], env, 'arithmetic')
            if isinstance(e.op, ast.Sub):
                return '(%s - %s)%%Z' % (self.to_z(a, ta), self.to_z(b, tb)), ZT
            op = '+' if isinstance(e.op, ast.Add) else '*'
            if ta == NAT and tb == NAT:
                return '(%s %s %s)' % (a, op, b), NAT
            return '(%s %s %s)%%Z' % (self.to_z(a, ta), op, self.to_z(b, tb)), ZT
        if isinstance(e, ast.Call) and not e.keywords and isinstance(e.func, ast.Name) and e.func.id not in env:
            f = e.func.id
            if f == 'len' and len(e.args) == 1:
                a, t = self.expr(e.args[0], env)
                if t == STR or isinstance(t, TList):
                    return '(length %s)' % a, NAT
                raise Refuse('len of something that is neither a string nor a list')
            if f in ('min', 'max') and len(e.args) == 2:
                (a, ta), (b, tb) = self.int_args(e.args, env, f)
                if ta == NAT and tb == NAT:
                    return '(Nat.%s %s %s)' % (f, a, b), NAT
                return '(Z.%s %s %s)' % (f, self.to_z(a, ta), self.to_z(b, tb)), ZT
            if f == 'range' and len(e.args) in (1, 2):
                lo = '0' if len(e.args) == 1 else self.nat_expr(e.args[0], env, 'the start of a range')
                hi, th = self.int_args([e.args[-1]], env, 'range')[0]
                if th == ZT:            # range(a, b) with a >= 0 and b < 0 is empty, and so is py_range a 0
                    hi = '(Z.to_nat %s)' % hi
                return '(py_range %s %s)' % (lo, hi), TList(Cell(NAT))
            if f == 'combinations' and len(e.args) == 2:
                if not self.itertools_combinations:
                    raise Refuse('`combinations` is not itertools.combinations in this module')
                it, t = self.expr(e.args[0], env)
                if not isinstance(t, TList):
                    raise Refuse('combinations of a non-list')
                r = self.nat_expr(e.args[1], env, 'the size of a combination')
                return '(combinations %s %s)' % (it, r), TList(Cell(TList(t.cell)))
            if f == 'set' and len(e.args) <= 1:
                if not e.args:
                    return '(@nil str)', SET
                if isinstance(e.args[0], (ast.List, ast.Tuple)):
                    return self.str_items(e.args[0].elts, env), SET
                raise Refuse('set(...) of something that is not a literal list of strings')
        if isinstance(e, ast.Set):
            return self.str_items(e.elts, env), SET
        if isinstance(e, ast.List):
            if not e.elts:
                cell = Cell()
                self.holes.append(cell)
                return '(@nil \x00%d\x00)' % (len(self.holes) - 1), TList(cell)
            items = [self.expr(x, env) for x in e.elts]
            if any(t not in (STR, NAT, ZT) for _, t in items):
                raise Refuse('a list literal holding mutable objects')
            lst = TList(Cell())
            for _, t in items:
                unify_elem(lst, t, 'a list literal')
            return '[%s]' % '; '.join(a for a, _ in items), lst
        if isinstance(e, ast.Subscript) and isinstance(e.slice, ast.Slice) and e.slice.step is None:
            s, t = self.expr(e.value, env)
            if t != STR:
                raise Refuse('slice of something that is not a string')
            lo = '0' if e.slice.lower is None else self.nat_expr(e.slice.lower, env, 'a slice bound')
            hi = '(length %s)' % s if e.slice.upper is None else self.nat_expr(e.slice.upper, env, 'a slice bound')
            return '(slice %s %s %s)' % (s, lo, hi), STR
        if isinstance(e, ast.Call) and not e.keywords and isinstance(e.func, ast.Attribute) and e.func.attr == 'join' \
                and isinstance(e.func.value, ast.Constant) and e.func.value.value == '' and len(e.args) == 1:
            a, t = self.expr(e.args[0], env)
            if not isinstance(t, TList):
                raise Refuse('join of a non-list')
            unify_elem(t, STR, "''.join")
            return '(concat %s)' % a, STR
        raise Refuse('expression outside the subset: ' + ast.dump(e)[:120])

    def str_items(self, elts, env):
        items = [self.expr(x, env) for x in elts]
        if any(t != STR for _, t in items):
            raise Refuse('a set of non-strings')
        return '[%s]' % '; '.join(a for a, _ in items) if items else '(@nil str)'

    # ---------- statements ----------
    def method_call(self, st):
        """(receiver name, method, argument) of `x.append(e)` / `x.add(e)`, else None"""
        if isinstance(st, ast.Expr) and isinstance(st.value, ast.Call) and isinstance(st.value.func, ast.Attribute) \
                and isinstance(st.value.func.value, ast.Name) and st.value.func.attr in ('append', 'add') \
                and len(st.value.args) == 1 and not st.value.keywords:
            return st.value.func.value.id, st.value.func.attr, st.value.args[0]
        return None

    def written(self, stmts):
        """names a block assigns, mutates or binds as loop targets (in order of first occurrence)"""
        out = []

        def add(n):
            if n not in out:
                out.append(n)
        for st in stmts:
            if isinstance(st, ast.Assign):
                for tg in st.targets:
                    for n in (tg.elts if isinstance(tg, ast.Tuple) else [tg]):
                        if not isinstance(n, ast.Name):
                            raise Refuse('assignment to something that is not a plain name')
                        add(n.id)
            elif self.method_call(st):
                add(self.method_call(st)[0])
            elif isinstance(st, ast.For):
                if not isinstance(st.target, ast.Name):
                    raise Refuse('loop target is not a plain name')
                add(st.target.id)
                for n in self.written(st.body):
                    add(n)
            else:
                raise Refuse('statement outside the subset: ' + ast.dump(st)[:120])
        return out

    def simple(self, st, env):
        """translate an assignment / append / add into a list of `let` lines, updating env; None if st is not one"""
        if isinstance(st, ast.Assign):
            if len(st.targets) != 1:
                raise Refuse('chained assignment')
            tg = st.targets[0]
            if isinstance(tg, ast.Name):
                pairs = [(tg, st.value)]
            elif isinstance(tg, ast.Tuple) and isinstance(st.value, ast.Tuple) and len(tg.elts) == len(st.value.elts) \
                    and all(isinstance(n, ast.Name) for n in tg.elts):
                pairs = list(zip(tg.elts, st.value.elts))
                names = [n.id for n in tg.elts]
                if len(set(names)) != len(names):
                    raise Refuse('a name assigned twice in one statement')
                for _, v in pairs:      # Python evaluates the whole right side first: keep that by demanding independence
                    if any(isinstance(x, ast.Name) and x.id in names for x in ast.walk(v)):
                        raise Refuse('tuple assignment whose right side reads its own targets')
            else:
                raise Refuse('assignment target outside the subset')
            lines = []
            for n, v in pairs:
                txt, t = self.expr(v, env)
                if isinstance(v, ast.Name) and (isinstance(t, TList) or t == SET):
                    raise Refuse('%r would alias the mutable object %r' % (n.id, v.id))
                if n.id in env:
                    if env[n.id] == COLLECTOR:
                        raise Refuse('the set %r is rebound inside the loop that fills it' % n.id)
                    unify(env[n.id], t, 'the re-assignment of %r' % n.id)
                env[n.id] = t
                lines.append('let %s := %s in' % (self.ident(n.id), txt))
            return lines
        mc = self.method_call(st)
        if mc:
            x, meth, arg = mc
            if x not in env:
                raise Refuse('name %r is not bound' % x)
            a, t = self.expr(arg, env)
            if meth == 'append' and isinstance(env[x], TList) and t in (STR, NAT, ZT):
                unify_elem(env[x], t, '%s.append' % x)
            elif meth == 'add' and env[x] == SET and t == STR:
                pass
            else:
                raise Refuse('%s.%s(...) on a value it is not defined for in the subset' % (x, meth))
            return ['let %s := %s ++ [%s] in' % (self.ident(x), x, a)]
        return None

    def loop_parts(self, st, env):
        if st.orelse:
            raise Refuse('for ... else')
        if st.target.id in env:
            raise Refuse('loop target %r shadows an existing local' % st.target.id)
        it, t = self.expr(st.iter, env)
        if not isinstance(t, TList):
            raise Refuse('loop over something that is not a list')
        et = t.cell.find().t
        if et is None:
            raise Refuse('loop over a list of unknown element type')
        carried = [n for n in self.written(st.body) if n in env]
        if not carried:
            raise Refuse('a loop that updates no variable defined before it')
        if any(isinstance(x, ast.Name) and x.id in carried for x in ast.walk(st.iter)):
            raise Refuse('a loop that updates what it iterates over')
        return it, et, carried

    def fold(self, st, env, it, et, carried, ind):
        """general loop: fold_left over the tuple of updated variables"""
        x = self.ident(st.target.id)
        benv = dict(env)
        benv[x] = et
        tup = '(%s)' % ', '.join(carried) if len(carried) > 1 else carried[0]
        pad = '  ' * ind
        if len(carried) > 1:
            s = self.fresh('st')
            head = "let '%s := fold_left (fun %s %s => let '%s := %s in" % (tup, s, x, tup, s)
        else:
            head = 'let %s := fold_left (fun %s %s =>' % (tup, tup, x)
        body = self.block(st.body, benv, ind + 1, tup, collector=None)
        for n in carried:       # a carried variable keeps its type through the loop
            unify(env[n], benv[n], 'the loop-carried variable %r' % n)
        return [pad + head] + body[:-1] + [body[-1] + ') %s %s in' % (it, tup)]

    def block(self, stmts, env, ind, final, collector):
        """lines of the translation of a block. collector=None: the block ends in the expression `final` (a tuple of the
        carried variables / the returned name). collector=name: the block's value is the list of strings it adds to that set."""
        pad = '  ' * ind
        lines = []
        for k, st in enumerate(stmts):
            last = k == len(stmts) - 1
            if collector is not None:
                mc = self.method_call(st)
                if mc and mc[0] == collector:
                    if mc[1] != 'add':
                        raise Refuse('%s.%s on a set' % (collector, mc[1]))
                    a, t = self.expr(mc[2], env)
                    if t != STR:
                        raise Refuse('a non-string is added to the set')
                    if last:
                        return lines + [pad + '[%s]' % a]
                    lines.append(pad + '%s ::' % a)
                    continue
            if isinstance(st, ast.For):
                it, et, carried = self.loop_parts(st, env)
                cname = collector if collector is not None else (carried[0] if len(carried) == 1 and env[carried[0]] == SET else None)
                if cname is not None and carried == [cname]:
                    try_env = dict(env)
                    try_env[cname] = COLLECTOR
                    try_env[st.target.id] = et
                    x = self.ident(st.target.id)
                    inner = self.block(st.body, try_env, ind + 1, None, collector=cname)
                    fm = [pad + 'flat_map (fun %s =>' % x] + inner[:-1] + [inner[-1] + ')', pad + '  %s' % it]
                    if collector is not None:
                        if last:
                            return lines + fm
                        lines += fm[:-1] + [fm[-1] + ' ++']
                    else:
                        fm[0] = pad + 'let %s := %s ++ flat_map (fun %s =>' % (cname, cname, x)
                        fm[-1] += ' in'
                        lines += fm
                    continue
                if collector is not None and collector in carried:
                    raise Refuse('a loop that fills the set and updates other variables')
                lines += self.fold(st, env, it, et, carried, ind)
                continue
            sm = self.simple(st, env)
            if sm is None:
                raise Refuse('statement outside the subset: ' + ast.dump(st)[:120])
            lines += [pad + l for l in sm]
        if collector is not None:
            return lines + [pad + '(@nil str)']
        return lines + [pad + final]

    def function(self):
        fn = self.fn
        a = fn.args
        if a.vararg or a.kwarg or a.kwonlyargs or a.defaults or getattr(a, 'posonlyargs', []) or len(a.args) != 2 or fn.decorator_list:
            raise Refuse('signature is not f(seq, max_edits)')
        p_seq, p_k = self.ident(a.args[0].arg), self.ident(a.args[1].arg)
        if p_seq == p_k:
            raise Refuse('duplicate parameter')
        body = list(fn.body)
        if body and isinstance(body[0], ast.Expr) and isinstance(body[0].value, ast.Constant) and isinstance(body[0].value.value, str):
            body = body[1:]
        if not body or not isinstance(body[-1], ast.Return) or not isinstance(body[-1].value, ast.Name):
            raise Refuse('the function does not end in `return <name>`')
        for n in ast.walk(fn):
            if isinstance(n, (ast.Return, ast.Yield, ast.YieldFrom, ast.Global, ast.Nonlocal)) and n is not body[-1]:
                raise Refuse('return / yield / global inside the body')
        env = {p_seq: STR, p_k: NAT}
        ret = body[-1].value.id
        lines = self.block(body[:-1], env, 1, ret, collector=None)
        if env.get(ret) != SET:
            raise Refuse('the returned value is not a set of strings')
        txt = '\n'.join(['Definition gen_comb_gen (%s : str) (%s : nat) : list str :=' % (p_seq, p_k)] + lines) + '.'
        for i, cell in enumerate(self.holes):
            t = cell.find().t
            if t is None:
                raise Refuse('the element type of an empty list literal is never determined')
            s = tname(t)
            txt = txt.replace('\x00%d\x00' % i, s if ' ' not in s else '(%s)' % s)
        return txt


def translate(src):
    try:
        module = ast.parse(src)
    except SyntaxError as e:
        raise Refuse('nn.py does not parse: %s' % e)
    fns = [n for n in module.body if isinstance(n, ast.FunctionDef) and n.name == FUNC]
    if len(fns) != 1:
        raise Refuse('anchor %s not found exactly once at module level' % FUNC)
    return Tr(module, fns[0]).function()


def run(STATUS, write_if_changed, ROOT, REPO):
    out = list(HEADER)
    try:
        src = open(os.path.join(REPO, 'pyrepseq', 'nn.py')).read()
        try:
            out.append(translate(src))
            STATUS[NAME] = dict(ok=True, properties=PROPS, error=None)
        except Refuse as e:
            # DESIGN.md 1.5: anchor moved / text outside the subset -> committed snapshot; the tie for this run is the
            # correspondence of symdel / SymdelDB with the model (C01, C03, C07, C14 harnesses)
            out.append('(* translator refused: %s -- committed snapshot of the last good text *)' % str(e).replace('*)', '* )').replace('(*', '( *'))
            out.append(SNAPSHOT)
            STATUS[NAME] = dict(ok=True, snapshot=True, properties=PROPS,
                                error='regen unavailable (%s): committed snapshot used, tie by correspondence' % str(e)[:200])
    except Exception as e:      # a crash of the translator itself: keep the build going on the snapshot, but say so
        out = list(HEADER) + ['(* translator crashed: snapshot *)', SNAPSHOT]
        STATUS[NAME] = dict(ok=False, properties=PROPS, error='translator crashed: %r' % (e,))
    write_if_changed(os.path.join(ROOT, 'coq/gen/Gen_c01.v'), '\n'.join(out) + '\n')


if __name__ == '__main__':
    import sys
    print(translate(open(sys.argv[1]).read()))
