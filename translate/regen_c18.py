"""C18: facts about pyrepseq/io.py re-read from the source on every run -> coq/gen/Gen_c18.v

  aa_catches / cdr3_catches   exception classes named by the except clauses of isvalidaa / isvalidcdr3
  cdr3_conds                  the `and` chain isvalidcdr3 returns, as a list of conjuncts over its argument
  merge_on_kw                 whether multimerge's column branch hands `on` to pd.merge by keyword
  std_cols                    the columns standardize_dataframe maps, each with the tidytcells module it calls

Fail-closed `ast` walkers over a small subset.  When an anchor is not found or the text is outside the subset
the fact falls back to the snapshot below (the facts of the repaired tree) and the evidence says
`unavailable (...)`: the tie for that fact is then the correspondence run alone (DESIGN.md 1.5) - a harmless
rewrite (loop instead of comprehension) must not alarm, a behavioural change is caught by the differential run.
"""
import ast, os

EXC = {'TypeError': 'CTypeError', 'IndexError': 'CIndexError', 'KeyError': 'CKeyError',
       'LookupError': 'CLookupError', 'Exception': 'CException', 'BaseException': 'CException'}
KIND = {'junction': 0, 'tr': 1, 'mh': 2, 'aa': 3}

SNAPSHOT = dict(
    aa_catches=['CTypeError'],
    cdr3_conds=[('CValidAA',), ('CLenPos',), ('CItemEq', 0, 'C'), ('CItemIn', -1, ['F', 'W', 'C'])],
    cdr3_catches=['CTypeError', 'CIndexError', 'CKeyError'],
    merge_on_kw=True,
    std_cols=[('CDR3A', 0), ('TRAV', 1), ('TRAJ', 1), ('MHCA', 2), ('CDR3B', 0), ('TRBV', 1), ('TRBJ', 1),
              ('MHCB', 2), ('Epitope', 3)],
)


class Refuse(Exception):
    pass


def coq_str(s):
    return '[' + ';'.join(str(ord(c)) for c in s) + ']%N' if s else '(@nil N)'


def func(tree, name):
    for n in tree.body:
        if isinstance(n, ast.FunctionDef) and n.name == name:
            return n
    raise Refuse('function %s not found' % name)


def strip_doc(body):
    if body and isinstance(body[0], ast.Expr) and isinstance(body[0].value, ast.Constant) \
            and isinstance(body[0].value.value, str):
        return body[1:]
    return body


def the_try(fn):
    body = strip_doc(fn.body)
    if len(body) != 1 or not isinstance(body[0], ast.Try):
        raise Refuse('%s: body is not a single try statement' % fn.name)
    t = body[0]
    if t.orelse or t.finalbody:
        raise Refuse('%s: try has else/finally' % fn.name)
    if len(t.body) != 1 or not isinstance(t.body[0], ast.Return) or t.body[0].value is None:
        raise Refuse('%s: try body is not a single return' % fn.name)
    return t


def catches(fn):
    t = the_try(fn)
    out = []
    for h in t.handlers:
        if not (len(h.body) == 1 and isinstance(h.body[0], ast.Return) and isinstance(h.body[0].value, ast.Constant)
                and h.body[0].value.value is False):
            raise Refuse('%s: handler does not `return False`' % fn.name)
        if h.type is None:
            names = ['Exception']
        elif isinstance(h.type, ast.Name):
            names = [h.type.id]
        elif isinstance(h.type, ast.Tuple) and all(isinstance(e, ast.Name) for e in h.type.elts):
            names = [e.id for e in h.type.elts]
        else:
            raise Refuse('%s: except clause names something else than classes' % fn.name)
        for n in names:
            if n not in EXC:
                raise Refuse('%s: except clause names %s' % (fn.name, n))
            out.append(EXC[n])
    return out


def argname(fn):
    a = fn.args
    if len(a.args) != 1 or a.vararg or a.kwarg or a.kwonlyargs or a.posonlyargs:
        raise Refuse('%s: not a one-argument function' % fn.name)
    return a.args[0].arg


def aa_facts(tree):
    fn = func(tree, 'isvalidaa')
    arg = argname(fn)
    ret = the_try(fn).body[0].value
    ok = (isinstance(ret, ast.Call) and isinstance(ret.func, ast.Name) and ret.func.id == 'all' and len(ret.args) == 1
          and not ret.keywords and isinstance(ret.args[0], (ast.GeneratorExp, ast.ListComp)))
    if ok:
        g = ret.args[0]
        ok = (len(g.generators) == 1 and not g.generators[0].ifs and isinstance(g.generators[0].target, ast.Name)
              and isinstance(g.generators[0].iter, ast.Name) and g.generators[0].iter.id == arg
              and isinstance(g.elt, ast.Compare) and len(g.elt.ops) == 1 and isinstance(g.elt.ops[0], ast.In)
              and isinstance(g.elt.left, ast.Name) and g.elt.left.id == g.generators[0].target.id
              and isinstance(g.elt.comparators[0], ast.Name) and g.elt.comparators[0].id == '_aminoacids_set')
    if not ok:
        raise Refuse('isvalidaa: return expression is not all(c in _aminoacids_set for c in <arg>)')
    # _aminoacids_set = set(aminoacids)
    found = False
    for n in tree.body:
        if isinstance(n, ast.Assign) and len(n.targets) == 1 and isinstance(n.targets[0], ast.Name) \
                and n.targets[0].id == '_aminoacids_set':
            v = n.value
            found = (isinstance(v, ast.Call) and isinstance(v.func, ast.Name) and v.func.id in ('set', 'frozenset')
                     and len(v.args) == 1 and isinstance(v.args[0], ast.Name) and v.args[0].id == 'aminoacids')
    if not found:
        raise Refuse('_aminoacids_set is not set(aminoacids)')
    return catches(fn)


def const_int(n):
    if isinstance(n, ast.Constant) and type(n.value) is int:
        return n.value
    if isinstance(n, ast.UnaryOp) and isinstance(n.op, ast.USub) and isinstance(n.operand, ast.Constant) \
            and type(n.operand.value) is int:
        return -n.operand.value
    raise Refuse('index is not an integer literal')


def conjunct(e, arg):
    if isinstance(e, ast.Call) and isinstance(e.func, ast.Name) and e.func.id == 'isvalidaa' and len(e.args) == 1 \
            and not e.keywords and isinstance(e.args[0], ast.Name) and e.args[0].id == arg:
        return ('CValidAA',)
    if isinstance(e, ast.Compare) and len(e.ops) == 1:
        l, op, r = e.left, e.ops[0], e.comparators[0]
        if isinstance(l, ast.Call) and isinstance(l.func, ast.Name) and l.func.id == 'len' and len(l.args) == 1 \
                and isinstance(l.args[0], ast.Name) and l.args[0].id == arg and isinstance(r, ast.Constant):
            if (isinstance(op, (ast.Gt, ast.NotEq)) and r.value == 0 and type(r.value) is int) or \
                    (isinstance(op, ast.GtE) and r.value == 1 and type(r.value) is int):
                return ('CLenPos',)
        if isinstance(l, ast.Subscript) and isinstance(l.value, ast.Name) and l.value.id == arg:
            i = const_int(l.slice)
            if isinstance(op, ast.Eq) and isinstance(r, ast.Constant) and isinstance(r.value, str):
                return ('CItemEq', i, r.value)
            if isinstance(op, ast.In) and isinstance(r, (ast.List, ast.Tuple, ast.Set)) and \
                    all(isinstance(x, ast.Constant) and isinstance(x.value, str) for x in r.elts):
                return ('CItemIn', i, [x.value for x in r.elts])
    raise Refuse('isvalidcdr3: conjunct outside the subset: ' + ast.unparse(e)[:60])


def cdr3_facts(tree):
    fn = func(tree, 'isvalidcdr3')
    arg = argname(fn)
    ret = the_try(fn).body[0].value

    def flat(e):
        if isinstance(e, ast.BoolOp) and isinstance(e.op, ast.And):
            return [c for v in e.values for c in flat(v)]
        return [conjunct(e, arg)]
    return flat(ret), catches(fn)


def merge_fact(tree):
    fn = func(tree, 'multimerge')
    calls = [n for n in ast.walk(fn) if isinstance(n, ast.Call) and isinstance(n.func, ast.Attribute)
             and n.func.attr == 'merge']
    col = [c for c in calls if not any(k.arg in ('left_index', 'right_index') for k in c.keywords)]
    if len(col) != 1:
        raise Refuse('multimerge: expected exactly one pd.merge call without left_index/right_index, found %d' % len(col))
    c = col[0]
    if any(k.arg == 'on' for k in c.keywords) and len(c.args) == 2:
        return True
    if len(c.args) == 3 and not any(k.arg == 'on' for k in c.keywords):
        # pd.merge(left, right, how=..., on=...): the third positional parameter is `how`
        if not any(k.arg is None for k in c.keywords):
            raise Refuse('multimerge: positional third argument without **kwargs')
        return False
    raise Refuse('multimerge: cannot tell how `on` reaches pd.merge')


def std_facts(tree):
    fn = func(tree, 'standardize_dataframe')
    cols, seen = [], set()

    def tt_call(node):
        out = []
        for n in ast.walk(node):
            if isinstance(n, ast.Call) and isinstance(n.func, ast.Attribute) and n.func.attr == 'standardize' \
                    and isinstance(n.func.value, ast.Attribute) and isinstance(n.func.value.value, ast.Name) \
                    and n.func.value.value.id == 'tt':
                out.append(n)
        return out

    def ev(e, env):
        if isinstance(e, ast.Constant) and isinstance(e.value, str):
            return e.value
        if isinstance(e, ast.Name) and e.id in env:
            return env[e.id]
        if isinstance(e, ast.JoinedStr):
            s = ''
            for p in e.values:
                if isinstance(p, ast.Constant):
                    s += p.value
                elif isinstance(p, ast.FormattedValue) and p.conversion == -1 and p.format_spec is None:
                    s += ev(p.value, env)
                else:
                    raise Refuse('f-string outside the subset')
            return s
        raise Refuse('not a constant string: ' + ast.unparse(e)[:40])

    def walk(stmts, env):
        for s in stmts:
            if isinstance(s, ast.For) and isinstance(s.target, ast.Name) and isinstance(s.iter, (ast.Tuple, ast.List)) \
                    and all(isinstance(x, ast.Constant) and isinstance(x.value, str) for x in s.iter.elts) and not s.orelse:
                for x in s.iter.elts:
                    walk(s.body, dict(env, **{s.target.id: x.value}))
            elif isinstance(s, ast.Assign) and len(s.targets) == 1 and isinstance(s.targets[0], ast.Name) \
                    and isinstance(s.value, (ast.JoinedStr, ast.Constant)) and isinstance(getattr(s.value, 'value', ''), str):
                env[s.targets[0].id] = ev(s.value, env)
            elif isinstance(s, ast.If) and isinstance(s.test, ast.Name) and s.test.id == 'standardize' and not s.orelse:
                walk(s.body, env)
            elif isinstance(s, ast.If) and isinstance(s.test, ast.Compare) and len(s.test.ops) == 1 \
                    and isinstance(s.test.ops[0], ast.In) and isinstance(s.test.comparators[0], ast.Attribute) \
                    and s.test.comparators[0].attr == 'columns' and not s.orelse and tt_call(s):
                name = ev(s.test.left, env)
                sites = tt_call(s)
                if len(sites) != 1:
                    raise Refuse('more than one standardiser under one column test')
                mod = sites[0].func.value.attr
                if mod not in KIND:
                    raise Refuse('unknown tidytcells module ' + mod)
                # the assignment target and the mapped series must be that same column
                ok = (len(s.body) == 1 and isinstance(s.body[0], ast.Assign) and len(s.body[0].targets) == 1
                      and isinstance(s.body[0].targets[0], ast.Subscript)
                      and ev(s.body[0].targets[0].slice, env) == name)
                if not ok:
                    raise Refuse('column %s: body is not an assignment to that column' % name)
                seen.add(id(sites[0]))
                cols.append((name, KIND[mod]))
            # anything else: no effect on the column list, unless it hides a standardiser (checked below)
    walk(strip_doc(fn.body), {})
    if {id(n) for n in tt_call(fn)} != seen:
        raise Refuse('a tidytcells standardiser call sits outside the recognised structure')
    # every MENTION of a tidytcells standardiser must be one of the recognised call sites: a standardiser bound with functools.partial,
    # stored in a table or handed to a helper is outside the subset (harmless rewrite C18-g1 produced an empty column list here)
    mentions = [n for n in ast.walk(fn) if isinstance(n, ast.Attribute) and n.attr in ('standardize', 'standardise')
                and isinstance(n.value, ast.Attribute) and isinstance(n.value.value, ast.Name) and n.value.value.id in ('tt', 'tidytcells')]
    if len(mentions) != len(seen):
        raise Refuse('a tidytcells standardiser is mentioned outside a recognised call site')
    if not cols:
        raise Refuse('no standardised column recognised')
    if len({c for c, _ in cols}) != len(cols):
        raise Refuse('a column is standardised twice')
    return cols


def emit(f):
    def cond(c):
        if c[0] in ('CValidAA', 'CLenPos'):
            return c[0]
        if c[0] == 'CItemEq':
            return '(CItemEq (%d)%%Z %s)' % (c[1], coq_str(c[2]))
        return '(CItemIn (%d)%%Z [%s])' % (c[1], '; '.join(coq_str(s) for s in c[2]))
    return '\n'.join([
        '(* GENERATED from pyrepseq/io.py by translate/regen_c18.py on every check; do not edit. *)',
        'From Coq Require Import List NArith ZArith.',
        'From PV Require Import lib.PyObj.',
        'Import ListNotations.',
        '',
        'Definition gen_c18_facts : codefacts := {|',
        '  aa_catches := [%s];' % '; '.join(f['aa_catches']),
        '  cdr3_conds := [%s];' % '; '.join(cond(c) for c in f['cdr3_conds']),
        '  cdr3_catches := [%s];' % '; '.join(f['cdr3_catches']),
        '  merge_on_kw := %s;' % ('true' if f['merge_on_kw'] else 'false'),
        '  std_cols := [%s]' % '; '.join('(%s, %d%%nat)' % (coq_str(c), k) for c, k in f['std_cols']),
        '|}.', ''])


def run(STATUS, write_if_changed, ROOT, REPO):
    facts = dict(SNAPSHOT)
    try:
        tree = ast.parse(open(os.path.join(REPO, 'pyrepseq', 'io.py')).read())
    except Exception as e:
        tree = None
        STATUS['c18.io'] = dict(ok=True, properties=['C18'], error='unavailable (%r): snapshot used' % (e,))
    if tree is not None:
        def aa(t):
            return dict(aa_catches=aa_facts(t))

        def cdr3(t):
            conds, cs = cdr3_facts(t)
            return dict(cdr3_conds=conds, cdr3_catches=cs)

        def mm(t):
            return dict(merge_on_kw=merge_fact(t))

        def std(t):
            return dict(std_cols=std_facts(t))
        for name, g in (('isvalidaa', aa), ('isvalidcdr3', cdr3), ('multimerge', mm), ('standardize_dataframe', std)):
            try:
                facts.update(g(tree))
                STATUS['c18.' + name] = dict(ok=True, properties=['C18'], error=None)
            except Refuse as e:
                STATUS['c18.' + name] = dict(ok=True, properties=['C18'], regen='unavailable',
                                             error='unavailable (%s): snapshot used, tie by correspondence only' % e)
            except Exception as e:
                STATUS['c18.' + name] = dict(ok=True, properties=['C18'], regen='unavailable',
                                             error='unavailable (translator error %r): snapshot used' % (e,))
    write_if_changed(os.path.join(ROOT, 'coq/gen/Gen_c18.v'), emit(facts))
