#!/bin/bash
# Run once after a fresh restore: full Coq build (every proof re-checked) + oracle.
cd "$(dirname "$0")"
./build.sh
rc=$?
# a partial build (a proof that no longer checks) is reported by the individual checks
if [ $rc -eq 0 ] || [ $rc -eq 5 ]; then exit 0; fi
exit $rc
