(* C12 source tie (third part): next_nearest_neighbors, find_neighbor_pairs and find_neighbor_pairs_index as written in
   pyrepseq/distance.py (gen/Gen_c12c.v, regenerated on every run) against the models of model/Nbrs.v - for every order in which
   Python may iterate over a set (iterS) and every fixed order of sorted(set(..)) (sortedS). *)
From Coq Require Import List Arith Bool Lia Permutation.
From PV Require Import lib.Str lib.PyDict lib.NpUnique model.Nbrs gen.Gen_c12c proofs.NbrsP.
Import ListNotations.

Definition set_order_ok (iterS : list str -> list str) : Prop := forall l, NoDup (iterS l) /\ forall c, In c (iterS l) <-> In c l.
Definition eqv (l l' : list str) : Prop := forall y, In y l <-> In y l'.

Lemma fold_extend (nb : str -> list str) : forall l acc, fold_left (fun acc y => acc ++ nb y) l acc = acc ++ flat_map nb l.
Proof.
  induction l as [|a l IH]; intros acc; cbn [fold_left flat_map]; [now rewrite app_nil_r|].
  rewrite IH, app_assoc. reflexivity.
Qed.

Lemma flat_map_eqv (nb : str -> list str) c c' : eqv c c' -> eqv (flat_map nb c) (flat_map nb c').
Proof.
  intros E y. rewrite !in_flat_map. split; intros [s [Hs Hy]]; exists s; split; auto; apply E; auto.
Qed.

Lemma nn_levels_eqv (nb : str -> list str) : forall m c c', eqv c c' -> eqv (nn_levels nb m c) (nn_levels nb m c').
Proof.
  induction m as [|m IH]; intros c c' E y; cbn [nn_levels]; [tauto|].
  rewrite !in_app_iff, (E y).
  assert (E2 : eqv (nodups (flat_map nb c)) (nodups (flat_map nb c'))).
  { intros z. unfold nodups. rewrite !nodup_In. apply flat_map_eqv, E. }
  rewrite (IH _ _ E2 y). tauto.
Qed.

Section NNN.
Variable iterS : list str -> list str.
Hypothesis IS : set_order_ok iterS.
Variable nb : str -> list str.

Lemma nnn_while_levels : forall f L c c', eqv c c' ->
  eqv (concat (gen_nnn_while iterS nb f (L ++ [c]))) (concat L ++ nn_levels nb (S f) c').
Proof.
  induction f as [|f IH]; intros L c c' E y.
  - cbn [gen_nnn_while nn_levels]. rewrite concat_app. cbn [concat]. rewrite !in_app_iff, (E y). tauto.
  - cbn [gen_nnn_while]. rewrite last_last, fold_extend. cbn [app].
    assert (E2 : eqv (iterS (flat_map nb c)) (nodups (flat_map nb c'))).
    { intros z. rewrite (proj2 (IS _) z). unfold nodups. rewrite nodup_In. apply flat_map_eqv, E. }
    rewrite (IH (L ++ [c]) _ _ E2 y). rewrite concat_app. cbn [concat].
    change (nn_levels nb (S (S f)) c') with (c' ++ nn_levels nb (S f) (nodups (flat_map nb c'))).
    rewrite !in_app_iff, (E y). cbn [In]. tauto.
Qed.

Theorem gen_next_nearest_model x m y : 1 <= m ->
  (In y (gen_next_nearest_neighbors iterS nb x m) <-> In y (next_nearest nb m x)).
Proof.
  intros Hm. unfold gen_next_nearest_neighbors, next_nearest, gen_flatten_list.
  assert (R : forall (l : list str), In y (remove str_eq_dec x l) <-> In y l /\ y <> x).
  { intros l. split; [apply in_remove|intros [A B]; apply in_in_remove; auto]. }
  rewrite !R. rewrite (proj2 (IS _) y). unfold nodups. rewrite nodup_In.
  replace m with (S (m - 1)) at 2 by lia.
  pose proof (nnn_while_levels (m - 1) [] (nb x) (nb x) (fun z => iff_refl _) y) as H. cbn [app concat] in H.
  rewrite H. tauto.
Qed.

Theorem gen_next_nearest_nodup x m : NoDup (gen_next_nearest_neighbors iterS nb x m).
Proof.
  unfold gen_next_nearest_neighbors.
  assert (R : forall l : list str, NoDup l -> NoDup (remove str_eq_dec x l)).
  { induction l as [|a l IHl]; intros H; cbn [remove]; [constructor|]. inversion H; subst.
    destruct (str_eq_dec x a); [auto|]. constructor; [|auto]. intros C. apply in_remove in C. tauto. }
  apply R, IS.
Qed.
End NNN.

(* ------------------------------------------------------------------ find_neighbor_pairs *)
Section Pairs.
Variables sortedS iterS : list str -> list str.
Hypothesis SS : set_order_ok sortedS.
Hypothesis IS : set_order_ok iterS.
Variable nb : str -> list str.

Lemma remove_eqv x r r' : eqv r r' -> eqv (remove str_eq_dec x r) (remove str_eq_dec x r').
Proof.
  intros E y. split; intros H; apply in_remove in H; destruct H as [A B]; apply in_in_remove; auto; apply E; auto.
Qed.

Lemma block_perm x r r' : eqv r r' ->
  Permutation (map (fun y => (x, y)) (iterS (filter (fun c => memb str_eq_dec c r) (iterS (nb x)))))
              (map (fun y => (x, y)) (filter (fun y => memb str_eq_dec y r') (nodups (nb x)))).
Proof.
  intros E. apply Permutation_map. apply NoDup_Permutation.
  - apply IS.
  - apply NoDup_filter. apply NoDup_nodup.
  - intros y. rewrite (proj2 (IS _) y), !filter_In, (proj2 (IS _) y). unfold nodups. rewrite nodup_In, !memb_In, (E y). tauto.
Qed.

Lemma pairs_loop (step : list (str * str) * list str -> str -> list (str * str) * list str) :
  (forall pairs r x, step (pairs, r) x =
     (pairs ++ map (fun y => (x, y)) (iterS (filter (fun c => memb str_eq_dec c r) (iterS (nb x)))), remove str_eq_dec x r)) ->
  forall xs pairs r r', eqv r r' ->
  Permutation (fst (fold_left step xs (pairs, r))) (pairs ++ fp_go nb xs r').
Proof.
  intros Hstep. induction xs as [|x xs IH]; intros pairs r r' E; cbn [fold_left fp_go].
  - rewrite app_nil_r. reflexivity.
  - rewrite Hstep. rewrite (IH _ _ (remove str_eq_dec x r') (remove_eqv x r r' E)).
    rewrite <- app_assoc. apply Permutation_app_head. apply Permutation_app_tail. apply block_perm, E.
Qed.

Theorem gen_find_pairs_model seqs :
  Permutation (gen_find_neighbor_pairs sortedS iterS nb seqs) (find_pairs nb (sortedS seqs)).
Proof.
  unfold gen_find_neighbor_pairs. rewrite find_pairs_go.
  apply (pairs_loop _ (fun pairs r x => eq_refl) (sortedS seqs) [] (iterS seqs) (sortedS seqs)).
  intros y. rewrite (proj2 (IS _) y), (proj2 (SS _) y). tauto.
Qed.
End Pairs.

(* ------------------------------------------------------------------ find_neighbor_pairs_index *)
Lemma fold_app_flat {A B} (F : A -> list B) : forall l acc, fold_left (fun acc a => acc ++ F a) l acc = acc ++ flat_map F l.
Proof.
  induction l as [|a l IH]; intros acc; cbn [fold_left flat_map]; [now rewrite app_nil_r|].
  rewrite IH, app_assoc. reflexivity.
Qed.

Lemma in_enumerate_from {A} : forall (l : list A) s i x, In (i, x) (combine (seq s (length l)) l) <-> s <= i /\ nth_error l (i - s) = Some x.
Proof.
  induction l as [|a l IH]; intros s i x; cbn [length seq combine].
  - split; [intros []|]. intros [_ H]. destruct (i - s); discriminate.
  - cbn [In]. rewrite IH. split.
    + intros [E|[H1 H2]].
      * inversion E; subst. rewrite Nat.sub_diag. split; [lia|reflexivity].
      * split; [lia|]. replace (i - s) with (S (i - S s)) by lia. exact H2.
    + intros [H1 H2]. destruct (Nat.eq_dec i s) as [->|N].
      * rewrite Nat.sub_diag in H2. cbn in H2. left. congruence.
      * right. split; [lia|]. replace (i - s) with (S (i - S s)) in H2 by lia. exact H2.
Qed.

Lemma in_enumerate {A} (l : list A) i x : In (i, x) (enumerate l) <-> nth_error l i = Some x.
Proof. unfold enumerate. rewrite in_enumerate_from, Nat.sub_0_r. split; [tauto|split; [lia|assumption]]. Qed.

Section PairsIndex.
Variable iterS : list str -> list str.
Hypothesis IS : set_order_ok iterS.
Variable nb : str -> list str.

Theorem gen_find_pairs_index_spec seqs i j :
  In (i, j) (gen_find_neighbor_pairs_index iterS nb seqs) <->
  exists x y, nth_error seqs i = Some x /\ In y (nb x) /\ In y seqs /\ j = index_of str_eq_dec y seqs.
Proof.
  unfold gen_find_neighbor_pairs_index. rewrite fold_app_flat. cbn [app]. rewrite in_flat_map. split.
  - intros [[i0 x] [Hix H]]. cbn [fst snd] in H. apply in_map_iff in H. destruct H as [y [E Hy]]. inversion E; subst.
    apply in_enumerate in Hix.
    rewrite (proj2 (IS _) y), filter_In, (proj2 (IS _) y), memb_In, (proj2 (IS _) y) in Hy.
    exists x, y. tauto.
  - intros [x [y [H1 [H2 [H3 ->]]]]]. exists (i, x). split; [apply in_enumerate, H1|]. cbn [fst snd].
    apply in_map_iff. exists y. split; [reflexivity|].
    rewrite (proj2 (IS _) y), filter_In, (proj2 (IS _) y), memb_In, (proj2 (IS _) y). tauto.
Qed.

(* for a duplicate-free input the second component is THE position of the neighbour *)
Lemma index_of_nth (l : list str) y : In y l -> nth_error l (index_of str_eq_dec y l) = Some y.
Proof.
  induction l as [|a l IH]; intros H; [destruct H|]. cbn [index_of]. destruct (str_eq_dec y a) as [->|N]; [reflexivity|].
  cbn [nth_error]. apply IH. destruct H; [congruence|assumption].
Qed.
Lemma nth_index_of (l : list str) : NoDup l -> forall j y, nth_error l j = Some y -> index_of str_eq_dec y l = j.
Proof.
  induction l as [|a l IH]; intros Hnd j y H; [destruct j; discriminate|]. inversion Hnd; subst. cbn [index_of].
  destruct j as [|j]; cbn [nth_error] in H.
  - inversion H; subst. destruct (str_eq_dec y y); [reflexivity|congruence].
  - destruct (str_eq_dec y a) as [->|N]; [exfalso; apply nth_error_In in H; auto|]. f_equal. apply IH; auto.
Qed.

Theorem gen_find_pairs_index_unique seqs i j : NoDup seqs ->
  (In (i, j) (gen_find_neighbor_pairs_index iterS nb seqs) <->
   exists x y, nth_error seqs i = Some x /\ nth_error seqs j = Some y /\ In y (nb x)).
Proof.
  intros Hnd. rewrite gen_find_pairs_index_spec. split.
  - intros [x [y [H1 [H2 [H3 ->]]]]]. exists x, y. split; [auto|]. split; [apply index_of_nth, H3|auto].
  - intros [x [y [H1 [H2 H3]]]]. exists x, y. split; [auto|]. split; [auto|]. split; [eapply nth_error_In; eauto|].
    symmetry. apply nth_index_of; auto.
Qed.
End PairsIndex.
