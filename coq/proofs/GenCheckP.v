(* The argument validator as written in pyrepseq/nn.py (gen/Gen_c10.v, regenerated on every run) is the decision table of the model. *)
From Coq Require Import List Bool Arith ZArith String Lia Permutation Btauto.
From PV Require Import model.Output gen.Gen_c10.
Import ListNotations.
Open Scope string_scope.

Lemma gen_check_input_eq : forall a, gen_check_input a = check_input a.
Proof.
  intros [len ss mei me mr nci nc cok mcn mcnn ok s2].
  unfold gen_check_input, check_input;
    cbn [a_len a_seqs_strings a_max_edits_int a_max_edits a_max_returns a_n_cpu_int a_n_cpu a_custom_ok a_maxc_number a_maxc_nonneg
         a_output_known a_seqs2].
  (* order-independent: boolean ring identity in the atoms, per shape of the two optional arguments *)
  destruct mr as [[isint v]|]; destruct s2 as [b|]; btauto.
Qed.

(* the accepted output names are exactly the two names the formatter dispatches on plus the dense fall-through (as sets: the order
   in the source literal is free) *)
Lemma gen_output_types_ok :
  (forall s, In s gen_output_types <-> In s ["triplets"; "coo_matrix"; "ndarray"]) /\ NoDup gen_output_types /\
  incl gen_output_dispatch gen_output_types /\ NoDup gen_output_dispatch /\ List.length gen_output_dispatch = 2 /\
  ~ In "ndarray" gen_output_dispatch.
Proof.
  unfold gen_output_types, gen_output_dispatch. repeat split.
  - simpl. intuition.
  - simpl. intuition.
  - repeat constructor; simpl; intuition congruence.
  - intros x Hx. simpl in *. intuition.
  - repeat constructor; simpl; intuition congruence.
  - simpl. intuition congruence.
Qed.

Lemma gen_engines_validate_ok : forallb snd gen_engines_validate = true /\
  map fst gen_engines_validate = ["kdtree"; "hash_based"; "symdel"; "nearest_neighbor"].
Proof. split; reflexivity. Qed.
