(* C20 - lemmas about effect summaries and the call-history state machine. *)
From Coq Require Import List String Bool Arith ZArith Lia.
From PV Require Import model.Effects.
Import ListNotations.
Open Scope string_scope.
Open Scope list_scope.

(* ------------------------------------------------------------------ lists of names *)
Lemma mem_In g l : mem g l = true <-> In g l.
Proof.
  unfold mem. rewrite existsb_exists. split.
  - intros [x [Hx E]]. apply String.eqb_eq in E. subst. exact Hx.
  - intro H. exists g. split; [exact H|apply String.eqb_refl].
Qed.

Lemma mem_false g l : mem g l = false <-> ~ In g l.
Proof.
  split.
  - intros E H. apply mem_In in H. congruence.
  - intro H. destruct (mem g l) eqn:E; [|reflexivity]. apply mem_In in E. contradiction.
Qed.

Lemma inter_In g a b : In g (inter a b) <-> In g a /\ In g b.
Proof. unfold inter. rewrite filter_In, mem_In. tauto. Qed.

(* ------------------------------------------------------------------ traces vs. summaries *)
Lemma lin_writes_app t1 t2 : lin_writes (t1 ++ t2) = lin_writes t1 ++ lin_writes t2.
Proof. induction t1 as [|[g|g] t1 IH]; simpl; congruence. Qed.

Lemma writes_sound e t : runs e t -> incl (lin_writes t) (writes e).
Proof.
  induction 1; simpl; try rewrite lin_writes_app; intros x Hx; simpl in *; auto; try contradiction.
  - apply in_app_or in Hx. apply in_or_app. destruct Hx; [left|right]; auto.
  - apply in_or_app. left. auto.
  - apply in_or_app. right. auto.
  - apply in_app_or in Hx. destruct Hx; auto.
Qed.

Lemma mustw_sound e t : runs e t -> incl (mustw e) (lin_writes t).
Proof.
  induction 1; simpl; try rewrite lin_writes_app; intros x Hx; simpl in *; auto; try contradiction.
  - apply in_app_or in Hx. apply in_or_app. destruct Hx; [left|right]; auto.
  - apply inter_In in Hx. apply IHruns. tauto.
  - apply inter_In in Hx. apply IHruns. tauto.
Qed.

Lemma lin_rbw_mono t : forall W W', (forall g, In g W -> In g W') -> incl (lin_rbw W' t) (lin_rbw W t).
Proof.
  induction t as [|[g|g] t IH]; intros W W' HW x Hx; simpl in *; auto.
  - apply in_app_or in Hx. apply in_or_app. destruct Hx as [Hx|Hx].
    + left. destruct (mem g W') eqn:E'; [contradiction|].
      destruct (mem g W) eqn:E; [|exact Hx].
      apply mem_In in E. apply HW in E. apply mem_false in E'. contradiction.
    + right. eapply IH; eauto.
  - eapply IH; [|exact Hx]. intros y [Hy|Hy]; [left; exact Hy|right; auto].
Qed.

Lemma lin_rbw_app t1 : forall t2 W,
  incl (lin_rbw W (t1 ++ t2)) (lin_rbw W t1 ++ lin_rbw (lin_writes t1 ++ W) t2).
Proof.
  induction t1 as [|[g|g] t1 IH]; intros t2 W x Hx; simpl in *.
  - exact Hx.
  - apply in_app_or in Hx. rewrite <- app_assoc. apply in_or_app. destruct Hx as [Hx|Hx]; [left; exact Hx|right].
    apply IH. exact Hx.
  - apply IH in Hx. apply in_app_or in Hx. apply in_or_app. destruct Hx as [Hx|Hx]; [left; exact Hx|right].
    eapply lin_rbw_mono; [|exact Hx].
    intros y Hy. simpl in Hy. destruct Hy as [Hy|Hy].
    + apply in_or_app. right. left. exact Hy.
    + apply in_app_or in Hy. apply in_or_app. destruct Hy; [left; auto|right; right; auto].
Qed.

Lemma lin_rbw_prefix t : forall t' W, incl (lin_rbw W t) (lin_rbw W (t ++ t')).
Proof.
  induction t as [|[g|g] t IH]; intros t' W x Hx; simpl in *.
  - contradiction.
  - apply in_app_or in Hx. apply in_or_app. destruct Hx; [left; auto|right; apply IH; auto].
  - apply IH. exact Hx.
Qed.

Lemma rbw_sound e t : runs e t -> forall W, incl (lin_rbw W t) (rbw W e).
Proof.
  induction 1; intros W x Hx; simpl in *; auto; try contradiction.
  - rewrite app_nil_r in Hx. exact Hx.
  - apply lin_rbw_app in Hx. apply in_app_or in Hx. apply in_or_app. destruct Hx as [Hx|Hx].
    + left. apply IHruns1. exact Hx.
    + right. apply IHruns2. eapply lin_rbw_mono; [|exact Hx].
      intros y Hy. apply in_app_or in Hy. apply in_or_app. destruct Hy as [Hy|Hy]; [left|right; exact Hy].
      eapply mustw_sound; eauto.
  - apply in_or_app. left. apply IHruns. exact Hx.
  - apply in_or_app. right. apply IHruns. exact Hx.
  - apply lin_rbw_app in Hx. apply in_app_or in Hx. destruct Hx as [Hx|Hx].
    + apply IHruns1. exact Hx.
    + apply IHruns2. eapply lin_rbw_mono; [|exact Hx]. intros y Hy. apply in_or_app. right. exact Hy.
Qed.

Lemma rbw_sound_prefix e t W : runs_prefix e t -> incl (lin_rbw W t) (rbw W e).
Proof.
  intros [t' H] x Hx. eapply rbw_sound; eauto. apply lin_rbw_prefix. exact Hx.
Qed.

(* ------------------------------------------------------------------ store level *)
Definition agree (W : list gname) (s1 s2 : store) : Prop := forall g, In g W -> s1 g = s2 g.

Lemma exec_indep wv t : forall W s1 s2 obs,
  (forall g, In g (lin_rbw W t) -> s1 g = s2 g) -> agree W s1 s2 ->
  snd (exec wv t s1 obs) = snd (exec wv t s2 obs)
  /\ agree (lin_writes t ++ W) (fst (exec wv t s1 obs)) (fst (exec wv t s2 obs)).
Proof.
  induction t as [|[g|g] t IH]; intros W s1 s2 obs Hr Ha; simpl in *.
  - split; [reflexivity|exact Ha].
  - assert (E : s1 g = s2 g).
    { destruct (mem g W) eqn:M.
      - apply Ha. apply mem_In. exact M.
      - apply Hr. apply in_or_app. left. left. reflexivity. }
    rewrite E. apply IH; [|exact Ha]. intros y Hy. apply Hr. apply in_or_app. right. exact Hy.
  - destruct (IH (g :: W) (supd s1 g (wv obs)) (supd s2 g (wv obs)) obs) as [I1 I2].
    + intros y Hy. unfold supd. destruct (String.eqb g y); [reflexivity|]. apply Hr. exact Hy.
    + intros y Hy. unfold supd. destruct (String.eqb g y) eqn:E; [reflexivity|].
      destruct Hy as [Hy|Hy]; [subst; rewrite String.eqb_refl in E; discriminate|apply Ha; exact Hy].
    + split; [exact I1|]. intros y Hy. apply I2. apply in_or_app.
      destruct Hy as [Hy|Hy]; [right; left; exact Hy|].
      apply in_app_or in Hy. destruct Hy; [left; auto|right; right; auto].
Qed.

(* values a call reads from module globals depend only on the initial values of its
   read-before-write globals; everything else it reads was written by the call itself *)
Lemma dominated_reads e t wv s1 s2 :
  runs_prefix e t -> (forall g, In g (rbw [] e) -> s1 g = s2 g) ->
  snd (exec wv t s1 []) = snd (exec wv t s2 []).
Proof.
  intros Hp Hr. apply (exec_indep wv t [] s1 s2 []).
  - intros g Hg. apply Hr. eapply rbw_sound_prefix; eauto.
  - intros g [].
Qed.

(* ------------------------------------------------------------------ call level *)
Lemma loc_eqb_eq a b : loc_eqb a b = true <-> a = b.
Proof.
  destruct a, b; simpl; try (split; [discriminate|congruence]).
  - rewrite String.eqb_eq. split; congruence.
  - rewrite andb_true_iff, !String.eqb_eq. split; [intros [-> ->]; reflexivity|intro H; inversion H; auto].
  - rewrite Nat.eqb_eq. split; congruence.
  - tauto.
Qed.

Lemma upd_same s l v : upd s l v l = v.
Proof. unfold upd. assert (E : loc_eqb l l = true) by (apply loc_eqb_eq; reflexivity). now rewrite E. Qed.

Lemma upd_other s l v l' : l <> l' -> upd s l v l' = s l'.
Proof.
  intro H. unfold upd. destruct (loc_eqb l l') eqn:E; [|reflexivity]. apply loc_eqb_eq in E. contradiction.
Qed.

Lemma write_list_other ls : forall s vs l, ~ In l ls -> write_list s ls vs l = s l.
Proof.
  induction ls as [|l0 ls IH]; intros s vs l H; simpl; [reflexivity|].
  destruct vs as [|v vs]; [reflexivity|].
  rewrite IH by (intro; apply H; right; assumption).
  apply upd_other. intro; apply H; left; assumption.
Qed.

Lemma find_entry_In T f e : find_entry T f = Some e -> In e T /\ e_name e = f.
Proof.
  induction T as [|e0 T IH]; simpl; [discriminate|].
  destruct (String.eqb (e_name e0) f) eqn:E.
  - intro H. inversion H; subst. split; [left; reflexivity|apply String.eqb_eq; exact E].
  - intro H. destruct (IH H). split; [right; assumption|assumption].
Qed.

Lemma nilb_nil {A} (l : list A) : nilb l = true -> l = [].
Proof. destruct l; [reflexivity|discriminate]. Qed.

Lemma pure_entry_clean T e : table_pure T = true -> In e T ->
  e_mut_params e = [] /\ e_mut_defaults e = [] /\ e_mut_globals e = [] /\ e_unknown e = [].
Proof.
  unfold table_pure. rewrite andb_true_iff, forallb_forall. intros [H _] He.
  specialize (H e He). unfold entry_clean in H. rewrite !andb_true_iff in H.
  destruct H as [[[H1 H2] H3] H4]. repeat split; apply nilb_nil; assumption.
Qed.

Lemma pure_rbw_not_written T e g : table_pure T = true -> In e T ->
  In g (rbw [] (e_glob e)) -> ~ In g (allwrites T).
Proof.
  unfold table_pure. rewrite andb_true_iff, !forallb_forall. intros [_ H] He Hg.
  assert (Hin : In g (allrbw T)) by (unfold allrbw; apply in_flat_map; exists e; auto).
  specialize (H g Hin). apply negb_true_iff in H. apply mem_false. exact H.
Qed.

(* locations no pure call may write: caller objects, default objects, globals nobody writes *)
Definition low (T : table) (l : loc) : Prop :=
  match l with
  | LGlob g => ~ In g (allwrites T)
  | LRng => False
  | _ => True
  end.

Lemma args_of_nil c : args_of [] c = [].
Proof. unfold args_of. induction (c_args c) as [|x xs IH]; simpl; auto. Qed.

Section MachineFacts.
  Variable T : table.
  Variable res : string -> list value -> outcome * list value.
  Hypothesis pure : table_pure T = true.

  Lemma wlocs_not_low e c l : In e T -> In l (wlocs e c) -> ~ low T l.
  Proof.
    intros He Hl. destruct (pure_entry_clean T e pure He) as (E1 & E2 & E3 & E4).
    unfold wlocs in Hl. rewrite E1, E2, E3, E4, args_of_nil in Hl. simpl in Hl. rewrite app_nil_r in Hl.
    apply in_app_or in Hl. destruct Hl as [Hl|Hl].
    - apply in_map_iff in Hl. destruct Hl as [g [<- Hg]]. simpl. intro N. apply N.
      unfold allwrites. apply in_flat_map. exists e. split; assumption.
    - destruct (e_rng e); [|contradiction]. destruct Hl as [<-|[]]. simpl. tauto.
  Qed.

  Lemma step_low s c l : low T l -> fst (step T res s c) l = s l.
  Proof.
    intro Hl. unfold step. destruct (find_entry T (c_fn c)) as [e|] eqn:F; [|reflexivity].
    simpl. apply write_list_other. intro Hin.
    apply find_entry_In in F. destruct F as [He _]. exact (wlocs_not_low e c l He Hin Hl).
  Qed.

  Lemma run_low h : forall s l, low T l -> run T res s h l = s l.
  Proof.
    induction h as [|c h IH]; intros s l Hl; simpl; [reflexivity|].
    rewrite IH by assumption. apply step_low. assumption.
  Qed.

  Lemma reads_low e c l : In e T -> In l (reads e c) -> l = LRng /\ e_rng e = true \/ low T l.
  Proof.
    intros He Hl. unfold reads in Hl.
    apply in_app_or in Hl. destruct Hl as [Hl|Hl].
    { right. unfold arg_locs in Hl. apply in_map_iff in Hl. destruct Hl as [x [<- _]]. exact I. }
    apply in_app_or in Hl. destruct Hl as [Hl|Hl].
    { right. apply in_map_iff in Hl. destruct Hl as [x [<- _]]. exact I. }
    apply in_app_or in Hl. destruct Hl as [Hl|Hl].
    { right. apply in_map_iff in Hl. destruct Hl as [g [<- Hg]]. simpl.
      eapply pure_rbw_not_written; eauto. }
    destruct (e_rng e) eqn:R; [|contradiction]. destruct Hl as [<-|[]]. left. split; reflexivity.
  Qed.

  Lemma step_outcome_ext s s' c :
    (forall e, find_entry T (c_fn c) = Some e -> forall l, In l (reads e c) -> s l = s' l) ->
    snd (step T res s c) = snd (step T res s' c).
  Proof.
    intro H. unfold step. destruct (find_entry T (c_fn c)) as [e|] eqn:F; [|reflexivity].
    simpl. f_equal. f_equal. apply map_ext_in. intros l Hl. apply (H e eq_refl l Hl).
  Qed.

  (* deterministic calls: the outcome (return value or exception) ignores the whole history *)
  Lemma outcome_ignores_history h c s0 :
    is_random T c = false ->
    snd (step T res (run T res s0 h) c) = snd (step T res s0 c).
  Proof.
    intro D. apply step_outcome_ext. intros e F l Hl.
    unfold is_random in D. rewrite F in D.
    destruct (find_entry_In _ _ _ F) as [He _].
    destruct (reads_low e c l He Hl) as [[_ R]|L]; [congruence|].
    apply run_low. exact L.
  Qed.

  (* randomised calls: same outcome for the same NumPy seed *)
  Lemma outcome_seeded h c s0 r :
    snd (step T res (seed (run T res s0 h) r) c) = snd (step T res (seed s0 r) c).
  Proof.
    apply step_outcome_ext. intros e F l Hl.
    destruct (find_entry_In _ _ _ F) as [He _].
    destruct (reads_low e c l He Hl) as [[-> _]|L].
    - unfold seed. rewrite !upd_same. reflexivity.
    - unfold seed. assert (N : LRng <> l) by (intro; subst; exact L).
      rewrite !upd_other by exact N. apply run_low. exact L.
  Qed.

  Lemma args_unchanged h s0 o : run T res s0 h (LArg o) = s0 (LArg o).
  Proof. apply run_low. exact I. Qed.

  Lemma defaults_unchanged h s0 f p : run T res s0 h (LDef f p) = s0 (LDef f p).
  Proof. apply run_low. exact I. Qed.

  Lemma constants_unchanged h s0 g : ~ In g (allwrites T) -> run T res s0 h (LGlob g) = s0 (LGlob g).
  Proof. intro H. apply run_low. exact H. Qed.
End MachineFacts.

(* per-entry global-variable discipline of a pure table: whatever a call reads from a global that
   some call writes was written earlier by the very same call *)
Lemma pure_reads_dominated T e t wv s1 s2 :
  table_pure T = true -> In e T -> runs_prefix (e_glob e) t ->
  (forall g, ~ In g (allwrites T) -> s1 g = s2 g) ->
  snd (exec wv t s1 []) = snd (exec wv t s2 []).
Proof.
  intros P He Hp Hs. eapply dominated_reads; eauto.
  intros g Hg. apply Hs. eapply pure_rbw_not_written; eauto.
Qed.

Lemma public_In T e : In e (public T) -> In e T /\ e_public e = true.
Proof. unfold public. apply filter_In. Qed.
