(* C04 / C07 / C11 (source tie): the functions REGENERATED from the source text of nn._histogram_encode and
   nn._to_len_bucket (gen/Gen_c11.v, rewritten by translate/regen_c11.py on every run) are equal, for all inputs,
   to the hand-written definitions the kdtree theorems are about (model/Engines.v `encode`, model/LenBucket.v
   `to_len_bucket`, model/Engines.v `length_buckets`). *)
From Coq Require Import List NArith ZArith Bool Arith Lia Permutation.
From PV Require Import lib.Edits lib.Str lib.PyStore lib.PyDict model.Symdel model.Kdtree model.Engines model.LenBucket
                       proofs.KdtreeP gen.Gen_consts gen.Gen_c11.
Import ListNotations.

(* ------------------------------------------------------------------ the res monad *)
Lemma rbind_Ok {A B} (a : A) (f : A -> res B) : rbind (Ok a) f = f a.
Proof. reflexivity. Qed.

Lemma rfold_ok {S B} (f : S -> B -> res S) (g : S -> B -> S) l :
  (forall s x, In x l -> f s x = Ok (g s x)) -> forall s, rfold f l s = Ok (fold_left g l s).
Proof.
  induction l as [|x l IH]; intros H s; simpl; [reflexivity|].
  rewrite H by (left; reflexivity). simpl. apply IH. intros; apply H; right; assumption.
Qed.

Lemma rfold_snoc {S B} (f : S -> B -> res S) l a s :
  rfold f (l ++ [a]) s = rbind (rfold f l s) (fun s' => f s' a).
Proof.
  revert s. induction l as [|x l IH]; intros s; simpl.
  - destruct (f s a); reflexivity.
  - destruct (f s x); simpl; [apply IH | reflexivity].
Qed.

(* ------------------------------------------------------------------ integer division *)
Lemma py_floor_truediv_pos a b : 1 <= b -> py_floor_truediv a b = Ok (a / b).
Proof. intros H. unfold py_floor_truediv. destruct (Nat.eqb_spec b 0); [lia | reflexivity]. Qed.

Lemma ceil_div_cases a b : 1 <= b ->
  (if Nat.eqb (a mod b) 0 then a / b else S (a / b)) = (a + b - 1) / b.
Proof.
  intros Hb.
  assert (Hdm : a = b * (a / b) + a mod b) by (apply Nat.div_mod; lia).
  assert (Hr : a mod b < b) by (apply Nat.mod_upper_bound; lia).
  destruct (Nat.eqb_spec (a mod b) 0) as [E|E].
  - apply Nat.div_unique with (r := b - 1); lia.
  - apply Nat.div_unique with (r := a mod b - 1); [lia|].
    rewrite Nat.mul_succ_r. lia.
Qed.

Lemma py_ceil_truediv_pos a b : 1 <= b -> py_ceil_truediv a b = Ok ((a + b - 1) / b).
Proof.
  intros H. unfold py_ceil_truediv. destruct (Nat.eqb_spec b 0); [lia|].
  now rewrite ceil_div_cases.
Qed.

(* a position below n falls into a bin below ceil(n / c) *)
Lemma bin_lt_dim i n c : 1 <= c -> i < n -> i / c < (n + c - 1) / c.
Proof.
  intros Hc Hi.
  assert (H1 : c * (i / c) <= i) by (apply Nat.mul_div_le; lia).
  apply Nat.lt_le_trans with (m := S (i / c)); [lia|].
  apply Nat.div_le_lower_bound; [lia|]. rewrite Nat.mul_succ_r. lia.
Qed.

(* ------------------------------------------------------------------ dicts built by a comprehension over enumerate *)
Lemma enumerate_snd {A} (l : list A) o : map snd (combine (seq o (length l)) l) = l.
Proof. revert o. induction l as [|x l IH]; intros o; simpl; [reflexivity | now rewrite IH]. Qed.

Section DictBuild.
Context {K V : Type}.
Variable eqb : K -> K -> bool.
Hypothesis eqb_spec : forall a b, eqb a b = true <-> a = b.

Lemma dict_set_new k (v : V) d : ~ In k (map fst d) -> dict_set eqb k v d = d ++ [(k, v)].
Proof.
  induction d as [|[k' v'] d IH]; intros Hn; simpl; [reflexivity|].
  destruct (eqb k' k) eqn:E.
  - apply eqb_spec in E. subst. exfalso. apply Hn. left. reflexivity.
  - rewrite IH; [reflexivity|]. intros Hi. apply Hn. right. assumption.
Qed.

(* {key p: val p for p in l} on top of d0, all keys distinct *)
Lemma dict_build {P} (key : P -> K) (val : P -> V) l : forall d0,
  NoDup (map key l) -> (forall p, In p l -> ~ In (key p) (map fst d0)) ->
  fold_left (fun d p => dict_set eqb (key p) (val p) d) l d0 = d0 ++ map (fun p => (key p, val p)) l.
Proof.
  induction l as [|p l IH]; intros d0 Hnd Hfresh; simpl.
  - now rewrite app_nil_r.
  - rewrite dict_set_new by (apply Hfresh; left; reflexivity).
    inversion Hnd as [|? ? Hp Hnd']; subst.
    rewrite IH; [now rewrite <- app_assoc | assumption |].
    intros q Hq. rewrite map_app, in_app_iff. simpl. intros [H|[H|[]]].
    + revert H. apply Hfresh. right. assumption.
    + apply Hp. rewrite H. apply in_map. assumption.
Qed.
End DictBuild.

(* lookup in {char: g index for index, char in enumerate(al)} (as built above): the first position of the letter *)
Lemma comp_get_in (g : nat -> nat) ch al : forall o, In ch al ->
  dict_get N.eqb ch (map (fun p : nat * N => (snd p, g (fst p))) (combine (seq o (length al)) al)) = Ok (g (index_of ch al o)).
Proof.
  induction al as [|a al IH]; intros o Hin; simpl in *; [contradiction|].
  destruct (N.eqb_spec a ch) as [E|E]; [reflexivity|].
  apply IH. destruct Hin; [contradiction | assumption].
Qed.

Lemma comp_get_notin (g : nat -> nat) ch al : forall o, ~ In ch al ->
  dict_get N.eqb ch (map (fun p : nat * N => (snd p, g (fst p))) (combine (seq o (length al)) al)) = Raise KeyError.
Proof.
  induction al as [|a al IH]; intros o Hin; simpl in *; [reflexivity|].
  destruct (N.eqb_spec a ch) as [E|E]; [exfalso; apply Hin; left; assumption|].
  apply IH. intros H. apply Hin. right. assumption.
Qed.

Lemma index_of_lt ch al : forall o, In ch al -> index_of ch al o < o + length al.
Proof.
  induction al as [|a al IH]; intros o Hin; simpl in *; [contradiction|].
  destruct (N.eqb_spec a ch) as [E|E]; [lia|].
  destruct Hin as [H|H]; [contradiction|]. specialize (IH (S o) H). lia.
Qed.

(* ------------------------------------------------------------------ arrays *)
Lemma upd_length {A} k (v : A) l : length (upd k v l) = length l.
Proof. revert k. induction l as [|x l IH]; intros [|k]; simpl; auto. Qed.

Lemma nth_upd {A} k (v d : A) l t : k < length l -> nth t (upd k v l) d = if Nat.eqb k t then v else nth t l d.
Proof.
  revert k t. induction l as [|x l IH]; intros k t Hk; simpl in Hk; [lia|].
  destruct k as [|k], t as [|t]; simpl; try reflexivity.
  apply IH. lia.
Qed.

Lemma arr_get_in {A} k (d : A) l : k < length l -> arr_get k l = Ok (nth k l d).
Proof. intros H. unfold arr_get. now rewrite (nth_error_nth' l d H). Qed.

Lemma arr_set_in {A} k (v : A) l : k < length l -> arr_set k v l = Ok (upd k v l).
Proof. intros H. unfold arr_set. destruct (Nat.ltb_spec k (length l)); [reflexivity | lia]. Qed.

Lemma map_nth_seq (l : list Z) : map (fun t => nth t l 0%Z) (seq 0 (length l)) = l.
Proof.
  apply nth_ext with (d := 0%Z) (d' := 0%Z).
  - now rewrite map_length, seq_length.
  - intros n Hn. rewrite map_length, seq_length in Hn.
    rewrite (nth_indep _ 0%Z (nth 0 l 0%Z)) by (now rewrite map_length, seq_length).
    rewrite (map_nth (fun t => nth t l 0%Z)). rewrite seq_nth by assumption. reflexivity.
Qed.

(* ------------------------------------------------------------------ the counting loop *)
Section HistLoop.
Variable al : list N.
Variable pm : list (N * nat).
Variable bin : N -> nat.
Variable dim : nat.
Hypothesis Hget : forall ch, In ch al -> dict_get N.eqb ch pm = Ok (bin ch).
Hypothesis Hmiss : forall ch, ~ In ch al -> dict_get N.eqb ch pm = Raise KeyError.
Hypothesis Hbin : forall ch, In ch al -> bin ch < dim.
Variable f : list Z -> N -> res (list Z).
(* for char in cdr3: ans[position_map[char]] += 1 *)
Hypothesis Hf : forall acc ch,
  f acc ch = rbind (dict_get N.eqb ch pm) (fun k => rbind (arr_get k acc) (fun t =>
             rbind (arr_set k (t + 1)%Z acc) (fun a => Ok a))).

Lemma hist_step_ok acc ch : length acc = dim -> In ch al ->
  f acc ch = Ok (upd (bin ch) (nth (bin ch) acc 0 + 1)%Z acc).
Proof.
  intros Hl Hin. rewrite Hf, (Hget _ Hin). simpl.
  specialize (Hbin _ Hin).
  rewrite (arr_get_in _ 0%Z) by lia. simpl. rewrite arr_set_in by lia. reflexivity.
Qed.

Lemma hist_loop_ok s : forall acc, length acc = dim -> Forall (fun ch => In ch al) s ->
  rfold f s acc = Ok (map (fun t => nth t acc 0 + cntZ bin s t)%Z (seq 0 dim)).
Proof.
  induction s as [|c s IH]; intros acc Hl Hall.
  - simpl. f_equal. rewrite <- Hl. rewrite <- (map_nth_seq acc) at 1.
    apply map_ext. intros t. unfold cntZ. simpl. lia.
  - pose proof (Forall_inv Hall) as Hc. pose proof (Forall_inv_tail Hall) as Hs. simpl in Hc. simpl.
    rewrite (hist_step_ok acc c Hl Hc). simpl.
    rewrite IH by (rewrite ?upd_length; auto). f_equal.
    apply map_ext_in. intros t Ht. apply in_seq in Ht.
    specialize (Hbin _ Hc).
    rewrite nth_upd by lia. rewrite cntZ_cons. unfold ind.
    destruct (Nat.eqb_spec (bin c) t); [subst t|]; lia.
Qed.

Lemma hist_loop_keyerror s : forall acc, length acc = dim -> ~ Forall (fun ch => In ch al) s ->
  rfold f s acc = Raise KeyError.
Proof.
  induction s as [|c s IH]; intros acc Hl Hn.
  - exfalso. apply Hn. constructor.
  - simpl. destruct (in_dec N.eq_dec c al) as [Hc|Hc].
    + rewrite (hist_step_ok acc c Hl Hc). simpl. apply IH.
      * now rewrite upd_length.
      * intros H. apply Hn. constructor; assumption.
    + rewrite Hf, (Hmiss _ Hc). reflexivity.
Qed.
End HistLoop.

(* ------------------------------------------------------------------ _histogram_encode *)
Lemma N_eqb_iff a b : N.eqb a b = true <-> a = b.
Proof. apply N.eqb_eq. Qed.

(* the comprehension: position_map = [(char, index / c)] in alphabet order *)
Lemma position_map_built (F : list (N * nat) -> nat * N -> res (list (N * nat))) (g : nat -> nat) al :
  NoDup al ->
  (forall d p, F d p = Ok (dict_set N.eqb (snd p) (g (fst p)) d)) ->
  rfold F (enumerate al) [] = Ok (map (fun p : nat * N => (snd p, g (fst p))) (enumerate al)).
Proof.
  intros Hnd HF.
  rewrite (rfold_ok F (fun d p => dict_set N.eqb (snd p) (g (fst p)) d)) by (intros; apply HF).
  f_equal.
  rewrite (dict_build N.eqb N_eqb_iff (fun p : nat * N => snd p) (fun p => g (fst p))).
  - reflexivity.
  - unfold enumerate. now rewrite enumerate_snd.
  - intros p _ [].
Qed.

(* for every alphabet without repeated letters *)
Lemma gen_histogram_encode_exc_general al s c :
  NoDup al -> 1 <= c -> Forall (fun ch => In ch al) s ->
  gen_histogram_encode_exc al s c =
  Ok (hist (fun ch => index_of ch al 0 / c) ((length al + c - 1) / c) s).
Proof.
  intros Hnd Hc Hall. unfold gen_histogram_encode_exc.
  rewrite py_ceil_truediv_pos by assumption. rewrite rbind_Ok. cbv zeta.
  erewrite (position_map_built _ (fun i => i / c) al Hnd);
    [| intros d [i ch]; cbn [fst snd]; rewrite py_floor_truediv_pos by assumption; reflexivity].
  rewrite rbind_Ok.
  erewrite (hist_loop_ok al _ (fun ch => index_of ch al 0 / c) ((length al + c - 1) / c)).
  - rewrite rbind_Ok. f_equal. rewrite hist_cntZ. apply map_ext. intros t.
    rewrite nth_repeat. lia.
  - intros ch Hin. unfold enumerate. apply (comp_get_in (fun i => i / c)). assumption.
  - intros ch Hin. apply bin_lt_dim; [assumption|]. apply (index_of_lt ch al 0 Hin).
  - intros acc ch. reflexivity.
  - apply repeat_length.
  - assumption.
Qed.

Lemma gen_histogram_encode_exc_keyerror_general al s c :
  NoDup al -> 1 <= c -> ~ Forall (fun ch => In ch al) s ->
  gen_histogram_encode_exc al s c = Raise KeyError.
Proof.
  intros Hnd Hc Hall. unfold gen_histogram_encode_exc.
  rewrite py_ceil_truediv_pos by assumption. rewrite rbind_Ok. cbv zeta.
  erewrite (position_map_built _ (fun i => i / c) al Hnd);
    [| intros d [i ch]; cbn [fst snd]; rewrite py_floor_truediv_pos by assumption; reflexivity].
  rewrite rbind_Ok.
  erewrite (hist_loop_keyerror al _ (fun ch => index_of ch al 0 / c) ((length al + c - 1) / c)).
  - reflexivity.
  - intros ch Hin. unfold enumerate. apply (comp_get_in (fun i => i / c)). assumption.
  - intros ch Hin. unfold enumerate. apply (comp_get_notin (fun i => i / c)). assumption.
  - intros ch Hin. apply bin_lt_dim; [assumption|]. apply (index_of_lt ch al 0 Hin).
  - intros acc ch. reflexivity.
  - apply repeat_length.
  - assumption.
Qed.

Lemma gen_aminoacids_aa_letters : gen_aminoacids = aa_letters.
Proof. reflexivity. Qed.

Lemma gen_aminoacids_NoDup : NoDup gen_aminoacids.
Proof.
  assert (H : nodup N.eq_dec gen_aminoacids = gen_aminoacids) by (vm_compute; reflexivity).
  rewrite <- H. apply NoDup_nodup.
Qed.

(* the regenerated _histogram_encode IS the model's encode: every string over the alphabet, every compression >= 1 *)
Theorem gen_histogram_encode_eq : forall (s : str) (c : nat),
  Forall (fun ch => In ch gen_aminoacids) s -> 1 <= c ->
  gen_histogram_encode_exc gen_aminoacids s c = Ok (encode c s) /\
  gen_histogram_encode gen_aminoacids s c = encode c s.
Proof.
  intros s c Hall Hc.
  assert (H : gen_histogram_encode_exc gen_aminoacids s c = Ok (encode c s)).
  { rewrite (gen_histogram_encode_exc_general gen_aminoacids s c gen_aminoacids_NoDup Hc Hall).
    rewrite gen_aminoacids_aa_letters. reflexivity. }
  split; [exact H|]. unfold gen_histogram_encode. rewrite H. reflexivity.
Qed.

(* what Python does outside that domain: KeyError for a letter outside the alphabet (compression >= 1),
   ZeroDivisionError for compression = 0 (raised by `len(aminoacids) / compression`, before anything else) *)
Theorem gen_histogram_encode_raises : forall (s : str) (c : nat),
  (1 <= c -> ~ Forall (fun ch => In ch gen_aminoacids) s ->
     gen_histogram_encode_exc gen_aminoacids s c = Raise KeyError) /\
  gen_histogram_encode_exc gen_aminoacids s 0 = Raise ZeroDivisionError.
Proof.
  intros s c. split.
  - intros Hc Hn. apply gen_histogram_encode_exc_keyerror_general; [apply gen_aminoacids_NoDup | assumption | assumption].
  - reflexivity.
Qed.

(* ------------------------------------------------------------------ dicts as (keys in insertion order, value function) *)
Section DictFun.
Context {V : Type}.
Definition dfun (keys : list nat) (g : nat -> V) : list (nat * V) := map (fun L => (L, g L)) keys.
Definition override (g : nat -> V) (k : nat) (v : V) : nat -> V := fun L => if Nat.eqb L k then v else g L.

Lemma dfun_mem_in keys g k : In k keys -> dict_mem Nat.eqb k (dfun keys g) = true.
Proof.
  induction keys as [|a keys IH]; intros Hin; simpl in *; [contradiction|].
  destruct (Nat.eqb_spec a k); [reflexivity|]. apply IH. destruct Hin; [contradiction | assumption].
Qed.

Lemma dfun_mem_notin keys g k : ~ In k keys -> dict_mem Nat.eqb k (dfun keys g) = false.
Proof.
  induction keys as [|a keys IH]; intros Hin; simpl in *; [reflexivity|].
  destruct (Nat.eqb_spec a k); [exfalso; auto|]. apply IH. auto.
Qed.

Lemma dfun_get keys g k : In k keys -> dict_get Nat.eqb k (dfun keys g) = Ok (g k).
Proof.
  induction keys as [|a keys IH]; intros Hin; simpl in *; [contradiction|].
  destruct (Nat.eqb_spec a k); [subst; reflexivity|]. apply IH. destruct Hin; [contradiction | assumption].
Qed.

Lemma dfun_ext keys g g' : (forall L, In L keys -> g L = g' L) -> dfun keys g = dfun keys g'.
Proof. intros H. unfold dfun. apply map_ext_in. intros L HL. now rewrite H. Qed.

Lemma dfun_set_in keys g k v : NoDup keys -> In k keys ->
  dict_set Nat.eqb k v (dfun keys g) = dfun keys (override g k v).
Proof.
  induction keys as [|a keys IH]; intros Hnd Hin; simpl in *; [contradiction|].
  inversion Hnd as [|? ? Ha Hnd']; subst.
  unfold override at 1. destruct (Nat.eqb_spec a k) as [E|E].
  - subst a. f_equal. apply dfun_ext. intros L HL. unfold override.
    destruct (Nat.eqb_spec L k); [subst; contradiction | reflexivity].
  - f_equal. apply IH; [assumption|]. destruct Hin; [contradiction | assumption].
Qed.

Lemma dfun_set_new keys g k v : ~ In k keys ->
  dict_set Nat.eqb k v (dfun keys g) = dfun (keys ++ [k]) (override g k v).
Proof.
  induction keys as [|a keys IH]; intros Hin; simpl in *.
  - unfold override. now rewrite Nat.eqb_refl.
  - unfold override at 1. destruct (Nat.eqb_spec a k) as [E|E]; [exfalso; auto|].
    f_equal. apply IH. auto.
Qed.
End DictFun.

(* ------------------------------------------------------------------ the specification, one more sequence at the end *)
Lemma combine_app_eq {A B} (l1 l2 : list A) (m1 m2 : list B) :
  length l1 = length m1 -> combine (l1 ++ l2) (m1 ++ m2) = combine l1 m1 ++ combine l2 m2.
Proof.
  revert m1. induction l1 as [|a l1 IH]; intros [|b m1] H; simpl in *; try discriminate; [reflexivity|].
  f_equal. apply IH. now injection H.
Qed.

Lemma enumerate_snoc {A} (p : list A) x : enumerate (p ++ [x]) = enumerate p ++ [(length p, x)].
Proof.
  unfold enumerate. rewrite app_length. simpl. rewrite Nat.add_1_r, seq_S. simpl.
  rewrite combine_app_eq by (now rewrite seq_length). reflexivity.
Qed.

Lemma first_lens_in p L : In L (first_lens p) <-> In L (map (@length N) p).
Proof. unfold first_lens. rewrite <- in_rev, nodup_In, <- in_rev. reflexivity. Qed.

Lemma first_lens_NoDup p : NoDup (first_lens p).
Proof. unfold first_lens. apply NoDup_rev, NoDup_nodup. Qed.

Lemma first_lens_snoc p x :
  first_lens (p ++ [x]) =
  if in_dec Nat.eq_dec (length x) (first_lens p) then first_lens p else first_lens p ++ [length x].
Proof.
  unfold first_lens at 1. rewrite map_app, rev_app_distr. simpl.
  match goal with |- context [in_dec ?a ?b ?c] => destruct (in_dec a b c) as [H|H] end;
  destruct (in_dec Nat.eq_dec (length x) (first_lens p)) as [H'|H']; try reflexivity.
  - exfalso. apply H'. apply first_lens_in. now apply in_rev.
  - exfalso. apply H. rewrite <- in_rev. now apply first_lens_in.
Qed.

Lemma sget_snoc_old p x i : i < length p -> sget (p ++ [x]) i = sget p i.
Proof. intros H. unfold sget. now rewrite app_nth1. Qed.

Lemma sget_snoc_new p x : sget (p ++ [x]) (length p) = x.
Proof. unfold sget. rewrite app_nth2 by lia. now rewrite Nat.sub_diag. Qed.

Lemma bucket_positions_lt p L i : In i (bucket_positions p L) -> i < length p.
Proof. unfold bucket_positions. rewrite filter_In, in_seq. lia. Qed.

Lemma bucket_positions_snoc p x L :
  bucket_positions (p ++ [x]) L = bucket_positions p L ++ (if Nat.eqb (length x) L then [length p] else []).
Proof.
  unfold bucket_positions. rewrite app_length. simpl. rewrite Nat.add_1_r, seq_S, filter_app. simpl.
  rewrite sget_snoc_new. f_equal.
  apply filter_ext_in. intros i Hi. apply in_seq in Hi. rewrite sget_snoc_old by lia. reflexivity.
Qed.

Lemma bucket_strings_snoc p x L :
  map (sget (p ++ [x])) (bucket_positions (p ++ [x]) L) =
  map (sget p) (bucket_positions p L) ++ (if Nat.eqb (length x) L then [x] else []).
Proof.
  rewrite bucket_positions_snoc, map_app. f_equal.
  - apply map_ext_in. intros i Hi. apply sget_snoc_old. eapply bucket_positions_lt; eassumption.
  - destruct (Nat.eqb (length x) L); simpl; [now rewrite sget_snoc_new | reflexivity].
Qed.

Lemma bucket_positions_none p L : ~ In L (map (@length N) p) -> bucket_positions p L = [].
Proof.
  intros Hn. unfold bucket_positions.
  assert (H : forall l, (forall i, In i l -> i < length p) ->
                        filter (fun i => Nat.eqb (length (sget p i)) L) l = []).
  { induction l as [|i l IH]; intros Hl; simpl; [reflexivity|].
    destruct (Nat.eqb_spec (length (sget p i)) L) as [E|E].
    - exfalso. apply Hn. rewrite <- E. apply in_map. unfold sget. apply nth_In. apply Hl. left. reflexivity.
    - apply IH. intros j Hj. apply Hl. right. assumption. }
  apply H. intros i Hi. apply in_seq in Hi. destruct Hi as [_ Hi]. exact Hi.
Qed.

Definition bucket_val (p : list str) (L : nat) : list nat * list str :=
  (bucket_positions p L, map (sget p) (bucket_positions p L)).

Lemma to_len_bucket_dfun p : to_len_bucket p = dfun (first_lens p) (bucket_val p).
Proof. reflexivity. Qed.

(* one pass of the loop body on the specification: `if L not in ans: ans[L] = ([], [])`, then the two appends *)
Lemma to_len_bucket_snoc p x :
  let L := length x in
  let d1 := if dict_mem Nat.eqb L (to_len_bucket p) then to_len_bucket p
            else dict_set Nat.eqb L ([], []) (to_len_bucket p) in
  exists v1, dict_get Nat.eqb L d1 = Ok v1 /\
  let d2 := dict_set Nat.eqb L (fst v1 ++ [length p], snd v1) d1 in
  exists v2, dict_get Nat.eqb L d2 = Ok v2 /\
  dict_set Nat.eqb L (fst v2, snd v2 ++ [x]) d2 = to_len_bucket (p ++ [x]).
Proof.
  intros L d1.
  (* after the membership test the dict is dfun keys1 g1 with L among the keys *)
  set (keys1 := if in_dec Nat.eq_dec L (first_lens p) then first_lens p else first_lens p ++ [L]).
  set (g1 := if in_dec Nat.eq_dec L (first_lens p) then bucket_val p else override (bucket_val p) L ([], [])).
  assert (Hd1 : d1 = dfun keys1 g1).
  { unfold d1, keys1, g1. rewrite to_len_bucket_dfun.
    destruct (in_dec Nat.eq_dec L (first_lens p)) as [Hin|Hin].
    - now rewrite dfun_mem_in.
    - rewrite dfun_mem_notin by assumption. now apply dfun_set_new. }
  assert (Hk1 : In L keys1).
  { unfold keys1. destruct (in_dec Nat.eq_dec L (first_lens p)); [assumption|]. apply in_or_app. right. left. reflexivity. }
  assert (Hnd1 : NoDup keys1).
  { unfold keys1. destruct (in_dec Nat.eq_dec L (first_lens p)) as [Hin|Hin]; [apply first_lens_NoDup|].
    rewrite <- (rev_involutive (first_lens p ++ [L])). apply NoDup_rev. rewrite rev_app_distr. simpl.
    constructor; [now rewrite <- in_rev | apply NoDup_rev, first_lens_NoDup]. }
  assert (Hg1 : g1 L = bucket_val p L).
  { unfold g1. destruct (in_dec Nat.eq_dec L (first_lens p)) as [Hin|Hin]; [reflexivity|].
    unfold override. rewrite Nat.eqb_refl. unfold bucket_val.
    rewrite bucket_positions_none; [reflexivity|]. intros H. apply Hin. now apply first_lens_in. }
  exists (g1 L). split; [rewrite Hd1; now apply dfun_get|].
  intros d2.
  assert (Hd2 : d2 = dfun keys1 (override g1 L (fst (g1 L) ++ [length p], snd (g1 L)))).
  { unfold d2. rewrite Hd1. now apply dfun_set_in. }
  exists (fst (g1 L) ++ [length p], snd (g1 L)). split.
  { rewrite Hd2, dfun_get by assumption. unfold override. now rewrite Nat.eqb_refl. }
  rewrite Hd2, dfun_set_in by assumption. cbn [fst snd].
  rewrite to_len_bucket_dfun, first_lens_snoc. fold L. fold keys1.
  apply dfun_ext. intros M HM. unfold override at 1.
  unfold bucket_val at 1. rewrite bucket_strings_snoc, bucket_positions_snoc. fold L.
  destruct (Nat.eqb_spec M L) as [E|E].
  - subst M. rewrite Hg1, Nat.eqb_refl. reflexivity.
  - destruct (Nat.eqb_spec L M) as [E'|_]; [congruence|]. rewrite !app_nil_r.
    unfold override. destruct (Nat.eqb_spec M L); [contradiction|].
    unfold g1. destruct (in_dec Nat.eq_dec L (first_lens p)); [reflexivity|].
    unfold override. destruct (Nat.eqb_spec M L); [contradiction | reflexivity].
Qed.

(* ------------------------------------------------------------------ _to_len_bucket *)
Theorem gen_to_len_bucket_eq : forall seqs : list str,
  gen_to_len_bucket_exc seqs = Ok (to_len_bucket seqs) /\ gen_to_len_bucket seqs = to_len_bucket seqs.
Proof.
  intros seqs.
  assert (H : gen_to_len_bucket_exc seqs = Ok (to_len_bucket seqs)).
  { unfold gen_to_len_bucket_exc. cbv zeta.
    match goal with |- rbind (rfold ?F _ _) _ = _ =>
      assert (HF : forall p, rfold F (enumerate p) [] = Ok (to_len_bucket p)) end.
    { induction p as [|x p IH] using rev_ind; [reflexivity|].
      rewrite enumerate_snoc, rfold_snoc, IH, rbind_Ok.
      destruct (to_len_bucket_snoc p x) as (v1 & Hv1 & v2 & Hv2 & Hfin).
      cbv zeta in Hv1, Hv2, Hfin.
      cbv beta zeta. rewrite Hv1, rbind_Ok. cbv beta zeta. rewrite Hv2, rbind_Ok. cbv beta zeta.
      f_equal. exact Hfin. }
    rewrite HF. reflexivity. }
  split; [exact H|]. unfold gen_to_len_bucket. rewrite H. reflexivity.
Qed.

(* ------------------------------------------------------------------ relation to model/Engines.v length_buckets *)
Lemma length_buckets_positions seqs :
  length_buckets seqs = map (bucket_positions seqs) (nodup Nat.eq_dec (map (@length N) seqs)).
Proof. reflexivity. Qed.

Lemma first_lens_perm seqs : Permutation (first_lens seqs) (nodup Nat.eq_dec (map (@length N) seqs)).
Proof.
  apply NoDup_Permutation; [apply first_lens_NoDup | apply NoDup_nodup |].
  intros L. rewrite first_lens_in, nodup_In. reflexivity.
Qed.

Lemma to_len_bucket_positions seqs :
  map (fun b : nat * (list nat * list str) => fst (snd b)) (to_len_bucket seqs) =
  map (bucket_positions seqs) (first_lens seqs).
Proof. unfold to_len_bucket. rewrite map_map. reflexivity. Qed.

(* projection on the position lists: the model's buckets, in first-occurrence order instead of nodup's order;
   each bucket carries its key and exactly the sequences at its positions *)
Theorem gen_to_len_bucket_engines : forall seqs : list str,
  Permutation (map (fun b : nat * (list nat * list str) => fst (snd b)) (gen_to_len_bucket seqs)) (length_buckets seqs) /\
  map (fun b : nat * (list nat * list str) => fst (snd b)) (gen_to_len_bucket seqs) =
    map (bucket_positions seqs) (first_lens seqs) /\
  Forall (fun b : nat * (list nat * list str) =>
            fst (snd b) = bucket_positions seqs (fst b) /\ snd (snd b) = map (sget seqs) (fst (snd b)))
         (gen_to_len_bucket seqs).
Proof.
  intros seqs. destruct (gen_to_len_bucket_eq seqs) as [_ ->]. repeat split.
  - rewrite to_len_bucket_positions, length_buckets_positions. apply Permutation_map, first_lens_perm.
  - apply to_len_bucket_positions.
  - unfold to_len_bucket. apply Forall_forall. intros b Hb. apply in_map_iff in Hb as (L & <- & _).
    split; reflexivity.
Qed.

Lemma flat_map_map {A B C} (f : B -> list C) (g : A -> B) l : flat_map f (map g l) = flat_map (fun x => f (g x)) l.
Proof. induction l as [|x l IH]; simpl; [reflexivity | now rewrite IH]. Qed.

(* the Hamming mode as nn.kdtree runs it -- `for indices, bucket in buckets.values()`: search `bucket`, map the result
   through `indices` -- over the REGENERATED buckets returns the triples of the model kdtree_hamming (as a multiset:
   only the order of the buckets differs) *)
Theorem gen_buckets_kdtree_hamming : forall {D} (keep : str -> str -> option D) (key : D -> nat) (k comp : nat)
    (limit : option nat) (seqs : list str),
  Permutation
    (flat_map (fun b : nat * (list nat * list str) =>
        map (fun t => (nth (fst (fst t)) (fst (snd b)) 0, nth (snd (fst t)) (fst (snd b)) 0, snd t))
            (kdtree_model keep key k comp limit (snd (snd b))))
      (gen_to_len_bucket seqs))
    (kdtree_hamming keep key k comp limit seqs).
Proof.
  intros D keep key k comp limit seqs. destruct (gen_to_len_bucket_eq seqs) as [_ ->].
  unfold kdtree_hamming. rewrite length_buckets_positions.
  unfold to_len_bucket. rewrite !flat_map_map. cbn [fst snd].
  apply Permutation_flat_map, first_lens_perm.
Qed.
