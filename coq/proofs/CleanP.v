(* C18: lemmas about model/Clean.v. *)
From Coq Require Import List NArith ZArith QArith Bool Arith Lia.
From PV Require Import lib.PyObj gen.Gen_consts gen.Gen_c18 model.Clean.
Import ListNotations.

(* ------------------------------------------------------------------ small facts *)
Lemma codes_eqb_eq a b : codes_eqb a b = true <-> a = b.
Proof. unfold codes_eqb. destruct (list_eq_dec N.eq_dec a b); split; congruence. Qed.
Lemma codes_eqb_refl a : codes_eqb a a = true.
Proof. now apply codes_eqb_eq. Qed.
Lemma codes_eqb_single x c : codes_eqb [x] [c] = N.eqb x c.
Proof.
  destruct (N.eqb_spec x c) as [->|H]; [apply codes_eqb_refl|].
  destruct (codes_eqb [x] [c]) eqn:E; auto. apply codes_eqb_eq in E. congruence.
Qed.
Lemma str_eqb_eq a b : str_eqb a b = true <-> a = b.
Proof. apply codes_eqb_eq. Qed.
Lemma mem_In k l : mem k l = true <-> In k l.
Proof.
  unfold mem. rewrite existsb_exists. split.
  - intros [x [H E]]. apply str_eqb_eq in E. now subst.
  - intros H. exists k. split; auto. now apply str_eqb_eq.
Qed.
Lemma nth_error_map' {A B} (g : A -> B) l n : nth_error (map g l) n = option_map g (nth_error l n).
Proof. revert n. induction l; destruct n; simpl; auto. Qed.

(* ------------------------------------------------------------------ isvalidaa *)
Lemma all_in_aa_raises l e : all_in_aa l = Raise e -> e = TypeError.
Proof.
  induction l as [|c r IH]; simpl; [discriminate|].
  destruct (py_in_charset gen_aminoacids c) as [[|]|e'] eqn:E; auto; [discriminate|].
  intros H. inversion H; subst. unfold py_in_charset in E. destruct (hashable c); congruence.
Qed.
Lemma isvalidaa_raw_raises o e : isvalidaa_raw o = Raise e -> e = TypeError.
Proof.
  unfold isvalidaa_raw. destruct o; simpl; try congruence; apply all_in_aa_raises.
Qed.
Lemma isvalidaa_total F : existsb (fun c => handles c TypeError) (aa_catches F) = true ->
  forall o, exists b, isvalidaa F o = Ok b.
Proof.
  intros H o. unfold isvalidaa. destruct (isvalidaa_raw o) eqn:E; simpl; eauto.
  apply isvalidaa_raw_raises in E. subst. rewrite H. eauto.
Qed.
Lemma all_in_aa_str s : all_in_aa (map (fun c => PStr [c]) s) = Ok (aa_spec s).
Proof.
  induction s as [|c s IH]; [reflexivity|].
  cbn [map all_in_aa]. unfold py_in_charset. cbn [hashable].
  change (existsb (N.eqb c) gen_aminoacids) with (in_amino c).
  unfold aa_spec. cbn [forallb]. destruct (in_amino c); [exact IH|reflexivity].
Qed.
Lemma isvalidaa_str F s : isvalidaa F (PStr s) = Ok (aa_spec s).
Proof. unfold isvalidaa, isvalidaa_raw. simpl. now rewrite all_in_aa_str. Qed.
Lemma aa_spec_iff s : aa_spec s = true <-> Forall (fun c => In c gen_aminoacids) s.
Proof.
  unfold aa_spec. rewrite forallb_forall, Forall_forall. split; intros H c Hc; specialize (H c Hc).
  - unfold in_amino in H. apply existsb_exists in H. destruct H as [x [Hx E]]. apply N.eqb_eq in E. now subst.
  - unfold in_amino. apply existsb_exists. exists c. split; auto. apply N.eqb_refl.
Qed.

(* ------------------------------------------------------------------ isvalidcdr3 *)
Definition covers (cs : list exncls) : bool :=
  forallb (fun e => existsb (fun c => handles c e) cs) [TypeError; IndexError; KeyError].
Lemma isvalidcdr3_total F : covers (cdr3_catches F) = true -> forall o, exists b, isvalidcdr3 F o = Ok b.
Proof.
  intros H o. unfold isvalidcdr3. destruct (eval_and F o (cdr3_conds F)) as [b|e]; simpl; eauto.
  unfold covers in H. simpl in H. repeat (apply andb_prop in H; destruct H as [? H]).
  destruct e; match goal with Hx : _ = true |- _ => rewrite Hx end; eauto.
Qed.

Lemma seq_get_0 {A} (a : A) t : seq_get (a :: t) 0 = Some a.
Proof.
  unfold seq_get. change (0 <? 0)%Z with false. cbv iota.
  assert (E : ((0 <=? 0)%Z && (0 <? Z.of_nat (length (a :: t)))%Z) = true).
  { apply andb_true_intro. split; [reflexivity|]. apply Z.ltb_lt. simpl length. lia. }
  rewrite E. reflexivity.
Qed.
Lemma nth_error_last {A} (d : A) l a : nth_error (a :: l) (length l) = Some (last (a :: l) d).
Proof. revert a. induction l as [|b l IH]; intros a; [reflexivity|]. simpl length. simpl nth_error. rewrite IH. reflexivity. Qed.
Lemma seq_get_m1 {A} (d : A) a t : seq_get (a :: t) (-1) = Some (last (a :: t) d).
Proof.
  unfold seq_get. change (-1 <? 0)%Z with true. cbv iota.
  replace (Z.of_nat (length (a :: t)) + -1)%Z with (Z.of_nat (length t)) by (simpl length; lia).
  assert (E : ((0 <=? Z.of_nat (length t))%Z && (Z.of_nat (length t) <? Z.of_nat (length (a :: t)))%Z) = true).
  { apply andb_true_intro. split; [apply Z.leb_le; lia|apply Z.ltb_lt; simpl length; lia]. }
  rewrite E, Nat2Z.id. apply nth_error_last.
Qed.

(* conjuncts whose index is the first or the last position, on a non-empty string *)
Definition idx_ok (c : cond) : bool :=
  match c with CItemEq i _ | CItemIn i _ => Z.eqb i 0 || Z.eqb i (-1) | _ => true end.
Definition str_item (s : str) (i : Z) : N := if Z.eqb i 0 then hd 0%N s else last s 0%N.
Definition str_cond (s : str) (c : cond) : bool :=
  match c with
  | CValidAA => aa_spec s
  | CLenPos => true
  | CItemEq i x => codes_eqb [str_item s i] x
  | CItemIn i xs => existsb (codes_eqb [str_item s i]) xs
  end.
Lemma getitem_str a t i : (Z.eqb i 0 || Z.eqb i (-1)) = true ->
  py_getitem (PStr (a :: t)) i = Ok (PStr [str_item (a :: t) i]).
Proof.
  intros H. unfold str_item. destruct (Z.eqb i 0) eqn:E0.
  - apply Z.eqb_eq in E0. subst i. cbn [py_getitem]. now rewrite seq_get_0.
  - simpl in H. apply Z.eqb_eq in H. subst i. cbn [py_getitem]. now rewrite (seq_get_m1 0%N).
Qed.
Lemma eval_cond_str F a t c : idx_ok c = true -> eval_cond F (PStr (a :: t)) c = Ok (str_cond (a :: t) c).
Proof.
  destruct c; cbn [eval_cond idx_ok str_cond]; intros H.
  - apply isvalidaa_str.
  - reflexivity.
  - now rewrite (getitem_str a t i H).
  - now rewrite (getitem_str a t i H).
Qed.
Lemma eval_and_str F a t cs : forallb idx_ok cs = true ->
  eval_and F (PStr (a :: t)) cs = Ok (forallb (str_cond (a :: t)) cs).
Proof.
  induction cs as [|c cs IH]; simpl; auto. intros H. apply andb_prop in H. destruct H as [H1 H2].
  rewrite (eval_cond_str F a t c H1). destruct (str_cond (a :: t) c); simpl; auto.
Qed.

Lemma isvalidcdr3_str_gen s : isvalidcdr3 gen_c18_facts (PStr s) = Ok (cdr3_spec s).
Proof.
  destruct s as [|a t]; [vm_compute; reflexivity|].
  unfold isvalidcdr3. rewrite eval_and_str by (vm_compute; reflexivity).
  cbn [catch]. f_equal.
  cbn [gen_c18_facts cdr3_conds forallb str_cond str_item existsb Z.eqb hd Pos.eqb].
  unfold cdr3_spec. fold (aa_spec (a :: t)).
  rewrite !codes_eqb_single. cbn [existsb].
  destruct (aa_spec (a :: t)), (N.eqb a 67), (N.eqb (last (a :: t) 0%N) 70),
           (N.eqb (last (a :: t) 0%N) 87), (N.eqb (last (a :: t) 0%N) 67); reflexivity.
Qed.

Lemma cdr3_spec_iff s : cdr3_spec s = true <->
  Forall (fun c => In c gen_aminoacids) s /\ (exists t, s = 67%N :: t) /\
  (exists p c, s = p ++ [c] /\ In c [70; 87; 67]%N).
Proof.
  unfold cdr3_spec. fold (aa_spec s). split.
  - intros H. apply andb_prop in H. destruct H as [H1 H2]. apply aa_spec_iff in H1. split; auto.
    destruct s as [|a t]; [discriminate|]. apply andb_prop in H2. destruct H2 as [H2 H3].
    apply N.eqb_eq in H2. subst a. split; [eauto|].
    exists (removelast (67%N :: t)), (last (67%N :: t) 0%N). split.
    + apply app_removelast_last. discriminate.
    + apply existsb_exists in H3. destruct H3 as [x [Hx E]]. apply N.eqb_eq in E. now rewrite E.
  - intros [H1 [[t ->] [p [c [E Hc]]]]]. apply aa_spec_iff in H1. rewrite H1. cbn [andb].
    rewrite N.eqb_refl. cbn [andb]. rewrite E, last_last. apply existsb_exists. exists c. split; auto. apply N.eqb_refl.
Qed.

(* ------------------------------------------------------------------ standardize *)
Section StdP.
Variable opts : Type.
Variable f : nat -> opts -> str -> cell.

Lemma standardize_index F m flag o t : fst (standardize opts f F m flag o t) = fst t.
Proof. reflexivity. Qed.
Lemma standardize_names F m flag o t :
  map fst (snd (standardize opts f F m flag o t)) = map (rename m) (map fst (snd t)).
Proof. unfold standardize. simpl. rewrite !map_map. reflexivity. Qed.
Lemma standardize_ncols F m flag o t : length (snd (standardize opts f F m flag o t)) = length (snd t).
Proof. unfold standardize. simpl. apply map_length. Qed.
Lemma standardize_column F m flag o t j :
  nth_error (snd (standardize opts f F m flag o t)) j = option_map (standardize_col opts f F m flag o) (nth_error (snd t) j).
Proof. unfold standardize. simpl. apply nth_error_map'. Qed.
Lemma standardize_cell F m o (t : table) j n cells :
  nth_error (snd t) j = Some (n, cells) ->
  exists cells', nth_error (snd (standardize opts f F m true o t)) j = Some (rename m n, cells') /\
    length cells' = length cells /\
    forall i, nth_error cells' i = option_map (cell_fn opts f o (std_kind F (rename m n))) (nth_error cells i).
Proof.
  intros H. exists (map (cell_fn opts f o (std_kind F (rename m n))) cells). split; [|split].
  - rewrite standardize_column. rewrite H. reflexivity.
  - apply map_length.
  - intros i. apply nth_error_map'.
Qed.
Lemma cell_fn_nonstd o x : cell_fn opts f o None x = x.
Proof. reflexivity. Qed.
Lemma cell_fn_na o k : cell_fn opts f o k None = None.
Proof. destruct k; reflexivity. Qed.
Lemma cell_fn_std o k s : cell_fn opts f o (Some k) (Some s) = f k o s.
Proof. reflexivity. Qed.
Lemma standardize_nonstd F m o (t : table) j n cells :
  nth_error (snd t) j = Some (n, cells) -> std_kind F (rename m n) = None ->
  nth_error (snd (standardize opts f F m true o t)) j = Some (rename m n, cells).
Proof.
  intros H K. rewrite standardize_column, H. simpl. unfold standardize_col. simpl. rewrite K.
  f_equal. f_equal. transitivity (map (fun x : cell => x) cells); [apply map_ext; intros; apply cell_fn_nonstd|apply map_id].
Qed.
Lemma standardize_off F m o t :
  standardize opts f F m false o t = (fst t, map (fun c => (rename m (fst c), snd c)) (snd t)).
Proof. reflexivity. Qed.

(* the output cell (j, i) is a function of the input cell (j, i), its column name and the options only *)
Lemma standardize_local F m flag o (t1 t2 : table) j i n c1 c2 :
  nth_error (snd t1) j = Some (n, c1) -> nth_error (snd t2) j = Some (n, c2) ->
  nth_error c1 i = nth_error c2 i ->
  forall n1 d1 n2 d2,
  nth_error (snd (standardize opts f F m flag o t1)) j = Some (n1, d1) ->
  nth_error (snd (standardize opts f F m flag o t2)) j = Some (n2, d2) ->
  n1 = n2 /\ nth_error d1 i = nth_error d2 i.
Proof.
  intros H1 H2 E n1 d1 n2 d2. rewrite !standardize_column, H1, H2. simpl. unfold standardize_col. simpl.
  intros X Y. inversion X. inversion Y. subst. split; auto.
  destruct flag; auto. now rewrite !nth_error_map', E.
Qed.
End StdP.

(* ------------------------------------------------------------------ multimerge *)
Lemma assoc_in_keys {V} (rows : list (str * V)) k v : assoc rows k = Some v -> In k (map fst rows).
Proof.
  induction rows as [|[k' v'] r IH]; simpl; [discriminate|].
  destruct (str_eqb k' k) eqn:E; [apply str_eqb_eq in E; auto|auto].
Qed.
Lemma assoc_some_in {V} (rows : list (str * V)) k v : assoc rows k = Some v -> In (k, v) rows.
Proof.
  induction rows as [|[k' v'] r IH]; simpl; [discriminate|].
  destruct (str_eqb k' k) eqn:E; [apply str_eqb_eq in E; intros H; inversion H; subst; auto|auto].
Qed.
Lemma assoc_none {V} (rows : list (str * V)) k : ~ In k (map fst rows) -> assoc rows k = None.
Proof.
  intros H. destruct (assoc rows k) eqn:E; auto. apply assoc_in_keys in E. contradiction.
Qed.
Lemma assoc_map_key {V} (g : str -> V) ks k : In k ks -> assoc (map (fun k => (k, g k)) ks) k = Some (g k).
Proof.
  induction ks as [|k' r IH]; simpl; [tauto|]. intros H.
  destruct (str_eqb k' k) eqn:E; [apply str_eqb_eq in E; now subst|].
  destruct H as [->|H]; auto. rewrite (proj2 (str_eqb_eq k k) eq_refl) in E. discriminate.
Qed.
Lemma in_assoc_nodup {V} (rows : list (str * V)) k v : NoDup (map fst rows) -> In (k, v) rows -> assoc rows k = Some v.
Proof.
  induction rows as [|[k' v'] r IH]; simpl; [tauto|]. intros N H. inversion N; subst.
  destruct H as [H|H].
  - inversion H; subst. now rewrite (proj2 (str_eqb_eq k k) eq_refl).
  - destruct (str_eqb k' k) eqn:E; auto. apply str_eqb_eq in E. subst.
    exfalso. apply H2. apply in_map_iff. exists (k, v). auto.
Qed.

Lemma keys_join2 o a b : keys (join2 o a b) = join_keys o a b.
Proof. unfold keys, join2, krows. simpl. rewrite map_map. simpl. apply map_id. Qed.
Lemma kcols_join2 o a b : kcols (join2 o a b) = kcols a ++ kcols b.
Proof. reflexivity. Qed.
Lemma in_join_outer a b k : In k (join_keys true a b) <-> In k (keys a) \/ In k (keys b).
Proof.
  unfold join_keys. rewrite in_app_iff, filter_In. split.
  - intros [H|[H _]]; auto.
  - intros [H|H]; auto. destruct (mem k (keys a)) eqn:E; [left; now apply mem_In|right; auto].
Qed.
Lemma in_join_inner a b k : In k (join_keys false a b) <-> In k (keys a) /\ In k (keys b).
Proof. unfold join_keys. rewrite filter_In, mem_In. tauto. Qed.
Lemma nodup_filter {A} (p : A -> bool) l : NoDup l -> NoDup (filter p l).
Proof.
  induction 1; simpl; [constructor|]. destruct (p x); auto. constructor; auto.
  intros H1. apply filter_In in H1. tauto.
Qed.
Lemma nodup_app {A} (l1 l2 : list A) : NoDup l1 -> NoDup l2 -> (forall x, In x l1 -> ~ In x l2) -> NoDup (l1 ++ l2).
Proof.
  induction 1; simpl; auto. intros N2 D. constructor.
  - rewrite in_app_iff. intros [I|I]; [contradiction|]. apply (D x); simpl; auto.
  - apply IHNoDup; [assumption|]. intros y Hy. apply D. simpl; auto.
Qed.
Lemma nodup_join o a b : NoDup (keys a) -> NoDup (keys b) -> NoDup (join_keys o a b).
Proof.
  intros Na Nb. destruct o; unfold join_keys.
  - apply nodup_app; auto using nodup_filter. intros x Hx Hf. apply filter_In in Hf. destruct Hf as [_ Hf].
    apply (proj2 (mem_In x (keys a))) in Hx. rewrite Hx in Hf. discriminate.
  - now apply nodup_filter.
Qed.
Lemma row_join2 o a b k : In k (join_keys o a b) ->
  row_or_pad k (join2 o a b) = row_or_pad k a ++ row_or_pad k b.
Proof.
  intros H. unfold row_or_pad at 1. unfold join2, krows. simpl.
  now rewrite (assoc_map_key (fun k => row_or_pad k a ++ row_or_pad k b) _ k H).
Qed.
Lemma row_absent k t : ~ In k (keys t) -> row_or_pad k t = pad t.
Proof. intros H. unfold row_or_pad. now rewrite (assoc_none (krows t) k H). Qed.
Lemma row_join2_outer a b k : row_or_pad k (join2 true a b) = row_or_pad k a ++ row_or_pad k b.
Proof.
  destruct (in_dec (list_eq_dec N.eq_dec) k (join_keys true a b)) as [H|H]; [now apply row_join2|].
  rewrite (row_absent k (join2 true a b)) by now rewrite keys_join2.
  rewrite in_join_outer in H. rewrite (row_absent k a), (row_absent k b) by tauto.
  unfold pad. rewrite kcols_join2, app_length. apply repeat_app.
Qed.

Definition fold_join o r t := fold_left (join2 o) r t.
Lemma fold_cols o r : forall t, kcols (fold_join o r t) = kcols t ++ concat (map kcols r).
Proof.
  induction r as [|b r IH]; intros t; simpl; [now rewrite app_nil_r|].
  unfold fold_join in *. simpl. rewrite IH, kcols_join2. now rewrite app_assoc.
Qed.
Lemma fold_keys_outer r : forall t k,
  In k (keys (fold_join true r t)) <-> In k (keys t) \/ exists x, In x r /\ In k (keys x).
Proof.
  induction r as [|b r IH]; intros t k; unfold fold_join in *; simpl.
  - split; auto. intros [H|[x [[] _]]]; auto.
  - rewrite IH, keys_join2, in_join_outer. split.
    + intros [[H|H]|[x [H1 H2]]]; eauto.
    + intros [H|[x [[->|H1] H2]]]; eauto.
Qed.
Lemma fold_keys_inner r : forall t k,
  In k (keys (fold_join false r t)) <-> In k (keys t) /\ forall x, In x r -> In k (keys x).
Proof.
  induction r as [|b r IH]; intros t k; unfold fold_join in *; simpl.
  - split; [intros H; split; auto; intros x []|tauto].
  - rewrite IH, keys_join2, in_join_inner. split.
    + intros [[H1 H2] H3]. split; auto. intros x [->|Hx]; auto.
    + intros [H1 H2]. split; auto.
Qed.
Lemma fold_nodup o r : forall t, NoDup (keys t) -> Forall (fun x => NoDup (keys x)) r -> NoDup (keys (fold_join o r t)).
Proof.
  induction r as [|b r IH]; intros t Nt Nr; unfold fold_join in *; simpl; auto.
  inversion Nr; subst. apply IH; auto. rewrite keys_join2. now apply nodup_join.
Qed.
Lemma fold_row o r : forall t k, In k (keys (fold_join o r t)) ->
  row_or_pad k (fold_join o r t) = row_or_pad k t ++ concat (map (row_or_pad k) r).
Proof.
  induction r as [|b r IH]; intros t k H; unfold fold_join in *; simpl in *; [now rewrite app_nil_r|].
  rewrite (IH _ k H). rewrite app_assoc. f_equal.
  destruct o; [apply row_join2_outer|].
  apply row_join2. apply fold_keys_inner in H. destruct H as [H _]. now rewrite keys_join2 in H.
Qed.

(* what "the join of all tables on the key" means for tables with unique keys *)
Definition merge_spec (outer : bool) (ts : list ktable) (res : ktable) : Prop :=
  kcols res = concat (map kcols ts) /\
  NoDup (keys res) /\
  (forall k, In k (keys res) <->
     if outer then exists t, In t ts /\ In k (keys t) else forall t, In t ts -> In k (keys t)) /\
  (forall k row, In (k, row) (krows res) -> row = concat (map (row_or_pad k) ts)).

Lemma reduce_join_spec outer ts : ts <> [] -> Forall (fun t => NoDup (keys t)) ts ->
  exists res, reduce_join outer ts = Ok res /\ merge_spec outer ts res.
Proof.
  destruct ts as [|t r]; [congruence|]. intros _ N. inversion N as [|? ? Nt Nr]; subst.
  exists (fold_join outer r t). split; [reflexivity|].
  pose proof (fold_nodup outer r t Nt Nr) as ND.
  split; [|split; [|split]].
  - rewrite fold_cols. reflexivity.
  - exact ND.
  - intros k. destruct outer.
    + rewrite fold_keys_outer. split.
      * intros [H|[x [H1 H2]]]; [exists t|exists x]; simpl; auto.
      * intros [x [[->|H1] H2]]; eauto.
    + rewrite fold_keys_inner. split.
      * intros [H1 H2] x [->|Hx]; auto.
      * intros H. split; [apply H; simpl; auto|]. intros x Hx. apply H. simpl; auto.
  - intros k row H.
    assert (K : In k (keys (fold_join outer r t))) by (unfold keys; apply in_map_iff; exists (k, row); auto).
    pose proof (fold_row outer r t k K) as R.
    unfold row_or_pad at 1 in R. rewrite (in_assoc_nodup _ k row ND H) in R. exact R.
Qed.

(* suffixing touches column names only *)
Definition suffixed (sufs : list str) (ts : list ktable) : list ktable :=
  match sufs with [] => ts | _ => map add_suffix (combine ts sufs) end.
Lemma multimerge_kw F oi sufs outer ts : merge_on_kw F = true ->
  multimerge F oi sufs outer ts = reduce_join outer (suffixed sufs ts).
Proof.
  intros H. unfold multimerge, suffixed. destruct sufs; auto. destruct oi; auto.
  destruct ts as [|t [|t2 r]]; auto. now rewrite H.
Qed.
Lemma keys_add_suffix p : keys (add_suffix p) = keys (fst p).
Proof. reflexivity. Qed.
Lemma row_add_suffix k p : row_or_pad k (add_suffix p) = row_or_pad k (fst p).
Proof. unfold row_or_pad, pad, add_suffix, krows, kcols. simpl. now rewrite map_length. Qed.
Lemma map_fst_combine {A B} (l : list A) (l' : list B) : length l = length l' -> map fst (combine l l') = l.
Proof. revert l'. induction l; destruct l'; simpl; intros; try discriminate; auto. f_equal. auto. Qed.
(* ------------------------------------------------------------------ multimerge with repeated keys *)
Lemma str_eqb_refl k : str_eqb k k = true.
Proof. now apply str_eqb_eq. Qed.
Lemma str_eqb_neq a b : a <> b -> str_eqb a b = false.
Proof. intros H. destruct (str_eqb a b) eqn:E; auto. apply str_eqb_eq in E. contradiction. Qed.
Lemma mem_false k l : mem k l = false <-> ~ In k l.
Proof. rewrite <- mem_In. destruct (mem k l); split; congruence. Qed.

Lemma in_dedup k l : In k (dedup l) <-> In k l.
Proof.
  induction l as [|x r IH]; simpl; [tauto|]. destruct (mem x r) eqn:E.
  - rewrite IH. apply mem_In in E. split; auto. intros [->|H]; auto.
  - simpl. now rewrite IH.
Qed.
Lemma nodup_dedup l : NoDup (dedup l).
Proof.
  induction l as [|x r IH]; simpl; [constructor|]. destruct (mem x r) eqn:E; auto.
  constructor; auto. rewrite in_dedup. now apply mem_false.
Qed.
Lemma dedup_nodup l : NoDup l -> dedup l = l.
Proof.
  induction 1 as [|x r H N IH]; simpl; auto. rewrite (proj2 (mem_false x r) H). now rewrite IH.
Qed.

Lemma rows_of_nil k t : rows_of k t = [] <-> ~ In k (keys t).
Proof.
  unfold rows_of, keys. induction (krows t) as [|[k' v] r IH]; simpl; [tauto|].
  destruct (str_eqb k' k) eqn:E; simpl.
  - apply str_eqb_eq in E. subst. split; [discriminate|]. intros H. exfalso. apply H. auto.
  - rewrite IH. split; [|tauto]. intros H [H1|H1]; [|tauto]. subst. rewrite str_eqb_refl in E. discriminate.
Qed.
Lemma rows_of_in k t : In k (keys t) <-> rows_of k t <> [].
Proof.
  rewrite rows_of_nil. destruct (in_dec (list_eq_dec N.eq_dec) k (keys t)); tauto.
Qed.
Lemma rows_or_pad_ne k t : rows_or_pad k t <> [].
Proof. unfold rows_or_pad. destruct (rows_of k t); discriminate. Qed.
Lemma rows_or_pad_in k t : In k (keys t) -> rows_or_pad k t = rows_of k t.
Proof. rewrite rows_of_in. unfold rows_or_pad. destruct (rows_of k t); congruence. Qed.
Lemma rows_or_pad_out k t : ~ In k (keys t) -> rows_or_pad k t = [pad t].
Proof. rewrite <- rows_of_nil. unfold rows_or_pad. now intros ->. Qed.

Lemma prod2_nil_l lb : prod2 [] lb = [].
Proof. reflexivity. Qed.
Lemma prod2_nil_r la : prod2 la [] = [].
Proof. unfold prod2. induction la; simpl; auto. Qed.
Lemma prod2_ne la lb : la <> [] -> lb <> [] -> prod2 la lb <> [].
Proof. destruct la, lb; try congruence. discriminate. Qed.
Lemma prod2_unit la : prod2 la [[]] = la.
Proof. unfold prod2. induction la; simpl; auto. f_equal; [apply app_nil_r|exact IHla]. Qed.
Lemma prod2_single x y : prod2 [x] [y] = [x ++ y].
Proof. reflexivity. Qed.
Lemma prod2_map ra lb lc : prod2 (map (app ra) lb) lc = map (app ra) (prod2 lb lc).
Proof.
  unfold prod2. induction lb as [|rb lb IH]; simpl; auto.
  rewrite map_app, IH, map_map. f_equal. apply map_ext. intros x. now rewrite app_assoc.
Qed.
Lemma prod2_app la la' lb : prod2 (la ++ la') lb = prod2 la lb ++ prod2 la' lb.
Proof. unfold prod2. induction la; simpl; auto. now rewrite IHla, app_assoc. Qed.
Lemma prod2_assoc la lb lc : prod2 (prod2 la lb) lc = prod2 la (prod2 lb lc).
Proof.
  induction la as [|ra la IH]; auto.
  change (prod2 (ra :: la) lb) with (map (app ra) lb ++ prod2 la lb).
  rewrite prod2_app, IH, prod2_map. reflexivity.
Qed.

(* the rows of key k in a table built key group by key group *)
Lemma group_filter (g : str -> list (list cell)) k k' :
  map snd (filter (fun r : str * list cell => str_eqb (fst r) k) (map (pair k') (g k'))) =
  if str_eqb k' k then g k' else [].
Proof.
  destruct (str_eqb k' k) eqn:E; induction (g k') as [|x l IH]; simpl; auto; rewrite E; simpl; now rewrite ?IH.
Qed.
Lemma rows_of_groups (g : str -> list (list cell)) cols ks k : NoDup ks ->
  rows_of k (cols, flat_map (fun k' => map (pair k') (g k')) ks) = if mem k ks then g k else [].
Proof.
  unfold rows_of, krows. simpl. induction 1 as [|x r H N IH]; simpl; auto.
  rewrite filter_app, map_app, group_filter, IH.
  destruct (str_eqb k x) eqn:E.
  - apply str_eqb_eq in E. subst. rewrite str_eqb_refl. simpl.
    rewrite (proj2 (mem_false x r) H). apply app_nil_r.
  - rewrite str_eqb_neq; [reflexivity|]. intros ->. rewrite str_eqb_refl in E. discriminate.
Qed.

Lemma nodup_join_m o a b : NoDup (join_keys_m o a b).
Proof.
  destruct o; unfold join_keys_m.
  - apply nodup_app; auto using nodup_filter, nodup_dedup. intros x Hx Hf. apply filter_In in Hf. destruct Hf as [_ Hf].
    apply (proj1 (in_dedup _ _)) in Hx. apply (proj2 (mem_In _ _)) in Hx. rewrite Hx in Hf. discriminate.
  - apply nodup_filter, nodup_dedup.
Qed.
Lemma in_join_outer_m a b k : In k (join_keys_m true a b) <-> In k (keys a) \/ In k (keys b).
Proof.
  unfold join_keys_m. rewrite in_app_iff, filter_In, !in_dedup. split.
  - intros [H|[H _]]; auto.
  - intros [H|H]; auto. destruct (mem k (keys a)) eqn:E; [left; now apply mem_In|right; auto].
Qed.
Lemma in_join_inner_m a b k : In k (join_keys_m false a b) <-> In k (keys a) /\ In k (keys b).
Proof. unfold join_keys_m. rewrite filter_In, mem_In, in_dedup. tauto. Qed.

Lemma kcols_join2m o a b : kcols (join2m o a b) = kcols a ++ kcols b.
Proof. reflexivity. Qed.
Lemma rows_of_join2m o a b k :
  rows_of k (join2m o a b) =
  if mem k (join_keys_m o a b) then prod2 (rows_or_pad k a) (rows_or_pad k b) else [].
Proof.
  unfold join2m.
  apply (rows_of_groups (fun k => prod2 (rows_or_pad k a) (rows_or_pad k b))). apply nodup_join_m.
Qed.
Lemma keys_join2m o a b k : In k (keys (join2m o a b)) <-> In k (join_keys_m o a b).
Proof.
  rewrite rows_of_in, rows_of_join2m. destruct (mem k (join_keys_m o a b)) eqn:E.
  - apply mem_In in E. split; auto. intros _. apply prod2_ne; apply rows_or_pad_ne.
  - apply mem_false in E. split; [congruence|contradiction].
Qed.
Lemma pad_join2m o a b : pad (join2m o a b) = pad a ++ pad b.
Proof. unfold pad. rewrite kcols_join2m, app_length. apply repeat_app. Qed.

(* outer: for EVERY key, the rows (or the padding row) of the join are the product of those of the operands *)
Lemma rows_join2m_outer a b k :
  rows_or_pad k (join2m true a b) = prod2 (rows_or_pad k a) (rows_or_pad k b).
Proof.
  destruct (in_dec (list_eq_dec N.eq_dec) k (join_keys_m true a b)) as [H|H].
  - rewrite rows_or_pad_in by now apply keys_join2m.
    rewrite rows_of_join2m. now rewrite (proj2 (mem_In _ _) H).
  - rewrite rows_or_pad_out by now rewrite keys_join2m.
    rewrite in_join_outer_m in H. rewrite (rows_or_pad_out k a), (rows_or_pad_out k b) by tauto.
    rewrite pad_join2m. reflexivity.
Qed.
(* inner: for every key, the rows of the join are the product of the operands' rows (empty when one lacks the key) *)
Lemma rows_join2m_inner a b k :
  rows_of k (join2m false a b) = prod2 (rows_of k a) (rows_of k b).
Proof.
  rewrite rows_of_join2m. destruct (mem k (join_keys_m false a b)) eqn:E.
  - apply mem_In, in_join_inner_m in E. destruct E as [Ea Eb]. now rewrite !rows_or_pad_in.
  - apply mem_false in E. rewrite in_join_inner_m in E.
    destruct (in_dec (list_eq_dec N.eq_dec) k (keys a)) as [Ha|Ha].
    + assert (Hb : ~ In k (keys b)) by tauto. apply rows_of_nil in Hb. rewrite Hb. now rewrite prod2_nil_r.
    + apply rows_of_nil in Ha. now rewrite Ha.
Qed.

Definition fold_join_m o r t := fold_left (join2m o) r t.
Lemma fold_cols_m o r : forall t, kcols (fold_join_m o r t) = kcols t ++ concat (map kcols r).
Proof.
  induction r as [|b r IH]; intros t; simpl; [now rewrite app_nil_r|].
  unfold fold_join_m in *. simpl. rewrite IH, kcols_join2m. now rewrite app_assoc.
Qed.
Lemma fold_keys_outer_m r : forall t k,
  In k (keys (fold_join_m true r t)) <-> In k (keys t) \/ exists x, In x r /\ In k (keys x).
Proof.
  induction r as [|b r IH]; intros t k; unfold fold_join_m in *; simpl.
  - split; auto. intros [H|[x [[] _]]]; auto.
  - rewrite IH, keys_join2m, in_join_outer_m. split.
    + intros [[H|H]|[x [H1 H2]]]; eauto.
    + intros [H|[x [[->|H1] H2]]]; eauto.
Qed.
Lemma fold_keys_inner_m r : forall t k,
  In k (keys (fold_join_m false r t)) <-> In k (keys t) /\ forall x, In x r -> In k (keys x).
Proof.
  induction r as [|b r IH]; intros t k; unfold fold_join_m in *; simpl.
  - split; [intros H; split; auto; intros x []|tauto].
  - rewrite IH, keys_join2m, in_join_inner_m. split.
    + intros [[H1 H2] H3]. split; auto. intros x [->|Hx]; auto.
    + intros [H1 H2]. split; auto.
Qed.
Lemma fold_rows_outer_m r : forall t k,
  rows_or_pad k (fold_join_m true r t) = nprod (rows_or_pad k) (t :: r).
Proof.
  induction r as [|b r IH]; intros t k; unfold fold_join_m in *; simpl in *; [now rewrite prod2_unit|].
  rewrite IH, rows_join2m_outer. apply prod2_assoc.
Qed.
Lemma fold_rows_inner_m r : forall t k,
  rows_of k (fold_join_m false r t) = nprod (rows_of k) (t :: r).
Proof.
  induction r as [|b r IH]; intros t k; unfold fold_join_m in *; simpl in *; [now rewrite prod2_unit|].
  rewrite IH, rows_join2m_inner. apply prod2_assoc.
Qed.

(* what "the join of all tables on the key" means when keys may repeat *)
Definition merge_spec_m (outer : bool) (ts : list ktable) (res : ktable) : Prop :=
  kcols res = concat (map kcols ts) /\
  (forall k, In k (keys res) <->
     if outer then exists t, In t ts /\ In k (keys t) else forall t, In t ts -> In k (keys t)) /\
  (forall k, In k (keys res) -> rows_of k res = nprod (rows_or_pad k) ts) /\
  (forall k, ~ In k (keys res) -> rows_of k res = []).

Lemma nprod_ext f g ts : (forall t, In t ts -> f t = g t) -> nprod f ts = nprod g ts.
Proof.
  induction ts as [|t r IH]; simpl; auto. intros H. rewrite (H t), IH; auto.
Qed.

Lemma reduce_join_m_spec outer ts : ts <> [] ->
  exists res, reduce_join_m outer ts = Ok res /\ merge_spec_m outer ts res.
Proof.
  destruct ts as [|t r]; [congruence|]. intros _.
  exists (fold_join_m outer r t). split; [reflexivity|].
  assert (K : forall k, In k (keys (fold_join_m outer r t)) <->
     if outer then exists t0, In t0 (t :: r) /\ In k (keys t0) else forall t0, In t0 (t :: r) -> In k (keys t0)).
  { intros k. destruct outer.
    + rewrite fold_keys_outer_m. split.
      * intros [H|[x [H1 H2]]]; [exists t|exists x]; simpl; auto.
      * intros [x [[->|H1] H2]]; eauto.
    + rewrite fold_keys_inner_m. split.
      * intros [H1 H2] x [->|Hx]; auto.
      * intros H. split; [apply H; simpl; auto|]. intros x Hx. apply H. simpl; auto. }
  split; [|split; [exact K|split]].
  - rewrite fold_cols_m. reflexivity.
  - intros k H. destruct outer.
    + rewrite <- fold_rows_outer_m. symmetry. now apply rows_or_pad_in.
    + rewrite fold_rows_inner_m. apply nprod_ext. intros t0 Ht0. symmetry. apply rows_or_pad_in.
      apply (proj1 (K k) H). exact Ht0.
  - intros k H. now apply rows_of_nil.
Qed.

Lemma multimerge_m_kw F oi sufs outer ts : merge_on_kw F = true ->
  multimerge_m F oi sufs outer ts = reduce_join_m outer (suffixed sufs ts).
Proof.
  intros H. unfold multimerge_m, suffixed. destruct sufs; auto. destruct oi; auto.
  destruct ts as [|t [|t2 r]]; auto. now rewrite H.
Qed.
Lemma rows_of_add_suffix k p : rows_of k (add_suffix p) = rows_of k (fst p).
Proof. reflexivity. Qed.
Lemma rows_or_pad_add_suffix k p : rows_or_pad k (add_suffix p) = rows_or_pad k (fst p).
Proof. unfold rows_or_pad, pad, add_suffix, rows_of, krows, kcols. simpl. now rewrite map_length. Qed.
Lemma nprod_map (f g : ktable -> list (list cell)) (h : ktable * str -> ktable) l :
  (forall p, f (h p) = g (fst p)) -> nprod f (map h l) = nprod g (map fst l).
Proof. intros H. induction l as [|p l IH]; simpl; auto. now rewrite H, IH. Qed.

(* ---- on tables with unique keys the many-to-many model IS the unique-key model *)
Lemma rows_of_unique k t : NoDup (keys t) ->
  rows_of k t = match assoc (krows t) k with Some r => [r] | None => [] end.
Proof.
  unfold rows_of, keys. induction (krows t) as [|[k' v] r IH]; simpl; auto. intros N. inversion N; subst.
  destruct (str_eqb k' k) eqn:E; simpl; auto. apply str_eqb_eq in E. subst. f_equal.
  change (rows_of k (@nil str, r) = []). apply rows_of_nil. exact H1.
Qed.
Lemma rows_or_pad_unique k t : NoDup (keys t) -> rows_or_pad k t = [row_or_pad k t].
Proof.
  intros N. unfold rows_or_pad, row_or_pad. rewrite (rows_of_unique k t N). destruct (assoc (krows t) k); auto.
Qed.
Lemma join2m_unique o a b : NoDup (keys a) -> NoDup (keys b) -> join2m o a b = join2 o a b.
Proof.
  intros Na Nb. unfold join2m, join2. f_equal.
  assert (E : join_keys_m o a b = join_keys o a b) by (unfold join_keys_m, join_keys; now rewrite !dedup_nodup).
  rewrite E. clear E. induction (join_keys o a b) as [|k l IH]; simpl; auto.
  rewrite IH, !rows_or_pad_unique; auto.
Qed.
Lemma fold_join_m_unique o r : forall t, NoDup (keys t) -> Forall (fun x => NoDup (keys x)) r ->
  fold_join_m o r t = fold_join o r t.
Proof.
  induction r as [|b r IH]; intros t Nt Nr; unfold fold_join_m, fold_join in *; simpl; auto.
  inversion Nr; subst. rewrite join2m_unique by auto. apply IH; auto. rewrite keys_join2. now apply nodup_join.
Qed.
Lemma reduce_join_m_unique o ts : Forall (fun t => NoDup (keys t)) ts -> reduce_join_m o ts = reduce_join o ts.
Proof.
  destruct ts as [|t r]; auto. intros N. inversion N; subst. simpl. f_equal. now apply fold_join_m_unique.
Qed.
Lemma multimerge_m_unique F oi sufs o ts : Forall (fun t => NoDup (keys t)) ts ->
  multimerge_m F oi sufs o ts = multimerge F oi sufs o ts.
Proof.
  intros N. unfold multimerge_m, multimerge.
  assert (S : forall l : list str, Forall (fun t => NoDup (keys t)) (map add_suffix (combine ts l))).
  { intros l. apply Forall_forall. intros x Hx. apply in_map_iff in Hx. destruct Hx as [[t s] [<- Hp]].
    rewrite keys_add_suffix. simpl. apply in_combine_l in Hp. rewrite Forall_forall in N. now apply N. }
  destruct sufs; [|now apply reduce_join_m_unique].
  destruct oi; [now apply reduce_join_m_unique|].
  destruct ts as [|t [|t2 r]]; auto. destruct (merge_on_kw F); auto. now apply reduce_join_m_unique.
Qed.

(* rows_of determines the multiset of (key, row) pairs of a table *)
Definition row_dec : forall x y : list cell, {x = y} + {x <> y}.
Proof. apply list_eq_dec. intros [a|] [b|]; try (right; discriminate); [|now left].
  destruct (list_eq_dec N.eq_dec a b) as [->|H]; [now left|right; congruence]. Defined.
Definition krow_dec : forall x y : str * list cell, {x = y} + {x <> y}.
Proof. intros [k r] [k' r']. destruct (list_eq_dec N.eq_dec k k') as [->|H]; [|right; congruence].
  destruct (row_dec r r') as [->|H]; [now left|right; congruence]. Defined.
Lemma rows_of_count t k row : count_occ krow_dec (krows t) (k, row) = count_occ row_dec (rows_of k t) row.
Proof.
  unfold rows_of. induction (krows t) as [|[k' v] r IH]; [reflexivity|]. cbn [filter fst].
  destruct (str_eqb k' k) eqn:E.
  - apply str_eqb_eq in E. subst. cbn [map snd]. destruct (row_dec v row) as [->|H].
    + rewrite !count_occ_cons_eq by reflexivity. now rewrite IH.
    + rewrite !count_occ_cons_neq by congruence. exact IH.
  - rewrite count_occ_cons_neq; [exact IH|]. intros H. inversion H; subst. rewrite str_eqb_refl in E. discriminate.
Qed.
