(* C17: conservation / bound theorems for model/Resample.v (subsample, downsample, subsets).
   Axiom-free: no Reals here. *)
From Coq Require Import List Arith Bool Lia Permutation Sorting.Sorted.
From PV Require Import model.Resample.
Import ListNotations.

(* ------------------------------------------------------------------ *)
(* Generic list facts                                                   *)
(* ------------------------------------------------------------------ *)

Lemma map_nth_seq {X} (d : X) (l : list X) :
  map (fun t => nth t l d) (seq 0 (length l)) = l.
Proof.
  induction l as [|a l IHl]; simpl; [reflexivity|].
  f_equal. rewrite <- seq_shift, map_map. exact IHl.
Qed.

Lemma count_occ_map_filter {X} (g : X -> nat) (l : list X) (i : nat) :
  count_occ Nat.eq_dec (map g l) i = length (filter (fun t => Nat.eqb (g t) i) l).
Proof.
  induction l as [|a l IHl]; simpl; [reflexivity|].
  destruct (Nat.eq_dec (g a) i) as [Heq|Hne].
  - apply Nat.eqb_eq in Heq. rewrite Heq. simpl. f_equal. exact IHl.
  - apply Nat.eqb_neq in Hne. rewrite Hne. exact IHl.
Qed.

Lemma NoDup_incl_filter_length {X} (P : X -> bool) (S T : list X) :
  NoDup S -> incl S T -> length (filter P S) <= length (filter P T).
Proof.
  intros Hnd Hincl.
  apply NoDup_incl_length.
  - apply NoDup_filter. exact Hnd.
  - intros t Ht. apply filter_In in Ht. destruct Ht as [Ht HP].
    apply filter_In. split; [apply Hincl; exact Ht | exact HP].
Qed.

(* the injection-counting argument of 1b *)
Lemma count_occ_map_NoDup_le (g : nat -> nat) (S : list nat) (N i : nat) :
  NoDup S -> (forall t, In t S -> t < N) ->
  count_occ Nat.eq_dec (map g S) i <= count_occ Nat.eq_dec (map g (seq 0 N)) i.
Proof.
  intros Hnd Hlt.
  rewrite !count_occ_map_filter.
  apply NoDup_incl_filter_length; [exact Hnd|].
  intros t Ht. apply in_seq. specialize (Hlt t Ht). lia.
Qed.

Lemma NoDup_incl_split {X} (S : list X) :
  NoDup S -> forall T, incl S T -> exists rest, Permutation T (S ++ rest).
Proof.
  induction 1 as [|a S Hnin Hnd IH]; intros T Hincl.
  - exists T. apply Permutation_refl.
  - assert (HaT : In a T) by (apply Hincl; left; reflexivity).
    apply in_split in HaT. destruct HaT as [T1 [T2 HT]]. subst T.
    assert (Hincl' : incl S (T1 ++ T2)).
    { intros t Ht.
      assert (HtT : In t (T1 ++ a :: T2)) by (apply Hincl; right; exact Ht).
      apply in_app_or in HtT. apply in_or_app.
      destruct HtT as [H1|[H2|H3]].
      - left; exact H1.
      - subst t. contradiction.
      - right; exact H3. }
    destruct (IH _ Hincl') as [rest Hrest].
    exists rest. simpl.
    apply Permutation_trans with (a :: T1 ++ T2).
    + apply Permutation_sym. apply Permutation_middle.
    + apply perm_skip. exact Hrest.
Qed.

(* ------------------------------------------------------------------ *)
(* PART 1a: unpack                                                      *)
(* ------------------------------------------------------------------ *)

Lemma unpack_from_length i counts : length (unpack_from i counts) = list_sum counts.
Proof.
  revert i. induction counts as [|c r IH]; intros i; simpl; [reflexivity|].
  rewrite app_length, repeat_length, IH. reflexivity.
Qed.

Theorem unpack_length counts : length (unpack counts) = list_sum counts.
Proof. apply unpack_from_length. Qed.

Lemma unpack_from_range i counts :
  Forall (fun v => i <= v < i + length counts) (unpack_from i counts).
Proof.
  revert i. induction counts as [|c r IH]; intros i; simpl; [constructor|].
  apply Forall_app. split.
  - apply Forall_forall. intros v Hv. apply repeat_spec in Hv. lia.
  - eapply Forall_impl; [|apply IH]. simpl. intros v Hv. lia.
Qed.

Theorem unpack_nth_lt counts :
  forall t, t < list_sum counts -> nth t (unpack counts) 0 < length counts.
Proof.
  intros t Ht.
  pose proof (unpack_from_range 0 counts) as HF.
  rewrite Forall_forall in HF.
  assert (Hin : In (nth t (unpack counts) 0) (unpack counts)).
  { apply nth_In. rewrite unpack_length. exact Ht. }
  specialize (HF _ Hin). simpl in HF. lia.
Qed.

Lemma unpack_from_count i counts j :
  count_occ Nat.eq_dec (unpack_from i counts) j =
  if Nat.ltb j i then 0 else nth (j - i) counts 0.
Proof.
  revert i. induction counts as [|c r IH]; intros i; simpl.
  - destruct (Nat.ltb j i); [reflexivity|]. destruct (j - i); reflexivity.
  - rewrite count_occ_app, IH.
    destruct (Nat.ltb_spec j i) as [Hlt|Hge].
    + rewrite count_occ_repeat_neq by lia.
      destruct (Nat.ltb_spec j (S i)); [reflexivity|lia].
    + destruct (Nat.eq_dec j i) as [Heq|Hne].
      * subst j. rewrite count_occ_repeat_eq by reflexivity.
        destruct (Nat.ltb_spec i (S i)); [|lia].
        rewrite Nat.sub_diag. lia.
      * rewrite count_occ_repeat_neq by exact Hne.
        destruct (Nat.ltb_spec j (S i)); [lia|].
        replace (j - i) with (S (j - S i)) by lia. reflexivity.
Qed.

Theorem unpack_count counts i :
  count_occ Nat.eq_dec (unpack counts) i = nth i counts 0.
Proof.
  unfold unpack. rewrite unpack_from_count. simpl. rewrite Nat.sub_0_r. reflexivity.
Qed.

(* ------------------------------------------------------------------ *)
(* PART 1b: subsample                                                   *)
(* ------------------------------------------------------------------ *)

Lemma filter_pos_sum (l : list (nat * nat)) :
  list_sum (map snd (filter (fun p => Nat.ltb 0 (snd p)) l)) = list_sum (map snd l).
Proof.
  induction l as [|[a b] l IH]; simpl; [reflexivity|].
  destruct (Nat.ltb_spec 0 b) as [Hpos|Hz]; simpl; rewrite IH; lia.
Qed.

Lemma filter_lt_S (cats : list nat) (L : nat) :
  length (filter (fun v => Nat.ltb v (S L)) cats) =
  length (filter (fun v => Nat.ltb v L) cats) + count_occ Nat.eq_dec cats L.
Proof.
  induction cats as [|a cats IH]; simpl; [reflexivity|].
  destruct (Nat.ltb_spec a (S L)) as [H1|H1];
    destruct (Nat.ltb_spec a L) as [H2|H2];
    destruct (Nat.eq_dec a L) as [H3|H3]; simpl; try lia.
Qed.

Lemma count_occ_seq_sum (cats : list nat) (L : nat) :
  list_sum (map (count_occ Nat.eq_dec cats) (seq 0 L)) =
  length (filter (fun v => Nat.ltb v L) cats).
Proof.
  induction L as [|L IH].
  - simpl. induction cats as [|a cats IHc]; simpl; [reflexivity|exact IHc].
  - rewrite seq_S, map_app, list_sum_app, IH, filter_lt_S. simpl. lia.
Qed.

Lemma filter_all_true {X} (P : X -> bool) (l : list X) :
  (forall x, In x l -> P x = true) -> filter P l = l.
Proof.
  induction l as [|a l IH]; intros H; simpl; [reflexivity|].
  rewrite (H a) by (left; reflexivity). f_equal. apply IH.
  intros x Hx. apply H. right. exact Hx.
Qed.

Lemma count_occ_seq_total (cats : list nat) (L : nat) :
  (forall v, In v cats -> v < L) ->
  list_sum (map (count_occ Nat.eq_dec cats) (seq 0 L)) = length cats.
Proof.
  intros H. rewrite count_occ_seq_sum, filter_all_true; [reflexivity|].
  intros v Hv. apply Nat.ltb_lt. apply H. exact Hv.
Qed.

Lemma tagged_filter_fst (f : nat -> nat) (P : nat * nat -> bool) (l : list nat) :
  map fst (filter P (map (fun i => (i, f i)) l)) = filter (fun i => P (i, f i)) l.
Proof.
  induction l as [|a l IH]; simpl; [reflexivity|].
  destruct (P (a, f a)); simpl; rewrite IH; reflexivity.
Qed.

Lemma StronglySorted_filter {X} (R : X -> X -> Prop) (P : X -> bool) (l : list X) :
  StronglySorted R l -> StronglySorted R (filter P l).
Proof.
  induction 1 as [|a l Hs IH Hall]; simpl; [constructor|].
  destruct (P a); [|exact IH].
  constructor; [exact IH|].
  rewrite Forall_forall in *. intros x Hx. apply Hall.
  apply filter_In in Hx. tauto.
Qed.

Lemma StronglySorted_seq s n : StronglySorted lt (seq s n).
Proof.
  revert s. induction n as [|n IH]; intros s; simpl; constructor.
  - apply IH.
  - apply Forall_forall. intros x Hx. apply in_seq in Hx. lia.
Qed.

Theorem subsample_spec counts S :
  NoDup S -> (forall t, In t S -> t < list_sum counts) ->
  let r := subsample counts S in
  StronglySorted lt (map fst r) /\
  Forall (fun p => 0 < snd p) r /\
  list_sum (map snd r) = length S /\
  Forall (fun p => snd p <= nth (fst p) counts 0) r /\
  Forall (fun p => fst p < length counts) r.
Proof.
  intros Hnd Hlt r. subst r. unfold subsample.
  set (g := fun t => nth t (unpack counts) 0).
  set (cats := map g S).
  assert (Hcats : forall v, In v cats -> v < length counts).
  { intros v Hv. unfold cats in Hv. apply in_map_iff in Hv.
    destruct Hv as [t [Hgt Ht]]. subst v. unfold g.
    apply unpack_nth_lt. apply Hlt. exact Ht. }
  repeat split.
  - rewrite tagged_filter_fst. apply StronglySorted_filter. apply StronglySorted_seq.
  - apply Forall_forall. intros p Hp. apply filter_In in Hp.
    destruct Hp as [_ Hp]. apply Nat.ltb_lt. exact Hp.
  - rewrite filter_pos_sum, map_map.
    transitivity (list_sum (map (count_occ Nat.eq_dec cats) (seq 0 (length counts)))).
    { reflexivity. }
    rewrite (count_occ_seq_total cats (length counts) Hcats).
    unfold cats. apply map_length.
  - apply Forall_forall. intros p Hp. apply filter_In in Hp.
    destruct Hp as [Hp _]. apply in_map_iff in Hp.
    destruct Hp as [i [Hpi _]]. subst p. simpl.
    assert (Heq : map g (seq 0 (list_sum counts)) = unpack counts).
    { unfold g. rewrite <- unpack_length. apply map_nth_seq. }
    apply Nat.le_trans with (count_occ Nat.eq_dec (map g (seq 0 (list_sum counts))) i).
    + unfold cats. apply count_occ_map_NoDup_le; assumption.
    + rewrite Heq, unpack_count. apply le_n.
  - apply Forall_forall. intros p Hp. apply filter_In in Hp.
    destruct Hp as [Hp _]. apply in_map_iff in Hp.
    destruct Hp as [i [Hpi Hi]]. subst p. simpl. apply in_seq in Hi. lia.
Qed.

(* ------------------------------------------------------------------ *)
(* PART 1c                                                              *)
(* ------------------------------------------------------------------ *)

Theorem subsample_refuses : forall counts S,
  NoDup S -> (forall t, In t S -> t < list_sum counts) -> length S <= list_sum counts.
Proof.
  intros counts S Hnd Hlt.
  rewrite <- (seq_length (list_sum counts) 0).
  apply NoDup_incl_length; [exact Hnd|].
  intros t Ht. apply in_seq. specialize (Hlt t Ht). lia.
Qed.

(* ------------------------------------------------------------------ *)
(* PART 2: downsample                                                   *)
(* ------------------------------------------------------------------ *)

Theorem downsample_id {X} (d : X) (xs : list X) (maxseqs : option nat) (S : list nat) :
  maxseqs = None \/ (exists m, maxseqs = Some m /\ length xs <= m) ->
  downsample d xs maxseqs S = xs.
Proof.
  intros [Hnone|[m [Hsome Hle]]]; subst maxseqs; simpl; [reflexivity|].
  apply Nat.leb_le in Hle. rewrite Hle. reflexivity.
Qed.

Theorem downsample_sub {X} (d : X) (xs : list X) (maxseqs : option nat) (m : nat) (S : list nat) :
  maxseqs = Some m -> m < length xs -> NoDup S -> length S = m ->
  (forall t, In t S -> t < length xs) ->
  let r := downsample d xs (Some m) S in
  length r = m /\ exists rest, Permutation xs (r ++ rest).
Proof.
  intros _ Hm Hnd Hlen Hlt r. subst r. simpl.
  assert (Hleb : Nat.leb (length xs) m = false) by (apply Nat.leb_gt; exact Hm).
  rewrite Hleb. split.
  - rewrite map_length. exact Hlen.
  - assert (Hincl : incl S (seq 0 (length xs))).
    { intros t Ht. apply in_seq. specialize (Hlt t Ht). lia. }
    destruct (NoDup_incl_split S Hnd _ Hincl) as [rest Hperm].
    exists (map (fun t => nth t xs d) rest).
    rewrite <- map_app.
    rewrite <- (map_nth_seq d xs) at 1.
    apply Permutation_map. exact Hperm.
Qed.

(* same statement phrased on the [maxseqs] variable itself *)
Corollary downsample_sub' {X} (d : X) (xs : list X) (maxseqs : option nat) (m : nat) (S : list nat) :
  maxseqs = Some m -> m < length xs -> NoDup S -> length S = m ->
  (forall t, In t S -> t < length xs) ->
  let r := downsample d xs maxseqs S in
  length r = m /\ exists rest, Permutation xs (r ++ rest).
Proof.
  intros Hms. rewrite Hms. apply (downsample_sub d xs (Some m) m S eq_refl).
Qed.

(* ------------------------------------------------------------------ *)
(* PART 3: uniform inclusion identity over [subsets]                    *)
(* ------------------------------------------------------------------ *)

(* binomial coefficient by Pascal's rule: choose N n = C(N, n) *)
Fixpoint choose (N n : nat) : nat :=
  match N, n with
  | _, 0 => 1
  | 0, S _ => 0
  | S N', S n' => choose N' n' + choose N' n
  end.

Lemma choose_0_r N : choose N 0 = 1.
Proof. destruct N; reflexivity. Qed.

Lemma choose_pascal N n : choose (S N) (S n) = choose N n + choose N (S n).
Proof. reflexivity. Qed.

Lemma subsets_0 {X} (l : list X) : subsets 0 l = [[]].
Proof. destruct l; reflexivity. Qed.

Lemma subsets_cons {X} n (a : X) (r : list X) :
  subsets (S n) (a :: r) = map (cons a) (subsets n r) ++ subsets (S n) r.
Proof. reflexivity. Qed.

Theorem subsets_length {X} (n : nat) (l : list X) :
  length (subsets n l) = choose (length l) n.
Proof.
  revert n. induction l as [|a r IH]; intros n.
  - destruct n; reflexivity.
  - destruct n as [|n].
    + reflexivity.
    + rewrite subsets_cons, app_length, map_length, !IH. reflexivity.
Qed.

Theorem subsets_elem_length {X} (n : nat) (l : list X) (s : list X) :
  In s (subsets n l) -> length s = n.
Proof.
  revert n s. induction l as [|a r IH]; intros n s Hin.
  - destruct n; simpl in Hin; [|contradiction].
    destruct Hin as [Hs|[]]. subst s. reflexivity.
  - destruct n as [|n].
    + simpl in Hin. destruct Hin as [Hs|[]]. subst s. reflexivity.
    + rewrite subsets_cons in Hin. apply in_app_or in Hin.
      destruct Hin as [Hin|Hin].
      * apply in_map_iff in Hin. destruct Hin as [s' [Hs Hin]]. subst s.
        simpl. f_equal. apply IH. exact Hin.
      * apply IH. exact Hin.
Qed.

(* order-preserving sublist (subsequence) *)
Inductive Subseq {X} : list X -> list X -> Prop :=
| Subseq_nil : Subseq [] []
| Subseq_skip : forall a s l, Subseq s l -> Subseq s (a :: l)
| Subseq_take : forall a s l, Subseq s l -> Subseq (a :: s) (a :: l).

Lemma Subseq_nil_l {X} (l : list X) : Subseq [] l.
Proof. induction l as [|a l IH]; constructor; exact IH. Qed.

Lemma Subseq_In {X} (s l : list X) : Subseq s l -> forall x, In x s -> In x l.
Proof.
  induction 1 as [|a s l Hsub IH|a s l Hsub IH]; intros x Hx.
  - exact Hx.
  - right. apply IH. exact Hx.
  - destruct Hx as [Hx|Hx]; [left; exact Hx|right; apply IH; exact Hx].
Qed.

Theorem subsets_Subseq {X} (n : nat) (l : list X) (s : list X) :
  In s (subsets n l) -> Subseq s l.
Proof.
  revert n s. induction l as [|a r IH]; intros n s Hin.
  - destruct n; simpl in Hin; [|contradiction].
    destruct Hin as [Hs|[]]. subst s. constructor.
  - destruct n as [|n].
    + simpl in Hin. destruct Hin as [Hs|[]]. subst s. apply Subseq_nil_l.
    + rewrite subsets_cons in Hin. apply in_app_or in Hin.
      destruct Hin as [Hin|Hin].
      * apply in_map_iff in Hin. destruct Hin as [s' [Hs Hin]]. subst s.
        apply Subseq_take. apply (IH n). exact Hin.
      * apply Subseq_skip. apply (IH (S n)). exact Hin.
Qed.

(* converse: every subsequence of length n is listed (completeness of the enumeration) *)
Theorem Subseq_subsets {X} (s l : list X) :
  Subseq s l -> In s (subsets (length s) l).
Proof.
  induction 1 as [|a s l Hsub IH|a s l Hsub IH].
  - left. reflexivity.
  - destruct s as [|b s].
    + rewrite subsets_0. left. reflexivity.
    + simpl length. rewrite subsets_cons. apply in_or_app. right. exact IH.
  - simpl length. rewrite subsets_cons. apply in_or_app. left.
    apply in_map. exact IH.
Qed.

Section Inclusion.
  Context {X : Type} (eqd : forall a b : X, {a = b} + {a <> b}).

  Definition has (x : X) (s : list X) : bool := if in_dec eqd x s then true else false.

  Lemma has_cons_eq x s : has x (x :: s) = true.
  Proof.
    unfold has. destruct (in_dec eqd x (x :: s)) as [Hin|Hnin]; [reflexivity|].
    exfalso. apply Hnin. left. reflexivity.
  Qed.

  Lemma has_cons_neq a x s : a <> x -> has x (a :: s) = has x s.
  Proof.
    intros Hne. unfold has.
    destruct (in_dec eqd x (a :: s)) as [Hin|Hnin];
      destruct (in_dec eqd x s) as [Hin'|Hnin']; try reflexivity.
    - exfalso. destruct Hin as [Heq|Hin]; [apply Hne; exact Heq|apply Hnin'; exact Hin].
    - exfalso. apply Hnin. right. exact Hin'.
  Qed.

  Lemma filter_has_map_eq x (ss : list (list X)) :
    filter (has x) (map (cons x) ss) = map (cons x) ss.
  Proof.
    apply filter_all_true. intros s Hs. apply in_map_iff in Hs.
    destruct Hs as [s' [Hs' _]]. subst s. apply has_cons_eq.
  Qed.

  Lemma filter_has_map_neq a x (ss : list (list X)) :
    a <> x -> filter (has x) (map (cons a) ss) = map (cons a) (filter (has x) ss).
  Proof.
    intros Hne. induction ss as [|s ss IH]; simpl; [reflexivity|].
    rewrite (has_cons_neq a x s Hne). destruct (has x s); simpl; rewrite IH; reflexivity.
  Qed.

  Lemma count_has_notin x n (l : list X) :
    ~ In x l -> filter (has x) (subsets n l) = [].
  Proof.
    intros Hnin.
    assert (Hall : forall s, In s (subsets n l) -> has x s = false).
    { intros s Hs. unfold has. destruct (in_dec eqd x s) as [Hin|Hn]; [|reflexivity].
      exfalso. apply Hnin. apply (Subseq_In s l (subsets_Subseq n l s Hs)). exact Hin. }
    induction (subsets n l) as [|s ss IH]; simpl; [reflexivity|].
    rewrite (Hall s) by (left; reflexivity). apply IH.
    intros s' Hs'. apply Hall. right. exact Hs'.
  Qed.

  Lemma count_has_0 x (l : list X) : filter (has x) (subsets 0 l) = [].
  Proof. rewrite subsets_0. reflexivity. Qed.

  (* number of n+1-subsets containing x = C(N-1, n) *)
  Lemma count_has_S x (l : list X) :
    NoDup l -> In x l ->
    forall n, length (filter (has x) (subsets (S n) l)) = choose (length l - 1) n.
  Proof.
    induction 1 as [|a r Hnin Hnd IH]; intros Hin n; [contradiction|].
    rewrite subsets_cons, filter_app, app_length. simpl length.
    rewrite Nat.sub_succ, Nat.sub_0_r.
    destruct (eqd a x) as [Heq|Hne].
    - subst a. rewrite filter_has_map_eq, map_length, subsets_length.
      rewrite (count_has_notin x (S n) r Hnin). simpl. lia.
    - assert (Hinr : In x r) by (destruct Hin as [Heq|Hin]; [contradiction|exact Hin]).
      rewrite (filter_has_map_neq a x _ Hne), map_length, (IH Hinr n).
      assert (Hlen : length r = S (length r - 1)).
      { destruct r as [|b r']; [contradiction|]. simpl. lia. }
      remember (length r - 1) as k eqn:Hk.
      rewrite Hlen.
      destruct n as [|n].
      + rewrite count_has_0. rewrite !choose_0_r. reflexivity.
      + rewrite (IH Hinr n).
        rewrite choose_pascal. reflexivity.
  Qed.

End Inclusion.

(* absorption identity  C(N, n) * (N+1) = C(N+1, n+1) * (n+1) *)
Lemma choose_absorb : forall N n, choose N n * S N = choose (S N) (S n) * S n.
Proof.
  induction N as [|M IH]; intros n.
  - destruct n as [|[|k]]; reflexivity.
  - destruct n as [|k].
    + pose proof (IH 0) as H0. rewrite choose_0_r in *.
      rewrite (choose_pascal (S M) 0), choose_0_r. lia.
    + pose proof (IH k) as Hk. pose proof (IH (S k)) as HSk.
      rewrite (choose_pascal (S M) (S k)).
      rewrite (choose_pascal M k) in *.
      nia.
Qed.

Theorem inclusion_identity {X} (eqd : forall a b : X, {a=b}+{a<>b}) n (l : list X) x :
  NoDup l -> In x l ->
  length (filter (fun s => if in_dec eqd x s then true else false) (subsets n l)) * length l
  = length (subsets n l) * n.
Proof.
  intros Hnd Hin.
  change (fun s => if in_dec eqd x s then true else false) with (has eqd x).
  destruct n as [|n].
  - rewrite count_has_0. simpl. lia.
  - rewrite (count_has_S eqd x l Hnd Hin n), subsets_length.
    destruct l as [|a r]; [contradiction|].
    simpl length. rewrite Nat.sub_succ, Nat.sub_0_r.
    apply choose_absorb.
Qed.

(* the two counts separately *)
Theorem inclusion_count {X} (eqd : forall a b : X, {a=b}+{a<>b}) n (l : list X) x :
  NoDup l -> In x l ->
  length (filter (fun s => if in_dec eqd x s then true else false) (subsets n l))
  = match n with 0 => 0 | S n' => choose (length l - 1) n' end.
Proof.
  intros Hnd Hin.
  change (fun s => if in_dec eqd x s then true else false) with (has eqd x).
  destruct n as [|n].
  - rewrite count_has_0. reflexivity.
  - apply count_has_S; assumption.
Qed.

Print Assumptions unpack_length.
Print Assumptions unpack_nth_lt.
Print Assumptions unpack_count.
Print Assumptions subsample_spec.
Print Assumptions subsample_refuses.
Print Assumptions downsample_id.
Print Assumptions downsample_sub.
Print Assumptions subsets_length.
Print Assumptions subsets_elem_length.
Print Assumptions subsets_Subseq.
Print Assumptions Subseq_subsets.
Print Assumptions inclusion_count.
Print Assumptions inclusion_identity.
