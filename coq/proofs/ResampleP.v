(* C17: conservation / bound theorems for model/Resample.v (subsample, downsample, subsets).
   No axioms are used: no Reals here. *)
From Coq Require Import List Arith Bool Lia Permutation Sorting.Sorted.
From PV Require Import model.Resample.
Import ListNotations.

(* ------------------------------------------------------------------ *)
(* Generic list facts                                                   *)
(* ------------------------------------------------------------------ *)

Lemma map_nth_seq {X} (d : X) (l : list X) :
  map (fun t => nth t l d) (seq 0 (length l)) = l.
Proof.
  induction l as [|a l IHl]; simpl; [reflexivity|].
  f_equal. rewrite <- seq_shift, map_map. exact IHl.
Qed.

Lemma count_occ_map_filter {X} (g : X -> nat) (l : list X) (i : nat) :
  count_occ Nat.eq_dec (map g l) i = length (filter (fun t => Nat.eqb (g t) i) l).
Proof.
  induction l as [|a l IHl]; simpl; [reflexivity|].
  destruct (Nat.eq_dec (g a) i) as [Heq|Hne].
  - apply Nat.eqb_eq in Heq. rewrite Heq. simpl. f_equal. exact IHl.
  - apply Nat.eqb_neq in Hne. rewrite Hne. exact IHl.
Qed.

Lemma NoDup_incl_filter_length {X} (P : X -> bool) (S T : list X) :
  NoDup S -> incl S T -> length (filter P S) <= length (filter P T).
Proof.
  intros Hnd Hincl.
  apply NoDup_incl_length.
  - apply NoDup_filter. exact Hnd.
  - intros t Ht. apply filter_In in Ht. destruct Ht as [Ht HP].
    apply filter_In. split; [apply Hincl; exact Ht | exact HP].
Qed.

(* the injection-counting argument of 1b *)
Lemma count_occ_map_NoDup_le (g : nat -> nat) (S : list nat) (N i : nat) :
  NoDup S -> (forall t, In t S -> t < N) ->
  count_occ Nat.eq_dec (map g S) i <= count_occ Nat.eq_dec (map g (seq 0 N)) i.
Proof.
  intros Hnd Hlt.
  rewrite !count_occ_map_filter.
  apply NoDup_incl_filter_length; [exact Hnd|].
  intros t Ht. apply in_seq. specialize (Hlt t Ht). lia.
Qed.

Lemma NoDup_incl_split {X} (S : list X) :
  NoDup S -> forall T, incl S T -> exists rest, Permutation T (S ++ rest).
Proof.
  induction 1 as [|a S Hnin Hnd IH]; intros T Hincl.
  - exists T. apply Permutation_refl.
  - assert (HaT : In a T) by (apply Hincl; left; reflexivity).
    apply in_split in HaT. destruct HaT as [T1 [T2 HT]]. subst T.
    assert (Hincl' : incl S (T1 ++ T2)).
    { intros t Ht.
      assert (HtT : In t (T1 ++ a :: T2)) by (apply Hincl; right; exact Ht).
      apply in_app_or in HtT. apply in_or_app.
      destruct HtT as [H1|[H2|H3]].
      - left; exact H1.
      - subst t. contradiction.
      - right; exact H3. }
    destruct (IH _ Hincl') as [rest Hrest].
    exists rest. simpl.
    apply Permutation_trans with (a :: T1 ++ T2).
    + apply Permutation_sym. apply Permutation_middle.
    + apply perm_skip. exact Hrest.
Qed.

(* ------------------------------------------------------------------ *)
(* PART 1a: unpack                                                      *)
(* ------------------------------------------------------------------ *)

Lemma unpack_from_length i counts : length (unpack_from i counts) = list_sum counts.
Proof.
  revert i. induction counts as [|c r IH]; intros i; simpl; [reflexivity|].
  rewrite app_length, repeat_length, IH. reflexivity.
Qed.

Theorem unpack_length counts : length (unpack counts) = list_sum counts.
Proof. apply unpack_from_length. Qed.

Lemma unpack_from_range i counts :
  Forall (fun v => i <= v < i + length counts) (unpack_from i counts).
Proof.
  revert i. induction counts as [|c r IH]; intros i; simpl; [constructor|].
  apply Forall_app. split.
  - apply Forall_forall. intros v Hv. apply repeat_spec in Hv. lia.
  - eapply Forall_impl; [|apply IH]. simpl. intros v Hv. lia.
Qed.

Theorem unpack_nth_lt counts :
  forall t, t < list_sum counts -> nth t (unpack counts) 0 < length counts.
Proof.
  intros t Ht.
  pose proof (unpack_from_range 0 counts) as HF.
  rewrite Forall_forall in HF.
  assert (Hin : In (nth t (unpack counts) 0) (unpack counts)).
  { apply nth_In. rewrite unpack_length. exact Ht. }
  specialize (HF _ Hin). simpl in HF. lia.
Qed.

Lemma unpack_from_count i counts j :
  count_occ Nat.eq_dec (unpack_from i counts) j =
  if Nat.ltb j i then 0 else nth (j - i) counts 0.
Proof.
  revert i. induction counts as [|c r IH]; intros i; simpl.
  - destruct (Nat.ltb j i); [reflexivity|]. destruct (j - i); reflexivity.
  - rewrite count_occ_app, IH.
    destruct (Nat.ltb_spec j i) as [Hlt|Hge].
    + rewrite count_occ_repeat_neq by lia.
      destruct (Nat.ltb_spec j (S i)); [reflexivity|lia].
    + destruct (Nat.eq_dec j i) as [Heq|Hne].
      * subst j. rewrite count_occ_repeat_eq by reflexivity.
        destruct (Nat.ltb_spec i (S i)); [|lia].
        rewrite Nat.sub_diag. lia.
      * rewrite count_occ_repeat_neq by exact Hne.
        destruct (Nat.ltb_spec j (S i)); [lia|].
        replace (j - i) with (S (j - S i)) by lia. reflexivity.
Qed.

Theorem unpack_count counts i :
  count_occ Nat.eq_dec (unpack counts) i = nth i counts 0.
Proof.
  unfold unpack. rewrite unpack_from_count. simpl. rewrite Nat.sub_0_r. reflexivity.
Qed.

(* ------------------------------------------------------------------ *)
(* PART 1b: subsample                                                   *)
(* ------------------------------------------------------------------ *)

Lemma filter_pos_sum (l : list (nat * nat)) :
  list_sum (map snd (filter (fun p => Nat.ltb 0 (snd p)) l)) = list_sum (map snd l).
Proof.
  induction l as [|[a b] l IH]; simpl; [reflexivity|].
  destruct (Nat.ltb_spec 0 b) as [Hpos|Hz]; simpl; rewrite IH; lia.
Qed.

Lemma filter_lt_S (cats : list nat) (L : nat) :
  length (filter (fun v => Nat.ltb v (S L)) cats) =
  length (filter (fun v => Nat.ltb v L) cats) + count_occ Nat.eq_dec cats L.
Proof.
  induction cats as [|a cats IH]; simpl; [reflexivity|].
  destruct (Nat.ltb_spec a (S L)) as [H1|H1];
    destruct (Nat.ltb_spec a L) as [H2|H2];
    destruct (Nat.eq_dec a L) as [H3|H3]; simpl; try lia.
Qed.

Lemma count_occ_seq_sum (cats : list nat) (L : nat) :
  list_sum (map (count_occ Nat.eq_dec cats) (seq 0 L)) =
  length (filter (fun v => Nat.ltb v L) cats).
Proof.
  induction L as [|L IH].
  - simpl. induction cats as [|a cats IHc]; simpl; [reflexivity|exact IHc].
  - rewrite seq_S, map_app, list_sum_app, IH, filter_lt_S. simpl. lia.
Qed.

Lemma filter_all_true {X} (P : X -> bool) (l : list X) :
  (forall x, In x l -> P x = true) -> filter P l = l.
Proof.
  induction l as [|a l IH]; intros H; simpl; [reflexivity|].
  rewrite (H a) by (left; reflexivity). f_equal. apply IH.
  intros x Hx. apply H. right. exact Hx.
Qed.

Lemma count_occ_seq_total (cats : list nat) (L : nat) :
  (forall v, In v cats -> v < L) ->
  list_sum (map (count_occ Nat.eq_dec cats) (seq 0 L)) = length cats.
Proof.
  intros H. rewrite count_occ_seq_sum, filter_all_true; [reflexivity|].
  intros v Hv. apply Nat.ltb_lt. apply H. exact Hv.
Qed.

Lemma tagged_filter_fst (f : nat -> nat) (P : nat * nat -> bool) (l : list nat) :
  map fst (filter P (map (fun i => (i, f i)) l)) = filter (fun i => P (i, f i)) l.
Proof.
  induction l as [|a l IH]; simpl; [reflexivity|].
  destruct (P (a, f a)); simpl; rewrite IH; reflexivity.
Qed.

Lemma StronglySorted_filter {X} (R : X -> X -> Prop) (P : X -> bool) (l : list X) :
  StronglySorted R l -> StronglySorted R (filter P l).
Proof.
  induction 1 as [|a l Hs IH Hall]; simpl; [constructor|].
  destruct (P a); [|exact IH].
  constructor; [exact IH|].
  rewrite Forall_forall in *. intros x Hx. apply Hall.
  apply filter_In in Hx. tauto.
Qed.

Lemma StronglySorted_seq s n : StronglySorted lt (seq s n).
Proof.
  revert s. induction n as [|n IH]; intros s; simpl; constructor.
  - apply IH.
  - apply Forall_forall. intros x Hx. apply in_seq in Hx. lia.
Qed.

Theorem subsample_spec counts S :
  NoDup S -> (forall t, In t S -> t < list_sum counts) ->
  let r := subsample counts S in
  StronglySorted lt (map fst r) /\
  Forall (fun p => 0 < snd p) r /\
  list_sum (map snd r) = length S /\
  Forall (fun p => snd p <= nth (fst p) counts 0) r /\
  Forall (fun p => fst p < length counts) r.
Proof.
  intros Hnd Hlt r. subst r. unfold subsample.
  set (g := fun t => nth t (unpack counts) 0).
  set (cats := map g S).
  assert (Hcats : forall v, In v cats -> v < length counts).
  { intros v Hv. unfold cats in Hv. apply in_map_iff in Hv.
    destruct Hv as [t [Hgt Ht]]. subst v. unfold g.
    apply unpack_nth_lt. apply Hlt. exact Ht. }
  repeat split.
  - rewrite tagged_filter_fst. apply StronglySorted_filter. apply StronglySorted_seq.
  - apply Forall_forall. intros p Hp. apply filter_In in Hp.
    destruct Hp as [_ Hp]. apply Nat.ltb_lt. exact Hp.
  - rewrite filter_pos_sum, map_map.
    transitivity (list_sum (map (count_occ Nat.eq_dec cats) (seq 0 (length counts)))).
    { reflexivity. }
    rewrite (count_occ_seq_total cats (length counts) Hcats).
    unfold cats. apply map_length.
  - apply Forall_forall. intros p Hp. apply filter_In in Hp.
    destruct Hp as [Hp _]. apply in_map_iff in Hp.
    destruct Hp as [i [Hpi _]]. subst p. simpl.
    assert (Heq : map g (seq 0 (list_sum counts)) = unpack counts).
    { unfold g. rewrite <- unpack_length. apply map_nth_seq. }
    apply Nat.le_trans with (count_occ Nat.eq_dec (map g (seq 0 (list_sum counts))) i).
    + unfold cats. apply count_occ_map_NoDup_le; assumption.
    + rewrite Heq, unpack_count. apply le_n.
  - apply Forall_forall. intros p Hp. apply filter_In in Hp.
    destruct Hp as [Hp _]. apply in_map_iff in Hp.
    destruct Hp as [i [Hpi Hi]]. subst p. simpl. apply in_seq in Hi. lia.
Qed.

(* ------------------------------------------------------------------ *)
(* PART 1c                                                              *)
(* ------------------------------------------------------------------ *)

Theorem subsample_refuses : forall counts S,
  NoDup S -> (forall t, In t S -> t < list_sum counts) -> length S <= list_sum counts.
Proof.
  intros counts S Hnd Hlt.
  rewrite <- (seq_length (list_sum counts) 0).
  apply NoDup_incl_length; [exact Hnd|].
  intros t Ht. apply in_seq. specialize (Hlt t Ht). lia.
Qed.

(* ------------------------------------------------------------------ *)
(* PART 2: downsample                                                   *)
(* ------------------------------------------------------------------ *)

Theorem downsample_id {X} (d : X) (xs : list X) (maxseqs : option nat) (S : list nat) :
  maxseqs = None \/ (exists m, maxseqs = Some m /\ length xs <= m) ->
  downsample d xs maxseqs S = xs.
Proof.
  intros [Hnone|[m [Hsome Hle]]]; subst maxseqs; simpl; [reflexivity|].
  apply Nat.leb_le in Hle. rewrite Hle. reflexivity.
Qed.

Theorem downsample_sub {X} (d : X) (xs : list X) (maxseqs : option nat) (m : nat) (S : list nat) :
  maxseqs = Some m -> m < length xs -> NoDup S -> length S = m ->
  (forall t, In t S -> t < length xs) ->
  let r := downsample d xs (Some m) S in
  length r = m /\ exists rest, Permutation xs (r ++ rest).
Proof.
  intros _ Hm Hnd Hlen Hlt r. subst r. simpl.
  assert (Hleb : Nat.leb (length xs) m = false) by (apply Nat.leb_gt; exact Hm).
  rewrite Hleb. split.
  - rewrite map_length. exact Hlen.
  - assert (Hincl : incl S (seq 0 (length xs))).
    { intros t Ht. apply in_seq. specialize (Hlt t Ht). lia. }
    destruct (NoDup_incl_split S Hnd _ Hincl) as [rest Hperm].
    exists (map (fun t => nth t xs d) rest).
    rewrite <- map_app.
    rewrite <- (map_nth_seq d xs) at 1.
    apply Permutation_map. exact Hperm.
Qed.

(* same statement phrased on the [maxseqs] variable itself *)
Corollary downsample_sub' {X} (d : X) (xs : list X) (maxseqs : option nat) (m : nat) (S : list nat) :
  maxseqs = Some m -> m < length xs -> NoDup S -> length S = m ->
  (forall t, In t S -> t < length xs) ->
  let r := downsample d xs maxseqs S in
  length r = m /\ exists rest, Permutation xs (r ++ rest).
Proof.
  intros Hms. rewrite Hms. apply (downsample_sub d xs (Some m) m S eq_refl).
Qed.

(* ------------------------------------------------------------------ *)
(* PART 3: uniform inclusion identity over [subsets]                    *)
(* ------------------------------------------------------------------ *)

(* binomial coefficient by Pascal's rule: choose N n = C(N, n) *)
Fixpoint choose (N n : nat) : nat :=
  match N, n with
  | _, 0 => 1
  | 0, S _ => 0
  | S N', S n' => choose N' n' + choose N' n
  end.

Lemma choose_0_r N : choose N 0 = 1.
Proof. destruct N; reflexivity. Qed.

Lemma choose_pascal N n : choose (S N) (S n) = choose N n + choose N (S n).
Proof. reflexivity. Qed.

Lemma subsets_0 {X} (l : list X) : subsets 0 l = [[]].
Proof. destruct l; reflexivity. Qed.

Lemma subsets_cons {X} n (a : X) (r : list X) :
  subsets (S n) (a :: r) = map (cons a) (subsets n r) ++ subsets (S n) r.
Proof. reflexivity. Qed.

Theorem subsets_length {X} (n : nat) (l : list X) :
  length (subsets n l) = choose (length l) n.
Proof.
  revert n. induction l as [|a r IH]; intros n.
  - destruct n; reflexivity.
  - destruct n as [|n].
    + reflexivity.
    + rewrite subsets_cons, app_length, map_length, !IH. reflexivity.
Qed.

Theorem subsets_elem_length {X} (n : nat) (l : list X) (s : list X) :
  In s (subsets n l) -> length s = n.
Proof.
  revert n s. induction l as [|a r IH]; intros n s Hin.
  - destruct n; simpl in Hin; [|contradiction].
    destruct Hin as [Hs|[]]. subst s. reflexivity.
  - destruct n as [|n].
    + simpl in Hin. destruct Hin as [Hs|[]]. subst s. reflexivity.
    + rewrite subsets_cons in Hin. apply in_app_or in Hin.
      destruct Hin as [Hin|Hin].
      * apply in_map_iff in Hin. destruct Hin as [s' [Hs Hin]]. subst s.
        simpl. f_equal. apply IH. exact Hin.
      * apply IH. exact Hin.
Qed.

(* order-preserving sublist (subsequence) *)
Inductive Subseq {X} : list X -> list X -> Prop :=
| Subseq_nil : Subseq [] []
| Subseq_skip : forall a s l, Subseq s l -> Subseq s (a :: l)
| Subseq_take : forall a s l, Subseq s l -> Subseq (a :: s) (a :: l).

Lemma Subseq_nil_l {X} (l : list X) : Subseq [] l.
Proof. induction l as [|a l IH]; constructor; exact IH. Qed.

Lemma Subseq_In {X} (s l : list X) : Subseq s l -> forall x, In x s -> In x l.
Proof.
  induction 1 as [|a s l Hsub IH|a s l Hsub IH]; intros x Hx.
  - exact Hx.
  - right. apply IH. exact Hx.
  - destruct Hx as [Hx|Hx]; [left; exact Hx|right; apply IH; exact Hx].
Qed.

Theorem subsets_Subseq {X} (n : nat) (l : list X) (s : list X) :
  In s (subsets n l) -> Subseq s l.
Proof.
  revert n s. induction l as [|a r IH]; intros n s Hin.
  - destruct n; simpl in Hin; [|contradiction].
    destruct Hin as [Hs|[]]. subst s. constructor.
  - destruct n as [|n].
    + simpl in Hin. destruct Hin as [Hs|[]]. subst s. apply Subseq_nil_l.
    + rewrite subsets_cons in Hin. apply in_app_or in Hin.
      destruct Hin as [Hin|Hin].
      * apply in_map_iff in Hin. destruct Hin as [s' [Hs Hin]]. subst s.
        apply Subseq_take. apply (IH n). exact Hin.
      * apply Subseq_skip. apply (IH (S n)). exact Hin.
Qed.

(* converse: every subsequence of length n is listed (completeness of the enumeration) *)
Theorem Subseq_subsets {X} (s l : list X) :
  Subseq s l -> In s (subsets (length s) l).
Proof.
  induction 1 as [|a s l Hsub IH|a s l Hsub IH].
  - left. reflexivity.
  - destruct s as [|b s].
    + rewrite subsets_0. left. reflexivity.
    + simpl length. rewrite subsets_cons. apply in_or_app. right. exact IH.
  - simpl length. rewrite subsets_cons. apply in_or_app. left.
    apply in_map. exact IH.
Qed.

Section Inclusion.
  Context {X : Type} (eqd : forall a b : X, {a = b} + {a <> b}).

  Definition has (x : X) (s : list X) : bool := if in_dec eqd x s then true else false.

  Lemma has_cons_eq x s : has x (x :: s) = true.
  Proof.
    unfold has. destruct (in_dec eqd x (x :: s)) as [Hin|Hnin]; [reflexivity|].
    exfalso. apply Hnin. left. reflexivity.
  Qed.

  Lemma has_cons_neq a x s : a <> x -> has x (a :: s) = has x s.
  Proof.
    intros Hne. unfold has.
    destruct (in_dec eqd x (a :: s)) as [Hin|Hnin];
      destruct (in_dec eqd x s) as [Hin'|Hnin']; try reflexivity.
    - exfalso. destruct Hin as [Heq|Hin]; [apply Hne; exact Heq|apply Hnin'; exact Hin].
    - exfalso. apply Hnin. right. exact Hin'.
  Qed.

  Lemma filter_has_map_eq x (ss : list (list X)) :
    filter (has x) (map (cons x) ss) = map (cons x) ss.
  Proof.
    apply filter_all_true. intros s Hs. apply in_map_iff in Hs.
    destruct Hs as [s' [Hs' _]]. subst s. apply has_cons_eq.
  Qed.

  Lemma filter_has_map_neq a x (ss : list (list X)) :
    a <> x -> filter (has x) (map (cons a) ss) = map (cons a) (filter (has x) ss).
  Proof.
    intros Hne. induction ss as [|s ss IH]; simpl; [reflexivity|].
    rewrite (has_cons_neq a x s Hne). destruct (has x s); simpl; rewrite IH; reflexivity.
  Qed.

  Lemma count_has_notin x n (l : list X) :
    ~ In x l -> filter (has x) (subsets n l) = [].
  Proof.
    intros Hnin.
    assert (Hall : forall s, In s (subsets n l) -> has x s = false).
    { intros s Hs. unfold has. destruct (in_dec eqd x s) as [Hin|Hn]; [|reflexivity].
      exfalso. apply Hnin. apply (Subseq_In s l (subsets_Subseq n l s Hs)). exact Hin. }
    induction (subsets n l) as [|s ss IH]; simpl; [reflexivity|].
    rewrite (Hall s) by (left; reflexivity). apply IH.
    intros s' Hs'. apply Hall. right. exact Hs'.
  Qed.

  Lemma count_has_0 x (l : list X) : filter (has x) (subsets 0 l) = [].
  Proof. rewrite subsets_0. reflexivity. Qed.

  (* number of n+1-subsets containing x = C(N-1, n) *)
  Lemma count_has_S x (l : list X) :
    NoDup l -> In x l ->
    forall n, length (filter (has x) (subsets (S n) l)) = choose (length l - 1) n.
  Proof.
    induction 1 as [|a r Hnin Hnd IH]; intros Hin n; [contradiction|].
    rewrite subsets_cons, filter_app, app_length. simpl length.
    rewrite Nat.sub_succ, Nat.sub_0_r.
    destruct (eqd a x) as [Heq|Hne].
    - subst a. rewrite filter_has_map_eq, map_length, subsets_length.
      rewrite (count_has_notin x (S n) r Hnin). simpl. lia.
    - assert (Hinr : In x r) by (destruct Hin as [Heq|Hin]; [contradiction|exact Hin]).
      rewrite (filter_has_map_neq a x _ Hne), map_length, (IH Hinr n).
      assert (Hlen : length r = S (length r - 1)).
      { destruct r as [|b r']; [contradiction|]. simpl. lia. }
      remember (length r - 1) as k eqn:Hk.
      rewrite Hlen.
      destruct n as [|n].
      + rewrite count_has_0. rewrite !choose_0_r. reflexivity.
      + rewrite (IH Hinr n).
        rewrite choose_pascal. reflexivity.
  Qed.

End Inclusion.

(* absorption identity  C(N, n) * (N+1) = C(N+1, n+1) * (n+1) *)
Lemma choose_absorb : forall N n, choose N n * S N = choose (S N) (S n) * S n.
Proof.
  induction N as [|M IH]; intros n.
  - destruct n as [|[|k]]; reflexivity.
  - destruct n as [|k].
    + pose proof (IH 0) as H0. rewrite choose_0_r in *.
      rewrite (choose_pascal (S M) 0), choose_0_r. lia.
    + pose proof (IH k) as Hk. pose proof (IH (S k)) as HSk.
      rewrite (choose_pascal (S M) (S k)).
      rewrite (choose_pascal M k) in *.
      nia.
Qed.

Theorem inclusion_identity {X} (eqd : forall a b : X, {a=b}+{a<>b}) n (l : list X) x :
  NoDup l -> In x l ->
  length (filter (fun s => if in_dec eqd x s then true else false) (subsets n l)) * length l
  = length (subsets n l) * n.
Proof.
  intros Hnd Hin.
  change (fun s => if in_dec eqd x s then true else false) with (has eqd x).
  destruct n as [|n].
  - rewrite count_has_0. simpl. lia.
  - rewrite (count_has_S eqd x l Hnd Hin n), subsets_length.
    destruct l as [|a r]; [contradiction|].
    simpl length. rewrite Nat.sub_succ, Nat.sub_0_r.
    apply choose_absorb.
Qed.

(* the two counts separately *)
Theorem inclusion_count {X} (eqd : forall a b : X, {a=b}+{a<>b}) n (l : list X) x :
  NoDup l -> In x l ->
  length (filter (fun s => if in_dec eqd x s then true else false) (subsets n l))
  = match n with 0 => 0 | S n' => choose (length l - 1) n' end.
Proof.
  intros Hnd Hin.
  change (fun s => if in_dec eqd x s then true else false) with (has eqd x).
  destruct n as [|n].
  - rewrite count_has_0. reflexivity.
  - apply count_has_S; assumption.
Qed.

Print Assumptions unpack_length.
Print Assumptions unpack_nth_lt.
Print Assumptions unpack_count.
Print Assumptions subsample_spec.
Print Assumptions subsample_refuses.
Print Assumptions downsample_id.
Print Assumptions downsample_sub.
Print Assumptions subsets_length.
Print Assumptions subsets_elem_length.
Print Assumptions subsets_Subseq.
Print Assumptions Subseq_subsets.
Print Assumptions inclusion_count.
Print Assumptions inclusion_identity.

(* ------------------------------------------------------------------ *)
(* PART 4 (C17 builder): the executable spec predicates are the Prop specs *)
(* ------------------------------------------------------------------ *)

(* what C17 says about the value (category, count) list returned by subsample(counts, n) *)
Definition subsample_Spec (counts : list nat) (n : nat) (r : list (nat * nat)) : Prop :=
  StronglySorted lt (map fst r) /\
  Forall (fun p => 0 < snd p) r /\
  list_sum (map snd r) = n /\
  Forall (fun p => snd p <= nth (fst p) counts 0) r /\
  Forall (fun p => fst p < length counts) r.

Lemma sorted_ltb_Sorted l : sorted_ltb l = true <-> Sorted lt l.
Proof.
  induction l as [|a r IH].
  - simpl. split; auto.
  - destruct r as [|b r'].
    + simpl. split; auto.
    + change (sorted_ltb (a :: b :: r')) with (Nat.ltb a b && sorted_ltb (b :: r')).
      rewrite andb_true_iff, Nat.ltb_lt, IH. split.
      * intros [Hab Hs]. constructor; [exact Hs|constructor; exact Hab].
      * intros Hs. inversion Hs as [|? ? Hs' Hhd]; subst. inversion Hhd; subst. split; assumption.
Qed.

Lemma sorted_ltb_iff l : sorted_ltb l = true <-> StronglySorted lt l.
Proof.
  rewrite sorted_ltb_Sorted. split.
  - apply Sorted_StronglySorted. intros x y z. apply Nat.lt_trans.
  - apply StronglySorted_Sorted.
Qed.

Theorem subsample_okb_iff counts n r : subsample_okb counts n r = true <-> subsample_Spec counts n r.
Proof.
  unfold subsample_okb, subsample_Spec.
  rewrite !andb_true_iff, sorted_ltb_iff, forallb_forall, Nat.eqb_eq.
  split.
  - intros [[Hs Hf] Hn]. repeat split; try assumption;
      apply Forall_forall; intros p Hp; specialize (Hf p Hp);
      rewrite !andb_true_iff, !Nat.ltb_lt, Nat.leb_le in Hf; tauto.
  - intros [Hs [Hp [Hn [Hle Hlt]]]]. rewrite Forall_forall in Hp, Hle, Hlt.
    repeat split; try assumption.
    intros p Hin. rewrite !andb_true_iff, !Nat.ltb_lt, Nat.leb_le. auto.
Qed.

Lemma nodupb_iff l : nodupb l = true <-> NoDup l.
Proof.
  induction l as [|a r IH]; simpl.
  - split; [constructor|reflexivity].
  - rewrite andb_true_iff, negb_true_iff, IH. split.
    + intros [Hn Hd]. constructor; [|exact Hd]. intros Hin.
      assert (E : existsb (Nat.eqb a) r = true) by (apply existsb_exists; exists a; split; [exact Hin|apply Nat.eqb_refl]).
      congruence.
    + intros H. inversion H as [|? ? Hn Hd]; subst. split; [|exact Hd].
      destruct (existsb (Nat.eqb a) r) eqn:E; [|reflexivity].
      apply existsb_exists in E. destruct E as [x [Hx Hax]]. apply Nat.eqb_eq in Hax. subst x. contradiction.
Qed.

Theorem valid_drawb_iff N n S :
  valid_drawb N n S = true <-> NoDup S /\ (forall t, In t S -> t < N) /\ length S = n.
Proof.
  unfold valid_drawb. rewrite !andb_true_iff, nodupb_iff, forallb_forall, Nat.eqb_eq.
  split.
  - intros [[H1 H2] H3]. repeat split; try assumption. intros t Ht. apply Nat.ltb_lt. auto.
  - intros [H1 [H2 H3]]. repeat split; try assumption. intros t Ht. apply Nat.ltb_lt. auto.
Qed.

(* the model's output meets the executable spec for EVERY valid draw *)
Corollary subsample_model_ok counts n S :
  valid_drawb (list_sum counts) n S = true -> subsample_okb counts n (subsample counts S) = true.
Proof.
  intros H. apply valid_drawb_iff in H. destruct H as [Hnd [Hlt Hlen]].
  apply subsample_okb_iff. subst n. apply (subsample_spec counts S Hnd Hlt).
Qed.

Section SubMultiP.
Context {X : Type}.
Variable eqd : forall a b : X, {a = b} + {a <> b}.

Lemma remove_one_perm (a : X) (l : list X) : In a l -> Permutation l (a :: remove_one eqd a l).
Proof.
  induction l as [|b r IH]; simpl; [contradiction|].
  intros H. destruct (eqd a b) as [E|NE].
  - subst b. apply Permutation_refl.
  - destruct H as [H|H]; [congruence|].
    eapply Permutation_trans; [apply perm_skip, IH, H|apply perm_swap].
Qed.

Theorem submultib_iff (r xs : list X) :
  submultib eqd r xs = true <-> exists rest, Permutation xs (r ++ rest).
Proof.
  revert xs. induction r as [|a r IH]; intros xs; simpl.
  - split; [intros _; exists xs; apply Permutation_refl|reflexivity].
  - destruct (in_dec eqd a xs) as [Hin|Hnin].
    + rewrite IH. split.
      * intros [rest Hp]. exists rest.
        eapply Permutation_trans; [apply remove_one_perm, Hin|]. apply perm_skip, Hp.
      * intros [rest Hp]. exists rest.
        apply Permutation_cons_inv with (a := a).
        eapply Permutation_trans; [apply Permutation_sym, remove_one_perm, Hin|exact Hp].
    + split; [discriminate|]. intros [rest Hp]. exfalso. apply Hnin.
      eapply Permutation_in; [apply Permutation_sym, Hp|]. left. reflexivity.
Qed.

(* what C17 says about the value returned by downsample(xs, maxseqs) *)
Definition downsample_Spec (xs : list X) (maxseqs : option nat) (out : list X) : Prop :=
  match maxseqs with
  | None => out = xs
  | Some m => (length xs <= m -> out = xs) /\
              (m < length xs -> length out = m /\ exists rest, Permutation xs (out ++ rest))
  end.

Theorem downsample_okb_iff (xs : list X) (maxseqs : option nat) (out : list X) :
  downsample_okb eqd xs maxseqs out = true <-> downsample_Spec xs maxseqs out.
Proof.
  unfold downsample_okb, downsample_Spec. destruct maxseqs as [m|].
  - destruct (Nat.leb (length xs) m) eqn:E.
    + apply Nat.leb_le in E. destruct (list_eq_dec eqd out xs) as [Eq|Ne].
      * split; [|reflexivity]. intros _. split; [auto|lia].
      * split; [discriminate|]. intros [H _]. exfalso. auto.
    + apply Nat.leb_gt in E. rewrite andb_true_iff, Nat.eqb_eq, submultib_iff. split.
      * intros H. split; [lia|auto].
      * intros [_ H]. auto.
  - destruct (list_eq_dec eqd out xs); split; auto; discriminate.
Qed.

(* the model's output meets the spec for every valid draw *)
Corollary downsample_model_ok (d : X) (xs : list X) (maxseqs : option nat) (S : list nat) :
  (forall m, maxseqs = Some m -> m < length xs -> valid_drawb (length xs) m S = true) ->
  downsample_Spec xs maxseqs (downsample d xs maxseqs S).
Proof.
  intros HS. unfold downsample_Spec. destruct maxseqs as [m|]; [|reflexivity]. split.
  - intros Hle. apply downsample_id. right. exists m. auto.
  - intros Hlt. specialize (HS m eq_refl Hlt). apply valid_drawb_iff in HS. destruct HS as [Hnd [Hb Hl]].
    apply (downsample_sub d xs (Some m) m S eq_refl Hlt Hnd Hl Hb).
Qed.
End SubMultiP.

Print Assumptions subsample_okb_iff.
Print Assumptions downsample_okb_iff.

(* ------------------------------------------------------------------ *)
(* PART 5 (C17 builder): completeness - every output that meets the specification is produced by the model *)
(* ------------------------------------------------------------------ *)

(* ---- the canonical draw reproduces any output that meets the specification *)
Lemma nth_unpack_from counts : forall s i j, j < nth i counts 0 ->
  nth (list_sum (firstn i counts) + j) (unpack_from s counts) 0 = s + i.
Proof.
  induction counts as [|c r IH]; intros s i j Hj.
  - destruct i; simpl in Hj; lia.
  - destruct i as [|i'].
    + simpl in *. rewrite app_nth1 by (rewrite repeat_length; exact Hj).
      assert (Hin : In (nth j (repeat s c) 0) (repeat s c)) by (apply nth_In; rewrite repeat_length; exact Hj).
      apply repeat_spec in Hin. lia.
    + simpl firstn. simpl list_sum. simpl unpack_from. simpl in Hj.
      rewrite app_nth2 by (rewrite repeat_length; lia). rewrite repeat_length.
      replace (c + list_sum (firstn i' r) + j - c) with (list_sum (firstn i' r) + j) by lia.
      rewrite IH by exact Hj. lia.
Qed.

Lemma nth_unpack_offset counts i j : j < nth i counts 0 -> nth (offset counts i + j) (unpack counts) 0 = i.
Proof. intros H. unfold offset, unpack. rewrite nth_unpack_from by exact H. reflexivity. Qed.

Lemma offset_next counts : forall i i', i < i' -> offset counts i + nth i counts 0 <= offset counts i'.
Proof.
  unfold offset. induction counts as [|c r IH]; intros i i' H.
  - destruct i, i'; simpl; lia.
  - destruct i' as [|i'']; [lia|]. destruct i as [|i0].
    + simpl. lia.
    + simpl. specialize (IH i0 i''). lia.
Qed.

Lemma offset_total counts : forall i, offset counts i + nth i counts 0 <= list_sum counts.
Proof.
  unfold offset. induction counts as [|c r IH]; intros i.
  - destruct i; simpl; lia.
  - destruct i as [|i0]; simpl; [lia|]. specialize (IH i0). lia.
Qed.

Lemma map_seq_const (g : nat -> nat) (v : nat) : forall c s, (forall j, j < c -> g (s + j) = v) -> map g (seq s c) = repeat v c.
Proof.
  induction c as [|c IH]; intros s H; [reflexivity|]. simpl. f_equal.
  - rewrite <- (H 0) by lia. f_equal. lia.
  - apply IH. intros j Hj. replace (S s + j) with (s + S j) by lia. apply H. lia.
Qed.

Definition cats_of (r : list (nat * nat)) : list nat := flat_map (fun p => repeat (fst p) (snd p)) r.

Lemma cats_canon counts r :
  Forall (fun p => snd p <= nth (fst p) counts 0) r ->
  map (fun t => nth t (unpack counts) 0) (canon_draw counts r) = cats_of r.
Proof.
  induction r as [|p r IH]; intros H; [reflexivity|]. inversion H as [|? ? Hp Hr]; subst.
  unfold canon_draw, cats_of in *. simpl. rewrite map_app, IH by exact Hr. f_equal.
  apply map_seq_const. intros j Hj. apply nth_unpack_offset. lia.
Qed.

Lemma cats_notin r i : ~ In i (map fst r) -> count_occ Nat.eq_dec (cats_of r) i = 0.
Proof.
  intros H. apply count_occ_not_In. intros Hin. apply H. unfold cats_of in Hin.
  apply in_flat_map in Hin. destruct Hin as [p [Hp Hi]]. apply repeat_spec in Hi. subst i.
  apply in_map. exact Hp.
Qed.

Lemma count_occ_repeat (a c i : nat) : count_occ Nat.eq_dec (repeat a c) i = if Nat.eq_dec a i then c else 0.
Proof.
  induction c as [|c IH]; simpl.
  - destruct (Nat.eq_dec a i); reflexivity.
  - destruct (Nat.eq_dec a i); lia.
Qed.

Lemma cats_in r : StronglySorted lt (map fst r) -> forall p, In p r -> count_occ Nat.eq_dec (cats_of r) (fst p) = snd p.
Proof.
  induction r as [|q r IH]; intros Hs p Hp; [contradiction|].
  simpl in Hs. inversion Hs as [|? ? Hs' Hall]; subst.
  change (cats_of (q :: r)) with (repeat (fst q) (snd q) ++ cats_of r).
  rewrite count_occ_app, count_occ_repeat. rewrite Forall_forall in Hall.
  destruct Hp as [Hp|Hp].
  - subst q. destruct (Nat.eq_dec (fst p) (fst p)) as [_|N]; [|congruence].
    rewrite cats_notin; [lia|]. intros Hin. specialize (Hall _ Hin). lia.
  - assert (Hlt : fst q < fst p) by (apply Hall; apply in_map; exact Hp).
    destruct (Nat.eq_dec (fst q) (fst p)) as [E|_]; [lia|]. rewrite IH by assumption. reflexivity.
Qed.

Lemma filter_tag_eq (f : nat -> nat) : forall L s r,
  StronglySorted lt (map fst r) -> Forall (fun p => 0 < snd p) r ->
  Forall (fun p => s <= fst p < s + L) r ->
  (forall p, In p r -> f (fst p) = snd p) ->
  (forall i, s <= i < s + L -> ~ In i (map fst r) -> f i = 0) ->
  filter (fun p => Nat.ltb 0 (snd p)) (map (fun i => (i, f i)) (seq s L)) = r.
Proof.
  induction L as [|L IH]; intros s r Hs Hpos Hrng Hin Hout.
  - destruct r as [|p r]; [reflexivity|]. inversion Hrng; subst. lia.
  - simpl seq. simpl map. simpl filter. destruct r as [|p r].
    + rewrite (Hout s) by (simpl; auto; lia). simpl.
      apply (IH (S s) []); auto; try constructor. intros i Hi _. apply Hout; [lia|auto].
    + inversion Hrng as [|? ? Hp Hr]; subst. inversion Hpos as [|? ? Hpp Hpr]; subst.
      simpl in Hs. inversion Hs as [|? ? Hs' Hall]; subst. rewrite Forall_forall in Hall.
      destruct (Nat.eq_dec (fst p) s) as [E|NE].
      * subst s. rewrite (Hin p) by (left; reflexivity).
        assert (Hb : Nat.ltb 0 (snd p) = true) by (apply Nat.ltb_lt; exact Hpp).
        simpl snd. rewrite Hb.
        rewrite <- surjective_pairing. f_equal.
        apply IH; auto.
        -- apply Forall_forall. intros q Hq. rewrite Forall_forall in Hr. specialize (Hr q Hq).
           assert (fst p < fst q) by (apply Hall; apply in_map; exact Hq). lia.
        -- intros q Hq. apply Hin. right. exact Hq.
        -- intros i Hi Hni. apply Hout; [lia|]. simpl. intros [Ei|Hi']; [lia|contradiction].
      * assert (Hns : ~ In s (map fst (p :: r))).
        { simpl. intros [Ei|Hi]; [lia|]. specialize (Hall _ Hi). lia. }
        rewrite (Hout s) by (auto; lia). simpl.
        apply IH; auto.
        -- apply Forall_forall. intros q Hq. destruct Hq as [Hq|Hq].
           ++ subst q. lia.
           ++ rewrite Forall_forall in Hr. specialize (Hr q Hq).
              assert (fst p < fst q) by (apply Hall; apply in_map; exact Hq). lia.
        -- intros i Hi Hni. apply Hout; [lia|exact Hni].
Qed.

Lemma app_sorted (l1 l2 : list nat) :
  StronglySorted lt l1 -> StronglySorted lt l2 -> (forall a b, In a l1 -> In b l2 -> a < b) -> StronglySorted lt (l1 ++ l2).
Proof.
  induction l1 as [|x l1 IH]; intros H1 H2 H; [exact H2|].
  inversion H1 as [|? ? H1' Hall]; subst. simpl. constructor.
  - apply IH; auto. intros a b Ha Hb. apply H; [right; exact Ha|exact Hb].
  - apply Forall_forall. intros y Hy. apply in_app_or in Hy. destruct Hy as [Hy|Hy].
    + rewrite Forall_forall in Hall. auto.
    + apply H; [left; reflexivity|exact Hy].
Qed.

Lemma canon_lower counts r t lo :
  Forall (fun p => lo <= offset counts (fst p)) r -> In t (canon_draw counts r) -> lo <= t.
Proof.
  intros H Hin. unfold canon_draw in Hin. apply in_flat_map in Hin. destruct Hin as [p [Hp Ht]].
  apply in_seq in Ht. rewrite Forall_forall in H. specialize (H p Hp). lia.
Qed.

Lemma canon_sorted counts r :
  StronglySorted lt (map fst r) -> Forall (fun p => snd p <= nth (fst p) counts 0) r ->
  StronglySorted lt (canon_draw counts r).
Proof.
  induction r as [|p r IH]; intros Hs Hle; [constructor|].
  simpl in Hs. inversion Hs as [|? ? Hs' Hall]; subst. inversion Hle as [|? ? Hp Hr]; subst.
  change (canon_draw counts (p :: r)) with (seq (offset counts (fst p)) (snd p) ++ canon_draw counts r).
  apply app_sorted; [apply StronglySorted_seq|apply IH; assumption|].
  intros a b Ha Hb. apply in_seq in Ha.
  assert (Hlo : offset counts (fst p) + nth (fst p) counts 0 <= b).
  { apply (canon_lower counts r b); [|exact Hb]. apply Forall_forall. intros q Hq.
    apply offset_next. rewrite Forall_forall in Hall. apply Hall. apply in_map. exact Hq. }
  lia.
Qed.

Lemma StronglySorted_lt_NoDup (l : list nat) : StronglySorted lt l -> NoDup l.
Proof.
  induction 1 as [|x l Hs IH Hall]; constructor; [|exact IH].
  intros Hin. rewrite Forall_forall in Hall. specialize (Hall x Hin). lia.
Qed.

Lemma canon_length counts r : length (canon_draw counts r) = list_sum (map snd r).
Proof.
  induction r as [|p r IH]; [reflexivity|].
  change (canon_draw counts (p :: r)) with (seq (offset counts (fst p)) (snd p) ++ canon_draw counts r).
  rewrite app_length, seq_length, IH. reflexivity.
Qed.

Theorem subsample_complete counts n r :
  subsample_Spec counts n r ->
  let S := canon_draw counts r in
  NoDup S /\ (forall t, In t S -> t < list_sum counts) /\ length S = n /\ subsample counts S = r.
Proof.
  intros [Hs [Hpos [Hsum [Hle Hlt]]]] S. subst S. repeat split.
  - apply StronglySorted_lt_NoDup, canon_sorted; assumption.
  - intros t Ht. unfold canon_draw in Ht. apply in_flat_map in Ht. destruct Ht as [p [Hp Ht]].
    apply in_seq in Ht. rewrite Forall_forall in Hle. specialize (Hle p Hp).
    pose proof (offset_total counts (fst p)). lia.
  - rewrite canon_length. exact Hsum.
  - unfold subsample. rewrite cats_canon by exact Hle.
    apply filter_tag_eq; auto.
    + apply Forall_forall. intros p Hp. rewrite Forall_forall in Hlt. specialize (Hlt p Hp). lia.
    + intros p Hp. apply cats_in; assumption.
    + intros i _ Hni. apply cats_notin. exact Hni.
Qed.
Print Assumptions subsample_complete.
