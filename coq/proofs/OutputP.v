From Coq Require Import List ZArith Bool Arith Lia.
From PV Require Import model.Output.
Import ListNotations.

Lemma entry_absent trip r q : (forall d, ~ In (q, r, d) trip) -> entry trip r q = 0%Z.
Proof.
  unfold entry. induction trip as [|[[q' r'] d'] trip IH]; intros H; simpl; auto.
  destruct (Nat.eqb_spec q' q) as [->|N]; simpl.
  - destruct (Nat.eqb_spec r' r) as [->|N']; simpl.
    + exfalso. apply (H d'). now left.
    + apply IH. intros d Hd. apply (H d). now right.
  - apply IH. intros d Hd. apply (H d). now right.
Qed.

Lemma entry_present trip r q d : NoDup (map fst trip) -> In (q, r, d) trip -> entry trip r q = d.
Proof.
  unfold entry. induction trip as [|[[q' r'] d'] trip IH]; intros ND Hin; simpl; [contradiction|].
  simpl in ND. inversion ND as [|? ? Hnotin ND']; subst.
  destruct Hin as [[= -> -> ->]|Hin].
  - rewrite !Nat.eqb_refl. simpl.
    fold (entry trip r q). rewrite entry_absent; [lia|].
    intros d0 Hd0. apply Hnotin. apply in_map_iff. exists (q, r, d0). auto.
  - destruct (Nat.eqb_spec q' q) as [->|N]; simpl.
    + destruct (Nat.eqb_spec r' r) as [->|N']; simpl.
      * exfalso. apply Hnotin. apply in_map_iff. exists (q, r, d). auto.
      * apply IH; auto.
    + apply IH; auto.
Qed.

Lemma coo_dense_entry nrows ncols trip r q : r < nrows -> q < ncols ->
  nth q (nth r (coo_dense nrows ncols trip) []) 0%Z = entry trip r q.
Proof.
  intros Hr Hq. unfold coo_dense.
  rewrite (nth_indep _ [] (map (fun q0 => entry trip 0 q0) (seq 0 ncols))) by (now rewrite map_length, seq_length).
  rewrite (map_nth (fun r0 => map (fun q0 => entry trip r0 q0) (seq 0 ncols)) (seq 0 nrows) 0 r).
  rewrite seq_nth by assumption. simpl.
  rewrite (nth_indep _ 0%Z (entry trip r 0)) by (now rewrite map_length, seq_length).
  rewrite (map_nth (fun q0 => entry trip r q0) (seq 0 ncols) 0 q). now rewrite seq_nth.
Qed.

(* a repeated pair is accumulated: the reason the uniqueness theorems of C01/C03/C04/C07 matter here *)
Example duplicate_accumulates : entry [(0, 1, 2%Z); (0, 1, 2%Z)] 1 0 = 4%Z.
Proof. reflexivity. Qed.
