(* C17 part 4: the inverse-CDF power-law sample is >= xmin, and so is its floor. Uses Coq's Reals. *)
From Coq Require Import Reals Lra Lia.
From PV Require Import model.PowerlawR.
Open Scope R_scope.

(* powerlaw_value now lives in model/PowerlawR.v *)

(* key analytic fact: y in (0,1], e <= 0  ==>  y^e >= 1 *)
Lemma Rpower_ge_1 (y e : R) : 0 < y <= 1 -> e <= 0 -> 1 <= Rpower y e.
Proof.
  intros [Hy0 Hy1] He. unfold Rpower.
  assert (Hln : ln y <= 0).
  { destruct Hy1 as [Hlt|Heq].
    - left. rewrite <- ln_1. apply ln_increasing; assumption.
    - subst y. rewrite ln_1. apply Rle_refl. }
  assert (Hprod : 0 <= e * ln y).
  { replace (e * ln y) with ((- e) * (- ln y)) by ring.
    apply Rmult_le_pos; lra. }
  rewrite <- exp_0.
  destruct Hprod as [Hlt|Heq].
  - left. apply exp_increasing. exact Hlt.
  - rewrite <- Heq. apply Rle_refl.
Qed.

Lemma powerlaw_exponent_nonpos (alpha : R) : 1 < alpha -> - 1 / (alpha - 1) <= 0.
Proof.
  intros Ha. unfold Rdiv.
  assert (Hinv : 0 < / (alpha - 1)) by (apply Rinv_0_lt_compat; lra).
  nra.
Qed.

Theorem powerlaw_ge_R (xmin alpha r : R) :
  1/2 <= xmin -> 1 < alpha -> 0 <= r < 1 -> xmin <= powerlaw_value xmin alpha r.
Proof.
  intros Hx Ha [Hr0 Hr1]. unfold powerlaw_value.
  assert (Hp : 1 <= Rpower (1 - r) (- 1 / (alpha - 1))).
  { apply Rpower_ge_1; [lra|]. apply powerlaw_exponent_nonpos. exact Ha. }
  nra.
Qed.

Theorem powerlaw_ge (xmin : Z) (alpha r : R) :
  (1 <= xmin)%Z -> 1 < alpha -> 0 <= r < 1 ->
  IZR xmin <= powerlaw_value (IZR xmin) alpha r.
Proof.
  intros Hx Ha Hr. apply powerlaw_ge_R; try assumption.
  apply IZR_le in Hx. lra.
Qed.

(* floor is monotone against integers *)
Lemma Int_part_ge (z : Z) (x : R) : IZR z <= x -> (z <= Int_part x)%Z.
Proof.
  intros Hzx. unfold Int_part.
  destruct (archimed x) as [Hup _].
  assert (Hlt : (z < up x)%Z).
  { apply lt_IZR. lra. }
  lia.
Qed.

Theorem powerlaw_floor_ge (xmin : Z) (alpha r : R) :
  (1 <= xmin)%Z -> 1 < alpha -> 0 <= r < 1 ->
  (xmin <= Int_part (powerlaw_value (IZR xmin) alpha r))%Z.
Proof.
  intros Hx Ha Hr. apply Int_part_ge. apply powerlaw_ge; assumption.
Qed.

(* r = 0 gives exactly xmin (the bound is attained) *)
Lemma powerlaw_value_0 (xmin alpha : R) : powerlaw_value xmin alpha 0 = xmin.
Proof.
  unfold powerlaw_value. rewrite Rminus_0_r. unfold Rpower. rewrite ln_1, Rmult_0_r, exp_0. lra.
Qed.

Print Assumptions powerlaw_ge.
Print Assumptions powerlaw_floor_ge.
