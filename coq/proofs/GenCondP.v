(* The weighting tail of stats.pc_conditional as written (gen/Gen_c13b.v, regenerated on every run) is the w^2-weighted mean of
   the model (model/Grouped.v). *)
From Coq Require Import List QArith Qfield Lia.
From PV Require Import lib.Val gen.Gen_c13b model.Pc model.Grouped proofs.GroupedP.
Import ListNotations.
Open Scope Q_scope.

Lemma sq_pow (w : Q) : w ^ 2 == sq w.
Proof. unfold sq. simpl. ring. Qed.

Lemma sumQ_ext_eq {A} (f g : A -> Q) l : (forall x, f x == g x) -> sumQ (map f l) == sumQ (map g l).
Proof. intros H. induction l as [|x l IH]; cbn [map sumQ]; [reflexivity|]. now rewrite H, IH. Qed.

Lemma combine_map_l {A B C} (f : A -> B) (l : list A) : forall (l' : list C),
  combine (map f l) l' = map (fun p => (f (fst p), snd p)) (combine l l').
Proof. induction l as [|a l IH]; intros [|c l']; simpl; [reflexivity..|]. now rewrite IH. Qed.

(* robust against algebraically equal ways of writing the square: the generated weight expressions are compared pointwise *)
Theorem gen_cond_mean_eq (ws pcs : list Q) :
  gen_cond_mean ws pcs == sumQ (map (fun wp => sq (fst wp) / sumQ (map sq ws) * snd wp) (combine ws pcs)).
Proof.
  unfold gen_cond_mean. cbv zeta.
  match goal with |- context [map ?F (combine (map ?G ws) pcs)] =>
    match G with (fun w_ => _ / sumQ (map ?H ws)) =>
      assert (N : sumQ (map H ws) == sumQ (map sq ws)) by (apply sumQ_ext_eq; intros x; unfold sq; simpl; ring)
    end end.
  rewrite combine_map_l, map_map. apply sumQ_ext_eq. intros [w p]. cbn [fst snd].
  apply Qmult_comp; [|reflexivity]. apply Qdiv_comp; [unfold sq; simpl; ring|exact N].
Qed.

Section Model.
Context {X : Type}.
Variable eqd : forall a b : X, {a = b} + {a <> b}.

(* the value of the model's pc_conditional is the generated mean of the group pcs under the generated default weights *)
Theorem gen_cond_mean_model (w : option (list Q)) (t : @table X) :
  let gs := big_groups t in
  let ws := match w with None => gen_cond_default_weights (length gs) | Some l => l end in
  gs <> [] -> length ws = length gs ->
  exists q, pc_conditional eqd w t = V q /\ q == gen_cond_mean ws (map (fun g => pcq eqd (snd g)) gs).
Proof.
  intros gs ws Hne Hl. unfold pc_conditional. fold gs.
  assert (E : cond_weights w (length gs) = ws) by (destruct w; reflexivity). rewrite E.
  pose proof (big_groups_rows t Hne) as H2. fold gs in H2.
  destruct (Nat.ltb_spec (length (concat (map snd gs))) 2) as [H|H]; [lia|].
  rewrite (proj2 (Nat.eqb_eq _ _) Hl). eexists. split; [reflexivity|].
  rewrite gen_cond_mean_eq. generalize (sumQ (map sq ws)) as s. intros s.
  assert (G : forall (l : list Q) (g : list (key * list X)),
    sumQ (map (fun wp => sq (fst wp) / s * pcq eqd (snd (snd wp))) (combine l g))
    == sumQ (map (fun wp => sq (fst wp) / s * snd wp) (combine l (map (fun g0 => pcq eqd (snd g0)) g)))).
  { induction l as [|x l IHl]; intros g; [reflexivity|]. destruct g as [|g0 g]; [reflexivity|].
    cbn [combine map sumQ fst snd]. now rewrite IHl. }
  apply G.
Qed.
End Model.
