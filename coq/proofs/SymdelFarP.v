(* C01 (audit): two strings that share no letter are exactly max(length) edits apart at least, so they are
   never neighbours when one of them is longer than max_edits.  Used by harness/c01.py to decide LARGE collections
   (n > 2^15) block by block: positions whose strings share no letter (transitively) are in different blocks, pairs across
   blocks are not neighbours by this lemma, pairs inside a block are decided by the brute-force model. *)
From Coq Require Import List NArith Bool Arith Lia.
From PV Require Import lib.Edits lib.LevDP lib.Str model.Symdel proofs.SymdelP.
Import ListNotations.

Section Far.
Context {A : Type}.
Variable eq_dec : forall x y : A, {x = y} + {x <> y}.

Definition no_common_letter (a b : list A) : Prop := forall x, In x a -> ~ In x b.

(* an alignment of two strings without a common letter has no match column *)
Lemma edits_no_common a b i d s : edits a b i d s -> no_common_letter a b ->
  length a = d + s /\ length b = i + s.
Proof.
  induction 1 as [|x a b i d s E IH|x y a b i d s N E IH|x a b i d s E IH|y a b i d s E IH]; intros Hn.
  - simpl; lia.
  - exfalso. apply (Hn x); left; reflexivity.
  - destruct IH as [IH1 IH2].
    + intros z Hz Hb. apply (Hn z); right; assumption.
    + simpl; lia.
  - destruct IH as [IH1 IH2].
    + intros z Hz Hb. apply (Hn z); [right; assumption|assumption].
    + simpl; lia.
  - destruct IH as [IH1 IH2].
    + intros z Hz Hb. apply (Hn z); [assumption|right; assumption].
    + simpl; lia.
Qed.

Lemma lev_no_common_lower a b : no_common_letter a b ->
  Nat.max (length a) (length b) <= lev eq_dec a b.
Proof.
  intros Hn. unfold lev.
  destruct (wlev_attained eq_dec 1 1 1 a b) as (i & d & s & E & C).
  destruct (edits_no_common _ _ _ _ _ E Hn) as [La Lb].
  rewrite C. unfold cost. lia.
Qed.
End Far.

Lemma keep_lev_no_common k (a b : str) : no_common_letter a b ->
  k < Nat.max (length a) (length b) -> keep_lev k a b = None.
Proof.
  intros Hn Hk. destruct (keep_lev k a b) as [d|] eqn:E; [|reflexivity].
  apply keep_lev_spec in E as [-> Hd].
  pose proof (lev_no_common_lower N.eq_dec a b Hn) as L. unfold slev in Hd. lia.
Qed.
