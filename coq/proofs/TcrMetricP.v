(* C09: lemmas about model/TcrMetric.v.  No axioms. *)
From Coq Require Import List NArith Bool Arith Lia.
From PV Require Import lib.Edits lib.LevDP lib.Str lib.Condensed proofs.CondensedP gen.Gen_c09 model.TcrMetric.
Import ListNotations.

(* ------------------------------------------------------------------ matrices *)
Lemma zipw_map {X Y : Type} (h : Y -> Y -> Y) (f g : X -> Y) (l : list X) :
  zipw h (map f l) (map g l) = map (fun x => h (f x) (g x)) l.
Proof. induction l as [|x l IH]; cbn; congruence. Qed.

Lemma cdist_loop_ext {X D : Type} (f g : X -> X -> D) (A B : list X) :
  (forall a b, f a b = g a b) -> cdist_loop f A B = cdist_loop g A B.
Proof. intros H. unfold cdist_loop. apply map_ext. intros a. apply map_ext. intros b. apply H. Qed.

Lemma mat_add_cdist {X : Type} (f g : X -> X -> N) (A B : list X) :
  mat_add (cdist_loop f A B) (cdist_loop g A B) = cdist_loop (fun a b => (f a b + g a b)%N) A B.
Proof.
  unfold mat_add, cdist_loop. rewrite zipw_map. apply map_ext. intros a. apply zipw_map.
Qed.

Lemma fold_mat_add_cdist {X K : Type} (F : K -> X -> X -> N) (A B : list X) (ks : list K) :
  forall g : X -> X -> N,
  fold_left mat_add (map (fun k => cdist_loop (F k) A B) ks) (cdist_loop g A B)
  = cdist_loop (fun a b => fold_left N.add (map (fun k => F k a b) ks) (g a b)) A B.
Proof.
  induction ks as [|k ks IH]; intros g; cbn [map fold_left].
  - reflexivity.
  - rewrite mat_add_cdist. apply (IH (fun a b => (g a b + F k a b)%N)).
Qed.

Lemma fold_add_sumN (l : list N) : forall x : N, fold_left N.add l x = (x + sumN l)%N.
Proof.
  induction l as [|y l IH]; intros x; cbn [fold_left sumN fold_right].
  - lia.
  - rewrite IH. fold (sumN l). lia.
Qed.

Lemma cdist_entry {X : Type} (f : X -> X -> N) (A B : list X) (i j : nat) (a b : X) :
  nth_error A i = Some a -> nth_error B j = Some b -> entry_at (cdist_loop f A B) i j = f a b.
Proof.
  intros Ha Hb. unfold entry_at, cdist_loop.
  rewrite (nth_error_nth _ _ [] (map_nth_error (fun a => map (f a) B) _ _ Ha)).
  apply nth_error_nth. apply map_nth_error. exact Hb.
Qed.

Lemma cdist_shape {X : Type} (f : X -> X -> N) (A B : list X) :
  length (cdist_loop f A B) = length A /\ forall r, In r (cdist_loop f A B) -> length r = length B.
Proof.
  unfold cdist_loop. split; [apply map_length|]. intros r Hr. apply in_map_iff in Hr.
  destruct Hr as (a & <- & _). apply map_length.
Qed.

(* ------------------------------------------------------------------ generated facts *)
(* every one of the six loop columns gets exactly its chain's and its loop's weight *)
Lemma selectors_ok : forall lc : loop * chain,
  col_selectors (col_name lc) = [Some (chain_sel (snd lc)); Some (loop_sel (fst lc))].
Proof. intros [[] []]; vm_compute; reflexivity. Qed.

Lemma apply_weights_ok (c : cfg) (l : loop) (ch : chain) (d : N) :
  apply_weights c (col_name (l, ch)) d = (chain_weight c ch * loop_weight c l * d)%N.
Proof.
  unfold apply_weights. rewrite selectors_ok.
  destruct l, ch; cbn [fold_left fst snd chain_sel loop_sel weight_val chain_weight loop_weight]; ring.
Qed.

(* the generated column names are columns of the expanded frame, and they are the intended ones *)
Lemma decode_columns (cs : c09_chain_scope) (ls : c09_cdr_scope) :
  decode_all (gen_c09_columns cs ls) = Some (intended_columns cs ls).
Proof. destruct cs, ls; vm_compute; reflexivity. Qed.

Lemma intended_nonempty (cs : c09_chain_scope) (ls : c09_cdr_scope) : intended_columns cs ls <> [].
Proof. destruct cs, ls; discriminate. Qed.

Lemma intended_is_scope_product (cs : c09_chain_scope) (ls : c09_cdr_scope) (l : loop) (ch : chain) :
  In (l, ch) (intended_columns cs ls) <-> In l (loops_of ls) /\ In ch (chains_of cs).
Proof.
  destruct cs, ls, l, ch; cbn; split; intros H; repeat split;
    repeat (match goal with
            | H : _ /\ _ |- _ => destruct H
            | H : _ \/ _ |- _ => destruct H
            | H : False |- _ => destruct H
            | H : (_, _) = (_, _) |- _ => inversion H; clear H
            | H : ?x = ?y |- _ => discriminate H
            end); auto 10.
Qed.

Lemma intended_nodup (cs : c09_chain_scope) (ls : c09_cdr_scope) : NoDup (intended_columns cs ls).
Proof.
  destruct cs, ls; cbn; repeat constructor; cbn; intros H;
    repeat (match goal with H : _ \/ _ |- _ => destruct H | H : False |- _ => destruct H
                       | H : (_, _) = (_, _) |- _ => discriminate H end).
Qed.

Lemma tcr_columns_are : gen_c09_tcr_columns =
  [[67;68;82;51;65]; [67;68;82;51;66]; [84;82;65;74]; [84;82;65;86]; [84;82;66;74]; [84;82;66;86]]%N.
Proof. reflexivity. Qed.

Lemma classes_are : gen_c09_classes =
  [([65;108;112;104;97;67;100;114;51;76;101;118;101;110;115;104;116;101;105;110]%N, (AlphaOnly, Cdr3Only));
   ([65;108;112;104;97;67;100;114;76;101;118;101;110;115;104;116;101;105;110]%N, (AlphaOnly, AllCdr));
   ([66;101;116;97;67;100;114;51;76;101;118;101;110;115;104;116;101;105;110]%N, (BetaOnly, Cdr3Only));
   ([66;101;116;97;67;100;114;76;101;118;101;110;115;104;116;101;105;110]%N, (BetaOnly, AllCdr));
   ([67;100;114;51;76;101;118;101;110;115;104;116;101;105;110]%N, (Paired, Cdr3Only));
   ([67;100;114;76;101;118;101;110;115;104;116;101;105;110]%N, (Paired, AllCdr))].
Proof. reflexivity. Qed.

Section GenesP.
Variable genes : str -> str * str.
Notation col_entry := (col_entry genes).
Notation col_matrix := (col_matrix genes).
Notation tcr_entry := (tcr_entry genes).
Notation tcr_cdist := (tcr_cdist genes).
Notation spec_entry := (spec_entry genes).
Notation calc_cdist_matrix := (calc_cdist_matrix genes).
Notation calc_pdist_vector := (calc_pdist_vector genes).

(* ------------------------------------------------------------------ sum of the per-column matrices *)
Lemma mat_sum_cols (c : cfg) (A B : list row) (lcs : list (loop * chain)) :
  lcs <> [] -> mat_sum (map (col_matrix c A B) lcs) = cdist_loop (tcr_entry c lcs) A B.
Proof.
  destruct lcs as [|lc lcs]; [congruence|]. intros _. cbn [map mat_sum].
  etransitivity.
  - apply (fold_mat_add_cdist (fun k => col_entry c k) A B lcs (col_entry c lc)).
  - apply cdist_loop_ext. intros a b. rewrite fold_add_sumN. reflexivity.
Qed.

Lemma entry_spec (c : cfg) (cs : c09_chain_scope) (ls : c09_cdr_scope) (a b : row) :
  tcr_entry c (intended_columns cs ls) a b = spec_entry c cs ls a b.
Proof.
  unfold TcrMetric.tcr_entry, TcrMetric.spec_entry, TcrMetric.col_entry.
  destruct cs, ls;
    cbn [intended_columns flat_map map app chains_of loops_of sumN fold_right];
    rewrite ?apply_weights_ok, ?wlev_dp_spec; ring.
Qed.

Theorem tcr_cdist_spec (c : cfg) (cs : c09_chain_scope) (ls : c09_cdr_scope) (A B : list row) :
  tcr_cdist c cs ls A B = Some (cdist_loop (spec_entry c cs ls) A B).
Proof.
  unfold TcrMetric.tcr_cdist. rewrite decode_columns. f_equal.
  rewrite mat_sum_cols by apply intended_nonempty.
  apply cdist_loop_ext. intros a b. apply entry_spec.
Qed.

(* ------------------------------------------------------------------ the public calls *)
Lemma accepted_split cs ls x : accepted cs ls x = true -> is_tcr_table x = true /\ frame_ready cs ls x = true.
Proof. unfold accepted. intros H. apply andb_true_iff in H. exact H. Qed.

Theorem calc_cdist_ok (c : cfg) cs ls (a b : pyobj) :
  accepted cs ls a = true -> accepted cs ls b = true ->
  calc_cdist_matrix c cs ls a b = Ok (cdist_loop (spec_entry c cs ls) (rows_of a) (rows_of b)).
Proof.
  intros Ha Hb. apply accepted_split in Ha. apply accepted_split in Hb.
  destruct Ha as [Ta Ra], Hb as [Tb Rb]. unfold TcrMetric.calc_cdist_matrix.
  rewrite Ta, Tb, Ra, Rb. cbn [negb andb]. rewrite tcr_cdist_spec. reflexivity.
Qed.

Theorem calc_pdist_ok (c : cfg) cs ls (x : pyobj) :
  accepted cs ls x = true ->
  calc_pdist_vector c cs ls x = Ok (pdist_loop (spec_entry c cs ls) row0 (rows_of x)).
Proof.
  intros Hx. unfold TcrMetric.calc_pdist_vector. rewrite (calc_cdist_ok c cs ls x x Hx Hx).
  apply accepted_split in Hx. destruct Hx as [Tx _]. rewrite Tx. cbn [negb].
  f_equal. apply squareform_cdist_self.
Qed.

Theorem calc_cdist_reject (c : cfg) cs ls (a b : pyobj) :
  calc_cdist_matrix c cs ls a b = ValueErr <-> (is_tcr_table a = false \/ is_tcr_table b = false).
Proof.
  unfold TcrMetric.calc_cdist_matrix. destruct (is_tcr_table a), (is_tcr_table b); cbn [negb]; try tauto.
  split.
  - destruct (frame_ready cs ls a && frame_ready cs ls b); [|discriminate].
    destruct (tcr_cdist c cs ls (rows_of a) (rows_of b)); discriminate.
  - intros [H|H]; discriminate H.
Qed.

Theorem calc_pdist_reject (c : cfg) cs ls (x : pyobj) :
  calc_pdist_vector c cs ls x = ValueErr <-> is_tcr_table x = false.
Proof.
  unfold TcrMetric.calc_pdist_vector. destruct (is_tcr_table x) eqn:T; cbn [negb]; [|tauto].
  split; [|discriminate].
  destruct (calc_cdist_matrix c cs ls x x) eqn:E; try discriminate.
  apply calc_cdist_reject in E. destruct E; congruence.
Qed.

Lemma sumN_map_le {X : Type} (f g : X -> N) (l : list X) :
  (forall x, (f x <= g x)%N) -> (sumN (map f l) <= sumN (map g l))%N.
Proof.
  intros H. induction l as [|x l IH]; cbn [map sumN fold_right]; [lia|].
  fold (sumN (map f l)). fold (sumN (map g l)). specialize (H x). lia.
Qed.

Lemma spec_entry_bounded (c : cfg) cs ls (a b : row) :
  (spec_entry c cs ls a b <= spec_bound genes c cs ls a b)%N.
Proof.
  unfold TcrMetric.spec_entry, spec_bound. apply sumN_map_le. intros ch. apply sumN_map_le. intros l.
  apply N.mul_le_mono_l. pose proof (wlev_upper N.eq_dec (wi c) (wd c) (ws c) (loop_seq genes (l, ch) a) (loop_seq genes (l, ch) b)). lia.
Qed.

Lemma spec_entry_x_eq (c : cfg) cs ls (a b : row) : spec_entry_x genes c cs ls a b = spec_entry c cs ls a b.
Proof.
  unfold TcrMetric.spec_entry_x, TcrMetric.spec_entry.
  destruct cs, ls; cbn [chains_of loops_of map]; rewrite ?wlev_dp_spec; reflexivity.
Qed.

Lemma spec_cdist_eq (c : cfg) cs ls (A B : list row) :
  spec_cdist genes c cs ls A B = cdist_loop (spec_entry c cs ls) A B.
Proof. apply cdist_loop_ext. intros a b. apply spec_entry_x_eq. Qed.

Lemma spec_pdist_eq (c : cfg) cs ls (X : list row) :
  spec_pdist genes c cs ls X = pdist_loop (spec_entry c cs ls) row0 X.
Proof.
  unfold spec_pdist, pdist_loop. apply map_ext. intros ij. apply spec_entry_x_eq.
Qed.

End GenesP.

Lemma spec_is_table_eq (x : pyobj) : spec_is_table x = is_tcr_table x.
Proof. reflexivity. Qed.

Lemma is_tcr_table_iff (x : pyobj) :
  is_tcr_table x = true <->
  exists cols rows, x = Frame cols rows /\ exists name, In name cols /\ In name gen_c09_tcr_columns.
Proof.
  destruct x as [|cols rows]; cbn [is_tcr_table].
  - split; [discriminate|]. intros (cols & rows & H & _). discriminate H.
  - rewrite existsb_exists. split.
    + intros (name & Hin & Hm). exists cols, rows. split; [reflexivity|]. exists name. split; [exact Hin|].
      unfold has_col in Hm. apply memb_In in Hm. exact Hm.
    + intros (cols' & rows' & E & name & Hin & Hm). inversion E; subst. exists name. split; [exact Hin|].
      unfold has_col. apply memb_In. exact Hm.
Qed.

Lemma rows_of_nth cols rows i lbl r :
  nth_error rows i = Some (lbl, r) -> nth_error (rows_of (Frame cols rows)) i = Some r.
Proof. intros H. cbn [rows_of]. apply (map_nth_error snd _ _ H). Qed.

(* additivity over the chains *)
Lemma spec_additive genes (c : cfg) (ls : c09_cdr_scope) (a b : row) :
  spec_entry genes c Paired ls a b =
  (w_alpha c * spec_entry genes (unit_chain c) AlphaOnly ls a b
   + w_beta c * spec_entry genes (unit_chain c) BetaOnly ls a b)%N.
Proof.
  unfold spec_entry, unit_chain.
  destruct ls; cbn [chains_of loops_of map sumN fold_right chain_weight loop_weight
                    wi wd ws w_alpha w_beta w_cdr1 w_cdr2 w_cdr3]; ring.
Qed.

Print Assumptions tcr_cdist_spec.
Print Assumptions calc_pdist_ok.
Print Assumptions calc_cdist_reject.
Print Assumptions spec_additive.
