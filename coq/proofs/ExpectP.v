(* Unbiasedness of the generated pc_n / varpc_n under i.i.d. sampling. *)
From Coq Require Import List Arith Lia Reals Lra Field.
From PV Require Import gen.Gen_stats_R lib.Expect.
Import ListNotations.
Open Scope R_scope.

(* Rewrite every [sumRf f (countsR K xs)] of the unfolded generated code into
   [sumR (countsR K xs)], [Fm 2 K xs] or [Fm 3 K xs], whichever [f] computes. *)
Ltac norm_sums :=
  repeat match goal with
  | |- context [sumRf ?f (countsR ?K ?xs)] =>
      first [ rewrite (sumRf_countsR_id f K xs) by (intro; ring)
            | rewrite (sumRf_countsR_ff 2 f K xs) by (intro; rewrite ffR_2; ring)
            | rewrite (sumRf_countsR_ff 3 f K xs) by (intro; rewrite ffR_3; ring) ]
  end.

Lemma INR_ge (k N : nat) : (k <= N)%nat -> INR k <= INR N.
Proof. apply le_INR. Qed.

(* ------------------------------------------------------------------ *)
(* The generated functions on a valid sample, in terms of Fm            *)
(* ------------------------------------------------------------------ *)

Lemma gen_pc_valid K N xs :
  (2 <= N)%nat -> length xs = N -> Forall (fun i => (i < K)%nat) xs ->
  gen_pc_n_R (countsR K xs) = / (INR N * (INR N - 1)) * Fm 2 K xs.
Proof.
  intros HN Hlen HF. pose proof (INR_ge 2 N HN) as Hge. cbn [INR] in Hge.
  unfold gen_pc_n_R. cbv zeta. norm_sums. rewrite (countsR_sum K xs HF), Hlen.
  field. lra.
Qed.

Lemma gen_varpc_valid K N xs :
  (4 <= N)%nat -> length xs = N -> Forall (fun i => (i < K)%nat) xs ->
  let n := INR N in
  let beta := 2 * (2 * n - 3) / ((n - 2) * (n - 3)) in
  gen_varpc_n_R (countsR K xs)
  = (4 * (n - 2) / (n * (n - 1)) * (1 + beta) / (n * (n - 1) * (n - 2))) * Fm 3 K xs
    + (- beta / (n * (n - 1)) ^ 2) * Fm 2 K xs ^ 2
    + (2 / (n * (n - 1)) * (1 + beta) / (n * (n - 1))) * Fm 2 K xs.
Proof.
  intros HN Hlen HF n beta. subst beta n.
  pose proof (INR_ge 4 N HN) as Hge. cbn [INR] in Hge.
  unfold gen_varpc_n_R. cbv zeta. norm_sums. rewrite (countsR_sum K xs HF), Hlen.
  field. lra.
Qed.

(* ------------------------------------------------------------------ *)
(* 1. pc_n is unbiased                                                 *)
(* ------------------------------------------------------------------ *)

Lemma E_gen_pc p : sumR p = 1 -> forall N, (2 <= N)%nat ->
  E p N (fun xs => gen_pc_n_R (countsR (length p) xs)) = Sp p 2.
Proof.
  intros psum N HN. pose proof (INR_ge 2 N HN) as Hge. cbn [INR] in Hge.
  rewrite (E_ext_valid p N _ (fun xs => / (INR N * (INR N - 1)) * Fm 2 (length p) xs))
    by (intros xs Hlen HF; apply gen_pc_valid; assumption).
  rewrite E_scal, (E_Fm p psum), ffR_2. field. lra.
Qed.

Theorem pc_unbiased p : sumR p = 1 -> forall N, (2 <= N)%nat ->
  E p N (fun xs => gen_pc_n_R (countsR (length p) xs)) = sumR (map (fun x => x ^ 2) p).
Proof. intros psum N HN. rewrite (E_gen_pc p psum N HN). apply Sp_map. Qed.

(* ------------------------------------------------------------------ *)
(* 2. the two-sample estimator is unbiased                             *)
(* ------------------------------------------------------------------ *)

Theorem pc_cross_unbiased p q : length p = length q -> sumR p = 1 -> sumR q = 1 ->
  forall N1 N2, (1 <= N1)%nat -> (1 <= N2)%nat ->
  E p N1 (fun xs => E q N2 (fun ys => pc2R (countsR (length p) xs) (countsR (length p) ys)))
  = sumR (map (fun ab => fst ab * snd ab) (combine p q)).
Proof.
  intros Hlen psum qsum N1 N2 HN1 HN2.
  pose proof (INR_ge 1 N1 HN1) as Hge1. pose proof (INR_ge 1 N2 HN2) as Hge2.
  cbn [INR] in Hge1, Hge2.
  (* the integrand on valid samples *)
  rewrite (E_ext_valid p N1 _ (fun xs => E q N2 (fun ys =>
     / (INR N1 * INR N2)
     * sumf (fun i => ffR 1 (cnt i xs) * ffR 1 (cnt i ys)) (seq 0 (length p))))).
  2:{ intros xs Hlx HFx. apply E_ext_valid. intros ys Hly HFy. rewrite <- Hlen in HFy.
      rewrite pc2R_countsR, (countsR_sum _ xs HFx), (countsR_sum _ ys HFy), Hlx, Hly.
      rewrite (sumf_ext _ (fun i => ffR 1 (cnt i xs) * ffR 1 (cnt i ys)))
        by (intros i _; now rewrite !ffR_1).
      unfold Rdiv. ring. }
  (* inner expectation *)
  rewrite (E_ext p N1 _ (fun xs => / (INR N1 * INR N2)
     * sumf (fun i => (INR N2 * pr q i) * ffR 1 (cnt i xs)) (seq 0 (length p)))).
  2:{ intros xs. rewrite E_scal, E_sumf. f_equal. apply sumf_ext; intros i Hi.
      apply in_seq in Hi. rewrite E_scal, (E_ff1 q qsum i) by lia. rewrite !ffR_1. ring. }
  (* outer expectation *)
  rewrite E_scal, E_sumf.
  rewrite (sumf_ext _ (fun i => (INR N1 * INR N2) * (pr p i * pr q i))).
  2:{ intros i Hi. apply in_seq in Hi. rewrite E_scal, (E_ff1 p psum i) by lia.
      rewrite !ffR_1. ring. }
  rewrite sumf_scal, (sumf_pr2 p q Hlen). field. lra.
Qed.

(* ------------------------------------------------------------------ *)
(* 3. varpc_n is an unbiased estimator of Var(pc_n)                    *)
(* ------------------------------------------------------------------ *)

Theorem var_unbiased p : sumR p = 1 -> forall N, (4 <= N)%nat ->
  E p N (fun xs => gen_varpc_n_R (countsR (length p) xs))
  = E p N (fun xs => (gen_pc_n_R (countsR (length p) xs)) ^ 2)
    - (E p N (fun xs => gen_pc_n_R (countsR (length p) xs))) ^ 2.
Proof.
  intros psum N HN. pose proof (INR_ge 4 N HN) as Hge. cbn [INR] in Hge.
  assert (HN2 : (2 <= N)%nat) by lia.
  rewrite (E_gen_pc p psum N HN2).
  (* E[pc^2] *)
  rewrite (E_ext_valid p N (fun xs => gen_pc_n_R (countsR (length p) xs) ^ 2)
             (fun xs => (/ (INR N * (INR N - 1))) ^ 2 * Fm 2 (length p) xs ^ 2)).
  2:{ intros xs Hlen HF. rewrite (gen_pc_valid _ N xs HN2 Hlen HF). ring. }
  (* E[varpc] *)
  rewrite (E_ext_valid p N (fun xs => gen_varpc_n_R (countsR (length p) xs)) _
             (fun xs Hlen HF => gen_varpc_valid (length p) N xs HN Hlen HF)).
  cbv zeta.
  rewrite !E_plus, !E_scal, !(E_Fm p psum), (E_Fm2_sq p psum), !ffR_2, !ffR_3, !ffR_4.
  field. lra.
Qed.

Print Assumptions pc_unbiased.
Print Assumptions pc_cross_unbiased.
Print Assumptions var_unbiased.
