(* C04 / C11: the composition-histogram pre-filter never loses a neighbour.
   If a and b are within k edits then the squared Euclidean distance of their
   histograms is at most 2 k^2 -- for EVERY letter->bin map and every dim
   (letters whose bin is >= dim are simply ignored coordinates). *)
From Coq Require Import List NArith ZArith Bool Arith Lia.
From PV Require Import lib.Edits lib.Str model.Kdtree.
Import ListNotations.

Local Open Scope Z_scope.

(* ---------- positive / negative parts of a coordinate difference ---------- *)
Fixpoint posp (u v : list Z) : Z :=
  match u, v with
  | x :: u', y :: v' => Z.max (x - y) 0 + posp u' v'
  | _, _ => 0
  end.
Definition negp (u v : list Z) : Z := posp v u.

Lemma posp_nonneg u v : 0 <= posp u v.
Proof.
  revert v; induction u as [|x u IH]; intros [|y v]; simpl; try lia.
  specialize (IH v). lia.
Qed.

Lemma posp_self u : posp u u = 0.
Proof. induction u as [|x u IH]; simpl; lia. Qed.

Lemma negp_nonneg u v : 0 <= negp u v.
Proof. apply posp_nonneg. Qed.

(* sum of squares of the differences <= (sum of positive parts)^2 + (sum of negative parts)^2 *)
Lemma sqdist_le_posneg u v :
  sqdist u v <= posp u v * posp u v + negp u v * negp u v.
Proof.
  unfold negp.
  revert v; induction u as [|x u IH]; intros [|y v]; simpl; try lia.
  specialize (IH v).
  pose proof (posp_nonneg u v) as Hp. pose proof (posp_nonneg v u) as Hn.
  destruct (Z.max_spec (x - y) 0) as [[Hc ->]|[Hc ->]];
  destruct (Z.max_spec (y - x) 0) as [[Hc' ->]|[Hc' ->]]; nia.
Qed.

Lemma sqdist_nonneg u v : 0 <= sqdist u v.
Proof.
  revert v; induction u as [|x u IH]; intros [|y v]; simpl; try lia.
  specialize (IH v). pose proof (Z.square_nonneg (x - y)) as Hsq. lia.
Qed.

(* ---------- posp over two coordinate maps ---------- *)
Lemma posp_map_le (f g f' g' : nat -> Z) (ts : list nat) :
  (forall t, In t ts -> f' t - g' t <= f t - g t) ->
  posp (map f' ts) (map g' ts) <= posp (map f ts) (map g ts).
Proof.
  induction ts as [|t ts IH]; intros Hle; simpl; [lia|].
  assert (Ht : f' t - g' t <= f t - g t) by (apply Hle; now left).
  assert (Hr : posp (map f' ts) (map g' ts) <= posp (map f ts) (map g ts)).
  { apply IH. intros t' Hin. apply Hle. now right. }
  lia.
Qed.

Definition ind (c t : nat) : Z := if Nat.eqb c t then 1 else 0.

Lemma posp_map_bump (c : nat) (f g f' g' : nat -> Z) (ts : list nat) :
  NoDup ts ->
  (forall t, f' t - g' t <= f t - g t + ind c t) ->
  posp (map f' ts) (map g' ts) <= posp (map f ts) (map g ts) + 1.
Proof.
  intros Hnd Hle. induction Hnd as [|t ts Hnin Hnd IH]; simpl; [lia|].
  pose proof (Hle t) as Ht. unfold ind in Ht.
  destruct (Nat.eqb c t) eqn:Ect.
  - apply Nat.eqb_eq in Ect. subst t.
    assert (Hr : posp (map f' ts) (map g' ts) <= posp (map f ts) (map g ts)).
    { apply posp_map_le. intros t' Hin. pose proof (Hle t') as Ht'. unfold ind in Ht'.
      destruct (Nat.eqb c t') eqn:E'; [|lia].
      apply Nat.eqb_eq in E'. subst t'. contradiction. }
    lia.
  - lia.
Qed.

(* ---------- how the histogram reacts to one more letter ---------- *)
Definition cntZ (bin : N -> nat) (s : str) (t : nat) : Z :=
  Z.of_nat (length (filter (fun c => Nat.eqb (bin c) t) s)).

Lemma hist_cntZ bin dim s : hist bin dim s = map (cntZ bin s) (seq 0 dim).
Proof. reflexivity. Qed.

Lemma cntZ_cons bin c s t : cntZ bin (c :: s) t = cntZ bin s t + ind (bin c) t.
Proof.
  unfold cntZ, ind. simpl. destruct (Nat.eqb (bin c) t); simpl length; lia.
Qed.

Lemma ind_range c t : 0 <= ind c t <= 1.
Proof. unfold ind. destruct (Nat.eqb c t); lia. Qed.

(* adding a letter c to s bumps coordinate [bin c] by one when bin c < dim, and nothing otherwise *)
Lemma hist_cons bin dim c s :
  hist bin dim (c :: s) =
  map (fun t => cntZ bin s t + ind (bin c) t) (seq 0 dim).
Proof.
  rewrite hist_cntZ. apply map_ext. intros t. apply cntZ_cons.
Qed.

Lemma hist_cons_ignored bin dim c s :
  (dim <= bin c)%nat -> hist bin dim (c :: s) = hist bin dim s.
Proof.
  intros Hge. rewrite !hist_cntZ. apply map_ext_in. intros t Hin.
  apply in_seq in Hin. rewrite cntZ_cons. unfold ind.
  destruct (Nat.eqb (bin c) t) eqn:E; [|lia].
  apply Nat.eqb_eq in E. lia.
Qed.

Lemma hist_length bin dim s : length (hist bin dim s) = dim.
Proof. unfold hist. now rewrite map_length, seq_length. Qed.

(* ---------- the alignment invariant ---------- *)
Lemma edits_posneg (bin : N -> nat) (dim : nat) (a b : str) (i d s : nat) :
  edits a b i d s ->
  posp (hist bin dim a) (hist bin dim b) <= Z.of_nat (d + s) /\
  negp (hist bin dim a) (hist bin dim b) <= Z.of_nat (i + s).
Proof.
  unfold negp. rewrite !hist_cntZ.
  assert (Hnd : NoDup (seq 0 dim)) by apply seq_NoDup.
  induction 1 as [|x a b i d s E [IHp IHn]|x y a b i d s Nxy E [IHp IHn]
                 |x a b i d s E [IHp IHn]|y a b i d s E [IHp IHn]].
  - rewrite posp_self. simpl. lia.
  - (* match *)
    split.
    + eapply Z.le_trans; [|exact IHp]. apply posp_map_le. intros t _. rewrite !cntZ_cons. lia.
    + eapply Z.le_trans; [|exact IHn]. apply posp_map_le. intros t _. rewrite !cntZ_cons. lia.
  - (* substitution *)
    split.
    + assert (Hb : posp (map (cntZ bin (x :: a)) (seq 0 dim)) (map (cntZ bin (y :: b)) (seq 0 dim)) <=
                   posp (map (cntZ bin a) (seq 0 dim)) (map (cntZ bin b) (seq 0 dim)) + 1).
      { apply (posp_map_bump (bin x)); [exact Hnd|]. intros t. rewrite !cntZ_cons.
        pose proof (ind_range (bin y) t). lia. }
      lia.
    + assert (Hb : posp (map (cntZ bin (y :: b)) (seq 0 dim)) (map (cntZ bin (x :: a)) (seq 0 dim)) <=
                   posp (map (cntZ bin b) (seq 0 dim)) (map (cntZ bin a) (seq 0 dim)) + 1).
      { apply (posp_map_bump (bin y)); [exact Hnd|]. intros t. rewrite !cntZ_cons.
        pose proof (ind_range (bin x) t). lia. }
      lia.
  - (* deletion: a gains a letter *)
    split.
    + assert (Hb : posp (map (cntZ bin (x :: a)) (seq 0 dim)) (map (cntZ bin b) (seq 0 dim)) <=
                   posp (map (cntZ bin a) (seq 0 dim)) (map (cntZ bin b) (seq 0 dim)) + 1).
      { apply (posp_map_bump (bin x)); [exact Hnd|]. intros t. rewrite !cntZ_cons. lia. }
      lia.
    + eapply Z.le_trans; [|exact IHn]. apply posp_map_le. intros t _. rewrite !cntZ_cons.
      pose proof (ind_range (bin x) t). lia.
  - (* insertion: b gains a letter *)
    split.
    + eapply Z.le_trans; [|exact IHp]. apply posp_map_le. intros t _. rewrite !cntZ_cons.
      pose proof (ind_range (bin y) t). lia.
    + assert (Hb : posp (map (cntZ bin (y :: b)) (seq 0 dim)) (map (cntZ bin a) (seq 0 dim)) <=
                   posp (map (cntZ bin b) (seq 0 dim)) (map (cntZ bin a) (seq 0 dim)) + 1).
      { apply (posp_map_bump (bin y)); [exact Hnd|]. intros t. rewrite !cntZ_cons. lia. }
      lia.
Qed.

(* sharper form: (d+s)^2 + (i+s)^2 *)
Theorem prefilter_edits (bin : N -> nat) (dim : nat) (a b : str) (i d s : nat) :
  edits a b i d s ->
  sqdist (hist bin dim a) (hist bin dim b) <=
  Z.of_nat (d + s) * Z.of_nat (d + s) + Z.of_nat (i + s) * Z.of_nat (i + s).
Proof.
  intros E. destruct (edits_posneg bin dim a b i d s E) as [Hp Hn].
  pose proof (sqdist_le_posneg (hist bin dim a) (hist bin dim b)) as Hs.
  pose proof (posp_nonneg (hist bin dim a) (hist bin dim b)) as Hp0.
  pose proof (negp_nonneg (hist bin dim a) (hist bin dim b)) as Hn0.
  nia.
Qed.

(* MAIN *)
Theorem prefilter (bin : N -> nat) (dim : nat) (a b : str) (k : nat) :
  within a b k ->
  (sqdist (hist bin dim a) (hist bin dim b) <= 2 * Z.of_nat k * Z.of_nat k)%Z.
Proof.
  intros (i & d & s & E & Hk).
  pose proof (prefilter_edits bin dim a b i d s E) as Hs.
  assert (H1 : 0 <= Z.of_nat (d + s) <= Z.of_nat k) by lia.
  assert (H2 : 0 <= Z.of_nat (i + s) <= Z.of_nat k) by lia.
  nia.
Qed.

Corollary prefilter_lev (bin : N -> nat) (dim : nat) (a b : str) (k : nat) :
  (slev a b <= k)%nat ->
  (sqdist (hist bin dim a) (hist bin dim b) <= 2 * Z.of_nat k * Z.of_nat k)%Z.
Proof.
  intros H. apply prefilter. unfold slev in H. apply (lev_le_iff N.eq_dec). exact H.
Qed.

(* substitution-only (Hamming) variant: nothing extra to do, [within] covers it *)
Corollary prefilter_subs (bin : N -> nat) (dim : nat) (a b : str) (k s : nat) :
  edits a b 0 0 s -> (s <= k)%nat ->
  (sqdist (hist bin dim a) (hist bin dim b) <= 2 * Z.of_nat k * Z.of_nat k)%Z.
Proof.
  intros E Hk. apply prefilter. exists 0%nat, 0%nat, s. split; [exact E|lia].
Qed.

Corollary prefilter_ham (bin : N -> nat) (dim : nat) (a b : str) (k n : nat) :
  sham a b = Some n -> (n <= k)%nat ->
  (sqdist (hist bin dim a) (hist bin dim b) <= 2 * Z.of_nat k * Z.of_nat k)%Z.
Proof.
  intros H Hk. eapply prefilter_subs; [|exact Hk]. apply (ham_edits N.eq_dec). exact H.
Qed.

(* contrapositive, the way the filter is used: too far apart in histogram space => not a neighbour *)
Corollary prefilter_reject (bin : N -> nat) (dim : nat) (a b : str) (k : nat) :
  (2 * Z.of_nat k * Z.of_nat k < sqdist (hist bin dim a) (hist bin dim b))%Z ->
  ~ within a b k /\ ~ (slev a b <= k)%nat.
Proof.
  intros Hgt. split; intros H.
  - apply (prefilter bin dim) in H. lia.
  - apply (prefilter_lev bin dim) in H. lia.
Qed.

(* tightness: two substitutions between disjoint bins reach 2 k^2 exactly *)
Example prefilter_tight :
  sqdist (hist (fun c => N.to_nat c) 3 [0;0]%N) (hist (fun c => N.to_nat c) 3 [1;1]%N) = (2 * 2 * 2)%Z
  /\ slev [0;0]%N [1;1]%N = 2%nat.
Proof. vm_compute. split; reflexivity. Qed.

(* letters mapped outside [0,dim) are ignored coordinates *)
Example prefilter_ignored :
  sqdist (hist (fun c => N.to_nat c) 1 [5;5]%N) (hist (fun c => N.to_nat c) 1 [7;0]%N) = 1%Z.
Proof. vm_compute. reflexivity. Qed.

Print Assumptions prefilter.
Print Assumptions prefilter_lev.
Print Assumptions prefilter_edits.
Print Assumptions prefilter_subs.
Print Assumptions prefilter_ham.
Print Assumptions prefilter_reject.
