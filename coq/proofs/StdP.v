(* stdpc_n / stdpc (regenerated shape): the non-negative square root of varpc_n for the same counts *)
From Coq Require Import List Reals Lra.
From PV Require Import gen.Gen_stats_R.
Import ListNotations.
Open Scope R_scope.

Lemma stdpc_n_is_root : forall n, 0 <= gen_varpc_n_R n ->
  0 <= gen_stdpc_n_R n /\ gen_stdpc_n_R n * gen_stdpc_n_R n = gen_varpc_n_R n /\
  (forall s, 0 <= s -> s * s = gen_varpc_n_R n -> s = gen_stdpc_n_R n).
Proof.
  intros n Hn. unfold gen_stdpc_n_R. split; [apply sqrt_pos|]. split; [apply sqrt_sqrt; exact Hn|].
  intros s Hs Hss. rewrite <- Hss. symmetry. apply sqrt_square. exact Hs.
Qed.

Lemma stdpc_sample : forall (X : Type) (uc : list X -> list R) (a : list X),
  gen_stdpc_R uc a = sqrt (gen_varpc_n_R (uc a)).
Proof. reflexivity. Qed.

(* the estimator can be negative (then the implementation returns nan, covered by the correspondence run): the guard is not vacuous
   and not always met *)
Example varpc_negative_somewhere : gen_varpc_n_R [2; 2] < 0.
Proof. unfold gen_varpc_n_R, sumRf. simpl. lra. Qed.
Example varpc_positive_somewhere : 0 < gen_varpc_n_R [2; 1; 1; 1].
Proof. unfold gen_varpc_n_R, sumRf. simpl. lra. Qed.
