(* Lemmas about lib/Combinations.v: itertools.combinations = the length-r order-preserving sublists,
   strictly increasing when the positions are; Python slices and ranges. No axioms. *)
From Coq Require Import List Arith Lia Sorting.Sorted.
From PV Require Import lib.Combinations.
Import ListNotations.

Section Comb.
Context {A : Type}.

Lemma sublist_nil_l (l : list A) : sublist [] l.
Proof. induction l; constructor; auto. Qed.

Lemma sublist_nil_r (c : list A) : sublist c [] -> c = [].
Proof. intros H; inversion H; auto. Qed.

Lemma sublist_refl (l : list A) : sublist l l.
Proof. induction l; constructor; auto. Qed.

Lemma sublist_length (c l : list A) : sublist c l -> length c <= length l.
Proof. induction 1; simpl; lia. Qed.

Lemma sublist_incl (c l : list A) : sublist c l -> incl c l.
Proof.
  induction 1 as [|x c l _ IH|x c l _ IH]; intros y Hy; simpl in *; auto.
  destruct Hy as [->|Hy]; auto.
Qed.

(* itertools.combinations(l, r) holds exactly the order-preserving sublists of l of length r *)
Theorem combinations_spec (l : list A) : forall r c,
  In c (combinations l r) <-> sublist c l /\ length c = r.
Proof.
  induction l as [|x l IH]; intros r c.
  - destruct r as [|r]; simpl.
    + split.
      * intros [<-|[]]. split; [constructor|reflexivity].
      * intros [H _]. apply sublist_nil_r in H. now left.
    + split; [easy|]. intros [H L]. apply sublist_nil_r in H. subst. discriminate.
  - destruct r as [|r].
    + simpl. split.
      * intros [<-|[]]. split; [apply sublist_nil_l|reflexivity].
      * intros [_ L]. destruct c; [now left|discriminate].
    + simpl. rewrite in_app_iff, in_map_iff. split.
      * intros [(c' & <- & Hc')|H].
        -- apply IH in Hc' as [S L]. split; [now constructor|simpl; lia].
        -- apply IH in H as [S L]. split; [now constructor|assumption].
      * intros [S L]. inversion S; subst.
        -- left. eexists; split; [reflexivity|]. apply IH. simpl in L. split; [assumption|lia].
        -- right. apply IH. split; assumption.
Qed.

Lemma combinations_0 (l : list A) : combinations l 0 = [[]].
Proof. destruct l; reflexivity. Qed.

Lemma combinations_too_long (l : list A) r : length l < r -> combinations l r = [].
Proof.
  revert r; induction l as [|x l IH]; intros r H; destruct r as [|r]; simpl in *; try lia; auto.
  rewrite (IH r), (IH (S r)) by lia. reflexivity.
Qed.

Lemma sublist_sorted (R : A -> A -> Prop) (c l : list A) :
  sublist c l -> StronglySorted R l -> StronglySorted R c.
Proof.
  induction 1 as [|x c l S IH|x c l S IH]; intros HS; auto.
  - inversion HS; subst. constructor; auto.
    apply Forall_forall. intros y Hy. apply sublist_incl in S.
    eapply Forall_forall in H2; eauto.
  - inversion HS; subst. auto.
Qed.
End Comb.

Lemma seq_sorted_lt a n : StronglySorted lt (seq a n).
Proof.
  revert a; induction n as [|n IH]; intros a; simpl; constructor; auto.
  apply Forall_forall. intros y Hy. apply in_seq in Hy. lia.
Qed.

(* the position tuples itertools.combinations(range(a, a+n), r) yields: strictly increasing, in range, r of them *)
Lemma combinations_seq_increasing a n r c :
  In c (combinations (seq a n) r) ->
  StronglySorted lt c /\ Forall (fun i => a <= i < a + n) c /\ length c = r.
Proof.
  intros H. apply combinations_spec in H as [S L]. split; [|split]; auto.
  - eapply sublist_sorted; eauto. apply seq_sorted_lt.
  - apply Forall_forall. intros i Hi. apply sublist_incl in S. apply S in Hi. apply in_seq in Hi. lia.
Qed.

Lemma in_py_range a b x : In x (py_range a b) <-> a <= x < b.
Proof. unfold py_range. rewrite in_seq. lia. Qed.

Lemma py_range_0 n : py_range 0 n = seq 0 n.
Proof. unfold py_range. now rewrite Nat.sub_0_r. Qed.

Section Slice.
Context {A : Type}.

Lemma slice_empty (s : list A) a : slice s a a = [].
Proof. unfold slice. now rewrite Nat.sub_diag. Qed.

Lemma slice_full (s : list A) : slice s 0 (length s) = s.
Proof. unfold slice. rewrite Nat.sub_0_r. simpl. apply firstn_all. Qed.

Lemma slice_length (s : list A) a b : b <= length s -> length (slice s a b) = b - a.
Proof. intros H. unfold slice. rewrite firstn_length, skipn_length. lia. Qed.

Lemma firstn_snoc (l : list A) n d : n < length l -> firstn (S n) l = firstn n l ++ [nth n l d].
Proof.
  revert n; induction l as [|x l IH]; intros n H; simpl in *; [lia|].
  destruct n as [|n]; simpl; [reflexivity|]. f_equal. apply IH. lia.
Qed.

Lemma nth_skipn (l : list A) a i d : nth i (skipn a l) d = nth (a + i) l d.
Proof.
  revert l; induction a as [|a IH]; intros l; simpl; [reflexivity|].
  destruct l as [|x l]; simpl; [now destruct i|]. apply IH.
Qed.

(* s[a:j+1] = s[a:j] + s[j] *)
Lemma slice_snoc (s : list A) a j d : a <= j -> j < length s ->
  slice s a (S j) = slice s a j ++ [nth j s d].
Proof.
  intros Ha Hj. unfold slice. replace (S j - a) with (S (j - a)) by lia.
  rewrite (firstn_snoc _ _ d) by (rewrite skipn_length; lia).
  rewrite nth_skipn. do 3 f_equal. lia.
Qed.

(* the letter at the boundary between the two parts of an append *)
Lemma nth_middle_len (pre t : list A) x d : nth (length pre) (pre ++ x :: t) d = x.
Proof. rewrite app_nth2 by lia. now rewrite Nat.sub_diag. Qed.
End Slice.
