(* The set-overlap measures as written in pyrepseq/stats.py (gen/Gen_c16.v, regenerated on every run) are the set measures of the
   model (model/Richness.v): sizes of intersection / union of the non-missing element sets. *)
From Coq Require Import List Arith Bool NArith QArith Lia.
From PV Require Import lib.Str lib.Val lib.PySet gen.Gen_c16 model.Richness proofs.RichnessP.
Import ListNotations.

Lemma in_py_dropna l o : In o (py_dropna l) <-> In o l /\ o <> None.
Proof.
  unfold py_dropna. rewrite filter_In. destruct o as [x|]; split; intros [H1 H2]; split; auto; try discriminate; try congruence.
Qed.

Lemma py_dropna_id l : ~ In None l -> py_dropna l = l.
Proof.
  induction l as [|o l IH]; intros H; [reflexivity|]. simpl in *. destruct o as [x|]; [|tauto]. f_equal. apply IH. tauto.
Qed.

(* a duplicate-free list without None is the image of a duplicate-free list of tokens of the same length *)
Lemma somes (L : list (option N)) : NoDup L -> ~ In None L ->
  NoDup (dropna L) /\ length (dropna L) = length L /\ forall x, In x (dropna L) <-> In (Some x) L.
Proof.
  induction L as [|o L IH]; intros ND NN.
  - simpl. repeat split; try constructor; tauto.
  - inversion ND as [|o' L' Hn ND']; subst. destruct o as [x|]; [|exfalso; apply NN; left; reflexivity].
    destruct IH as (I1 & I2 & I3); [assumption|intros H; apply NN; right; exact H|].
    unfold dropna in *. simpl. repeat split.
    + constructor; [|exact I1]. intros H. apply I3 in H. contradiction.
    + simpl. now rewrite I2.
    + intros [->|H]; [left; reflexivity|right; now apply I3].
    + intros [H|H]; [left; congruence|right; now apply I3].
Qed.

Section Sizes.
Variables A B : list (option N).
Let A' := py_set (py_dropna A).
Let B' := py_set (py_dropna B).

Lemma in_clean (l : list (option N)) o : In o (py_set (py_dropna l)) <-> In o l /\ o <> None.
Proof. unfold py_set. rewrite nodup_In. apply in_py_dropna. Qed.

Lemma clean_nonone (l : list (option N)) : ~ In None (py_set (py_dropna l)).
Proof. intros H. apply in_clean in H. destruct H as [_ H]. congruence. Qed.

Lemma size_clean : length A' = length (setof A).
Proof.
  destruct (somes A') as (N1 & N2 & N3); [apply NoDup_nodup|apply clean_nonone|].
  rewrite <- N2. apply NoDup_length_ext; [exact N1|apply NoDup_nodup|].
  intros x. rewrite N3, in_setof. unfold A'. rewrite in_clean. split; [tauto|]. intros H. split; [exact H|discriminate].
Qed.

Lemma size_inter : length (py_inter A' B') = inter_size A B.
Proof.
  assert (ND : NoDup (py_inter A' B')) by (apply NoDup_filter; apply NoDup_nodup).
  assert (NN : ~ In None (py_inter A' B')).
  { intros H. apply filter_In in H. destruct H as [H _]. revert H. apply clean_nonone. }
  destruct (somes _ ND NN) as (N1 & N2 & N3). rewrite <- N2. symmetry. apply inter_size_spec; [exact N1|].
  intros x. rewrite N3. unfold py_inter. rewrite filter_In, memb_In. unfold A', B'. rewrite !in_clean.
  split; [tauto|]. intros [H1 H2]. repeat split; auto; discriminate.
Qed.

Lemma size_union : length (py_union A' B') = union_size A B.
Proof.
  assert (ND : NoDup (py_union A' B')) by apply NoDup_nodup.
  assert (NN : ~ In None (py_union A' B')).
  { unfold py_union. rewrite nodup_In, in_app_iff. intros [H|H]; revert H; apply clean_nonone. }
  destruct (somes _ ND NN) as (N1 & N2 & N3). rewrite <- N2. symmetry. apply union_size_spec; [exact N1|].
  intros x. rewrite N3. unfold py_union. rewrite nodup_In, in_app_iff. unfold A', B'. rewrite !in_clean.
  split; [tauto|]. intros [H|H]; [left|right]; split; auto; discriminate.
Qed.
End Sizes.

Lemma size_inter_sym A B : length (py_inter (py_set (py_dropna B)) (py_set (py_dropna A))) = inter_size A B.
Proof. rewrite size_inter. apply inter_size_sym. Qed.
Lemma size_union_sym A B : length (py_union (py_set (py_dropna B)) (py_set (py_dropna A))) = union_size A B.
Proof. rewrite size_union. apply union_size_sym. Qed.

Definition of_option (o : option Q) : sres := match o with Some q => SQ q | None => SZeroDiv end.
Definition of_val (v : val) : sres := match v with V q => SQ q | NaN => SNaN | Err => SZeroDiv end.

(* jaccard_index drops missing values only from Series: for other containers the statement is about collections without them *)
Theorem gen_jaccard_ok sA sB A B : (sA = true \/ ~ In None A) -> (sB = true \/ ~ In None B) ->
  gen_jaccard_index sA sB A B = of_option (jaccard A B).
Proof.
  intros HA HB. unfold gen_jaccard_index. cbv zeta.
  assert (EA : (if sA then py_dropna A else A) = py_dropna A).
  { destruct sA; [reflexivity|]. destruct HA as [HA|HA]; [discriminate|]. symmetry. now apply py_dropna_id. }
  assert (EB : (if sB then py_dropna B else B) = py_dropna B).
  { destruct sB; [reflexivity|]. destruct HB as [HB|HB]; [discriminate|]. symmetry. now apply py_dropna_id. }
  rewrite EA, EB, ?size_inter, ?size_union, ?(inter_size_sym B A), ?(union_size_sym B A). unfold jaccard, py_truediv, qfrac.
  destruct (Nat.eqb (union_size A B) 0); reflexivity.
Qed.

Theorem gen_overlap_ok sA sB A B : gen_overlap sA sB A B = SNat (overlap A B).
Proof. unfold gen_overlap. cbv zeta. rewrite ?size_inter, ?(inter_size_sym B A). reflexivity. Qed.

Theorem gen_overlap_coefficient_ok sA sB A B : gen_overlap_coefficient sA sB A B = of_val (overlap_coefficient A B).
Proof.
  unfold gen_overlap_coefficient. cbv zeta. rewrite ?size_inter, ?(inter_size_sym B A), !size_clean,
    ?(Nat.min_comm (length (setof B)) (length (setof A))), ?(orb_comm (Nat.eqb (length (setof B)) 0) (Nat.eqb (length (setof A)) 0)). unfold overlap_coefficient. cbv zeta.
  destruct (Nat.eqb (length (setof A)) 0) eqn:Ea; [reflexivity|].
  destruct (Nat.eqb (length (setof B)) 0) eqn:Eb; [reflexivity|]. simpl.
  unfold py_truediv, qfrac. apply Nat.eqb_neq in Ea, Eb.
  destruct (Nat.eqb (Nat.min (length (setof A)) (length (setof B))) 0) eqn:Em; [apply Nat.eqb_eq in Em; lia|reflexivity].
Qed.
