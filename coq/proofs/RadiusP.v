(* C04/C11: the float64 search radius handed to KDTree.query_ball_point never cuts off a true neighbour.
   The histogram pre-filter theorem gives an INTEGER bound: lev a b <= k -> sqdist (hist a) (hist b) <= 2 k^2.
   SciPy compares in binary64, either squared (d2 <= r*r) or square-rooted (sqrt d2 <= r), with r the expression
   regenerated from nn.py.  Both comparisons are decided here for every k in 1..4096 by evaluating the kernel's
   binary64 primitives (vm_compute over the finite range, lifted with forallb_forall; the bound is in the statement:
   a uniform-in-k rounding argument does not go through because fl(sqrt 2) < sqrt 2 + ulp/2 can be consumed by the
   two later roundings).  2 k^2 <= 2^25 and all histogram coordinates are integers below 2^53: exact in binary64. *)
From Coq Require Import PrimFloat Uint63 ZArith List Bool Arith Lia.
From PV Require Import gen.Gen_c04.
Import ListNotations.

Definition zf (z : Z) : float := of_uint63 (of_Z z).
Definition two_k_sq (k : nat) : Z := (2 * Z.of_nat k * Z.of_nat k)%Z.
Definition radius_ok (k : nat) : bool :=
  let r := gen_radius (zf (Z.of_nat k)) in
  PrimFloat.leb (zf (two_k_sq k)) (PrimFloat.mul r r) && PrimFloat.leb (PrimFloat.sqrt (zf (two_k_sq k))) r.

Lemma radius_sweep : forallb radius_ok (seq 1 4096) = true.
Proof. vm_compute. reflexivity. Qed.

Theorem radius_covers : forall k, 1 <= k <= 4096 -> radius_ok k = true.
Proof.
  intros k Hk. pose proof radius_sweep as H. rewrite forallb_forall in H. apply H. apply in_seq. lia.
Qed.

(* the sweep is not vacuous: a radius one ulp-scale smaller (k * 1.41421356) fails already at k = 1 *)
Definition short_radius_ok (k : nat) : bool :=
  let r := PrimFloat.mul (PrimFloat.div (zf 141421356) (zf 100000000)) (zf (Z.of_nat k)) in
  PrimFloat.leb (zf (two_k_sq k)) (PrimFloat.mul r r).
Lemma short_radius_fails : short_radius_ok 1 = false.
Proof. vm_compute. reflexivity. Qed.
