(* SciPy condensed-matrix index algebra -- proofs about lib/Condensed.v *)
From Coq Require Import List Arith Lia.
From PV Require Import lib.Condensed.
Import ListNotations.

(* ------------------------------------------------------------------ *)
(* Rows of the strict upper triangle                                    *)
(* ------------------------------------------------------------------ *)

Definition urow (m i : nat) : list (nat * nat) :=
  map (fun j => (i, j)) (seq (S i) (m - S i)).
(* the first k rows *)
Definition urows (m k : nat) : list (nat * nat) := flat_map (urow m) (seq 0 k).

Lemma upper_urows (m : nat) : upper m = urows m m.
Proof. reflexivity. Qed.

Lemma urows_S (m k : nat) : urows m (S k) = urows m k ++ urow m k.
Proof.
  unfold urows. rewrite seq_S, flat_map_app. simpl. rewrite app_nil_r. reflexivity.
Qed.

Lemma length_urow (m i : nat) : length (urow m i) = m - S i.
Proof. unfold urow. rewrite map_length, seq_length. reflexivity. Qed.

(* closed form, stated without subtraction or division *)
Lemma length_urows (m k : nat) :
  k <= m -> 2 * length (urows m k) + k * (k + 1) = 2 * (k * m).
Proof.
  induction k as [|k IH]; intros Hk.
  - reflexivity.
  - rewrite urows_S, app_length, length_urow.
    assert (Hk' : k <= m) by lia. specialize (IH Hk'). nia.
Qed.

(* the first k rows are a prefix of the whole triangle *)
Lemma urows_split (m k : nat) :
  k < m -> urows m m = urows m k ++ urow m k ++ flat_map (urow m) (seq (S k) (m - S k)).
Proof.
  intros Hk. unfold urows.
  replace m with (k + S (m - S k)) at 2 by lia.
  rewrite seq_app, flat_map_app. simpl. reflexivity.
Qed.

(* consecutive products are even *)
Lemma tri_even (i : nat) : 2 * (((i + 2) * (i + 1)) / 2) = (i + 2) * (i + 1).
Proof.
  assert (Hex : exists q, (i + 2) * (i + 1) = 2 * q).
  { induction i as [|i [q Hq]].
    - exists 1. reflexivity.
    - exists (q + (i + 2)). nia. }
  destruct Hex as [q Hq]. rewrite Hq.
  rewrite (Nat.mul_comm 2 q), Nat.div_mul by discriminate. lia.
Qed.

(* the condensed index is the offset of row i plus the offset inside the row *)
Lemma cidx_offset (m i j : nat) :
  i < j -> j < m -> cidx m i j = length (urows m i) + (j - S i).
Proof.
  intros Hij Hjm. unfold cidx.
  pose proof (tri_even i) as Heven.
  assert (Him : i <= m) by lia.
  pose proof (length_urows m i Him) as Hlen.
  set (q := ((i + 2) * (i + 1)) / 2) in *.
  set (L := length (urows m i)) in *.
  nia.
Qed.

(* ------------------------------------------------------------------ *)
(* 2a, 2b                                                               *)
(* ------------------------------------------------------------------ *)

Theorem length_upper (m : nat) : length (upper m) = m * (m - 1) / 2.
Proof.
  rewrite upper_urows.
  pose proof (length_urows m m (le_n m)) as Hlen.
  apply (Nat.div_unique _ 2 _ 0); [lia|].
  destruct m as [|m]; [reflexivity|].
  replace (S m - 1) with m by lia. nia.
Qed.

Theorem nth_upper (m i j : nat) :
  i < j -> j < m -> nth_error (upper m) (cidx m i j) = Some (i, j).
Proof.
  intros Hij Hjm.
  assert (Him : i < m) by lia.
  rewrite (cidx_offset m i j Hij Hjm), upper_urows, (urows_split m i Him).
  rewrite nth_error_app2 by lia.
  replace (length (urows m i) + (j - S i) - length (urows m i)) with (j - S i) by lia.
  rewrite nth_error_app1 by (rewrite length_urow; lia).
  unfold urow. apply map_nth_error.
  rewrite (nth_error_nth' _ 0) by (rewrite seq_length; lia).
  rewrite seq_nth by lia. f_equal. lia.
Qed.

(* ------------------------------------------------------------------ *)
(* 2c                                                                   *)
(* ------------------------------------------------------------------ *)

Theorem cidx_inj (m i j i' j' : nat) :
  i < j < m -> i' < j' < m -> cidx m i j = cidx m i' j' -> i = i' /\ j = j'.
Proof.
  intros [Hij Hjm] [Hij' Hjm'] Heq.
  pose proof (nth_upper m i j Hij Hjm) as H1.
  pose proof (nth_upper m i' j' Hij' Hjm') as H2.
  rewrite Heq, H2 in H1. injection H1 as Hi Hj. split; congruence.
Qed.

Theorem cidx_range (m i j : nat) :
  i < j -> j < m -> cidx m i j < m * (m - 1) / 2.
Proof.
  intros Hij Hjm. rewrite <- length_upper. apply nth_error_Some.
  rewrite (nth_upper m i j Hij Hjm). discriminate.
Qed.

Theorem in_upper (m i j : nat) : In (i, j) (upper m) <-> i < j /\ j < m.
Proof.
  unfold upper. rewrite in_flat_map. split.
  - intros [i0 [Hi0 Hin]]. apply in_map_iff in Hin.
    destruct Hin as [j0 [Heq Hj0]]. injection Heq as Hi Hj. subst i0 j0.
    apply in_seq in Hi0. apply in_seq in Hj0. lia.
  - intros [Hij Hjm]. exists i. split.
    + apply in_seq. lia.
    + apply in_map_iff. exists j. split; [reflexivity|]. apply in_seq. lia.
Qed.

Lemma NoDup_app_intro {A : Type} (l l' : list A) :
  NoDup l -> NoDup l' -> (forall x, In x l -> ~ In x l') -> NoDup (l ++ l').
Proof.
  intros Hl Hl' Hdisj. induction Hl as [|a l Hnin Hl IH]; simpl; [exact Hl'|].
  constructor.
  - intros Hin. apply in_app_or in Hin. destruct Hin as [Hin|Hin].
    + exact (Hnin Hin).
    + exact (Hdisj a (or_introl eq_refl) Hin).
  - apply IH. intros x Hx. apply Hdisj. right. exact Hx.
Qed.

Lemma in_urows_fst (m k i j : nat) : In (i, j) (urows m k) -> i < k.
Proof.
  unfold urows. rewrite in_flat_map. intros [i0 [Hi0 Hin]].
  unfold urow in Hin. apply in_map_iff in Hin.
  destruct Hin as [j0 [Heq _]]. injection Heq as Hi _. subst i0.
  apply in_seq in Hi0. lia.
Qed.

Lemma in_urow_fst (m k i j : nat) : In (i, j) (urow m k) -> i = k.
Proof.
  unfold urow. intros Hin. apply in_map_iff in Hin.
  destruct Hin as [j0 [Heq _]]. injection Heq as Hi _. congruence.
Qed.

Lemma NoDup_urow (m k : nat) : NoDup (urow m k).
Proof.
  unfold urow. generalize (seq_NoDup (m - S k) (S k)).
  generalize (seq (S k) (m - S k)). intros l Hnd.
  induction Hnd as [|a l Hnin Hnd IH]; simpl; constructor.
  - intros Hin. apply in_map_iff in Hin. destruct Hin as [b [Heq Hb]].
    injection Heq as Hba. subst b. exact (Hnin Hb).
  - exact IH.
Qed.

Lemma NoDup_urows (m k : nat) : NoDup (urows m k).
Proof.
  induction k as [|k IH].
  - constructor.
  - rewrite urows_S. apply NoDup_app_intro; [exact IH|apply NoDup_urow|].
    intros [i j] Hin Hin'. apply in_urows_fst in Hin. apply in_urow_fst in Hin'. lia.
Qed.

Theorem NoDup_upper (m : nat) : NoDup (upper m).
Proof. rewrite upper_urows. apply NoDup_urows. Qed.

(* every slot of the condensed vector is the image of exactly one pair *)
Theorem cidx_surj (m k : nat) :
  k < m * (m - 1) / 2 -> exists i j, i < j /\ j < m /\ cidx m i j = k.
Proof.
  intros Hk. rewrite <- length_upper in Hk.
  destruct (nth_error (upper m) k) as [[i j]|] eqn:Hnth.
  - pose proof (nth_error_In _ _ Hnth) as Hin. apply in_upper in Hin.
    destruct Hin as [Hij Hjm]. exists i, j. split; [exact Hij|]. split; [exact Hjm|].
    pose proof (nth_upper m i j Hij Hjm) as Hnth'.
    pose proof (NoDup_upper m) as Hnd. rewrite NoDup_nth_error in Hnd.
    symmetry. apply Hnd; [exact Hk|]. rewrite Hnth, Hnth'. reflexivity.
  - apply nth_error_None in Hnth. lia.
Qed.

(* ------------------------------------------------------------------ *)
(* 2d: layout of the loops                                              *)
(* ------------------------------------------------------------------ *)

Section LoopsP.
Context {X D : Type}.
Variable f : X -> X -> D.
Variable d0 : X.

Theorem pdist_loop_length (xs : list X) :
  length (pdist_loop f d0 xs) = length xs * (length xs - 1) / 2.
Proof. unfold pdist_loop. rewrite map_length. apply length_upper. Qed.

Theorem pdist_loop_nth (xs : list X) (i j : nat) :
  i < j -> j < length xs ->
  nth_error (pdist_loop f d0 xs) (cidx (length xs) i j)
  = Some (f (nth i xs d0) (nth j xs d0)).
Proof.
  intros Hij Hj. unfold pdist_loop.
  rewrite (map_nth_error _ _ _ (nth_upper (length xs) i j Hij Hj)). reflexivity.
Qed.

Theorem cdist_loop_length (xa xb : list X) :
  length (cdist_loop f xa xb) = length xa.
Proof. unfold cdist_loop. apply map_length. Qed.

Theorem cdist_loop_row (xa xb : list X) (i : nat) (a : X) :
  nth_error xa i = Some a ->
  nth_error (cdist_loop f xa xb) i = Some (map (f a) xb).
Proof.
  intros Ha. unfold cdist_loop.
  apply (map_nth_error (fun a => map (f a) xb) _ _ Ha).
Qed.

Theorem cdist_loop_nth (xa xb : list X) (i j : nat) (a b : X) :
  nth_error xa i = Some a -> nth_error xb j = Some b ->
  option_map (fun row => nth_error row j) (nth_error (cdist_loop f xa xb) i)
  = Some (Some (f a b)).
Proof.
  intros Ha Hb. rewrite (cdist_loop_row xa xb i a Ha). simpl.
  rewrite (map_nth_error (f a) _ _ Hb). reflexivity.
Qed.

(* same fact with total accessors, any defaults *)
Theorem cdist_loop_nth_default (xa xb : list X) (i j : nat) (r0 : list D) (dd : D) :
  i < length xa -> j < length xb ->
  nth j (nth i (cdist_loop f xa xb) r0) dd = f (nth i xa d0) (nth j xb d0).
Proof.
  intros Hi Hj.
  pose proof (nth_error_nth' xa d0 Hi) as Ha.
  pose proof (nth_error_nth' xb d0 Hj) as Hb.
  pose proof (cdist_loop_row xa xb i _ Ha) as Hrow.
  rewrite (nth_error_nth _ _ r0 Hrow).
  apply nth_error_nth.
  apply (map_nth_error (f (nth i xa d0)) _ _ Hb).
Qed.

Theorem squareform_cdist_self (dd : D) (xs : list X) :
  squareform_vec dd (cdist_loop f xs xs) = pdist_loop f d0 xs.
Proof.
  unfold squareform_vec, pdist_loop. rewrite cdist_loop_length.
  apply map_ext_in. intros [i j] Hin. apply in_upper in Hin.
  destruct Hin as [Hij Hj]. simpl.
  apply cdist_loop_nth_default; lia.
Qed.

End LoopsP.

Print Assumptions length_upper.
Print Assumptions nth_upper.
Print Assumptions cidx_inj.
Print Assumptions cidx_range.
Print Assumptions NoDup_upper.
Print Assumptions in_upper.
Print Assumptions cidx_surj.
Print Assumptions pdist_loop_nth.
Print Assumptions pdist_loop_length.
Print Assumptions cdist_loop_nth.
Print Assumptions cdist_loop_nth_default.
Print Assumptions squareform_cdist_self.
