(* C14 source tie: the glue of nn.nearest_neighbor_tcrdist and nn._lookup as written (gen/Gen_c14b.v, regenerated on every run) against
   model/Tcrdist.v. *)
From Coq Require Import List ZArith Bool Arith NArith Lia.
From PV Require Import lib.Str lib.PySlice model.Tcrdist gen.Gen_c14b.
Import ListNotations.

Lemma skipn_beyond {A} (l : list A) n : length l <= n -> skipn n l = [].
Proof. revert n. induction l as [|a l IH]; intros n H; destruct n; cbn in *; try reflexivity; try lia. apply IH. lia. Qed.

Lemma norm_idx_nonneg len (n : nat) : norm_idx len (Z.of_nat n) = Nat.min n len.
Proof. unfold norm_idx. destruct (Z.ltb_spec (Z.of_nat n) 0); [lia|]. rewrite Nat2Z.id. reflexivity. Qed.

Lemma norm_idx_neg len (c : nat) : c <> 0 -> norm_idx len (- Z.of_nat c) = len - c.
Proof. intros H. unfold norm_idx. destruct (Z.ltb_spec (- Z.of_nat c) 0); lia. Qed.

(* the slice the candidate search runs on = the model's pyslice, for EVERY ntrim and ctrim (ctrim = 0 included) *)
Theorem gen_trim_slice_model (ntrim ctrim : nat) (s : str) : gen_trim_slice ntrim ctrim s = pyslice ntrim ctrim s.
Proof.
  unfold gen_trim_slice, py_slice, pyslice.
  (* whatever test of ctrim selects the upper bound (`if ctrim`, `ctrim > 0`, `ctrim != 0`, ..), it computes once ctrim is 0 or a successor *)
  assert (B : forall stop : option Z,
             stop = match ctrim with 0 => None | S _ => Some (- Z.of_nat ctrim)%Z end ->
             match stop with None => length s | Some i => norm_idx (length s) i end = length s - ctrim).
  { intros stop ->. destruct ctrim as [|c]; [lia|]. apply norm_idx_neg. discriminate. }
  rewrite B by (destruct ctrim as [|c]; reflexivity).
  rewrite norm_idx_nonneg.
  destruct (Nat.le_gt_cases ntrim (length s)) as [L|G].
  - rewrite Nat.min_l by exact L. f_equal; lia.
  - rewrite Nat.min_r by lia. rewrite (skipn_beyond s (length s)) by lia. rewrite (skipn_beyond s ntrim) by lia.
    rewrite !firstn_nil. reflexivity.
Qed.

(* values.flat[ridx * ncols + cidx] is the entry in row ridx, column cidx *)
Theorem gen_flat_index_entry (m : list (list Z)) (ncols : nat) : Forall (fun row => length row = ncols) m ->
  forall ridx cidx d, ridx < length m -> cidx < ncols ->
  nth (gen_flat_index ridx cidx ncols) (concat m) d = nth cidx (nth ridx m []) d.
Proof.
  unfold gen_flat_index. induction m as [|row m IH]; intros F ridx cidx d Hr Hc; [cbn in Hr; lia|].
  inversion F as [|? ? Hrow F']; subst. cbn [concat].
  destruct ridx as [|ridx]; cbn [nth].
  - rewrite app_nth1 by lia. f_equal.
  - rewrite app_nth2 by lia. replace (S ridx * length row + cidx - length row) with (ridx * length row + cidx) by lia.
    apply IH; [exact F'|cbn in Hr; lia|exact Hc].
Qed.

Theorem gen_tcrdist_keep_spec d maxt : gen_tcrdist_keep d maxt = true <-> (d <= maxt)%Z.
Proof. unfold gen_tcrdist_keep. apply Z.leb_le. Qed.

Theorem gen_tcrdist_sum_spec v c : gen_tcrdist_sum v c = (v + c)%Z.
Proof. unfold gen_tcrdist_sum. ring. Qed.
