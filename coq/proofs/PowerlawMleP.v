(* C17: the closed-form branches of powerlaw_mle_alpha and the formula of powerlaw_sample, REGENERATED from
   pyrepseq/stats.py (gen/Gen_c17.v, gen/Gen_c17_R.v), equal the documented forms; executable output predicates. *)
From Coq Require Import List QArith Qround Bool Arith ZArith Lia Reals Lra.
From PV Require Import lib.Val model.Powerlaw model.PowerlawR gen.Gen_stats_R gen.Gen_c17 gen.Gen_c17_R proofs.PowerlawP.
Import ListNotations.

(* ------------------------------------------------------------------ Q, ln symbolic *)
Open Scope Q_scope.

Lemma sumQr_sumQ (l : list Q) : sumQr l == sumQ l.
Proof.
  induction l as [|x r IH]; [reflexivity|].
  change (sumQr (x :: r)) with (Qred (x + sumQr r)). change (sumQ (x :: r)) with (x + sumQ r).
  transitivity (x + sumQr r); [apply Qred_correct|rewrite IH; reflexivity].
Qed.

Lemma keep_ge_In (cmin : Q) (c : list Q) (x : Q) : In x (keep_ge cmin c) <-> In x c /\ cmin <= x.
Proof. unfold keep_ge. rewrite filter_In, Qle_bool_iff. reflexivity. Qed.

Lemma gen_keep_ok (c : list Q) (cmin : Q) : gen_mle_keep c cmin = keep_ge cmin c.
Proof. reflexivity. Qed.

Ltac mle_q :=
  intros; unfold gen_mle_simple, gen_mle_continuitycorrection, mle_simple_doc, mle_cc_doc, sumQrf; cbv zeta;
  rewrite ?gen_keep_ok; rewrite ?sumQr_sumQ;
  first [reflexivity | unfold Qdiv; ring].

Theorem gen_mle_simple_ok (ln : Q -> Q) (c : list Q) (cmin : Q) :
  gen_mle_simple ln c cmin == mle_simple_doc ln c cmin.
Proof. mle_q. Qed.

Theorem gen_mle_cc_ok (ln : Q -> Q) (c : list Q) (cmin : Q) :
  gen_mle_continuitycorrection ln c cmin == mle_cc_doc ln c cmin.
Proof. mle_q. Qed.

(* the generated guard: the closed form is a genuine quotient exactly when the sum of logarithms is not 0 *)
Theorem gen_mle_defined_ok (ln : Q -> Q) (c : list Q) (cmin : Q) :
  (gen_mle_simple_defined ln c cmin = true <-> ~ sumQ (map (fun x => ln (x / cmin)) (keep_ge cmin c)) == 0) /\
  (gen_mle_continuitycorrection_defined ln c cmin = true <->
     ~ sumQ (map (fun x => ln (x / (cmin - (1 # 2)))) (keep_ge cmin c)) == 0).
Proof.
  unfold gen_mle_simple_defined, gen_mle_continuitycorrection_defined, sumQrf. cbv zeta. rewrite !gen_keep_ok.
  split; rewrite andb_true_r, negb_true_iff; (split; [intros H E|intros H]).
  - rewrite <- sumQr_sumQ in E. apply Qeq_bool_iff in E. congruence.
  - destruct (Qeq_bool _ 0) eqn:E; [|reflexivity]. apply Qeq_bool_iff in E. rewrite sumQr_sumQ in E. contradiction.
  - rewrite <- sumQr_sumQ in E. apply Qeq_bool_iff in E. congruence.
  - destruct (Qeq_bool _ 0) eqn:E; [|reflexivity]. apply Qeq_bool_iff in E. rewrite sumQr_sumQ in E. contradiction.
Qed.

(* a table realises ln on the arguments it lists *)
Lemma lookup_ln_hit (tbl : list (Q * Q)) (d x v : Q) :
  In (x, v) tbl -> (forall a v1 v2, In (a, v1) tbl -> In (a, v2) tbl -> v1 = v2) ->
  (forall a w, In (a, w) tbl -> a == x -> a = x) -> lookup_ln tbl d x = v.
Proof.
  induction tbl as [|[a w] r IH]; simpl; [contradiction|].
  intros Hin Hfun Hcan. destruct (Qeq_bool a x) eqn:E.
  - apply Qeq_bool_iff in E. assert (a = x) by (apply (Hcan a w); auto). subst a.
    apply (Hfun x); auto.
  - destruct Hin as [Hin|Hin].
    + inversion Hin; subst. assert (Qeq_bool x x = true) by (apply Qeq_bool_iff; reflexivity). congruence.
    + apply IH; auto. intros; eapply Hfun; eauto. intros; eapply Hcan; eauto.
Qed.

(* ---- output predicates *)
Lemma is_integerb_iff (v : Q) : is_integerb v = true <-> exists z : Z, v == inject_Z z.
Proof.
  unfold is_integerb. rewrite Qeq_bool_iff. split.
  - intros H. exists (Qfloor v). exact H.
  - intros [z Hz]. rewrite Hz at 1. rewrite Hz. rewrite Qfloor_Z. reflexivity.
Qed.

Definition powerlaw_out_Spec (size : nat) (xmin : Q) (vals : list Q) : Prop :=
  length vals = size /\ Forall (fun v => xmin <= v /\ exists z : Z, v == inject_Z z) vals.

Theorem powerlaw_okb_iff size xmin vals : powerlaw_okb size xmin vals = true <-> powerlaw_out_Spec size xmin vals.
Proof.
  unfold powerlaw_okb, powerlaw_out_Spec. rewrite andb_true_iff, Nat.eqb_eq, forallb_forall, Forall_forall.
  split; intros [H1 H2]; split; try assumption; intros v Hv; specialize (H2 v Hv).
  - rewrite andb_true_iff, Qle_bool_iff, is_integerb_iff in H2. exact H2.
  - rewrite andb_true_iff, Qle_bool_iff, is_integerb_iff. exact H2.
Qed.

Definition exact_Spec (lo hi a ll_a tol : Q) (grid : list Q) : Prop :=
  lo <= a /\ a <= hi /\ Forall (fun g => g - tol <= ll_a) grid.

Theorem exact_okb_iff lo hi a ll_a tol grid : exact_okb lo hi a ll_a tol grid = true <-> exact_Spec lo hi a ll_a tol grid.
Proof.
  unfold exact_okb, exact_Spec. rewrite !andb_true_iff, !Qle_bool_iff, forallb_forall, Forall_forall.
  split.
  - intros [[H1 H2] H3]. repeat split; try assumption. intros g Hg. apply Qle_bool_iff. auto.
  - intros [H1 [H2 H3]]. repeat split; try assumption. intros g Hg. apply Qle_bool_iff. auto.
Qed.

Close Scope Q_scope.

(* ------------------------------------------------------------------ R *)
Open Scope R_scope.

Lemma keep_ge_R_In (cmin : R) (c : list R) (x : R) : In x (keep_ge_R cmin c) <-> In x c /\ cmin <= x.
Proof.
  unfold keep_ge_R. rewrite filter_In. destruct (Rle_dec cmin x); split; intros [H1 H2]; split; auto; try discriminate; contradiction.
Qed.

Ltac mle_r :=
  intros; unfold gen_mle_simple_R, gen_mle_continuitycorrection_R, mle_simple_doc_R, mle_cc_doc_R, gen_mle_keep_R, keep_ge_R, sumRf; cbv zeta;
  first [reflexivity | unfold Rdiv; ring].

Theorem gen_mle_simple_R_ok (c : list R) (cmin : R) : gen_mle_simple_R c cmin = mle_simple_doc_R c cmin.
Proof. mle_r. Qed.

Theorem gen_mle_cc_R_ok (c : list R) (cmin : R) : gen_mle_continuitycorrection_R c cmin = mle_cc_doc_R c cmin.
Proof. mle_r. Qed.

(* for counts >= cmin >= 1 every logarithm of the continuity-corrected form is positive: the form is a genuine quotient *)
Lemma sumR_pos (l : list R) : l <> [] -> Forall (fun x => 0 < x) l -> 0 < sumR l.
Proof.
  induction l as [|x r IH]; [congruence|]. intros _ H. inversion H as [|? ? Hx Hr]; subst. simpl.
  destruct r as [|y r']; [simpl; lra|]. assert (0 < sumR (y :: r')) by (apply IH; [discriminate|exact Hr]). lra.
Qed.

Theorem mle_cc_sum_pos (c : list R) (cmin : R) :
  1/2 < cmin -> keep_ge_R cmin c <> [] ->
  0 < sumR (map (fun x => ln (x / (cmin - 1/2))) (keep_ge_R cmin c)).
Proof.
  intros Hc Hne. apply sumR_pos.
  - intros E. apply map_eq_nil in E. contradiction.
  - apply Forall_forall. intros y Hy. apply in_map_iff in Hy. destruct Hy as [x [Hy Hx]]. subst y.
    apply keep_ge_R_In in Hx. destruct Hx as [_ Hx].
    rewrite <- ln_1. apply ln_increasing; [lra|].
    assert (H0 : 0 < (x - (cmin - 1/2)) / (cmin - 1/2)) by (apply Rdiv_lt_0_compat; lra).
    replace (x / (cmin - 1/2)) with (1 + (x - (cmin - 1/2)) / (cmin - 1/2)) by (field; lra). lra.
Qed.

(* tolerate harmless rewrites of the source: - (1) and -1 are the same literal *)
Ltac norm_opp :=
  repeat match goal with
         | |- context [Ropp (IZR (Zpos ?p))] => change (Ropp (IZR (Zpos p))) with (IZR (Zneg p))
         end.

(* powerlaw_sample: the generated formula is the floor of the inverse-transform value *)
Theorem gen_powerlaw_sample_ok (xmin alpha r : R) : gen_powerlaw_sample_R xmin alpha r = powerlaw_sample_R xmin alpha r.
Proof.
  unfold gen_powerlaw_sample_R, powerlaw_sample_R, powerlaw_value.
  first [reflexivity | (do 2 f_equal; norm_opp; unfold Rdiv; ring)].
Qed.

Theorem gen_powerlaw_sample_ge (xmin : Z) (alpha r : R) :
  (1 <= xmin)%Z -> 1 < alpha -> 0 <= r < 1 ->
  IZR xmin <= gen_powerlaw_sample_R (IZR xmin) alpha r /\
  exists k : Z, gen_powerlaw_sample_R (IZR xmin) alpha r = IZR k.
Proof.
  intros Hx Ha Hr. rewrite gen_powerlaw_sample_ok. unfold powerlaw_sample_R. split.
  - apply IZR_le. apply powerlaw_floor_ge; assumption.
  - eexists. reflexivity.
Qed.

Print Assumptions gen_mle_simple_ok.
Print Assumptions gen_mle_simple_R_ok.
Print Assumptions gen_powerlaw_sample_ge.
