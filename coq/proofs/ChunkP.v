(* C11: proofs about lib/Chunk.v -- chunked Pool.map model and top-m selection. *)
From Coq Require Import List Arith Bool Lia Permutation.
From Coq Require Import Sorted.
From PV Require Import lib.Chunk.
Import ListNotations.

(* ------------------------------------------------------------------ *)
(* 1. chunks                                                           *)
(* ------------------------------------------------------------------ *)
Section ChunkP.
Context {X Y : Type}.

Lemma chunks_fuel_concat (fuel c : nat) : forall (xs : list X),
  1 <= c -> length xs <= fuel -> concat (chunks_fuel fuel c xs) = xs.
Proof.
  induction fuel as [|fuel IH]; intros xs Hc Hlen.
  - destruct xs as [|x xs]; [reflexivity | simpl in Hlen; lia].
  - destruct xs as [|x xs]; [reflexivity|].
    cbn [chunks_fuel concat].
    rewrite IH.
    + apply firstn_skipn.
    + exact Hc.
    + rewrite skipn_length. simpl in Hlen. simpl length. lia.
Qed.

Theorem chunks_concat (c : nat) (xs : list X) :
  1 <= c -> concat (chunks c xs) = xs.
Proof.
  intros Hc. unfold chunks. apply chunks_fuel_concat; [exact Hc | apply le_n].
Qed.

(* chunk size 0: every chunk is empty, there are [length xs] of them, and
   the concatenation is empty -- all data is lost. *)
Lemma chunks_fuel_zero_all_nil (fuel : nat) : forall (xs : list X),
  Forall (fun ch => ch = []) (chunks_fuel fuel 0 xs).
Proof.
  induction fuel as [|fuel IH]; intros xs.
  - constructor.
  - destruct xs as [|x xs]; [constructor|].
    cbn [chunks_fuel]. constructor.
    + reflexivity.
    + apply IH.
Qed.

Lemma chunks_zero_all_nil (xs : list X) :
  Forall (fun ch => ch = []) (chunks 0 xs).
Proof. apply chunks_fuel_zero_all_nil. Qed.

Lemma concat_all_nil {A : Type} (ls : list (list A)) :
  Forall (fun ch => ch = []) ls -> concat ls = [].
Proof.
  intros Hall. induction Hall as [|ch ls Hch Hall IH].
  - reflexivity.
  - simpl. rewrite Hch, IH. reflexivity.
Qed.

Lemma chunks_zero_concat (xs : list X) : concat (chunks 0 xs) = [].
Proof. apply concat_all_nil, chunks_zero_all_nil. Qed.

Theorem chunks_zero (xs : list X) :
  xs <> [] -> concat (chunks 0 xs) = [] /\ concat (chunks 0 xs) <> xs.
Proof.
  intros Hne. rewrite chunks_zero_concat. split; [reflexivity|].
  intros Heq. apply Hne. symmetry. exact Heq.
Qed.

Lemma chunks_fuel_zero_length (fuel : nat) : forall (xs : list X),
  xs <> [] -> length (chunks_fuel fuel 0 xs) = fuel.
Proof.
  induction fuel as [|fuel IH]; intros xs Hne.
  - reflexivity.
  - destruct xs as [|x xs]; [contradiction Hne; reflexivity|].
    cbn [chunks_fuel length skipn]. f_equal. apply IH. discriminate.
Qed.

Lemma chunks_zero_length (xs : list X) : length (chunks 0 xs) = length xs.
Proof.
  destruct xs as [|x xs]; [reflexivity|].
  unfold chunks. apply chunks_fuel_zero_length. discriminate.
Qed.

Lemma chunks_fuel_nonempty (fuel c : nat) : forall (xs : list X),
  1 <= c ->
  Forall (fun ch => ch <> [] /\ length ch <= c) (chunks_fuel fuel c xs).
Proof.
  induction fuel as [|fuel IH]; intros xs Hc.
  - constructor.
  - destruct xs as [|x xs]; [constructor|].
    cbn [chunks_fuel]. constructor.
    + split.
      * destruct c as [|c]; [lia|]. simpl. discriminate.
      * apply firstn_le_length.
    + apply IH. exact Hc.
Qed.

Theorem chunks_nonempty (c : nat) (xs : list X) :
  1 <= c -> Forall (fun ch => ch <> [] /\ length ch <= c) (chunks c xs).
Proof. intros Hc. apply chunks_fuel_nonempty. exact Hc. Qed.

(* ------------------------------------------------------------------ *)
(* 2. pool_map                                                         *)
(* ------------------------------------------------------------------ *)

Lemma find_tagged (g : nat -> list Y) (i : nat) (sched : list nat) :
  In i sched ->
  find (fun p : nat * list Y => Nat.eqb (fst p) i)
       (map (fun j => (j, g j)) sched) = Some (i, g i).
Proof.
  induction sched as [|j sched IH]; intros Hin.
  - destruct Hin.
  - cbn [map find fst]. destruct (Nat.eqb j i) eqn:E.
    + apply Nat.eqb_eq in E. subst j. reflexivity.
    + apply IH. destruct Hin as [Hji|Hin].
      * subst j. rewrite Nat.eqb_refl in E. discriminate E.
      * exact Hin.
Qed.

Lemma find_untagged (g : nat -> list Y) (i : nat) (sched : list nat) :
  ~ In i sched ->
  find (fun p : nat * list Y => Nat.eqb (fst p) i)
       (map (fun j => (j, g j)) sched) = None.
Proof.
  induction sched as [|j sched IH]; intros Hnin.
  - reflexivity.
  - cbn [map find fst]. destruct (Nat.eqb j i) eqn:E.
    + apply Nat.eqb_eq in E. subst j. exfalso. apply Hnin. left. reflexivity.
    + apply IH. intros Hin. apply Hnin. right. exact Hin.
Qed.

Lemma slot_tagged (g : nat -> list Y) (i : nat) (sched : list nat) :
  In i sched -> slot (map (fun j => (j, g j)) sched) i = g i.
Proof.
  intros Hin. unfold slot. rewrite (find_tagged g i sched Hin). reflexivity.
Qed.

Lemma slot_untagged (g : nat -> list Y) (i : nat) (sched : list nat) :
  ~ In i sched -> slot (map (fun j => (j, g j)) sched) i = [].
Proof.
  intros Hnin. unfold slot. rewrite (find_untagged g i sched Hnin). reflexivity.
Qed.

Lemma map_nth_seq {A : Type} (d : A) (l : list A) :
  map (fun i => nth i l d) (seq 0 (length l)) = l.
Proof.
  induction l as [|a l IH].
  - reflexivity.
  - cbn [length seq map nth]. f_equal.
    rewrite <- seq_shift, map_map. cbn [nth]. exact IH.
Qed.

(* Generalisation: it is enough that every chunk index occurs in the schedule
   (duplicates and out-of-range entries are harmless). *)
Theorem pool_map_covering (f : X -> Y) (xs : list X) (c : nat) (sched : list nat) :
  1 <= c ->
  (forall i, i < length (chunks c xs) -> In i sched) ->
  pool_map f xs c sched = map f xs.
Proof.
  intros Hc Hcov. unfold pool_map. cbv zeta.
  rewrite (map_ext_in _ (fun i => map f (nth i (chunks c xs) []))).
  - rewrite <- (map_map (fun i => nth i (chunks c xs) []) (map f)).
    rewrite map_nth_seq. rewrite <- concat_map.
    rewrite (chunks_concat c xs Hc). reflexivity.
  - intros i Hi. apply in_seq in Hi.
    apply (slot_tagged (fun j => map f (nth j (chunks c xs) []))).
    apply Hcov. lia.
Qed.

Theorem pool_map_schedule (f : X -> Y) (xs : list X) (c : nat) (sched : list nat) :
  1 <= c ->
  Permutation sched (seq 0 (length (chunks c xs))) ->
  pool_map f xs c sched = map f xs.
Proof.
  intros Hc Hperm. apply pool_map_covering; [exact Hc|].
  intros i Hi. apply (Permutation_in i (Permutation_sym Hperm)).
  apply in_seq. lia.
Qed.

(* chunk size 0 returns the empty list, whatever the schedule *)
Theorem pool_map_zero (f : X -> Y) (xs : list X) (sched : list nat) :
  pool_map f xs 0 sched = [].
Proof.
  unfold pool_map. cbv zeta. apply concat_all_nil.
  apply Forall_forall. intros ys Hys. apply in_map_iff in Hys.
  destruct Hys as [i [Hi _]]. subst ys.
  destruct (in_dec Nat.eq_dec i sched) as [Hin|Hnin].
  - rewrite (slot_tagged (fun j => map f (nth j (chunks 0 xs) [])) i sched Hin).
    assert (Hnil : nth i (chunks 0 xs) [] = []).
    { pose proof (chunks_zero_all_nil xs) as Hall.
      rewrite Forall_forall in Hall.
      destruct (nth_in_or_default i (chunks 0 xs) []) as [Hn|Hn].
      - apply Hall. exact Hn.
      - exact Hn. }
    rewrite Hnil. reflexivity.
  - apply (slot_untagged (fun j => map f (nth j (chunks 0 xs) [])) i sched Hnin).
Qed.

End ChunkP.

(* ------------------------------------------------------------------ *)
(* 3. sort_by / top_m                                                  *)
(* ------------------------------------------------------------------ *)
Section TopMP.
Context {T : Type}.
Variable key : T -> nat.

Definition key_le (a b : T) : Prop := key a <= key b.

Lemma insert_by_perm (x : T) (l : list T) :
  Permutation (insert_by key x l) (x :: l).
Proof.
  induction l as [|y r IH].
  - apply Permutation_refl.
  - cbn [insert_by]. destruct (Nat.ltb (key y) (key x)).
    + apply Permutation_trans with (y :: x :: r).
      * apply perm_skip. exact IH.
      * apply perm_swap.
    + apply Permutation_refl.
Qed.

Theorem sort_by_perm (l : list T) : Permutation (sort_by key l) l.
Proof.
  induction l as [|x r IH].
  - apply Permutation_refl.
  - cbn [sort_by]. apply Permutation_trans with (x :: sort_by key r).
    + apply insert_by_perm.
    + apply perm_skip. exact IH.
Qed.

Lemma insert_by_sorted (x : T) (l : list T) :
  StronglySorted key_le l -> StronglySorted key_le (insert_by key x l).
Proof.
  intros Hs. induction Hs as [|y r Hr IH Hall].
  - cbn [insert_by]. constructor; constructor.
  - cbn [insert_by]. destruct (Nat.ltb (key y) (key x)) eqn:E.
    + apply Nat.ltb_lt in E. constructor.
      * exact IH.
      * apply Forall_forall. intros z Hz.
        apply (Permutation_in z (insert_by_perm x r)) in Hz.
        destruct Hz as [Hz|Hz].
        -- subst z. unfold key_le. lia.
        -- rewrite Forall_forall in Hall. apply Hall. exact Hz.
    + apply Nat.ltb_ge in E. constructor.
      * constructor; assumption.
      * constructor.
        -- exact E.
        -- rewrite Forall_forall in Hall. apply Forall_forall. intros z Hz.
           specialize (Hall z Hz). unfold key_le in *. lia.
Qed.

Theorem sort_by_sorted (l : list T) : StronglySorted key_le (sort_by key l).
Proof.
  induction l as [|x r IH].
  - constructor.
  - cbn [sort_by]. apply insert_by_sorted. exact IH.
Qed.

Corollary sort_by_Sorted (l : list T) : Sorted key_le (sort_by key l).
Proof. apply StronglySorted_Sorted, sort_by_sorted. Qed.

Lemma sort_by_length (l : list T) : length (sort_by key l) = length l.
Proof. apply Permutation_length, sort_by_perm. Qed.

Lemma sort_by_in (x : T) (l : list T) : In x (sort_by key l) <-> In x l.
Proof.
  split; intros Hin.
  - exact (Permutation_in x (sort_by_perm l) Hin).
  - exact (Permutation_in x (Permutation_sym (sort_by_perm l)) Hin).
Qed.

Lemma StronglySorted_app_le (a b : list T) :
  StronglySorted key_le (a ++ b) ->
  forall x y, In x a -> In y b -> key x <= key y.
Proof.
  induction a as [|z a IH]; intros Hs x y Hx Hy.
  - destruct Hx.
  - cbn [app] in Hs. apply StronglySorted_inv in Hs. destruct Hs as [Hs Hall].
    destruct Hx as [Hx|Hx].
    + subst z. rewrite Forall_forall in Hall.
      apply (Hall y). apply in_or_app. right. exact Hy.
    + apply (IH Hs x y Hx Hy).
Qed.

Lemma NoDup_app_l {A : Type} (a b : list A) : NoDup (a ++ b) -> NoDup a.
Proof.
  induction a as [|z a IH]; intros Hnd.
  - constructor.
  - cbn [app] in Hnd. inversion Hnd as [|z' l' Hnin Hnd']; subst.
    constructor.
    + intros Hin. apply Hnin. apply in_or_app. left. exact Hin.
    + apply IH. exact Hnd'.
Qed.

Lemma firstn_in {A : Type} (n : nat) (l : list A) (x : A) :
  In x (firstn n l) -> In x l.
Proof.
  intros Hin. rewrite <- (firstn_skipn n l). apply in_or_app. left. exact Hin.
Qed.

(* 3d *)
Theorem top_m_in (m : nat) (l : list T) (x : T) :
  In x (top_m key (Some m) l) -> In x l.
Proof.
  unfold top_m. intros Hin. apply sort_by_in. apply (firstn_in m). exact Hin.
Qed.

(* Stronger form of the optimality clause: no NoDup hypothesis is needed. *)
Theorem top_m_min (m : nat) (l : list T) (x y : T) :
  In x (top_m key (Some m) l) -> In y l -> ~ In y (top_m key (Some m) l) ->
  key x <= key y.
Proof.
  unfold top_m. intros Hx Hy Hny.
  apply (StronglySorted_app_le (firstn m (sort_by key l)) (skipn m (sort_by key l))).
  - rewrite firstn_skipn. apply sort_by_sorted.
  - exact Hx.
  - apply sort_by_in in Hy. rewrite <- (firstn_skipn m (sort_by key l)) in Hy.
    apply in_app_or in Hy. destruct Hy as [Hy|Hy]; [contradiction | exact Hy].
Qed.

(* 3b *)
Theorem top_m_spec (m : nat) (l : list T) :
  let r := top_m key (Some m) l in
  length r = Nat.min m (length l) /\
  incl r l /\
  (NoDup l -> NoDup r) /\
  (NoDup l -> forall x y, In x r -> In y l -> ~ In y r -> key x <= key y).
Proof.
  cbv zeta. split; [|split; [|split]].
  - unfold top_m. rewrite firstn_length, sort_by_length. reflexivity.
  - intros x Hx. apply (top_m_in m l x Hx).
  - intros Hnd. unfold top_m.
    apply (NoDup_app_l (firstn m (sort_by key l)) (skipn m (sort_by key l))).
    rewrite firstn_skipn.
    apply (Permutation_NoDup (Permutation_sym (sort_by_perm l)) Hnd).
  - intros _ x y Hx Hy Hny. apply (top_m_min m l x y Hx Hy Hny).
Qed.

(* 3c *)
Theorem top_m_none (l : list T) : top_m key None l = sort_by key l.
Proof. reflexivity. Qed.

Corollary top_m_none_perm (l : list T) : Permutation (top_m key None l) l.
Proof. rewrite top_m_none. apply sort_by_perm. Qed.

(* the kept prefix is itself sorted *)
Lemma StronglySorted_app_l (a b : list T) :
  StronglySorted key_le (a ++ b) -> StronglySorted key_le a.
Proof.
  induction a as [|z a IH]; intros Hs.
  - constructor.
  - cbn [app] in Hs. apply StronglySorted_inv in Hs. destruct Hs as [Hs Hall].
    constructor.
    + apply IH. exact Hs.
    + apply Forall_forall. intros w Hw. rewrite Forall_forall in Hall.
      apply Hall. apply in_or_app. left. exact Hw.
Qed.

Theorem top_m_sorted (limit : option nat) (l : list T) :
  StronglySorted key_le (top_m key limit l).
Proof.
  destruct limit as [m|]; cbn [top_m].
  - apply (StronglySorted_app_l (firstn m (sort_by key l)) (skipn m (sort_by key l))).
    rewrite firstn_skipn. apply sort_by_sorted.
  - apply sort_by_sorted.
Qed.

(* ------------------------------------------------------------------ *)
(* 4. tie order: sort_by is stable.  insert_by puts x in front of the  *)
(* first element whose key is >= key x, so x precedes all its ties;    *)
(* hence elements with equal keys keep their input order.              *)
(* ------------------------------------------------------------------ *)

Definition keq (k : nat) (x : T) : bool := Nat.eqb (key x) k.

(* no sortedness hypothesis needed *)
Lemma filter_insert_by (k : nat) (x : T) (l : list T) :
  filter (keq k) (insert_by key x l) =
  if keq k x then x :: filter (keq k) l else filter (keq k) l.
Proof.
  induction l as [|y r IH].
  - cbn [insert_by filter]. destruct (keq k x); reflexivity.
  - cbn [insert_by]. destruct (Nat.ltb (key y) (key x)) eqn:E.
    + apply Nat.ltb_lt in E. cbn [filter]. rewrite IH.
      destruct (keq k x) eqn:Ex; [|reflexivity].
      unfold keq in Ex. apply Nat.eqb_eq in Ex.
      assert (Ey : keq k y = false).
      { unfold keq. apply Nat.eqb_neq. lia. }
      rewrite Ey. reflexivity.
    + cbn [filter]. reflexivity.
Qed.

Theorem sort_by_stable (k : nat) (l : list T) :
  filter (fun x => Nat.eqb (key x) k) (sort_by key l) =
  filter (fun x => Nat.eqb (key x) k) l.
Proof.
  change (filter (keq k) (sort_by key l) = filter (keq k) l).
  induction l as [|x r IH].
  - reflexivity.
  - cbn [sort_by]. rewrite filter_insert_by. cbn [filter].
    destruct (keq k x).
    + rewrite IH. reflexivity.
    + exact IH.
Qed.

End TopMP.

(* sanity check on a concrete input: ties (key 1) keep input order *)
Example sort_by_stable_example :
  sort_by (@fst nat nat) [(1,0); (1,1); (0,2); (1,3)] = [(0,2); (1,0); (1,1); (1,3)].
Proof. reflexivity. Qed.

Print Assumptions chunks_concat.
Print Assumptions chunks_zero.
Print Assumptions chunks_nonempty.
Print Assumptions pool_map_covering.
Print Assumptions pool_map_schedule.
Print Assumptions pool_map_zero.
Print Assumptions sort_by_perm.
Print Assumptions sort_by_sorted.
Print Assumptions top_m_spec.
Print Assumptions top_m_min.
Print Assumptions top_m_in.
Print Assumptions top_m_none_perm.
Print Assumptions top_m_sorted.
Print Assumptions sort_by_stable.
