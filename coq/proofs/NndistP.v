(* Exactness of the two- and three-substitution enumeration loops of
   _isdist2_hamming / _isdist3_hamming (model/Nndist.v) and of the nndist_hamming
   cascade built on them.  No axioms. *)
From Coq Require Import List NArith Bool Arith Lia.
From PV Require Import lib.Edits lib.Str model.Nbrs proofs.NbrsP model.Nndist.
Import ListNotations.

(* y has the length of x and every position where y differs from x carries a letter of al *)
Definition subst_letters_in (al : list N) (x y : str) : Prop :=
  Forall2 (fun c d => c = d \/ In d al) x y.

Lemma subst_letters_in_nth al x y :
  subst_letters_in al x y <->
  length x = length y /\
  (forall i a b, nth_error x i = Some a -> nth_error y i = Some b -> a <> b -> In b al).
Proof.
  unfold subst_letters_in. revert y. induction x as [|c r IH]; intros y.
  - split.
    + intros H. inversion H; subst. split; auto. intros [|i] a b Ha; discriminate.
    + intros [Hl _]. destruct y; [constructor|discriminate].
  - destruct y as [|d z].
    + split; [intros H; inversion H|intros [Hl _]; discriminate].
    + split.
      * intros H. inversion H as [|? ? ? ? Hcd Hrz]; subst.
        apply IH in Hrz as [Hl Hp]. split; [simpl; congruence|].
        intros [|i] a b Ha Hb Hab; simpl in Ha, Hb.
        -- injection Ha as <-. injection Hb as <-. destruct Hcd; [contradiction|auto].
        -- eapply Hp; eauto.
      * intros [Hl Hp]. constructor.
        -- destruct (N.eq_dec c d) as [E|E]; [left; auto|right].
           apply (Hp 0 c d); auto.
        -- apply IH. split; [simpl in Hl; congruence|].
           intros i a b Ha Hb. apply (Hp (S i)); auto.
Qed.

Lemma subst_letters_in_refl al x : subst_letters_in al x x.
Proof. induction x; constructor; auto. Qed.

(* a reference of the right length all of whose letters are in al qualifies *)
Lemma subst_letters_in_over al x y :
  length x = length y -> (forall c, In c y -> In c al) -> subst_letters_in al x y.
Proof.
  unfold subst_letters_in. revert y. induction x as [|c r IH]; intros [|d z] Hl Hal; try discriminate.
  - constructor.
  - constructor; [right; apply Hal; left; auto|].
    apply IH; [simpl in Hl; congruence|]. intros a Ha. apply Hal; right; auto.
Qed.

Lemma other_letters_In al c a : In a (other_letters al c) <-> In a al /\ a <> c.
Proof. unfold other_letters. rewrite filter_In, neqb_true. tauto. Qed.

(* ------------------------------------------------------------------ *)
(* 1. exactly k substitutions                                          *)
(* ------------------------------------------------------------------ *)
Section Subs.
Variable al : list N.

Lemma sham_cons c d (r z : str) :
  sham (c :: r) (d :: z) =
  match sham r z with Some n => Some (if N.eq_dec c d then n else S n) | None => None end.
Proof. reflexivity. Qed.

Theorem subsk_spec x : forall k y,
  In y (subsk al k x) <-> sham x y = Some k /\ subst_letters_in al x y.
Proof.
  induction x as [|c r IH]; intros k y.
  - destruct k as [|k]; simpl.
    + split.
      * intros [<-|[]]. split; [reflexivity|constructor].
      * intros [H _]. destruct y; [auto|discriminate].
    + split; [tauto|]. intros [H _]. destruct y; discriminate.
  - destruct y as [|d z].
    + split.
      * simpl. intros Hin. apply in_app_or in Hin as [Hin|Hin].
        -- destruct k as [|k]; [contradiction|].
           apply in_flat_map in Hin as (a & _ & Hin).
           apply in_map_iff in Hin as (w & Hw & _). discriminate.
        -- apply in_map_iff in Hin as (w & Hw & _). discriminate.
      * intros [H _]. discriminate.
    + rewrite sham_cons. split.
      * simpl. intros Hin. apply in_app_or in Hin as [Hin|Hin].
        -- destruct k as [|k]; [contradiction|].
           apply in_flat_map in Hin as (a & Ha & Hin).
           apply in_map_iff in Hin as (w & Hw & Hin). injection Hw as E1 E2. subst a w.
           apply other_letters_In in Ha as [Hal Hne].
           apply IH in Hin as [Hs Hl]. rewrite Hs. split.
           ++ destruct (N.eq_dec c d) as [E|_]; [congruence|reflexivity].
           ++ constructor; auto.
        -- apply in_map_iff in Hin as (w & Hw & Hin). injection Hw as E1 E2. subst d w.
           apply IH in Hin as [Hs Hl]. rewrite Hs. split.
           ++ destruct (N.eq_dec c c); congruence.
           ++ constructor; auto.
      * intros [Hs Hl]. inversion Hl as [|? ? ? ? Hcd Hrz]; subst.
        destruct (sham r z) as [n|] eqn:E; [|discriminate].
        simpl. apply in_or_app. destruct (N.eq_dec c d) as [<-|Hne].
        -- right. apply in_map. apply IH. split; [congruence|auto].
        -- left. injection Hs as <-.
           apply in_flat_map. exists d. split.
           ++ apply other_letters_In. split; [|congruence]. destruct Hcd; [contradiction|auto].
           ++ apply in_map. apply IH. split; auto.
Qed.

(* the three loop nests are the k = 1, 2, 3 instances, as lists (same order) *)
Lemma subsk_0 x : subsk al 0 x = [x].
Proof. induction x as [|c r IH]; simpl; [reflexivity|]. rewrite IH. reflexivity. Qed.

Lemma subs1_subsk x : subs1 al x = subsk al 1 x.
Proof.
  induction x as [|c r IH]; simpl; [reflexivity|]. rewrite IH. f_equal.
  fold (other_letters al c). rewrite subsk_0. induction (other_letters al c) as [|a l IHl]; simpl; [reflexivity|].
  rewrite IHl. reflexivity.
Qed.

Lemma subs2_subsk x : subs2 al x = subsk al 2 x.
Proof.
  induction x as [|c r IH]; simpl; [reflexivity|]. rewrite IH. f_equal.
  apply flat_map_ext. intros a. rewrite subs1_subsk. reflexivity.
Qed.

Lemma subs3_subsk x : subs3 al x = subsk al 3 x.
Proof.
  induction x as [|c r IH]; simpl; [reflexivity|]. rewrite IH. f_equal.
  apply flat_map_ext. intros a. rewrite subs2_subsk. reflexivity.
Qed.

Theorem subs1_spec x y :
  In y (subs1 al x) <-> sham x y = Some 1 /\ subst_letters_in al x y.
Proof. rewrite subs1_subsk. apply subsk_spec. Qed.

Theorem subs2_spec x y :
  In y (subs2 al x) <-> sham x y = Some 2 /\ subst_letters_in al x y.
Proof. rewrite subs2_subsk. apply subsk_spec. Qed.

Theorem subs3_spec x y :
  In y (subs3 al x) <-> sham x y = Some 3 /\ subst_letters_in al x y.
Proof. rewrite subs3_subsk. apply subsk_spec. Qed.

(* ------------------------------------------------------------------ *)
(* 2. the membership scans                                             *)
(* ------------------------------------------------------------------ *)

Lemma scan_spec (l : list str) ref :
  existsb (fun y => memb str_eq_dec y ref) l = true <-> exists r, In r ref /\ In r l.
Proof.
  rewrite existsb_exists.
  split; intros (y & H1 & H2); exists y; split; auto; apply (memb_In str_eq_dec); auto.
Qed.

Theorem isdist1_ham_spec x ref :
  isdist1 (ham_nbrs al) x ref = true <->
  exists r, In r ref /\ sham x r = Some 1 /\ subst_letters_in al x r.
Proof.
  unfold isdist1, ham_nbrs. rewrite scan_spec.
  split; intros (r & Hr & H); exists r; split; auto; apply subs1_spec; auto.
Qed.

Theorem isdist2_ham_spec x ref :
  isdist2_ham al x ref = true <->
  exists r, In r ref /\ sham x r = Some 2 /\ subst_letters_in al x r.
Proof.
  unfold isdist2_ham. rewrite scan_spec.
  split; intros (r & Hr & H); exists r; split; auto; apply subs2_spec; auto.
Qed.

Theorem isdist3_ham_spec x ref :
  isdist3_ham al x ref = true <->
  exists r, In r ref /\ sham x r = Some 3 /\ subst_letters_in al x r.
Proof.
  unfold isdist3_ham. rewrite scan_spec.
  split; intros (r & Hr & H); exists r; split; auto; apply subs3_spec; auto.
Qed.

Lemma memb_ham0 x ref :
  memb str_eq_dec x ref = true <-> exists r, In r ref /\ sham x r = Some 0.
Proof.
  rewrite memb_In. split.
  - intros H. exists x. split; auto. apply ham_refl.
  - intros (r & Hr & H0). apply ham_zero in H0. subst r. exact Hr.
Qed.

End Subs.

(* ------------------------------------------------------------------ *)
(* 3. the nearest equal-length reference                               *)
(* ------------------------------------------------------------------ *)

Lemma nearest_opt_none x ref :
  nearest_opt x ref = None <-> forall r, In r ref -> sham x r = None.
Proof.
  induction ref as [|r0 ref IH]; simpl.
  - split; auto. intros _ r [].
  - fold (nearest_opt x ref). destruct (sham x r0) as [h|] eqn:E.
    + split.
      * destruct (nearest_opt x ref); discriminate.
      * intros H. specialize (H r0 (or_introl eq_refl)). congruence.
    + rewrite IH. split.
      * intros H r [<-|Hr]; auto.
      * intros H r Hr. apply H. right; auto.
Qed.

(* Some d: d is attained and is a lower bound *)
Lemma nearest_opt_some x ref d :
  nearest_opt x ref = Some d <->
  (exists r, In r ref /\ sham x r = Some d) /\
  (forall r h, In r ref -> sham x r = Some h -> d <= h).
Proof.
  revert d. induction ref as [|r0 ref IH]; intros d; simpl.
  - split; [discriminate|]. intros [(r & [] & _) _].
  - fold (nearest_opt x ref).
    destruct (sham x r0) as [h0|] eqn:E0.
    + destruct (nearest_opt x ref) as [m|] eqn:Em.
      * destruct (IH m) as [IH1 _]. destruct (IH1 eq_refl) as [(rm & Hrm & Hsm) Hlb].
        split.
        -- intros H. injection H as <-. split.
           ++ destruct (Nat.min_spec h0 m) as [[_ ->]|[_ ->]].
              ** exists r0. split; auto.
              ** exists rm. split; auto.
           ++ intros r h [<-|Hr] Hs.
              ** assert (h = h0) by congruence. lia.
              ** specialize (Hlb r h Hr Hs). lia.
        -- intros [(r & Hr & Hs) Hd]. f_equal.
           assert (d <= h0) by (apply (Hd r0); auto).
           assert (d <= m) by (apply (Hd rm); auto).
           destruct Hr as [<-|Hr].
           ++ assert (d = h0) by congruence. lia.
           ++ specialize (Hlb r d Hr Hs). lia.
      * assert (Hn: forall r, In r ref -> sham x r = None) by (apply nearest_opt_none; auto).
        split.
        -- intros H. injection H as <-. split.
           ++ exists r0. split; auto.
           ++ intros r h [<-|Hr] Hs; [assert (h = h0) by congruence; lia|].
              rewrite (Hn r Hr) in Hs. discriminate.
        -- intros [(r & [<-|Hr] & Hs) _]; [congruence|].
           rewrite (Hn r Hr) in Hs. discriminate.
    + rewrite IH. split.
      * intros [(r & Hr & Hs) Hd]. split.
        -- exists r. split; auto.
        -- intros r' h [<-|Hr'] Hs'; [congruence|]. eapply Hd; eauto.
      * intros [(r & [<-|Hr] & Hs) Hd]; [congruence|]. split.
        -- exists r. split; auto.
        -- intros r' h Hr' Hs'. apply (Hd r'); auto.
Qed.

(* the two facts about `nearest` used below *)
Lemma nearest_le x ref r h : In r ref -> sham x r = Some h -> nearest x ref <= h.
Proof.
  intros Hr Hs. unfold nearest. destruct (nearest_opt x ref) as [d|] eqn:E.
  - apply nearest_opt_some in E as [_ Hlb]. eapply Hlb; eauto.
  - rewrite nearest_opt_none in E. rewrite (E r Hr) in Hs. discriminate.
Qed.

Lemma nearest_attained x ref :
  nearest x ref <> 4 -> exists r, In r ref /\ sham x r = Some (nearest x ref).
Proof.
  unfold nearest. destruct (nearest_opt x ref) as [d|] eqn:E; [|congruence].
  intros _. apply nearest_opt_some in E as [H _]. exact H.
Qed.

(* the specification-level fold used by the C12 correspondence run (extract/Api.v, api_nndist_ham)
   is the capped nearest distance *)
Lemma fold_min_nearest x ref : forall m0, m0 <= 4 ->
  fold_left (fun m r => match sham x r with Some h => Nat.min m h | None => m end) ref m0
  = Nat.min m0 (nearest x ref).
Proof.
  unfold nearest. induction ref as [|r0 ref IH]; intros m0 Hm; simpl.
  - lia.
  - fold (nearest_opt x ref). destruct (sham x r0) as [h0|] eqn:E0.
    + rewrite IH by lia. destruct (nearest_opt x ref) as [m|]; lia.
    + apply IH; auto.
Qed.

(* ------------------------------------------------------------------ *)
(* 4. nndist_hamming                                                   *)
(* ------------------------------------------------------------------ *)
Section Nndist.
Variable al : list N.

(* the domain of the function: references that differ from x only by letters of the alphabet
   (references of another length are allowed and ignored) *)
Definition ref_over (x : str) (ref : list str) : Prop :=
  forall r, In r ref -> subst_letters_in al x r \/ sham x r = None.

Lemma ref_over_letters x ref :
  (forall r, In r ref -> forall c, In c r -> In c al) -> ref_over x ref.
Proof.
  intros H r Hr. destruct (sham x r) as [n|] eqn:E; [left|right; auto].
  apply subst_letters_in_over; [|apply H; auto].
  eapply ham_length; exact E.
Qed.

Lemma nndist_ham_unsupported maxdist x ref : 4 < maxdist -> nndist_ham al maxdist x ref = None.
Proof.
  intros H. unfold nndist_ham. destruct (Nat.ltb_spec 4 maxdist); [reflexivity|lia].
Qed.

(* maxdist = 0 is not special-cased by the code: it behaves like maxdist = 4 *)
Lemma nndist_ham_0 x ref : nndist_ham al 0 x ref = nndist_ham al 4 x ref.
Proof. reflexivity. Qed.

Theorem nndist_ham_spec maxdist x ref :
  1 <= maxdist <= 4 -> ref_over x ref ->
  nndist_ham al maxdist x ref = Some (Nat.min maxdist (nearest x ref)).
Proof.
  intros Hmd Hover.
  pose (hasd := fun k : nat => exists r, In r ref /\ sham x r = Some k).
  assert (Hle: forall k, hasd k -> nearest x ref <= k).
  { intros k (r & Hr & Hs). eapply nearest_le; eauto. }
  assert (Hat: forall k, k < 4 -> nearest x ref = k -> hasd k).
  { intros k Hk Hn. destruct (nearest_attained x ref) as (r & Hr & Hs); [lia|].
    exists r. split; auto. congruence. }
  assert (Hstrip: forall k,
    (exists r, In r ref /\ sham x r = Some k /\ subst_letters_in al x r) <-> hasd k).
  { intros k. split.
    - intros (r & Hr & Hs & _). exists r; auto.
    - intros (r & Hr & Hs). exists r. split; auto. split; auto.
      destruct (Hover r Hr) as [H|H]; [exact H|congruence]. }
  assert (H0: memb str_eq_dec x ref = true <-> hasd 0) by apply memb_ham0.
  assert (H1: isdist1 (ham_nbrs al) x ref = true <-> hasd 1)
    by (rewrite isdist1_ham_spec; apply Hstrip).
  assert (H2: isdist2_ham al x ref = true <-> hasd 2)
    by (rewrite isdist2_ham_spec; apply Hstrip).
  assert (H3: isdist3_ham al x ref = true <-> hasd 3)
    by (rewrite isdist3_ham_spec; apply Hstrip).
  assert (A0 := Hat 0). assert (A1 := Hat 1). assert (A2 := Hat 2). assert (A3 := Hat 3).
  assert (L0 := Hle 0). assert (L1 := Hle 1). assert (L2 := Hle 2). assert (L3 := Hle 3).
  unfold nndist_ham.
  destruct (Nat.ltb_spec 4 maxdist) as [Hbad|_]; [lia|].
  destruct (memb str_eq_dec x ref) eqn:B0.
  { f_equal. assert (nearest x ref <= 0) by (apply L0, H0; auto). lia. }
  assert (N0: ~ hasd 0) by (intros Hh; apply H0 in Hh; congruence).
  destruct (Nat.eqb_spec maxdist 1) as [M1|M1]; cbn [orb].
  { f_equal. assert (nearest x ref <> 0) by (intros E; apply N0, A0; [lia|exact E]). lia. }
  destruct (isdist1 (ham_nbrs al) x ref) eqn:B1.
  { f_equal. assert (nearest x ref <= 1) by (apply L1, H1; auto).
    assert (nearest x ref <> 0) by (intros E; apply N0, A0; [lia|exact E]). lia. }
  assert (N1: ~ hasd 1) by (intros Hh; apply H1 in Hh; congruence).
  assert (nearest x ref <> 0) by (intros E; apply N0, A0; [lia|exact E]).
  assert (nearest x ref <> 1) by (intros E; apply N1, A1; [lia|exact E]).
  destruct (Nat.eqb_spec maxdist 2) as [M2|M2]; cbn [orb].
  { f_equal. lia. }
  destruct (isdist2_ham al x ref) eqn:B2.
  { f_equal. assert (nearest x ref <= 2) by (apply L2, H2; auto). lia. }
  assert (N2: ~ hasd 2) by (intros Hh; apply H2 in Hh; congruence).
  assert (nearest x ref <> 2) by (intros E; apply N2, A2; [lia|exact E]).
  destruct (Nat.eqb_spec maxdist 3) as [M3|M3]; cbn [orb].
  { f_equal. lia. }
  destruct (isdist3_ham al x ref) eqn:B3.
  { f_equal. assert (nearest x ref <= 3) by (apply L3, H3; auto). lia. }
  assert (N3: ~ hasd 3) by (intros Hh; apply H3 in Hh; congruence).
  assert (nearest x ref <> 3) by (intros E; apply N3, A3; [lia|exact E]).
  f_equal. lia.
Qed.

(* what the cap means: exact below maxdist, maxdist itself from there on *)
Corollary nndist_ham_cases maxdist x ref :
  1 <= maxdist <= 4 -> ref_over x ref ->
  (nearest x ref < maxdist -> nndist_ham al maxdist x ref = Some (nearest x ref)) /\
  (maxdist <= nearest x ref -> nndist_ham al maxdist x ref = Some maxdist).
Proof.
  intros Hmd Hover. rewrite (nndist_ham_spec maxdist x ref Hmd Hover).
  split; intros H; f_equal; lia.
Qed.

(* in terms of the references themselves *)
Corollary nndist_ham_meaning maxdist x ref d :
  1 <= maxdist <= 4 -> ref_over x ref ->
  nndist_ham al maxdist x ref = Some d ->
  d <= maxdist /\
  (forall r h, In r ref -> sham x r = Some h -> d <= h) /\
  (d < maxdist -> exists r, In r ref /\ sham x r = Some d).
Proof.
  intros Hmd Hover. rewrite (nndist_ham_spec maxdist x ref Hmd Hover).
  intros H. injection H as <-. split; [lia|]. split.
  - intros r h Hr Hs. pose proof (nearest_le x ref r h Hr Hs). lia.
  - intros Hlt. destruct (nearest_attained x ref) as (r & Hr & Hs); [lia|].
    exists r. split; auto. rewrite Hs. f_equal. lia.
Qed.

(* the modelled loops agree with the specification-level fold of extract/Api.v *)
Corollary nndist_ham_fold maxdist x ref :
  1 <= maxdist <= 4 -> ref_over x ref ->
  nndist_ham al maxdist x ref =
  Some (fold_left (fun m r => match sham x r with Some h => Nat.min m h | None => m end) ref maxdist).
Proof.
  intros Hmd Hover. rewrite fold_min_nearest by lia. apply nndist_ham_spec; auto.
Qed.

End Nndist.
