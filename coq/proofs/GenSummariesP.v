(* C19 source tie: util.seqs_to_regex / util.seqs_to_consensus as written (gen/Gen_c19.v, regenerated on every run; align=False behaviour)
   are the models of model/Summaries.v. *)
From Coq Require Import List Arith Bool NArith Lia.
From PV Require Import lib.Str model.Summaries model.LmMatrix gen.Gen_c19.
Import ListNotations.

(* case analysis on every test of the generated text, keeping the arithmetic meaning of comparisons: an equivalent spelling of a test
   (`len(s) >= 2` for `len(s) > 1`, `not a <= b` for `a > b`) still proves, a different test does not *)
Ltac split_ifs :=
  repeat match goal with
  | |- context [if Nat.ltb ?a ?b then _ else _] => destruct (Nat.ltb_spec a b)
  | |- context [if Nat.leb ?a ?b then _ else _] => destruct (Nat.leb_spec a b)
  | |- context [if Nat.eqb ?a ?b then _ else _] => destruct (Nat.eqb_spec a b)
  | |- context [if negb (Nat.ltb ?a ?b) then _ else _] => destruct (Nat.ltb_spec a b)
  | |- context [if negb (Nat.leb ?a ?b) then _ else _] => destruct (Nat.leb_spec a b)
  | |- context [if negb (Nat.eqb ?a ?b) then _ else _] => destruct (Nat.eqb_spec a b)
  | |- context [if ?c then _ else _] => destruct c eqn:?
  end.

Lemma fold_step_app {A B} (step : list B -> A -> list B) (F : A -> list B) :
  (forall acc a, step acc a = acc ++ F a) ->
  forall l init, fold_left step l init = init ++ flat_map F l.
Proof.
  intros H. induction l as [|a l IH]; intros init; cbn [fold_left flat_map]; [now rewrite app_nil_r|].
  rewrite H, IH, app_assoc. reflexivity.
Qed.

Lemma flat_map_map {A B C} (g : A -> B) (f : B -> list C) (l : list A) : flat_map f (map g l) = flat_map (fun a => f (g a)) l.
Proof. induction l as [|a l IH]; cbn [map flat_map]; [reflexivity|now rewrite IH]. Qed.

Lemma map_flat_map {A B C} (f : B -> C) (g : A -> list B) (l : list A) : map f (flat_map g l) = flat_map (fun a => map f (g a)) l.
Proof. induction l as [|a l IH]; cbn [map flat_map]; [reflexivity|now rewrite map_app, IH]. Qed.

Lemma row_index_gt_map k (f : N -> nat) (cols : list N) :
  row_index_gt k cols (map f cols) = filter (fun c => Nat.ltb k (f c)) cols.
Proof.
  induction cols as [|c cs IH]; cbn [map row_index_gt filter]; [reflexivity|].
  rewrite IH. destruct (Nat.ltb k (f c)); reflexivity.
Qed.

Lemma row_argmax_map (f : N -> nat) (cols : list N) :
  row_argmax cols (map f cols) = option_map (fun c => (c, f c)) (argmax_first f cols).
Proof.
  induction cols as [|c cs IH]; cbn [map row_argmax argmax_first]; [reflexivity|].
  rewrite IH. destruct (argmax_first f cs) as [d|]; cbn [option_map]; [|reflexivity].
  destruct (Nat.ltb (f c) (f d)); reflexivity.
Qed.

Theorem gen_seqs_to_regex_model seqs : gen_seqs_to_regex seqs = render (regex_of seqs).
Proof.
  unfold gen_seqs_to_regex, lm_matrix. cbn [fst snd]. cbv zeta.
  rewrite (fold_step_app _ (fun row => render_item (row_index_gt 0 (alphabet seqs) row, negb (Nat.eqb (list_sum row) (length seqs))))).
  - cbn [app]. unfold count_matrix, render, regex_of. rewrite !flat_map_map.
    apply flat_map_ext. intros p. unfold item_at, count_row at 1. rewrite row_index_gt_map. reflexivity.
  - intros acc row. unfold render_item. cbn [fst snd].
    split_ifs; cbn [negb] in *; rewrite ?app_nil_r, <- ?app_assoc; first [reflexivity | exfalso; lia | exfalso; congruence].
Qed.

Theorem gen_seqs_to_consensus_model seqs : gen_seqs_to_consensus seqs = consensus seqs.
Proof.
  unfold gen_seqs_to_consensus, lm_matrix. cbn [fst snd]. cbv zeta.
  rewrite (fold_step_app _ (fun row => if Nat.ltb (Nat.div (length seqs) 2) (length seqs - list_sum row) then []
                                       else row_idxmax (alphabet seqs) row)).
  - cbn [app]. unfold count_matrix, consensus, consensus_cols. rewrite flat_map_map.
    rewrite map_flat_map.
    apply flat_map_ext. intros p. unfold kept_col, row_total.
    destruct (Nat.ltb (Nat.div (length seqs) 2) (length seqs - list_sum (count_row seqs p))); cbn [negb map]; [reflexivity|].
    unfold row_idxmax, count_row. rewrite row_argmax_map.
    destruct (argmax_first (cnt seqs p) (alphabet seqs)); reflexivity.
  - intros acc row.
    split_ifs; cbn [negb] in *; rewrite ?app_nil_r, <- ?app_assoc; first [reflexivity | exfalso; lia | exfalso; congruence].
Qed.
