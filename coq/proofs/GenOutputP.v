(* C10 source tie (second part): the matrix construction of nn._make_output as written (gen/Gen_c10b.v, regenerated on every run), made
   dense by SciPy's toarray, is the model's coo_dense of the triplets. *)
From Coq Require Import List ZArith Bool Arith Lia.
From PV Require Import model.Output model.CooMatrix gen.Gen_c10b.
Import ListNotations.

Lemma fold_three {T A B C} (fa : T -> A) (fb : T -> B) (fc : T -> C) : forall (l : list T) (a : list A) (b : list B) (c : list C),
  fold_left (fun (st : list A * (list B * list C)) t => (fst st ++ [fa t], (fst (snd st) ++ [fb t], snd (snd st) ++ [fc t]))) l (a, (b, c))
  = (a ++ map fa l, (b ++ map fb l, c ++ map fc l)).
Proof.
  induction l as [|t l IH]; intros a b c; cbn [fold_left map fst snd]; [now rewrite !app_nil_r|].
  rewrite IH, <- !app_assoc. reflexivity.
Qed.

Lemma combine_maps {T A B} (fa : T -> A) (fb : T -> B) (l : list T) : combine (map fa l) (map fb l) = map (fun t => (fa t, fb t)) l.
Proof. induction l as [|t l IH]; cbn [map combine]; [reflexivity|now rewrite IH]. Qed.

Theorem gen_make_output_dense (trip : list (nat * nat * Z)) (len_seqs : nat) (len_seqs2 : option nat) :
  coo_toarray (gen_make_output_coo trip len_seqs len_seqs2)
  = coo_dense (fst (out_shape len_seqs len_seqs2)) (snd (out_shape len_seqs len_seqs2)) trip.
Proof.
  unfold gen_make_output_coo. rewrite fold_three. cbn [app].
  unfold coo_toarray, coo_dense, out_shape.
  destruct len_seqs2 as [m|]; cbn [fst snd];
    (apply map_ext; intros r; apply map_ext; intros q; unfold entry; f_equal;
     rewrite !combine_maps, map_map; apply map_ext; intros t; cbn [fst snd];
     rewrite (andb_comm (Nat.eqb (snd (fst t)) r)); reflexivity).
Qed.
