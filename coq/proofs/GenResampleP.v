(* C17 source tie: the functions regenerated from the text of stats.subsample and distance.downsample (gen/Gen_c17b.v) are the
   models of model/Resample.v, for every admissible draw and every ascending np.unique. *)
From Coq Require Import List Arith Bool Lia Sorting.Sorted Permutation.
From PV Require Import lib.NpUnique lib.NpChoice model.Resample gen.Gen_c17b proofs.ResampleP.
Import ListNotations.

Lemma enumerate_from_cons {A} s (a : A) l : enumerate_from s (a :: l) = (s, a) :: enumerate_from (S s) l.
Proof. reflexivity. Qed.

Lemma concat_repeat_unpack : forall counts s,
  concat (map (fun ic : nat * nat => repeat (fst ic) (snd ic)) (enumerate_from s counts)) = unpack_from s counts.
Proof.
  induction counts as [|c r IH]; intros s; [reflexivity|].
  rewrite enumerate_from_cons. cbn [map concat unpack_from fst snd]. rewrite IH. reflexivity.
Qed.

Lemma sorted_lt_ext : forall l1 l2 : list nat,
  StronglySorted lt l1 -> StronglySorted lt l2 -> (forall x, In x l1 <-> In x l2) -> l1 = l2.
Proof.
  induction l1 as [|a l1 IH]; intros l2 H1 H2 E.
  - destruct l2 as [|b l2]; [reflexivity|]. exfalso. apply (proj2 (E b)). left; reflexivity.
  - destruct l2 as [|b l2]; [exfalso; apply (proj1 (E a)); left; reflexivity|].
    inversion H1 as [|? ? S1 F1]; subst. inversion H2 as [|? ? S2 F2]; subst.
    rewrite Forall_forall in F1, F2.
    assert (a = b) as ->.
    { destruct (proj1 (E a) (or_introl eq_refl)) as [Hb|Hb]; [congruence|].
      destruct (proj2 (E b) (or_introl eq_refl)) as [Ha|Ha]; [congruence|].
      specialize (F1 _ Ha). specialize (F2 _ Hb). lia. }
    f_equal. apply IH; [assumption|assumption|].
    intros x. split; intros Hx.
    + destruct (proj1 (E x) (or_intror Hx)) as [Hb|Hb]; [|exact Hb]. subst x. specialize (F1 _ Hx). lia.
    + destruct (proj2 (E x) (or_intror Hx)) as [Hb|Hb]; [|exact Hb]. subst x. specialize (F2 _ Hx). lia.
Qed.

Lemma tagged_filter_snd (f : nat -> nat) (P : nat * nat -> bool) (l : list nat) :
  map snd (filter P (map (fun i => (i, f i)) l)) = map f (map fst (filter P (map (fun i => (i, f i)) l))).
Proof.
  induction l as [|a l IH]; simpl; [reflexivity|].
  destruct (P (a, f a)); simpl; rewrite IH; reflexivity.
Qed.

Lemma count_occ_pos_In (l : list nat) i : 0 < count_occ Nat.eq_dec l i <-> In i l.
Proof. split; intros H; [apply (count_occ_In Nat.eq_dec); lia|apply (count_occ_In Nat.eq_dec) in H; lia]. Qed.

(* the source of subsample = the model, as the pair (categories, counts) *)
Theorem gen_subsample_model (uniq : list nat -> list nat) (counts : list nat) (n : nat) (draw : nat -> list nat) :
  sorted_uniq_ok uniq ->
  (forall t, In t (draw n) -> t < list_sum counts) ->
  gen_subsample uniq counts n draw = (map fst (subsample counts (draw n)), map snd (subsample counts (draw n))).
Proof.
  intros HU Hlt. unfold gen_subsample, np_unique_counts, np_choice.
  rewrite concat_repeat_unpack, app_nil_r. fold (unpack counts).
  set (cats := map (fun t => nth t (unpack counts) 0) (draw n)).
  assert (Hfst : uniq cats = map fst (subsample counts (draw n))).
  { unfold subsample. fold cats. rewrite tagged_filter_fst. cbn [snd].
    destruct (HU cats) as [Hs He].
    apply sorted_lt_ext; [exact Hs|apply StronglySorted_filter, StronglySorted_seq|].
    intros x. rewrite He, filter_In, in_seq, Nat.ltb_lt, count_occ_pos_In.
    split; [|tauto]. intros Hx. split; [|exact Hx]. split; [lia|]. cbn.
    unfold cats in Hx. apply in_map_iff in Hx. destruct Hx as [t [<- Ht]].
    apply unpack_nth_lt, Hlt, Ht. }
  f_equal; [exact Hfst|].
  rewrite Hfst. unfold subsample at 2. fold cats. rewrite tagged_filter_snd. reflexivity.
Qed.

(* the source of downsample = the model (a table's rows and a sequence's elements are both `xs`) *)
Theorem gen_downsample_model {X} (d : X) (xs : list X) (maxseqs : option nat) (is_df : bool) (draw : nat -> list nat) :
  gen_downsample d (Some xs) maxseqs is_df draw
  = Some (downsample d xs maxseqs (draw (match maxseqs with Some m => m | None => 0 end))).
Proof.
  unfold gen_downsample, gen_downsample_branch, downsample, df_sample, np_choice.
  destruct maxseqs as [m|]; cbn [orb negb andb]; [|reflexivity].
  (* the early-return test in any equivalent spelling (`len(seqs) <= maxseqs`, `maxseqs >= len(seqs)`, `not len(seqs) > maxseqs`) *)
  destruct (Nat.leb_spec (length xs) m);
    repeat match goal with
    | |- context [if Nat.ltb ?a ?b then _ else _] => destruct (Nat.ltb_spec a b)
    | |- context [if Nat.leb ?a ?b then _ else _] => destruct (Nat.leb_spec a b)
    | |- context [if negb (Nat.ltb ?a ?b) then _ else _] => destruct (Nat.ltb_spec a b)
    | |- context [if negb (Nat.leb ?a ?b) then _ else _] => destruct (Nat.leb_spec a b)
    end; cbn [negb]; try (exfalso; lia); try reflexivity; destruct is_df; reflexivity.
Qed.

(* seqs is None: returned as it is, whatever maxseqs *)
Theorem gen_downsample_none {X} (d : X) (maxseqs : option nat) (is_df : bool) (draw : nat -> list nat) :
  gen_downsample d (@None (list X)) maxseqs is_df draw = None.
Proof.
  unfold gen_downsample, gen_downsample_branch. destruct maxseqs; cbn [orb]; rewrite ?orb_true_r; reflexivity.
Qed.
