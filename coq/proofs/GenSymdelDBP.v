(* SymdelDB as written in pyrepseq/nn.py (gen/Gen_c03.v, regenerated on every run): the index built by __init__ and the answers of
   lookup are those of the model's symmetric-delete lookup (model/Symdel.v), for every iteration order of the Python sets involved. *)
From Coq Require Import List Arith Bool ListSet Lia Setoid Morphisms QArith ZArith.
Close Scope Q_scope. Open Scope nat_scope.
From PV Require Import lib.Edits lib.Str lib.PyDict gen.Gen_c01 gen.Gen_c03 model.Symdel proofs.SymdelP proofs.GenCombP.
Import ListNotations.

(* ---------- dict facts (keys are strings) ---------- *)
Definition bget (d : list (str * list nat)) (c : str) : list nat := unwrap [] (dict_get str_eqb c d).

Lemma str_eqb_refl c : str_eqb c c = true.
Proof. now apply str_eqb_eq. Qed.
Lemma str_eqb_neq a b : a <> b -> str_eqb a b = false.
Proof. intros H. destruct (str_eqb a b) eqn:E; auto. apply str_eqb_eq in E. contradiction. Qed.

Lemma bget_set_same d c v : bget (dict_set str_eqb c v d) c = v.
Proof.
  unfold bget. induction d as [|[k w] d IH]; simpl.
  - now rewrite str_eqb_refl.
  - destruct (str_eqb k c) eqn:E; simpl; rewrite E; auto.
Qed.

Lemma bget_set_other d c c' v : c <> c' -> bget (dict_set str_eqb c v d) c' = bget d c'.
Proof.
  intros N. unfold bget. induction d as [|[k w] d IH]; simpl.
  - rewrite (str_eqb_neq c c' N). reflexivity.
  - destruct (str_eqb k c) eqn:E; simpl.
    + apply str_eqb_eq in E. subst k. rewrite (str_eqb_neq c c' N). reflexivity.
    + destruct (str_eqb k c'); auto.
Qed.

Lemma bget_absent d c : dict_mem str_eqb c d = false -> bget d c = [].
Proof.
  unfold bget. induction d as [|[k w] d IH]; simpl; auto. destruct (str_eqb k c); [discriminate|auto].
Qed.

(* ---------- __init__ ---------- *)
Definition ok_iterS (iterS : list str -> list str) : Prop := forall l, NoDup (iterS l) /\ forall c, In c (iterS l) <-> In c l.
Definition ok_iterN (iterN : list nat -> list nat) : Prop := forall l, NoDup l -> NoDup (iterN l) /\ forall x, In x (iterN l) <-> In x l.

Section Init.
Variable iterS : list str -> list str.
Hypothesis IS : ok_iterS iterS.

Definition add_pos (i : nat) (vd : list (str * list nat)) (comb : str) : list (str * list nat) :=
  if dict_mem str_eqb comb vd then dict_set str_eqb comb (unwrap [] (dict_get str_eqb comb vd) ++ [i]) vd
  else dict_set str_eqb comb [i] vd.

Lemma add_pos_bget i vd comb c j :
  In j (bget (add_pos i vd comb) c) <-> In j (bget vd c) \/ (j = i /\ c = comb).
Proof.
  unfold add_pos. destruct (str_eq_dec comb c) as [->|N].
  - destruct (dict_mem str_eqb c vd) eqn:M; rewrite bget_set_same.
    + fold (bget vd c). rewrite in_app_iff. simpl. intuition.
    + rewrite (bget_absent vd c M). simpl. intuition.
  - destruct (dict_mem str_eqb comb vd); rewrite (bget_set_other _ comb c _ N); intuition congruence.
Qed.

Lemma inner_bget i L : forall vd c j,
  In j (bget (fold_left (add_pos i) L vd) c) <-> In j (bget vd c) \/ (j = i /\ In c L).
Proof.
  induction L as [|comb L IH]; intros vd c j; simpl; [tauto|].
  rewrite IH, add_pos_bget. intuition (subst; auto).
Qed.

Lemma init_bget (k : nat) (l : list str) : forall s vd c j,
  In j (bget (fold_left (fun vd '(i, seq) => fold_left (add_pos i) (iterS (gen_comb_gen seq k)) vd)
                        (combine (seq s (length l)) l) vd) c) <->
  In j (bget vd c) \/ (s <= j < s + length l /\ In c (gen_comb_gen (nth (j - s) l []) k)).
Proof.
  induction l as [|x l IH]; intros s vd c j; simpl.
  - split; [tauto|]. intros [H|[H _]]; [exact H|lia].
  - rewrite IH, inner_bget, (proj2 (IS _) c). split.
    + intros [[H|[-> H]]|[H1 H2]].
      * tauto.
      * right. split; [lia|]. now rewrite Nat.sub_diag.
      * right. split; [lia|]. replace (j - s) with (S (j - S s)) by lia. exact H2.
    + intros [H|[H1 H2]]; [tauto|]. destruct (Nat.eq_dec j s) as [->|N].
      * left. right. split; auto. now rewrite Nat.sub_diag in H2.
      * right. split; [lia|]. replace (j - s) with (S (j - S s)) in H2 by lia. exact H2.
Qed.

Theorem gen_init_bucket (k : nat) (refs : list str) c j :
  In j (bget (gen_symdeldb_init iterS refs k) c) <-> j < length refs /\ In c (comb_gen k (sget refs j)).
Proof.
  unfold gen_symdeldb_init, enumerate.
  change (fun (variant_dict : list (str * list nat)) '(i, seq) => fold_left _ (iterS (gen_comb_gen seq k)) variant_dict)
    with (fun (vd : list (str * list nat)) '(i, seq) => fold_left (add_pos i) (iterS (gen_comb_gen seq k)) vd).
  rewrite (init_bget k refs 0 [] c j). rewrite gen_comb_gen_model. rewrite Nat.sub_0_r. unfold sget.
  assert (B : bget [] c = []) by reflexivity. rewrite B. simpl. intuition lia.
Qed.
End Init.

(* ---------- lookup ---------- *)
Lemma fold_app {A B} (f : B -> list A) (l : list B) : forall a, fold_left (fun ans x => ans ++ f x) l a = a ++ flat_map f l.
Proof. induction l as [|x l IH]; intros a; simpl; [now rewrite app_nil_r|]. rewrite IH. now rewrite app_assoc. Qed.

Lemma NoDup_combine_l {A B} (l1 : list A) : forall (l2 : list B), NoDup l1 -> NoDup (combine l1 l2).
Proof.
  induction l1 as [|a l1 IH]; intros l2 ND; simpl; [constructor|]. destruct l2 as [|b l2]; [constructor|].
  inversion ND; subst. constructor; [|now apply IH]. intros H. apply in_combine_l in H. contradiction.
Qed.

Lemma enumerate_fun {A} (l : list A) : forall s a x y,
  In (a, x) (combine (seq s (length l)) l) -> In (a, y) (combine (seq s (length l)) l) -> x = y.
Proof.
  induction l as [|z l IHl]; intros s a x y H1 H2; simpl in *; [contradiction|].
  destruct H1 as [H1|H1], H2 as [H2|H2]; try congruence.
  - injection H1 as <- <-. apply in_combine_l in H2. apply in_seq in H2. lia.
  - injection H2 as <- <-. apply in_combine_l in H1. apply in_seq in H1. lia.
  - eapply IHl; eauto.
Qed.

Lemma fold_left_ext_all {A B} (f g : A -> B -> A) (l : list B) : (forall a x, f a x = g a x) -> forall a, fold_left f l a = fold_left g l a.
Proof. intros H. induction l as [|x l IH]; intros a; simpl; [reflexivity|]. rewrite H. apply IH. Qed.

Lemma fold_set_add (l : list nat) : forall js, NoDup js ->
  NoDup (fold_left (fun js j => set_add Nat.eq_dec j js) l js) /\
  forall x, In x (fold_left (fun js j => set_add Nat.eq_dec j js) l js) <-> In x js \/ In x l.
Proof.
  induction l as [|y l IH]; intros js ND; simpl; [split; [exact ND|tauto]|].
  destruct (IH (set_add Nat.eq_dec y js)) as [H1 H2]; [now apply set_add_nodup|]. split; [exact H1|].
  intros x. rewrite H2. rewrite (set_add_iff Nat.eq_dec). intuition.
Qed.

Section Lookup.
Context {D : Type}.
Variable iterS : list str -> list str.
Variable iterN : list nat -> list nat.
Hypothesis IS : ok_iterS iterS.
Hypothesis IN : ok_iterN iterN.
Variable dist : str -> str -> D.
Variable lev : str -> str -> nat.
Variable gtD : D -> D -> bool.
Variable is_custom : bool.
Variable threshold : D.
Variable k : nat.

(* the pair filter that the loop body of lookup applies, as written *)
Definition gen_keep (a b : str) : option D :=
  let d := dist a b in
  if gtD d threshold then None else if is_custom && Nat.ltb k (lev a b) then None else Some d.

Definition cand_step (vd : list (str * list nat)) (js : list nat) (comb : str) : list nat :=
  if negb (dict_mem str_eqb comb vd) then js
  else fold_left (fun js j => set_add Nat.eq_dec j js) (unwrap [] (dict_get str_eqb comb vd)) js.

Lemma cand_fold vd L : forall js, NoDup js ->
  NoDup (fold_left (cand_step vd) L js) /\
  forall x, In x (fold_left (cand_step vd) L js) <-> In x js \/ exists c, In c L /\ In x (bget vd c).
Proof.
  induction L as [|c L IH]; intros js ND; simpl.
  - split; [exact ND|]. intros x. split; [tauto|]. intros [H|(c & [] & _)]. exact H.
  - assert (S : NoDup (cand_step vd js c) /\ forall x, In x (cand_step vd js c) <-> In x js \/ In x (bget vd c)).
    { unfold cand_step. destruct (dict_mem str_eqb c vd) eqn:M; simpl.
      - apply fold_set_add. exact ND.
      - split; [exact ND|]. intros x. rewrite (bget_absent vd c M). simpl. tauto. }
    destruct S as [S1 S2]. destruct (IH _ S1) as [H1 H2]. split; [exact H1|].
    intros x. rewrite H2, S2. split.
    + intros [[H|H]|(c' & H & H')]; [tauto|right; exists c; auto|right; exists c'; auto].
    + intros [H|(c' & [->|H] & H')]; [tauto|tauto|right; exists c'; auto].
Qed.

Theorem gen_lookup_model (refs queries : list str) :
  let vd := gen_symdeldb_init iterS refs k in
  let out := gen_symdeldb_lookup iterS iterN dist lev gtD refs k vd is_custom threshold queries in
  (forall i j d, In (i, j, d) out <->
     i < length queries /\ In j (cand_refs k refs (sget queries i)) /\ gen_keep (sget queries i) (sget refs j) = Some d) /\
  NoDup (map fst out).
Proof.
  intros vd out.
  set (cands := fun seq => fold_left (cand_step vd) (iterS (gen_comb_gen seq k)) []).
  set (body := fun (p : nat * str) => let '(i, seq) := p in
        flat_map (fun j => match gen_keep seq (nth j refs []) with Some d => [(i, j, d)] | None => [] end) (iterN (cands seq))).
  assert (E' : forall l a,
    fold_left (fun ans '(i, seq) =>
      fold_left (fun ans j =>
          let dist_ := dist seq (nth j refs []) in
          if gtD dist_ threshold then ans else
          if is_custom && Nat.ltb k (lev seq (nth j refs [])) then ans else ans ++ [(i, j, dist_)])
        (iterN (fold_left (cand_step vd) (iterS (gen_comb_gen seq k)) [])) ans) l a
    = a ++ flat_map body l).
  { induction l as [|[i seq] l IH]; intros a; simpl; [now rewrite app_nil_r|].
    rewrite IH. rewrite app_assoc. f_equal. fold (cands seq).
    rewrite <- (fold_app (fun j => match gen_keep seq (nth j refs []) with Some d => [(i, j, d)] | None => [] end)).
    revert a. apply fold_left_ext_all. intros ans j. unfold gen_keep. cbv zeta.
    destruct (gtD (dist seq (nth j refs [])) threshold); [now rewrite app_nil_r|].
    destruct (is_custom && (k <? lev seq (nth j refs []))); [now rewrite app_nil_r|reflexivity]. }
  assert (E : out = flat_map body (enumerate queries)).
  { unfold out, gen_symdeldb_lookup. rewrite <- (app_nil_l (flat_map body (enumerate queries))). apply E'. }
  assert (C : forall seq, NoDup (cands seq) /\ forall j, In j (cands seq) <-> In j (cand_refs k refs seq)).
  { intros seq. destruct (cand_fold vd (iterS (gen_comb_gen seq k)) [] (NoDup_nil _)) as [H1 H2]. split; [exact H1|].
    intros j. unfold cands. rewrite H2. unfold cand_refs. rewrite nodup_In, in_flat_map. split.
    - intros [[]|(c & Hc & Hj)]. apply (proj1 (proj2 (IS _) _)) in Hc. apply (proj1 (gen_comb_gen_model _ _ _)) in Hc.
      unfold vd in Hj. apply (gen_init_bucket iterS IS) in Hj. exists c. split; auto. now apply in_bucket.
    - intros (c & Hc & Hj). right. exists c. split; [apply (proj2 (proj2 (IS _) _)); now apply (proj2 (gen_comb_gen_model _ _ _))|].
      unfold vd. apply (gen_init_bucket iterS IS). now apply in_bucket in Hj. }
  split.
  - intros i j d. rewrite E, in_flat_map. unfold enumerate. split.
    + intros ([i' seq] & Hp & H). pose proof (in_combine_l _ _ _ _ Hp) as Hi. apply in_seq in Hi.
      assert (seq = sget queries i') as ->.
      { apply In_nth with (d := (0, [])) in Hp as (n & Hn & Hp). rewrite combine_length, seq_length, Nat.min_id in Hn.
        rewrite combine_nth in Hp by now rewrite seq_length. injection Hp as H1 H2. rewrite seq_nth in H1 by exact Hn.
        simpl in H1. subst. reflexivity. }
      unfold body in H. apply in_flat_map in H as (j' & Hj' & H). apply (proj2 (IN _ (proj1 (C _)))) in Hj'. apply C in Hj'.
      destruct (gen_keep (sget queries i') (nth j' refs [])) eqn:K; simpl in H; [|contradiction].
      destruct H as [[= <- <- <-]|[]]. repeat split; auto; lia.
    + intros (Hi & Hj & K). exists (i, sget queries i). split.
      * unfold sget. replace (i, nth i queries []) with (nth i (combine (seq 0 (length queries)) queries) (0, [])).
        -- apply nth_In. now rewrite combine_length, seq_length, Nat.min_id.
        -- rewrite combine_nth by now rewrite seq_length. rewrite seq_nth by exact Hi. reflexivity.
      * unfold body. apply in_flat_map. exists j. split.
        -- apply (proj2 (IN _ (proj1 (C _)))). now apply C.
        -- unfold sget in K. unfold sget. rewrite K. now left.
  - rewrite E. rewrite flat_map_concat_map, concat_map, map_map, <- flat_map_concat_map.
    apply NoDup_flat_map_disjoint.
    + unfold enumerate. apply NoDup_combine_l. apply seq_NoDup.
    + intros [i seq] _. unfold body. rewrite flat_map_concat_map, concat_map, map_map, <- flat_map_concat_map.
      apply NoDup_flat_map_disjoint.
      * apply IN. apply C.
      * intros j _. destruct (gen_keep _ _); simpl; repeat constructor; auto.
      * intros j j' b _ _ Hb Hb'.
        destruct (gen_keep seq (nth j refs [])); simpl in Hb; [|contradiction].
        destruct (gen_keep seq (nth j' refs [])); simpl in Hb'; [|contradiction].
        destruct Hb as [<-|[]], Hb' as [E2|[]]. congruence.
    + intros [i seq] [i' seq'] b Hp Hp' Hb Hb'.
      rewrite in_map_iff in Hb, Hb'. destruct Hb as (t & <- & Ht), Hb' as (t' & E3 & Ht').
      unfold body in Ht, Ht'. apply in_flat_map in Ht as (j & _ & Ht), Ht' as (j' & _ & Ht').
      destruct (gen_keep seq (nth j refs [])); simpl in Ht; [|contradiction].
      destruct (gen_keep seq' (nth j' refs [])); simpl in Ht'; [|contradiction].
      destruct Ht as [<-|[]], Ht' as [<-|[]]. simpl in E3. injection E3 as E1 _. subst i'.
      unfold enumerate in Hp, Hp'.
      f_equal. eapply enumerate_fun; eauto.
Qed.
End Lookup.

(* ---------- exactness for any pair filter inside the edit radius, then the three modes ---------- *)
Section Exact.
Context {D : Type}.
Variable iterS : list str -> list str.
Variable iterN : list nat -> list nat.
Hypothesis IS : ok_iterS iterS.
Hypothesis IN : ok_iterN iterN.
Variable dist : str -> str -> D.
Variable lev : str -> str -> nat.
Variable gtD : D -> D -> bool.
Variable is_custom : bool.
Variable threshold : D.
Variable k : nat.
Hypothesis W : forall a b d, gen_keep dist lev gtD is_custom threshold k a b = Some d -> within a b k.

Theorem gen_lookup_exact (refs queries : list str) :
  let out := gen_symdeldb_lookup iterS iterN dist lev gtD refs k (gen_symdeldb_init iterS refs k) is_custom threshold queries in
  (forall i j d, In (i, j, d) out <->
     i < length queries /\ j < length refs /\ gen_keep dist lev gtD is_custom threshold k (sget queries i) (sget refs j) = Some d) /\
  NoDup (map fst out).
Proof.
  intros out. destruct (gen_lookup_model iterS iterN IS IN dist lev gtD is_custom threshold k refs queries) as [M N].
  split; [|exact N]. intros i j d. fold out in M. rewrite M. split.
  - intros (Hi & Hj & K). apply (in_cand_refs k) in Hj as [Hj _]. auto.
  - intros (Hi & Hj & K). repeat split; auto. apply (in_cand_refs k). split; auto. apply shared_variant. eapply W; eauto.
Qed.
End Exact.

(* default mode: custom_distance=None -> levenshtein, threshold = self.max_edits, `dist > threshold` on naturals *)
Lemma gen_keep_lev k a b :
  gen_keep slev_x slev_x (fun d t => Nat.ltb t d) (gen_is_custom CNone) (gen_threshold (gen_is_custom CNone) 0 k) k a b = keep_lev k a b.
Proof.
  unfold gen_keep, keep_lev, gen_is_custom, gen_threshold. cbv zeta. simpl.
  destruct (Nat.ltb_spec k (slev_x a b)), (Nat.leb_spec (slev_x a b) k); try lia; reflexivity.
Qed.

(* Hamming mode: _hamming_replacement returns inf (None) for unequal lengths; `None > Some k` holds *)
Definition ham_inf (a b : str) : option nat := sham a b.
Definition gt_optnat (d t : option nat) : bool :=
  match d, t with None, Some _ => true | Some x, Some y => Nat.ltb y x | _, None => false end.
Lemma gen_keep_ham k a b d :
  gen_keep ham_inf slev_x gt_optnat (gen_is_custom CHamming) (gen_threshold (gen_is_custom CHamming) None (Some k)) k a b = Some d <->
  exists h, d = Some h /\ keep_ham k a b = Some h.
Proof.
  unfold gen_keep, keep_ham, ham_inf, gen_is_custom, gen_threshold, gt_optnat. cbv zeta. simpl.
  destruct (sham a b) as [h|]; [|split; [discriminate|intros (h & _ & H); discriminate]].
  destruct (Nat.ltb_spec k h), (Nat.leb_spec h k); try lia; split.
  - discriminate. - intros (h' & _ & H'); discriminate.
  - intros [= <-]. eauto. - intros (h' & -> & [= <-]). reflexivity.
Qed.

(* custom mode: both radii; max_custom_distance may be inf (None) *)
Definition gt_optQ (d t : option Q) : bool :=
  match d, t with Some x, Some y => negb (Qle_bool x y) | None, Some _ => true | _, None => false end.
Lemma gen_keep_custom (cust : str -> str -> Q) k maxc a b d :
  gen_keep (fun x y => Some (cust x y)) slev_x gt_optQ (gen_is_custom CCallable)
           (gen_threshold (gen_is_custom CCallable) maxc (Some (inject_Z (Z.of_nat k)))) k a b = Some d <->
  exists q, d = Some q /\ keep_custom cust k maxc a b = Some q.
Proof.
  unfold gen_keep, keep_custom, gen_is_custom, gen_threshold, gt_optQ, qle_opt. cbv zeta. simpl.
  destruct maxc as [m|]; simpl.
  - destruct (Qle_bool (cust a b) m); simpl.
    + destruct (Nat.ltb_spec k (slev_x a b)), (Nat.leb_spec (slev_x a b) k); try lia; simpl; split.
      * discriminate. * intros (q & _ & H'); discriminate.
      * intros [= <-]. eauto. * intros (q & -> & [= <-]). reflexivity.
    + rewrite andb_false_r. split; [discriminate|intros (q & _ & H'); discriminate].
  - destruct (Nat.ltb_spec k (slev_x a b)), (Nat.leb_spec (slev_x a b) k); try lia; simpl; split.
    * discriminate. * intros (q & _ & H'); discriminate.
    * intros [= <-]. eauto. * intros (q & -> & [= <-]). reflexivity.
Qed.

(* ================= symdel(), self mode ================= *)
From PV Require Import lib.Combinations proofs.CombinationsP.

Lemma sublist2_in {A} (a b : A) l : sublist [a; b] l -> In a l /\ In b l.
Proof. intros H. apply sublist_incl in H. split; apply H; simpl; auto. Qed.

Lemma sublist2_neq {A} (a b : A) l : NoDup l -> sublist [a; b] l -> a <> b.
Proof.
  induction l as [|x l IH]; intros ND H; inversion H as [|x' c' l' Hs|x' c' l' Hs]; subst.
  - inversion ND as [|x' l' Hn ND']; subst. intros ->. apply Hn. apply sublist_incl in Hs. apply Hs. simpl. auto.
  - inversion ND; subst. apply IH; assumption.
Qed.

Lemma sublist1 {A} (b : A) l : In b l -> sublist [b] l.
Proof.
  induction l as [|x l IH]; intros H; [destruct H|]. destruct H as [->|H].
  - constructor. apply sublist_nil_l.
  - constructor 3. now apply IH.
Qed.

Lemma sublist2_total {A} (a b : A) l : In a l -> In b l -> a <> b -> sublist [a; b] l \/ sublist [b; a] l.
Proof.
  induction l as [|x l IH]; intros Ha Hb N; [destruct Ha|].
  destruct Ha as [->|Ha], Hb as [->|Hb]; try congruence.
  - left. constructor. now apply sublist1.
  - right. constructor. now apply sublist1.
  - destruct (IH Ha Hb N) as [H|H]; [left|right]; now constructor 3.
Qed.

(* the dict built by __init__: distinct keys, every stored list is the bucket of its key, buckets duplicate-free *)
Section InitShape.
Variable iterS : list str -> list str.
Hypothesis IS : ok_iterS iterS.

Definition dict_wf (vd : list (str * list nat)) : Prop := NoDup (map fst vd).

Lemma dict_set_keys c (v : list nat) (vd : list (str * list nat)) : map fst (dict_set str_eqb c v vd) = if dict_mem str_eqb c vd then map fst vd else map fst vd ++ [c].
Proof.
  induction vd as [|[k w] vd IH]; simpl; [reflexivity|]. destruct (str_eqb k c) eqn:E; simpl; [reflexivity|].
  rewrite IH. destruct (dict_mem str_eqb c vd); reflexivity.
Qed.

Lemma dict_mem_in c (vd : list (str * list nat)) : dict_mem str_eqb c vd = true <-> In c (map fst vd).
Proof.
  induction vd as [|[k w] vd IH]; simpl; [split; [discriminate|tauto]|]. destruct (str_eqb k c) eqn:E.
  - apply str_eqb_eq in E. subst. split; auto.
  - rewrite IH. split; [auto|]. intros [->|H]; [|exact H]. rewrite str_eqb_refl in E. discriminate.
Qed.

Lemma add_pos_wf i vd comb : dict_wf vd -> dict_wf (add_pos i vd comb).
Proof.
  unfold dict_wf, add_pos. intros W. destruct (dict_mem str_eqb comb vd) eqn:M; rewrite dict_set_keys, M; [exact W|].
  apply NoDup_app_intro; [exact W|repeat constructor; simpl; tauto|].
  intros x Hx [<-|[]]. apply dict_mem_in in Hx. congruence.
Qed.

Lemma init_wf k refs : dict_wf (gen_symdeldb_init iterS refs k).
Proof.
  unfold gen_symdeldb_init.
  change (fun (variant_dict : list (str * list nat)) '(i, seq) => fold_left _ (iterS (gen_comb_gen seq k)) variant_dict)
    with (fun (vd : list (str * list nat)) '(i, seq) => fold_left (add_pos i) (iterS (gen_comb_gen seq k)) vd).
  assert (G : forall l vd, dict_wf vd -> dict_wf (fold_left (fun (vd : list (str * list nat)) '(i, seq) =>
              fold_left (add_pos i) (iterS (gen_comb_gen seq k)) vd) l vd)).
  { induction l as [|[i s] l IH]; intros vd W; simpl; [exact W|]. apply IH.
    revert vd W. induction (iterS (gen_comb_gen s k)) as [|c L IHL]; intros vd W; simpl; [exact W|]. apply IHL. now apply add_pos_wf. }
  apply G. constructor.
Qed.

Lemma wf_item vd key values : dict_wf vd -> In (key, values) vd -> bget vd key = values.
Proof.
  unfold dict_wf, bget. induction vd as [|[k w] vd IH]; intros W H; [destruct H|]. simpl in *. inversion W; subst.
  destruct H as [[= -> ->]|H].
  - now rewrite str_eqb_refl.
  - destruct (str_eqb k key) eqn:E; [|now apply IH]. apply str_eqb_eq in E. subst. exfalso.
    match goal with N : ~ In _ (map fst vd) |- _ => apply N end. apply in_map_iff. exists (key, values). auto.
Qed.

Lemma bget_item vd c : bget vd c <> [] -> In (c, bget vd c) vd.
Proof.
  unfold bget. induction vd as [|[k w] vd IH]; simpl; intros H; [congruence|]. destruct (str_eqb k c) eqn:E.
  - apply str_eqb_eq in E. subst. now left.
  - right. now apply IH.
Qed.

(* buckets are duplicate-free: positions are appended in increasing order, once per sequence *)
Lemma add_pos_bound i vd comb c : (forall j, In j (bget vd c) -> j < i) -> NoDup (bget vd c) ->
  (c <> comb -> bget (add_pos i vd comb) c = bget vd c) /\
  (c = comb -> bget (add_pos i vd comb) c = bget vd c ++ [i]).
Proof.
  intros B ND. unfold add_pos. split; intros H.
  - destruct (dict_mem str_eqb comb vd); apply bget_set_other; congruence.
  - subst. destruct (dict_mem str_eqb comb vd) eqn:M; rewrite bget_set_same; [reflexivity|]. now rewrite (bget_absent vd comb M).
Qed.

Lemma inner_nodup i : forall L vd c, NoDup L -> (forall j, In j (bget vd c) -> j < i) -> NoDup (bget vd c) ->
  NoDup (bget (fold_left (add_pos i) L vd) c) /\ (forall j, In j (bget (fold_left (add_pos i) L vd) c) -> j <= i).
Proof.
  induction L as [|comb L IH]; intros vd c NDL B ND; simpl.
  - split; [exact ND|]. intros j Hj. apply B in Hj. lia.
  - inversion NDL as [|? ? Hn NDL']; subst.
    destruct (add_pos_bound i vd comb c B ND) as [H1 H2]. destruct (str_eq_dec c comb) as [->|N].
    + (* the key of this step: i appended once; later steps use other keys *)
      assert (E : forall L' vd', ~ In comb L' -> bget (fold_left (add_pos i) L' vd') comb = bget vd' comb).
      { induction L' as [|c' L' IHL']; intros vd' Hn'; simpl; [reflexivity|]. rewrite IHL' by (simpl in Hn'; tauto).
        unfold add_pos. destruct (dict_mem str_eqb c' vd'); apply bget_set_other; simpl in Hn'; intuition congruence. }
      rewrite E by exact Hn. rewrite (H2 eq_refl). split.
      * apply NoDup_app_intro; [exact ND|repeat constructor; simpl; tauto|]. intros x Hx [<-|[]]. apply B in Hx. lia.
      * intros j Hj. apply in_app_iff in Hj as [Hj|[<-|[]]]; [apply B in Hj; lia|lia].
    + apply IH; [exact NDL'| |]; rewrite (H1 N); assumption.
Qed.

Lemma init_nodup k : forall l s vd c, (forall j, In j (bget vd c) -> j < s) -> NoDup (bget vd c) ->
  NoDup (bget (fold_left (fun vd '(i, seq) => fold_left (add_pos i) (iterS (gen_comb_gen seq k)) vd)
                         (combine (seq s (length l)) l) vd) c).
Proof.
  induction l as [|x l IH]; intros s vd c B ND; simpl; [exact ND|].
  destruct (inner_nodup s (iterS (gen_comb_gen x k)) vd c (proj1 (IS _)) B ND) as [H1 H2].
  apply IH; [|exact H1]. intros j Hj. apply H2 in Hj. lia.
Qed.

Lemma gen_init_nodup k refs c : NoDup (bget (gen_symdeldb_init iterS refs k) c).
Proof.
  unfold gen_symdeldb_init, enumerate.
  change (fun (variant_dict : list (str * list nat)) '(i, seq) => fold_left _ (iterS (gen_comb_gen seq k)) variant_dict)
    with (fun (vd : list (str * list nat)) '(i, seq) => fold_left (add_pos i) (iterS (gen_comb_gen seq k)) vd).
  apply init_nodup; [intros j []|constructor].
Qed.
End InitShape.

Section Self.
Context {D : Type}.
Variable iterS : list str -> list str.
Hypothesis IS : ok_iterS iterS.
Variable eqD : forall a b : D, {a = b} + {a <> b}.
Variable dist : str -> str -> D.
Variable lev : str -> str -> nat.
Variable gtD : D -> D -> bool.
Variable is_custom : bool.
Variable threshold : D.
Variable k : nat.
Let keep := gen_keep dist lev gtD is_custom threshold k.
Hypothesis W : forall a b d, keep a b = Some d -> within a b k.
Hypothesis S : forall a b, keep a b = keep b a.

Definition pair_out (seqs : list str) (c : list nat) : list (nat * nat * D) :=
  match c with
  | [i; j] => match keep (nth i seqs []) (nth j seqs []) with Some d => [(i, j, d); (j, i, d)] | None => [] end
  | _ => []
  end.

Lemma fold_set_add_gen {A} (dec : forall a b : A, {a = b} + {a <> b}) (l : list A) : forall acc, NoDup acc ->
  NoDup (fold_left (fun acc t => set_add dec t acc) l acc) /\
  forall x, In x (fold_left (fun acc t => set_add dec t acc) l acc) <-> In x acc \/ In x l.
Proof.
  induction l as [|y l IH]; intros acc ND; simpl; [split; [exact ND|tauto]|].
  destruct (IH (set_add dec y acc)) as [H1 H2]; [now apply set_add_nodup|]. split; [exact H1|].
  intros x. rewrite H2, (set_add_iff dec). intuition.
Qed.

Lemma fold_flat {A B} (f : B -> list A) (g : list A -> A -> list A) (l : list B) : forall acc,
  fold_left (fun ans kv => fold_left g (f kv) ans) l acc = fold_left g (flat_map f l) acc.
Proof. induction l as [|x l IH]; intros acc; simpl; [reflexivity|]. rewrite fold_left_app. apply IH. Qed.

Theorem gen_symdel_self_spec (seqs : list str) :
  let out := gen_symdel_self iterS eqD dist lev gtD seqs k is_custom threshold in
  (forall i j d, In (i, j, d) out <->
     i < length seqs /\ j < length seqs /\ i <> j /\ keep (sget seqs i) (sget seqs j) = Some d) /\
  NoDup out.
Proof.
  intros out. set (vd := gen_symdeldb_init iterS seqs k).
  set (contrib := fun (kv : str * list nat) => flat_map (pair_out seqs) (combinations (snd kv) 2)).
  (* the loop body as written (with or without the `len(values) == 1` shortcut) adds exactly contrib(key, values) *)
  assert (E0 : out = fold_left (fun ans kv => fold_left (fun acc t => set_add (trip_dec eqD) t acc) (contrib kv) ans) vd []).
  { unfold out, gen_symdel_self. fold vd. cbv zeta. apply fold_left_ext_all. intros ans [key values]. unfold contrib. simpl snd.
    try (destruct (Nat.eqb (length values) 1) eqn:L1;
         [apply Nat.eqb_eq in L1; rewrite (combinations_too_long values 2) by lia; reflexivity|]).
    revert ans. induction (combinations values 2) as [|c cs IHc]; intros acc'; simpl; [reflexivity|].
    rewrite fold_left_app, <- IHc. f_equal.
    destruct c as [|i [|j [|? ?]]]; try reflexivity. unfold pair_out, keep, gen_keep. cbv zeta.
    destruct (gtD (dist (nth i seqs []) (nth j seqs [])) threshold); [reflexivity|].
    destruct (is_custom && (k <? lev (nth i seqs []) (nth j seqs []))); reflexivity. }
  assert (E : out = fold_left (fun acc t => set_add (trip_dec eqD) t acc) (flat_map contrib vd) []).
  { rewrite E0. apply fold_flat. }
  destruct (fold_set_add_gen (trip_dec eqD) (flat_map contrib vd) [] (NoDup_nil _)) as [ND M]. rewrite <- E in ND, M.
  split; [|exact ND]. intros i j d. rewrite M. split.
  - intros [[]|H]. apply in_flat_map in H as ([key values] & Hkv & H). unfold contrib in H. simpl snd in H.
    apply in_flat_map in H as (c & Hc & H).
    apply combinations_spec in Hc as [Hs Hl]. destruct c as [|a [|b [|? ?]]]; try discriminate. unfold pair_out in H.
    assert (V : bget vd key = values) by (apply wf_item; [apply (init_wf iterS)|exact Hkv]).
    destruct (sublist2_in _ _ _ Hs) as [Ha Hb]. rewrite <- V in Ha, Hb.
    apply (gen_init_bucket iterS IS) in Ha as [Ha _]. apply (gen_init_bucket iterS IS) in Hb as [Hb _].
    assert (Nab : a <> b) by (eapply sublist2_neq; [|exact Hs]; rewrite <- V; apply (gen_init_nodup iterS IS)).
    destruct (keep (nth a seqs []) (nth b seqs [])) eqn:K; [|destruct H].
    destruct H as [[= <- <- <-]|[[= <- <- <-]|[]]]; repeat split; auto.
    unfold sget. rewrite S. exact K.
  - intros (Hi & Hj & Nij & K). right.
    destruct (shared_variant k _ _ (W _ _ _ K)) as (c & Hci & Hcj).
    assert (Bi : In i (bget vd c)) by (apply (gen_init_bucket iterS IS); auto).
    assert (Bj : In j (bget vd c)) by (apply (gen_init_bucket iterS IS); auto).
    apply in_flat_map. exists (c, bget vd c). split; [apply bget_item; intros Z; rewrite Z in Bi; destruct Bi|].
    unfold contrib. simpl snd. apply in_flat_map.
    destruct (sublist2_total i j (bget vd c) Bi Bj Nij) as [H|H].
    + exists [i; j]. split; [apply combinations_spec; auto|]. unfold pair_out. unfold sget in K. rewrite K. now left.
    + exists [j; i]. split; [apply combinations_spec; auto|]. unfold pair_out. unfold sget in K. rewrite S in K. rewrite K. right. now left.
Qed.
End Self.
