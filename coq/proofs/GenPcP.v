(* The counting tails of stats.pc as written (gen/Gen_c02.v, regenerated on every run) are the counting model of model/Pc.v,
   for every sample and for every order in which np.unique may list the distinct values. *)
From Coq Require Import List QArith ZArith Bool Arith Lia Permutation Qfield Lqa.
From PV Require Import lib.Val lib.NpUnique gen.Gen_stats gen.Gen_c02 model.Pc proofs.PcP proofs.PcGenP.
Import ListNotations.

Lemma gq_qn n : gq n = qn n.
Proof. reflexivity. Qed.

Section G.
Context {X : Type}.
Variable eqd : forall a b : X, {a = b} + {a <> b}.
Variable uniq : list X -> list X.
Hypothesis U : uniq_ok uniq.

Lemma uniq_perm (l : list X) : Permutation (uniq l) (nodup eqd l).
Proof.
  destruct (U l) as [ND IN]. apply NoDup_Permutation; [exact ND|apply NoDup_nodup|].
  intros x. rewrite IN. symmetry. apply nodup_In.
Qed.

Lemma sum_uniq (g : X -> nat) (l : list X) :
  list_sum (map g (uniq l)) = list_sum (map g (nodup eqd l)).
Proof. apply list_sum_perm. apply Permutation_map. apply uniq_perm. Qed.

Lemma qn_gt1 (n : nat) : (2 <= n)%nat -> 1 < qn n.
Proof. intros L. unfold qn, Qlt. simpl. lia. Qed.

(* robust against algebraically equivalent ways of writing the quotient: the sums are brought to closed form, the rest is `field` *)
Theorem gen_pc_one_counts (l : list X) : (2 <= length l)%nat ->
  gen_pc_one eqd uniq l == qn (pc_num eqd l) / qn (pc_den l).
Proof.
  intros L. unfold gen_pc_one, np_unique_counts, gen_pc_one_formula. cbv beta iota zeta. change gq with qn.
  assert (S1 : sumQf (fun x => x) (map qn (map (count_occ eqd l) (uniq l))) == qn (length l)).
  { rewrite sumQf_id. rewrite (sum_uniq (count_occ eqd l) l). fold (mults eqd l). rewrite mults_sum. reflexivity. }
  rewrite ?S1. rewrite ?sumQf_ff2. rewrite ?map_map.
  rewrite ?(sum_uniq (fun x => (count_occ eqd l x * (count_occ eqd l x - 1))%nat) l).
  unfold pc_num, mults, pc_den. rewrite ?map_map. rewrite (qn_mult (length l)).
  assert (E: qn (length l - 1) == qn (length l) - (1 # 1)).
  { replace (length l) with ((length l - 1) + 1)%nat at 2 by lia. rewrite qn_plus. unfold qn at 3. simpl. ring. }
  rewrite E. pose proof (qn_gt1 (length l) L) as G.
  set (n := qn (length l)) in *. set (s := qn (list_sum _)).
  field; repeat split; intros H; nra.
Qed.

Lemma nth_index_of (f : X -> nat) (x : X) (v : list X) : In x v -> nth (index_of eqd x v) (map f v) 0%nat = f x.
Proof.
  induction v as [|y v IH]; intros H; [destruct H|]. simpl. destruct (eqd x y) as [->|N]; [reflexivity|].
  destruct H as [H|H]; [congruence|]. simpl. apply IH. exact H.
Qed.

Lemma take_idx_counts (f : X -> nat) (v c : list X) : incl c v ->
  take_idx 0%nat (map f v) (map (fun x => index_of eqd x v) c) = map f c.
Proof.
  intros I. unfold take_idx. rewrite map_map. apply map_ext_in. intros x Hx. apply nth_index_of. apply I. exact Hx.
Qed.

Lemma sum_map2 (f g : X -> nat) (c : list X) :
  sumQ (map2 Qmult (map gq (map f c)) (map gq (map g c))) == qn (list_sum (map (fun x => (f x * g x)%nat) c)).
Proof.
  induction c as [|x c IH]; simpl; [reflexivity|]. rewrite IH, qn_plus, qn_mult. reflexivity.
Qed.

Theorem gen_pc_two_counts (l1 l2 : list X) :
  gen_pc_two eqd uniq l1 l2 == qn (pc2_num eqd l1 l2) / qn (pc2_den l1 l2).
Proof.
  unfold gen_pc_two, np_unique_counts, np_intersect1d. cbv beta iota zeta.
  set (common := filter (fun x => if in_dec eqd x (uniq l2) then true else false) (uniq l1)).
  assert (I1 : incl common (uniq l1)) by (intros x Hx; apply filter_In in Hx; tauto).
  assert (I2 : incl common (uniq l2)).
  { intros x Hx. apply filter_In in Hx. destruct Hx as [_ Hx]. destruct (in_dec eqd x (uniq l2)); [assumption|discriminate]. }
  replace (take_idx 0%nat (map (count_occ eqd l1) (uniq l1)) (map (fun x : X => index_of eqd x (uniq l1)) common))
    with (map (count_occ eqd l1) common) by (symmetry; apply take_idx_counts; exact I1).
  replace (take_idx 0%nat (map (count_occ eqd l2) (uniq l2)) (map (fun x : X => index_of eqd x (uniq l2)) common))
    with (map (count_occ eqd l2) common) by (symmetry; apply take_idx_counts; exact I2).
  rewrite sum_map2. change gq with qn. unfold pc2_den. rewrite qn_mult.
  assert (E : list_sum (map (fun x => (count_occ eqd l1 x * count_occ eqd l2 x)%nat) common) = pc2_num eqd l1 l2).
  { unfold common, pc2_num.
    rewrite list_sum_map_filter.
    - rewrite list_sum_map_filter.
      + apply sum_uniq.
      + intros x _ Hx. destruct (in_dec eqd x l2) as [Hin|Hnin]; [discriminate|].
        apply (count_occ_not_In eqd) in Hnin. rewrite Hnin. lia.
    - intros x _ Hx. destruct (in_dec eqd x (uniq l2)) as [Hin|Hnin]; [discriminate|].
      assert (~ In x l2) as Hn by (intros H; apply Hnin; apply (proj2 (U l2)); exact H).
      apply (count_occ_not_In eqd) in Hn. rewrite Hn. lia. }
  rewrite E. reflexivity.
Qed.
End G.

(* the hypothesis on `uniq` is met: by the model's own first-occurrence order, and by any sorted order *)
Lemma nodup_uniq_ok {X : Type} (eqd : forall a b : X, {a = b} + {a <> b}) : uniq_ok (nodup eqd).
Proof. intros l. split; [apply NoDup_nodup|]. intros x. apply nodup_In. Qed.
