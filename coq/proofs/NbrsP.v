(* Exactness and duplicate-freeness of the one-edit neighbourhood generators of
   model/Nbrs.v, of the breadth-first ball, and of the derived set utilities.
   No axioms. *)
From Coq Require Import List NArith Bool Arith Lia Permutation.
From PV Require Import lib.Edits lib.Str model.Nbrs.
Import ListNotations.

(* ------------------------------------------------------------------ *)
(* generic list helpers                                                *)
(* ------------------------------------------------------------------ *)

Lemma NoDup_app_intro {X} (l1 l2 : list X) :
  NoDup l1 -> NoDup l2 -> (forall z, In z l1 -> In z l2 -> False) -> NoDup (l1 ++ l2).
Proof.
  induction l1 as [|a l1 IH]; simpl; intros H1 H2 HD; auto.
  inversion H1 as [|a' l' Hna Hnd]; subst.
  constructor.
  - rewrite in_app_iff. intros [Hin|Hin]; [contradiction|]. eapply HD; eauto.
  - apply IH; auto. intros z Hz1 Hz2. eapply HD; eauto.
Qed.

Lemma NoDup_app_l {X} (l1 l2 : list X) : NoDup (l1 ++ l2) -> NoDup l1.
Proof.
  induction l1 as [|a l1 IH]; simpl; intros H; [constructor|].
  inversion H as [|a' l' Hna Hnd]; subst. constructor; auto.
  intros Hin. apply Hna. apply in_or_app; auto.
Qed.

Lemma NoDup_app_r {X} (l1 l2 : list X) : NoDup (l1 ++ l2) -> NoDup l2.
Proof.
  induction l1 as [|a l1 IH]; simpl; intros H; auto.
  inversion H; subst; auto.
Qed.

Lemma NoDup_app_disj {X} (l1 l2 : list X) z : NoDup (l1 ++ l2) -> In z l1 -> In z l2 -> False.
Proof.
  induction l1 as [|a l1 IH]; simpl; intros H H1 H2; [contradiction|].
  inversion H as [|a' l' Hna Hnd]; subst. destruct H1 as [->|H1].
  - apply Hna. apply in_or_app; auto.
  - apply IH; auto.
Qed.

Lemma NoDup_map_inj {X Y} (f : X -> Y) (l : list X) :
  (forall a b, In a l -> In b l -> f a = f b -> a = b) -> NoDup l -> NoDup (map f l).
Proof.
  induction l as [|a l IH]; simpl; intros Hinj H; [constructor|].
  inversion H as [|a' l' Hna Hnd]; subst. constructor.
  - rewrite in_map_iff. intros (b & Hb & Hin). apply Hna.
    assert (b = a) as -> by (apply Hinj; auto). assumption.
  - apply IH; auto.
Qed.

Lemma NoDup_flat_map {X Y} (f : X -> list Y) (l : list X) :
  NoDup l -> (forall i, In i l -> NoDup (f i)) ->
  (forall i j y, In i l -> In j l -> i <> j -> In y (f i) -> In y (f j) -> False) ->
  NoDup (flat_map f l).
Proof.
  induction l as [|a l IH]; simpl; intros Hnd Hf Hdisj; [constructor|].
  inversion Hnd as [|a' l' Hna Hnd']; subst.
  apply NoDup_app_intro.
  - apply Hf; auto.
  - apply IH; auto. intros i j y Hi Hj. apply Hdisj; auto.
  - intros z Hz1 Hz2. apply in_flat_map in Hz2 as (j & Hj & Hzj).
    apply (Hdisj a j z); auto. intros ->. contradiction.
Qed.

Lemma NoDup_remove_pres {X} (eqd : forall a b : X, {a = b} + {a <> b}) x (l : list X) :
  NoDup l -> NoDup (remove eqd x l).
Proof.
  induction l as [|a l IH]; simpl; intros H; [constructor|].
  inversion H as [|a' l' Hna Hnd]; subst.
  destruct (eqd x a) as [->|Hne]; auto.
  constructor; auto. intros Hin. apply in_remove in Hin as [Hin _]. contradiction.
Qed.

Lemma neqb_true (a c : N) : negb (N.eqb a c) = true <-> a <> c.
Proof.
  rewrite negb_true_iff. split.
  - intros H E. apply N.eqb_neq in H. contradiction.
  - intros H. apply N.eqb_neq. assumption.
Qed.

Lemma opt_is_true p c : opt_is p c = true <-> p = Some c.
Proof.
  destruct p as [d|]; simpl.
  - rewrite N.eqb_eq. split; [intros ->; reflexivity|intros H; injection H; auto].
  - split; discriminate.
Qed.

Lemma opt_is_false p c : opt_is p c = false <-> p <> Some c.
Proof.
  rewrite <- opt_is_true. destruct (opt_is p c); split; congruence.
Qed.

(* ------------------------------------------------------------------ *)
(* 1. soundness of the Levenshtein one-edit generator                  *)
(* ------------------------------------------------------------------ *)
Section LevNbrs.
Variable al : list N.
Local Notation P := (fun c : N => In c al).

Lemma dels1_sound x : forall prev y, In y (dels1 prev x) -> one_edit P x y.
Proof.
  induction x as [|c r IH]; intros prev y Hin; simpl in Hin; [contradiction|].
  apply in_app_or in Hin as [Hin|Hin].
  - destruct (opt_is prev c); simpl in Hin; [contradiction|].
    destruct Hin as [<-|[]]. apply O_del.
  - apply in_map_iff in Hin as (z & <- & Hz). apply O_there. eapply IH; eauto.
Qed.

Lemma subs1_sound x : forall y, In y (subs1 al x) -> one_edit P x y.
Proof.
  induction x as [|c r IH]; intros y Hin; simpl in Hin; [contradiction|].
  apply in_app_or in Hin as [Hin|Hin].
  - apply in_map_iff in Hin as (a & <- & Ha). apply filter_In in Ha as [Ha Hne].
    apply neqb_true in Hne. apply O_sub; auto.
  - apply in_map_iff in Hin as (z & <- & Hz). apply O_there. auto.
Qed.

Lemma ins1_sound x : forall prev y, In y (ins1 al prev x) -> one_edit P x y.
Proof.
  induction x as [|c r IH]; intros prev y Hin; simpl in Hin;
    apply in_app_or in Hin as [Hin|Hin].
  - apply in_map_iff in Hin as (a & <- & Ha). apply filter_In in Ha as [Ha _].
    apply O_ins; auto.
  - contradiction.
  - apply in_map_iff in Hin as (a & <- & Ha). apply filter_In in Ha as [Ha _].
    apply O_ins; auto.
  - apply in_map_iff in Hin as (z & <- & Hz). apply O_there. eapply IH; eauto.
Qed.

Theorem lev_nbrs_sound x y : In y (lev_nbrs al x) -> one_edit (fun c => In c al) x y.
Proof.
  unfold lev_nbrs. intros Hin.
  apply in_app_or in Hin as [Hin|Hin]; [eapply dels1_sound; eauto|].
  apply in_app_or in Hin as [Hin|Hin]; [apply subs1_sound; auto|].
  eapply ins1_sound; eauto.
Qed.

(* ------------------------------------------------------------------ *)
(* 2. completeness: the skip rules lose nothing                        *)
(* ------------------------------------------------------------------ *)

(* With an arbitrary previous letter [prev] the only one-edit results that
   the three loops may omit are "drop the head when it equals prev" and
   "insert prev in front" -- both are produced one position earlier. *)
Lemma complete_gen x y : one_edit P x y -> forall prev,
  In y (dels1 prev x) \/ In y (subs1 al x) \/ In y (ins1 al prev x) \/
  (exists p, prev = Some p /\ (x = p :: y \/ (y = p :: x /\ In p al))).
Proof.
  induction 1 as [c a b Hne Ha|a b Ha|c b|c b z Hbz IH]; intros prev.
  - (* substitution at the head *)
    right; left. simpl. apply in_or_app; left.
    apply in_map_iff. exists a; split; auto. apply filter_In; split; auto.
    apply neqb_true. auto.
  - (* insertion at the head *)
    destruct (opt_is prev a) eqn:E.
    + apply opt_is_true in E. right; right; right. exists a; split; auto.
    + right; right; left.
      assert (Hhead: In (a :: b) (map (fun a0 => a0 :: b) (filter (fun a0 => negb (opt_is prev a0)) al))).
      { apply in_map_iff. exists a; split; auto. apply filter_In; split; auto. rewrite E; reflexivity. }
      destruct b as [|d r]; simpl; apply in_or_app; left; exact Hhead.
  - (* deletion of the head *)
    destruct (opt_is prev c) eqn:E.
    + apply opt_is_true in E. right; right; right. exists c; split; auto.
    + left. simpl. rewrite E. simpl. left; reflexivity.
  - (* edit further right *)
    destruct (IH (Some c)) as [Hd|[Hs|[Hi|(p & Hp & Hex)]]].
    + left. simpl. apply in_or_app; right. apply in_map; auto.
    + right; left. simpl. apply in_or_app; right. apply in_map; auto.
    + right; right; left. simpl. apply in_or_app; right. apply in_map; auto.
    + injection Hp as <-. destruct Hex as [Hb|[Hz Hc]].
      * (* b = c :: z : same as deleting the head of c :: b *)
        subst b. destruct (opt_is prev c) eqn:E.
        -- apply opt_is_true in E. right; right; right. exists c; split; auto.
        -- left. simpl. rewrite E. simpl. left; reflexivity.
      * (* z = c :: b : same as inserting c in front of c :: b *)
        subst z. destruct (opt_is prev c) eqn:E.
        -- apply opt_is_true in E. right; right; right. exists c; split; auto.
        -- right; right; left. simpl. apply in_or_app; left.
           apply in_map_iff. exists c; split; auto. apply filter_In; split; auto.
           rewrite E; reflexivity.
Qed.

Theorem lev_nbrs_complete x y : one_edit (fun c => In c al) x y -> In y (lev_nbrs al x).
Proof.
  intros H. unfold lev_nbrs.
  destruct (complete_gen x y H None) as [Hd|[Hs|[Hi|(p & Hp & _)]]].
  - apply in_or_app; auto.
  - apply in_or_app; right; apply in_or_app; auto.
  - apply in_or_app; right; apply in_or_app; auto.
  - discriminate.
Qed.

(* ------------------------------------------------------------------ *)
(* 3. the generator yields no string twice                             *)
(* ------------------------------------------------------------------ *)

Lemma dels1_length x : forall prev y, In y (dels1 prev x) -> S (length y) = length x.
Proof.
  induction x as [|c r IH]; intros prev y Hin; simpl in Hin; [contradiction|].
  apply in_app_or in Hin as [Hin|Hin].
  - destruct (opt_is prev c); simpl in Hin; [contradiction|].
    destruct Hin as [<-|[]]. reflexivity.
  - apply in_map_iff in Hin as (z & <- & Hz). simpl. f_equal. eapply IH; eauto.
Qed.

Lemma subs1_length x : forall y, In y (subs1 al x) -> length y = length x.
Proof.
  induction x as [|c r IH]; intros y Hin; simpl in Hin; [contradiction|].
  apply in_app_or in Hin as [Hin|Hin].
  - apply in_map_iff in Hin as (a & <- & Ha). reflexivity.
  - apply in_map_iff in Hin as (z & <- & Hz). simpl. f_equal. auto.
Qed.

Lemma ins1_length x : forall prev y, In y (ins1 al prev x) -> length y = S (length x).
Proof.
  induction x as [|c r IH]; intros prev y Hin; simpl in Hin;
    apply in_app_or in Hin as [Hin|Hin].
  - apply in_map_iff in Hin as (a & <- & Ha). reflexivity.
  - contradiction.
  - apply in_map_iff in Hin as (a & <- & Ha). reflexivity.
  - apply in_map_iff in Hin as (z & <- & Hz). simpl. f_equal. eapply IH; eauto.
Qed.

(* side invariant for deletions: after a letter c, the string obtained by
   dropping a leading c is not produced again *)
Lemma dels1_not_drop z : forall c, ~ In z (dels1 (Some c) (c :: z)).
Proof.
  induction z as [|d z IH]; intros c Hin; simpl in Hin; rewrite N.eqb_refl in Hin; simpl in Hin.
  - contradiction.
  - apply in_map_iff in Hin as (w & Hw & Hin). injection Hw as -> ->.
    eapply IH. simpl. exact Hin.
Qed.

Lemma dels1_nodup x : forall prev, NoDup (dels1 prev x).
Proof.
  induction x as [|c r IH]; intros prev; simpl; [constructor|].
  apply NoDup_app_intro.
  - destruct (opt_is prev c); [constructor|]. constructor; [simpl; tauto|constructor].
  - apply NoDup_map_inj; auto. intros a b _ _ E. injection E; auto.
  - intros z Hz1 Hz2. destruct (opt_is prev c); simpl in Hz1; [contradiction|].
    destruct Hz1 as [<-|[]]. apply in_map_iff in Hz2 as (w & Hw & Hin). subst r.
    eapply dels1_not_drop; eauto.
Qed.

(* side invariant for insertions: after a letter c, "c inserted in front" is
   not produced again *)
Lemma ins1_not_dup r : forall c, ~ In (c :: r) (ins1 al (Some c) r).
Proof.
  induction r as [|d r IH]; intros c Hin; simpl in Hin;
    apply in_app_or in Hin as [Hin|Hin].
  - apply in_map_iff in Hin as (a & Ha & Hin). injection Ha as ->.
    apply filter_In in Hin as [_ Hf]. rewrite N.eqb_refl in Hf. discriminate.
  - contradiction.
  - apply in_map_iff in Hin as (a & Ha & Hin). injection Ha as ->.
    apply filter_In in Hin as [_ Hf]. rewrite N.eqb_refl in Hf. discriminate.
  - apply in_map_iff in Hin as (w & Hw & Hin). injection Hw as -> ->.
    eapply IH; eauto.
Qed.

Lemma ins1_nodup : NoDup al -> forall x prev, NoDup (ins1 al prev x).
Proof.
  intros Hal. induction x as [|c r IH]; intros prev; simpl.
  - rewrite app_nil_r. apply NoDup_map_inj.
    + intros a b _ _ E. injection E; auto.
    + apply NoDup_filter; auto.
  - apply NoDup_app_intro.
    + apply NoDup_map_inj.
      * intros a b _ _ E. injection E; auto.
      * apply NoDup_filter; auto.
    + apply NoDup_map_inj; auto. intros a b _ _ E. injection E; auto.
    + intros z Hz1 Hz2. apply in_map_iff in Hz1 as (a & <- & Ha).
      apply in_map_iff in Hz2 as (w & Hw & Hin). injection Hw as -> ->.
      eapply ins1_not_dup; eauto.
Qed.

Lemma subs1_nodup : NoDup al -> forall x, NoDup (subs1 al x).
Proof.
  intros Hal. induction x as [|c r IH]; simpl; [constructor|].
  apply NoDup_app_intro.
  - apply NoDup_map_inj.
    + intros a b _ _ E. injection E; auto.
    + apply NoDup_filter; auto.
  - apply NoDup_map_inj; auto. intros a b _ _ E. injection E; auto.
  - intros z Hz1 Hz2. apply in_map_iff in Hz1 as (a & <- & Ha).
    apply in_map_iff in Hz2 as (w & Hw & Hin). injection Hw as -> ->.
    apply filter_In in Ha as [_ Hf]. rewrite N.eqb_refl in Hf. discriminate.
Qed.

Theorem lev_nbrs_nodup x : NoDup al -> NoDup (lev_nbrs al x).
Proof.
  intros Hal. unfold lev_nbrs. apply NoDup_app_intro.
  - apply dels1_nodup.
  - apply NoDup_app_intro.
    + apply subs1_nodup; auto.
    + apply ins1_nodup; auto.
    + intros z Hz1 Hz2. apply subs1_length in Hz1. apply ins1_length in Hz2. lia.
  - intros z Hz1 Hz2. apply dels1_length in Hz1.
    apply in_app_or in Hz2 as [Hz2|Hz2].
    + apply subs1_length in Hz2. lia.
    + apply ins1_length in Hz2. lia.
Qed.

(* ------------------------------------------------------------------ *)
(* 4. one edit <-> Levenshtein distance exactly 1                      *)
(* ------------------------------------------------------------------ *)

Lemma one_edit_neq (x y : str) : one_edit P x y -> x <> y.
Proof.
  induction 1 as [c a b Hne Ha|a b Ha|c b|c b z Hbz IH]; intros E.
  - injection E as E. contradiction.
  - apply (f_equal (@length N)) in E. simpl in E. lia.
  - apply (f_equal (@length N)) in E. simpl in E. lia.
  - injection E as E. contradiction.
Qed.

Lemma path1_one_edit (x y : str) : path P 1 x y -> one_edit P x y.
Proof.
  intros H. inversion H as [|n a b c Hp Ho]; subst.
  inversion Hp; subst. assumption.
Qed.

Lemma over_Forall (y : str) : (forall c, In c y -> In c al) -> Forall P y.
Proof. intros H. apply Forall_forall. exact H. Qed.

Theorem one_edit_lev1 x y : (forall c, In c y -> In c al) ->
  (one_edit (fun c => In c al) x y <-> slev x y = 1).
Proof.
  intros Hy. unfold slev. split.
  - intros H.
    assert (Hle: lev N.eq_dec x y <= 1).
    { apply lev_le_iff. apply (path_within N.eq_dec P).
      eapply PS; [apply P0|exact H]. }
    assert (Hnz: lev N.eq_dec x y <> 0).
    { intros Hz. apply lev_zero_iff in Hz. revert Hz. apply one_edit_neq. exact H. }
    lia.
  - intros H1. destruct (lev_within N.eq_dec x y) as (i & d & s & E & Hids).
    rewrite H1 in Hids.
    assert (Hnz: i + d + s <> 0).
    { intros Hz. apply (edits_zero _ _ _ _ _ E) in Hz.
      apply (lev_zero_iff N.eq_dec) in Hz. lia. }
    assert (Hone: i + d + s = 1) by lia.
    pose proof (edits_path P _ _ _ _ _ E (over_Forall y Hy)) as Hp.
    rewrite Hone in Hp. apply path1_one_edit. exact Hp.
Qed.

Corollary lev_nbrs_exact x y : (forall c, In c y -> In c al) ->
  (In y (lev_nbrs al x) <-> slev x y = 1).
Proof.
  intros Hy. rewrite <- (one_edit_lev1 x y Hy). split.
  - apply lev_nbrs_sound.
  - apply lev_nbrs_complete.
Qed.

Corollary lev_nbrs_lev1 x y : In y (lev_nbrs al x) -> slev x y = 1.
Proof.
  intros Hin. apply lev_nbrs_sound in Hin.
  assert (Hle: lev N.eq_dec x y <= 1).
  { apply lev_le_iff. apply (path_within N.eq_dec P).
    eapply PS; [apply P0|exact Hin]. }
  assert (Hnz: lev N.eq_dec x y <> 0).
  { intros Hz. apply lev_zero_iff in Hz. revert Hz. apply one_edit_neq. exact Hin. }
  unfold slev. lia.
Qed.

End LevNbrs.

(* ------------------------------------------------------------------ *)
(* 5. Hamming neighbours                                               *)
(* ------------------------------------------------------------------ *)
Section Ham.
Variable al : list N.

Theorem ham_nbrs_exact x y :
  In y (ham_nbrs al x) <->
  (sham x y = Some 1 /\
   (forall i a b, nth_error x i = Some a -> nth_error y i = Some b -> a <> b -> In b al)).
Proof.
  unfold ham_nbrs, sham. revert y. induction x as [|c r IH]; intros y.
  - simpl. split; [tauto|]. intros [H _]. destruct y; discriminate.
  - destruct y as [|d z].
    + simpl. split.
      * intros Hin. apply in_app_or in Hin as [Hin|Hin];
          apply in_map_iff in Hin as (w & Hw & _); discriminate.
      * intros [H _]; discriminate.
    + split.
      * intros Hin. simpl in Hin. apply in_app_or in Hin as [Hin|Hin].
        -- apply in_map_iff in Hin as (a & Ha & Hin). injection Ha as E1 E2. subst a z.
           apply filter_In in Hin as [Hal Hne]. apply neqb_true in Hne.
           split.
           ++ simpl. rewrite ham_refl. destruct (N.eq_dec c d) as [E|_]; [congruence|reflexivity].
           ++ intros i a b Ha Hb Hab. destruct i as [|i]; simpl in Ha, Hb.
              ** injection Hb as <-. exact Hal.
              ** congruence.
        -- apply in_map_iff in Hin as (w & Hw & Hin). injection Hw as E1 E2. subst d w.
           apply IH in Hin as [Hs Hl]. split.
           ++ simpl. rewrite Hs. destruct (N.eq_dec c c); congruence.
           ++ intros i a b Ha Hb Hab. destruct i as [|i]; simpl in Ha, Hb.
              ** congruence.
              ** eapply Hl; eauto.
      * intros [Hs Hl]. simpl in Hs.
        destruct (ham N.eq_dec r z) as [n|] eqn:E; [|discriminate].
        simpl. apply in_or_app. destruct (N.eq_dec c d) as [<-|Hne].
        -- right. apply in_map. apply IH. split; [congruence|].
           intros i a b Ha Hb. apply (Hl (S i)); auto.
        -- left. injection Hs as Hn. assert (n = 0) by lia; subst n.
           apply ham_zero in E; subst z. apply in_map_iff. exists d; split; auto.
           apply filter_In; split.
           ++ apply (Hl 0 c d); auto.
           ++ apply neqb_true; auto.
Qed.

Theorem ham_nbrs_nodup x : NoDup al -> NoDup (ham_nbrs al x).
Proof. intros Hal. apply subs1_nodup; auto. Qed.

Lemma sub_at_spec i x y :
  In y (sub_at al i x) <->
  exists c a, nth_error x i = Some c /\ In a al /\ a <> c /\ y = firstn i x ++ a :: skipn (S i) x.
Proof.
  unfold sub_at. destruct (nth_error x i) as [c|] eqn:E.
  - rewrite in_map_iff. split.
    + intros (a & <- & Ha). apply filter_In in Ha as [Ha Hne]. apply neqb_true in Hne.
      exists c, a; auto.
    + intros (c' & a & Hc & Ha & Hne & ->). injection Hc as <-. exists a; split; auto.
      apply filter_In; split; auto. apply neqb_true; auto.
  - split; [intros []|]. intros (c & a & Hc & _); discriminate.
Qed.

Theorem ham_nbrs_pos_spec pos x y :
  In y (ham_nbrs_pos al pos x) <->
  exists i c a, In i pos /\ nth_error x i = Some c /\ In a al /\ a <> c /\
                y = firstn i x ++ a :: skipn (S i) x.
Proof.
  unfold ham_nbrs_pos. rewrite in_flat_map. split.
  - intros (i & Hi & Hin). apply sub_at_spec in Hin as (c & a & H). exists i, c, a; tauto.
  - intros (i & c & a & Hi & H). exists i; split; auto. apply sub_at_spec. exists c, a; auto.
Qed.

Lemma sub_at_0 c r :
  sub_at al 0 (c :: r) = map (fun a => a :: r) (filter (fun a => negb (N.eqb a c)) al).
Proof. reflexivity. Qed.

Lemma sub_at_S c r i : sub_at al (S i) (c :: r) = map (cons c) (sub_at al i r).
Proof.
  unfold sub_at. cbn [nth_error]. destruct (nth_error r i); [|reflexivity].
  rewrite map_map. reflexivity.
Qed.

Lemma flat_map_map_in {X Y Z} (f : Y -> list Z) (g : X -> Y) (l : list X) :
  flat_map f (map g l) = flat_map (fun a => f (g a)) l.
Proof. induction l as [|a l IH]; simpl; [reflexivity|]. rewrite IH. reflexivity. Qed.

Lemma flat_map_map_out {X Y Z} (f : Y -> Z) (g : X -> list Y) (l : list X) :
  flat_map (fun i => map f (g i)) l = map f (flat_map g l).
Proof. induction l as [|a l IH]; simpl; [reflexivity|]. rewrite map_app, IH. reflexivity. Qed.

Theorem ham_nbrs_pos_seq x : ham_nbrs_pos al (seq 0 (length x)) x = ham_nbrs al x.
Proof.
  unfold ham_nbrs_pos, ham_nbrs. induction x as [|c r IH]; [reflexivity|].
  change (seq 0 (length (c :: r))) with (0 :: seq 1 (length r)).
  cbn [flat_map subs1]. rewrite sub_at_0. f_equal.
  rewrite <- seq_shift, flat_map_map_in.
  rewrite (flat_map_ext (fun i => sub_at al (S i) (c :: r))
                        (fun i => map (cons c) (sub_at al i r)) (sub_at_S c r)).
  rewrite (flat_map_map_out (cons c) (fun i => sub_at al i r)). f_equal. exact IH.
Qed.

Corollary ham_nbrs_spec x y :
  In y (ham_nbrs al x) <->
  exists i c a, nth_error x i = Some c /\ In a al /\ a <> c /\
                y = firstn i x ++ a :: skipn (S i) x.
Proof.
  rewrite <- ham_nbrs_pos_seq, ham_nbrs_pos_spec. split.
  - intros (i & c & a & _ & H). exists i, c, a; auto.
  - intros (i & c & a & Hc & H). exists i, c, a; split; [|auto].
    apply in_seq. split; [lia|]. simpl. apply nth_error_Some. congruence.
Qed.

Lemma nth_error_upd_same (x : str) : forall i a, i < length x ->
  nth_error (firstn i x ++ a :: skipn (S i) x) i = Some a.
Proof.
  induction x as [|c x IH]; intros i a Hi; simpl in Hi; [lia|].
  destruct i as [|i]; simpl; [reflexivity|]. apply IH; lia.
Qed.

Lemma nth_error_upd_other (x : str) : forall j b i, j < length x -> i <> j ->
  nth_error (firstn j x ++ b :: skipn (S j) x) i = nth_error x i.
Proof.
  induction x as [|c x IH]; intros j b i Hj Hne; simpl in Hj; [lia|].
  destruct j as [|j]; destruct i as [|i]; simpl; try reflexivity.
  - exfalso; lia.
  - apply IH; lia.
Qed.

Lemma sub_at_nodup i x : NoDup al -> NoDup (sub_at al i x).
Proof.
  intros Hal. unfold sub_at. destruct (nth_error x i) as [c|]; [|constructor].
  apply NoDup_map_inj.
  - intros a b _ _ E. apply app_inv_head in E. injection E; auto.
  - apply NoDup_filter; auto.
Qed.

Theorem ham_nbrs_pos_nodup pos x : NoDup al -> NoDup pos -> NoDup (ham_nbrs_pos al pos x).
Proof.
  intros Hal Hpos. unfold ham_nbrs_pos. apply NoDup_flat_map; auto.
  - intros i _. apply sub_at_nodup; auto.
  - intros i j y _ _ Hij Hi Hj.
    apply sub_at_spec in Hi as (c & a & Hc & _ & Hne & Hy).
    apply sub_at_spec in Hj as (c' & a' & Hc' & _ & _ & Hy').
    assert (Hli: i < length x) by (apply nth_error_Some; congruence).
    assert (Hlj: j < length x) by (apply nth_error_Some; congruence).
    pose proof (nth_error_upd_same x i a Hli) as H1. rewrite <- Hy in H1.
    pose proof (nth_error_upd_other x j a' i Hlj Hij) as H2. rewrite <- Hy' in H2.
    congruence.
Qed.

End Ham.

(* ------------------------------------------------------------------ *)
(* 6. breadth-first ball                                               *)
(* ------------------------------------------------------------------ *)
Section Ball.
Variable nb : str -> list str.

Lemma add_all_In l : forall acc y, In y (add_all acc l) <-> In y acc \/ In y l.
Proof.
  unfold add_all. induction l as [|n l IH]; intros acc y; cbn [fold_left].
  - simpl. tauto.
  - rewrite IH. destruct (memb str_eq_dec n acc) eqn:E.
    + apply memb_In in E. simpl. split; [tauto|]. intros [H|[<-|H]]; auto.
    + rewrite in_app_iff. simpl. tauto.
Qed.

Lemma add_all_nodup l : forall acc, NoDup acc -> NoDup (add_all acc l).
Proof.
  unfold add_all. induction l as [|n l IH]; intros acc H; cbn [fold_left]; auto.
  apply IH. destruct (memb str_eq_dec n acc) eqn:E; auto.
  apply NoDup_app_intro; auto.
  - constructor; [simpl; tauto|constructor].
  - intros z Hz [<-|[]]. apply (memb_In str_eq_dec) in Hz. congruence.
Qed.

Lemma rounds_In ks : forall acc y,
  In y (fold_left (fun acc s => add_all acc (nb s)) ks acc) <->
  In y acc \/ exists s, In s ks /\ In y (nb s).
Proof.
  induction ks as [|k ks IH]; intros acc y; cbn [fold_left].
  - split; [tauto|]. intros [H|(s & [] & _)]; auto.
  - rewrite IH, add_all_In. split.
    + intros [[H|H]|(s & Hs & H)]; auto.
      * right; exists k; simpl; auto.
      * right; exists s; simpl; auto.
    + intros [H|(s & [<-|Hs] & H)]; auto. right; exists s; auto.
Qed.

Lemma rounds_nodup ks : forall acc, NoDup acc ->
  NoDup (fold_left (fun acc s => add_all acc (nb s)) ks acc).
Proof.
  induction ks as [|k ks IH]; intros acc H; cbn [fold_left]; auto.
  apply IH. apply add_all_nodup; auto.
Qed.

Lemma ball_round_In keys y :
  In y (ball_round nb keys) <-> In y keys \/ exists s, In s keys /\ In y (nb s).
Proof. unfold ball_round. apply rounds_In. Qed.

Lemma reach_0_inv x y : reach nb 0 x y -> y = x.
Proof. intros H. inversion H; auto. Qed.

Lemma reach_S_inv t x z : reach nb (S t) x z -> exists y, reach nb t x y /\ In z (nb y).
Proof. intros H. inversion H; subst. eauto. Qed.

Lemma reach_first a b : In b (nb a) -> forall t c, reach nb t b c -> reach nb (S t) a c.
Proof.
  intros Hin t c H. induction H as [b|t b y z Hr IH Hz].
  - econstructor; [constructor|auto].
  - econstructor; eauto.
Qed.

Lemma reach_1 x s : In s (nb x) <-> reach nb 1 x s.
Proof.
  split.
  - intros H. econstructor; [constructor|auto].
  - intros H. apply reach_S_inv in H as (y & Hr & Hin). apply reach_0_inv in Hr. subst y. auto.
Qed.

Theorem ball_spec k x y : In y (ball nb k x) <-> exists t, t <= k /\ reach nb t x y.
Proof.
  revert y. induction k as [|k IH]; intros y.
  - simpl. split.
    + intros [<-|[]]. exists 0; split; auto. constructor.
    + intros (t & Ht & Hr). assert (t = 0) by lia; subst t.
      apply reach_0_inv in Hr. auto.
  - cbn [ball]. rewrite ball_round_In. split.
    + intros [H|(s & Hs & H)].
      * apply IH in H as (t & Ht & Hr). exists t; split; auto.
      * apply IH in Hs as (t & Ht & Hr). exists (S t); split; [lia|]. econstructor; eauto.
    + intros (t & Ht & Hr). destruct (Nat.eq_dec t (S k)) as [->|Hne].
      * apply reach_S_inv in Hr as (s & Hr & Hin). right. exists s; split; auto.
        apply IH. exists k; auto.
      * left. apply IH. exists t; split; auto; lia.
Qed.

Theorem ball_nodup k x : NoDup (ball nb k x).
Proof.
  induction k as [|k IH]; cbn [ball].
  - constructor; [simpl; tauto|constructor].
  - unfold ball_round. apply rounds_nodup; auto.
Qed.

End Ball.

Lemma reach_lev_path al t x y :
  reach (lev_nbrs al) t x y -> path (fun c => In c al) t x y.
Proof.
  induction 1 as [x|t x y z Hr IH Hz]; [constructor|].
  econstructor; eauto. apply lev_nbrs_sound; auto.
Qed.

Lemma path_reach_lev al t x y :
  path (fun c => In c al) t x y -> reach (lev_nbrs al) t x y.
Proof.
  induction 1 as [x|t x y z Hp IH Ho]; [constructor|].
  econstructor; eauto. apply lev_nbrs_complete; auto.
Qed.

Lemma reach_lev_le al t x y : reach (lev_nbrs al) t x y -> slev x y <= t.
Proof.
  intros Hr. apply reach_lev_path in Hr. apply (path_within N.eq_dec) in Hr.
  unfold slev. apply lev_le_iff. exact Hr.
Qed.

(* a path of exactly lev x y one-edit steps, inserting only letters of al *)
Lemma lev_path al x y : (forall c, In c y -> In c al) ->
  path (fun c => In c al) (slev x y) x y.
Proof.
  intros Hy. unfold slev.
  destruct (lev_within N.eq_dec x y) as (i & d & s & E & Hids).
  assert (Hge: lev N.eq_dec x y <= i + d + s).
  { apply lev_le_iff. exists i, d, s; split; auto. }
  replace (lev N.eq_dec x y) with (i + d + s) by lia.
  apply edits_path; auto. apply over_Forall; auto.
Qed.

Theorem ball_lev al k x y : (forall c, In c y -> In c al) ->
  (In y (ball (lev_nbrs al) k x) <-> slev x y <= k).
Proof.
  intros Hy. rewrite ball_spec. split.
  - intros (t & Ht & Hr). apply reach_lev_le in Hr. lia.
  - intros Hle. exists (slev x y); split; auto.
    apply path_reach_lev. apply lev_path; auto.
Qed.

Lemma ham_triangle (x : str) : forall y z n m,
  sham x y = Some n -> sham y z = Some m -> exists p, sham x z = Some p /\ p <= n + m.
Proof.
  unfold sham. induction x as [|c x IH]; intros [|d y] [|e z] n m H1 H2;
    simpl in H1, H2; try discriminate.
  - exists 0; split; auto; lia.
  - destruct (ham N.eq_dec x y) as [n'|] eqn:E1; [|discriminate].
    destruct (ham N.eq_dec y z) as [m'|] eqn:E2; [|discriminate].
    destruct (IH y z n' m' E1 E2) as (p & Hp & Hle).
    simpl. rewrite Hp. injection H1 as <-. injection H2 as <-.
    eexists; split; [reflexivity|].
    destruct (N.eq_dec c d), (N.eq_dec d e), (N.eq_dec c e);
      try (exfalso; congruence); lia.
Qed.

Lemma reach_ham al t x y :
  reach (ham_nbrs al) t x y -> exists n, sham x y = Some n /\ n <= t.
Proof.
  induction 1 as [x|t x y z Hr (n & Hn & Hle) Hz].
  - exists 0; split; auto. apply ham_refl.
  - apply ham_nbrs_exact in Hz as [Hz _].
    destruct (ham_triangle x y z n 1 Hn Hz) as (p & Hp & Hple).
    exists p; split; auto; lia.
Qed.

Lemma reach_ham_cons al c t x y :
  reach (ham_nbrs al) t x y -> reach (ham_nbrs al) t (c :: x) (c :: y).
Proof.
  induction 1 as [x|t x y z Hr IH Hz]; [constructor|].
  econstructor; eauto. unfold ham_nbrs in *. simpl.
  apply in_or_app; right; apply in_map; auto.
Qed.

Lemma ham_reach al x : forall y n, sham x y = Some n -> (forall c, In c y -> In c al) ->
  reach (ham_nbrs al) n x y.
Proof.
  unfold sham. induction x as [|c x IH]; intros [|d y] n H Hy; simpl in H; try discriminate.
  - injection H as <-. constructor.
  - destruct (ham N.eq_dec x y) as [m|] eqn:E; [|discriminate]. injection H as <-.
    assert (Hr: reach (ham_nbrs al) m x y).
    { apply IH; auto. intros c' Hc'. apply Hy; simpl; auto. }
    destruct (N.eq_dec c d) as [->|Hne].
    + apply reach_ham_cons; auto.
    + apply (reach_first _ (c :: x) (d :: x)).
      * unfold ham_nbrs; simpl. apply in_or_app; left. apply in_map_iff.
        exists d; split; auto. apply filter_In; split.
        -- apply Hy; simpl; auto.
        -- apply neqb_true. congruence.
      * apply reach_ham_cons; auto.
Qed.

Theorem ball_ham al k x y : (forall c, In c y -> In c al) ->
  (In y (ball (ham_nbrs al) k x) <-> exists n, sham x y = Some n /\ n <= k).
Proof.
  intros Hy. rewrite ball_spec. split.
  - intros (t & Ht & Hr). apply reach_ham in Hr as (n & Hn & Hle). exists n; split; auto; lia.
  - intros (n & Hn & Hle). exists n; split; auto. apply ham_reach; auto.
Qed.

(* ------------------------------------------------------------------ *)
(* 7. next_nearest                                                     *)
(* ------------------------------------------------------------------ *)
Section NextNearest.
Variable nb : str -> list str.

Lemma nn_levels_spec x m : forall cur j,
  (forall s, In s cur <-> reach nb j x s) ->
  forall y, In y (nn_levels nb m cur) <-> exists t, j <= t < j + m /\ reach nb t x y.
Proof.
  induction m as [|m IH]; intros cur j Hcur y; cbn [nn_levels].
  - split; [intros []|]. intros (t & Ht & _). lia.
  - rewrite in_app_iff.
    assert (Hnext: forall s, In s (nodups (flat_map nb cur)) <-> reach nb (S j) x s).
    { intros s. unfold nodups. rewrite nodup_In, in_flat_map. split.
      - intros (s0 & Hs0 & Hs). apply Hcur in Hs0. econstructor; eauto.
      - intros Hr. apply reach_S_inv in Hr as (s0 & Hr & Hs). exists s0; split; auto.
        apply Hcur; auto. }
    rewrite (IH _ (S j) Hnext y). rewrite Hcur. split.
    + intros [H|(t & Ht & H)].
      * exists j; split; auto; lia.
      * exists t; split; auto; lia.
    + intros (t & Ht & H). destruct (Nat.eq_dec t j) as [->|Hne]; [left; auto|].
      right. exists t; split; auto; lia.
Qed.

Theorem next_nearest_spec m x y :
  In y (next_nearest nb m x) <-> y <> x /\ exists t, 1 <= t <= m /\ reach nb t x y.
Proof.
  unfold next_nearest.
  assert (Hlv: In y (nodups (nn_levels nb m (nb x))) <->
               exists t, 1 <= t <= m /\ reach nb t x y).
  { unfold nodups. rewrite nodup_In.
    rewrite (nn_levels_spec x m (nb x) 1 (reach_1 nb x)).
    split; intros (t & Ht & H); exists t; split; auto; lia. }
  split.
  - intros Hin. apply in_remove in Hin as [Hin Hne]. split; auto. apply Hlv; auto.
  - intros [Hne H]. apply in_in_remove; auto. apply Hlv; auto.
Qed.

Theorem next_nearest_nodup m x : NoDup (next_nearest nb m x).
Proof.
  unfold next_nearest. apply NoDup_remove_pres. unfold nodups. apply NoDup_nodup.
Qed.

End NextNearest.

Theorem next_nearest_lev al m x y : (forall c, In c y -> In c al) ->
  (In y (next_nearest (lev_nbrs al) m x) <-> 0 < slev x y <= m).
Proof.
  intros Hy. rewrite next_nearest_spec. split.
  - intros [Hne (t & Ht & Hr)]. apply reach_lev_le in Hr.
    assert (Hnz: slev x y <> 0).
    { unfold slev. intros Hz. apply lev_zero_iff in Hz. congruence. }
    lia.
  - intros [Hpos Hle]. split.
    + intros ->. unfold slev in Hpos. rewrite lev_refl in Hpos. lia.
    + exists (slev x y); split; [lia|]. apply path_reach_lev. apply lev_path; auto.
Qed.

(* ------------------------------------------------------------------ *)
(* 8. set utilities                                                    *)
(* ------------------------------------------------------------------ *)

Theorem isdist1_spec (nb : str -> list str) x ref :
  isdist1 nb x ref = true <-> exists y, In y (nb x) /\ In y ref.
Proof.
  unfold isdist1. rewrite existsb_exists.
  split; intros (y & H1 & H2); exists y; split; auto; apply (memb_In str_eq_dec); auto.
Qed.

Theorem neighbor_numbers_nth (nb : str -> list str) seqs ref i :
  nth_error (neighbor_numbers nb seqs ref) i =
  option_map (fun s => length (filter (fun y => memb str_eq_dec y ref) (nodups (nb s))))
             (nth_error seqs i).
Proof. unfold neighbor_numbers. apply nth_error_map. Qed.

(* the count is the number of reference members that are neighbours *)
Theorem neighbor_count_ref (nb : str -> list str) s ref : NoDup ref ->
  length (filter (fun y => memb str_eq_dec y ref) (nodups (nb s))) =
  length (filter (fun r => memb str_eq_dec r (nb s)) ref).
Proof.
  intros Href. apply Permutation_length. apply NoDup_Permutation.
  - apply NoDup_filter. unfold nodups. apply NoDup_nodup.
  - apply NoDup_filter. auto.
  - intros y. rewrite !filter_In. unfold nodups. rewrite nodup_In.
    rewrite !(memb_In str_eq_dec). tauto.
Qed.

Corollary neighbor_numbers_nth_ref (nb : str -> list str) seqs ref i : NoDup ref ->
  nth_error (neighbor_numbers nb seqs ref) i =
  option_map (fun s => length (filter (fun r => memb str_eq_dec r (nb s)) ref))
             (nth_error seqs i).
Proof.
  intros Href. rewrite neighbor_numbers_nth.
  destruct (nth_error seqs i) as [s|]; simpl; [|reflexivity].
  f_equal. apply neighbor_count_ref; auto.
Qed.

(* find_pairs: the local loop, named *)
Section FindPairs.
Variable nb : str -> list str.

Fixpoint fp_go (xs ref : list str) : list (str * str) :=
  match xs with
  | [] => []
  | x :: xs' => map (fun y => (x, y)) (filter (fun y => memb str_eq_dec y ref) (nodups (nb x)))
                ++ fp_go xs' (remove str_eq_dec x ref)
  end.

Lemma find_pairs_go seqs : find_pairs nb seqs = fp_go seqs seqs.
Proof. reflexivity. Qed.

Lemma fp_go_spec a b : forall xs ref,
  In (a, b) (fp_go xs ref) <->
  exists l1 l2, xs = l1 ++ a :: l2 /\ In b (nb a) /\ In b ref /\ ~ In b l1.
Proof.
  induction xs as [|x xs IH]; intros ref; cbn [fp_go].
  - split; [intros []|]. intros (l1 & l2 & E & _). destruct l1; discriminate.
  - rewrite in_app_iff, IH. split.
    + intros [Hin|(l1 & l2 & E & Hnb & Href & Hnl)].
      * apply in_map_iff in Hin as (y & Hy & Hin). injection Hy as E1 E2. subst x y.
        apply filter_In in Hin as [Hin Hm]. apply (memb_In str_eq_dec) in Hm.
        unfold nodups in Hin. apply nodup_In in Hin.
        exists [], xs. simpl. auto.
      * apply in_remove in Href as [Href Hne]. exists (x :: l1), l2. subst xs.
        split; [reflexivity|]. split; auto. split; auto.
        simpl. intros [H|H]; [congruence|auto].
    + intros (l1 & l2 & E & Hnb & Href & Hnl). destruct l1 as [|x' l1]; simpl in E.
      * injection E as E1 E2. subst x xs. left. apply in_map_iff. exists b; split; auto.
        apply filter_In; split.
        -- unfold nodups. apply nodup_In. auto.
        -- apply (memb_In str_eq_dec). auto.
      * injection E as E1 E2. subst x' xs. right. exists l1, l2. split; auto. split; auto.
        split.
        -- apply in_in_remove; auto. intros ->. apply Hnl. simpl; auto.
        -- intros H. apply Hnl. simpl; auto.
Qed.

Lemma fp_go_fst a b xs ref : In (a, b) (fp_go xs ref) -> In a xs.
Proof.
  intros H. apply fp_go_spec in H as (l1 & l2 & -> & _). apply in_or_app; simpl; auto.
Qed.

Lemma fp_go_nodup : forall xs ref, NoDup xs -> NoDup (fp_go xs ref).
Proof.
  induction xs as [|x xs IH]; intros ref Hnd; cbn [fp_go]; [constructor|].
  inversion Hnd as [|x' xs' Hnx Hnd']; subst.
  apply NoDup_app_intro.
  - apply NoDup_map_inj.
    + intros a b _ _ E. injection E; auto.
    + apply NoDup_filter. unfold nodups. apply NoDup_nodup.
  - apply IH; auto.
  - intros [a b] Hz1 Hz2. apply in_map_iff in Hz1 as (y & Hy & _). injection Hy as E1 E2. subst a b.
    apply fp_go_fst in Hz2. contradiction.
Qed.

(* "a occurs strictly before b in seqs" *)
Definition before (seqs : list str) (a b : str) : Prop :=
  exists l1 l2 l3, seqs = l1 ++ a :: l2 ++ b :: l3.

Lemma NoDup_split_unique {X} (a : X) : forall l1 r m1 r',
  NoDup (l1 ++ a :: r) -> l1 ++ a :: r = m1 ++ a :: r' -> l1 = m1 /\ r = r'.
Proof.
  induction l1 as [|c l1 IH]; intros r m1 r' Hnd E; destruct m1 as [|c' m1]; simpl in *.
  - injection E as E. auto.
  - injection E as E1 E2. subst c' r. inversion Hnd as [|a' l' Hna _]; subst.
    exfalso. apply Hna. apply in_or_app; simpl; auto.
  - injection E as E1 E2. subst c r'. inversion Hnd as [|a' l' Hna _]; subst.
    exfalso. apply Hna. apply in_or_app; simpl; auto.
  - injection E as E1 E2. subst c'. inversion Hnd as [|a' l' _ Hnd']; subst.
    destruct (IH r m1 r' Hnd' E2) as [-> ->]. auto.
Qed.

Lemma before_antisym seqs a b : NoDup seqs -> before seqs a b -> before seqs b a -> False.
Proof.
  intros Hnd (l1 & l2 & l3 & E1) (m1 & m2 & m3 & E2).
  assert (E: l1 ++ a :: (l2 ++ b :: l3) = (m1 ++ b :: m2) ++ a :: m3).
  { rewrite <- E1, E2, <- app_assoc. reflexivity. }
  rewrite E1 in Hnd. destruct (NoDup_split_unique a _ _ _ _ Hnd E) as [El _].
  apply (NoDup_app_disj _ _ b Hnd).
  - rewrite El. apply in_or_app; simpl; auto.
  - right. apply in_or_app; simpl; auto.
Qed.

Lemma before_total seqs a b : In a seqs -> In b seqs -> a <> b ->
  before seqs a b \/ before seqs b a.
Proof.
  intros Ha Hb Hne. apply in_split in Ha as (l1 & l2 & ->).
  apply in_app_or in Hb as [Hb|[Hb|Hb]].
  - right. apply in_split in Hb as (m1 & m2 & ->). exists m1, m2, l2.
    rewrite <- app_assoc. reflexivity.
  - congruence.
  - left. apply in_split in Hb as (m1 & m2 & ->). exists l1, m1, m2. reflexivity.
Qed.

(* symmetry of nb is not needed for this direction-aware characterisation *)
Theorem find_pairs_spec seqs a b :
  NoDup seqs -> (forall s, ~ In s (nb s)) ->
  (In (a, b) (find_pairs nb seqs) <->
   In a seqs /\ In b seqs /\ In b (nb a) /\ before seqs a b).
Proof.
  intros Hnd Hirr. rewrite find_pairs_go, fp_go_spec. split.
  - intros (l1 & l2 & E & Hnb & Href & Hnl).
    assert (Hne: b <> a) by (intros ->; eapply Hirr; eauto).
    split; [|split; [|split]]; auto.
    + rewrite E. apply in_or_app; simpl; auto.
    + rewrite E in Href. apply in_app_or in Href as [H|[H|H]].
      * contradiction.
      * congruence.
      * apply in_split in H as (m1 & m2 & ->). exists l1, m1, m2. exact E.
  - intros (_ & Hb & Hnb & (l1 & l2 & l3 & E)).
    exists l1, (l2 ++ b :: l3). split; auto. split; auto. split; auto.
    intros Hin. rewrite E in Hnd. apply (NoDup_app_disj _ _ b Hnd); auto.
    right. apply in_or_app; simpl; auto.
Qed.

Theorem find_pairs_nodup seqs : NoDup seqs -> NoDup (find_pairs nb seqs).
Proof. intros Hnd. rewrite find_pairs_go. apply fp_go_nodup; auto. Qed.

(* each unordered neighbouring pair of members is reported in exactly one
   orientation (and, by find_pairs_nodup, exactly once) *)
Theorem find_pairs_unordered seqs a b :
  NoDup seqs -> (forall u v, In v (nb u) -> In u (nb v)) -> (forall s, ~ In s (nb s)) ->
  In a seqs -> In b seqs -> In b (nb a) ->
  (In (a, b) (find_pairs nb seqs) /\ ~ In (b, a) (find_pairs nb seqs)) \/
  (In (b, a) (find_pairs nb seqs) /\ ~ In (a, b) (find_pairs nb seqs)).
Proof.
  intros Hnd Hsym Hirr Ha Hb Hnb.
  assert (Hne: a <> b) by (intros ->; eapply Hirr; eauto).
  destruct (before_total seqs a b Ha Hb Hne) as [Hab|Hba].
  - left. split.
    + apply find_pairs_spec; auto.
    + intros H. apply find_pairs_spec in H as (_ & _ & _ & Hba); auto.
      eapply before_antisym; eauto.
  - right. split.
    + apply find_pairs_spec; auto.
    + intros H. apply find_pairs_spec in H as (_ & _ & _ & Hab); auto.
      eapply before_antisym; eauto.
Qed.

End FindPairs.

Print Assumptions lev_nbrs_sound.
Print Assumptions lev_nbrs_complete.
Print Assumptions lev_nbrs_nodup.
Print Assumptions one_edit_lev1.
Print Assumptions lev_nbrs_exact.
Print Assumptions lev_nbrs_lev1.
Print Assumptions ham_nbrs_exact.
Print Assumptions ham_nbrs_spec.
Print Assumptions ham_nbrs_nodup.
Print Assumptions ham_nbrs_pos_seq.
Print Assumptions ham_nbrs_pos_nodup.
Print Assumptions ham_nbrs_pos_spec.
Print Assumptions ball_spec.
Print Assumptions ball_nodup.
Print Assumptions ball_lev.
Print Assumptions ball_ham.
Print Assumptions next_nearest_spec.
Print Assumptions next_nearest_nodup.
Print Assumptions next_nearest_lev.
Print Assumptions isdist1_spec.
Print Assumptions neighbor_numbers_nth.
Print Assumptions neighbor_count_ref.
Print Assumptions neighbor_numbers_nth_ref.
Print Assumptions find_pairs_spec.
Print Assumptions find_pairs_nodup.
Print Assumptions find_pairs_unordered.
