(* C12 (extension): the functions regenerated on every run from the SOURCE TEXT of pyrepseq/distance.py
   (gen/Gen_c12.v: index-based, firstn / skipn / nth / seq / flat_map) are EQUAL, for all inputs, to the hand-written
   structurally recursive models of model/Nbrs.v and model/Nndist.v (same strings, same order, same multiplicity).
   Lay-out: (1) list helpers, (2) canonical index forms of the four loop shapes and their equality with the models
   (independent of the generated text), (3) the bridge: the generated definitions are unfolded once and identified with the
   canonical forms (by conversion; a best-effort pointwise fallback tolerates harmless textual variation).  No axioms. *)
From Coq Require Import List NArith Bool Arith Lia.
From PV Require Import lib.Edits lib.Str model.Nbrs model.Nndist proofs.NbrsP proofs.NndistP gen.Gen_c12.
Import ListNotations.

(* ------------------------------------------------------------------ *)
(* 1. list helpers                                                     *)
(* ------------------------------------------------------------------ *)

Lemma seq_front lo n : seq lo (S n) = lo :: seq (S lo) n.
Proof. reflexivity. Qed.

Lemma seq_S_map lo n : seq (S lo) n = map S (seq lo n).
Proof. symmetry. apply seq_shift. Qed.

(* `flat_map f (seq 0 (S n))` unrolled at the front, the rest re-indexed from 0 *)
Lemma flat_map_seq_front {Y} (f : nat -> list Y) lo n :
  flat_map f (seq lo (S n)) = f lo ++ flat_map (fun i => f (S i)) (seq lo n).
Proof. rewrite seq_front. cbn [flat_map]. rewrite seq_S_map, flat_map_map_in. reflexivity. Qed.

Lemma firstn_S_cons {X} i (c : X) r : firstn (S i) (c :: r) = c :: firstn i r.
Proof. reflexivity. Qed.

Lemma skipn_S_cons {X} i (c : X) r : skipn (S i) (c :: r) = skipn i r.
Proof. reflexivity. Qed.

Lemma flat_map_ext_In {X Y} (f g : X -> list Y) (l : list X) :
  (forall a, In a l -> f a = g a) -> flat_map f l = flat_map g l.
Proof.
  induction l as [|a l IH]; intros H; [reflexivity|]. cbn [flat_map].
  rewrite (H a (or_introl eq_refl)), IH; [reflexivity|]. intros b Hb. apply H. right. exact Hb.
Qed.

(* `for a in l: if skip(a): continue; <body>`  =  the body over the letters that are not skipped *)
Lemma flat_map_skip {X Y} (skip : X -> bool) (F : X -> list Y) (l : list X) :
  flat_map (fun a => if skip a then [] else F a) l = flat_map F (filter (fun a => negb (skip a)) l).
Proof.
  induction l as [|a l IH]; [reflexivity|]. cbn [flat_map filter].
  destruct (skip a); cbn [negb flat_map]; rewrite IH; reflexivity.
Qed.

Lemma flat_map_single {X Y} (f : X -> Y) (l : list X) : flat_map (fun a => [f a]) l = map f l.
Proof. induction l as [|a l IH]; [reflexivity|]. cbn [flat_map map app]. rewrite IH. reflexivity. Qed.

Lemma flat_map_skip_single {X Y} (skip : X -> bool) (f : X -> Y) (l : list X) :
  flat_map (fun a => if skip a then [] else [f a]) l = map f (filter (fun a => negb (skip a)) l).
Proof. rewrite (flat_map_skip skip (fun a => [f a])). apply flat_map_single. Qed.

Lemma filter_ext_eq {X} (p q : X -> bool) (l : list X) : (forall a, p a = q a) -> filter p l = filter q l.
Proof. intros H. induction l as [|a l IH]; [reflexivity|]. cbn [filter]. rewrite H, IH. reflexivity. Qed.

(* ------------------------------------------------------------------ *)
(* 2. canonical index forms                                            *)
(* ------------------------------------------------------------------ *)

(* x[:i] + a + x[i+1:]  (Python's + associates to the left) *)
Definition upd (i : nat) (a : N) (s : str) : str := (firstn i s ++ [a]) ++ skipn (S i) s.

Lemma upd_0 a c r : upd 0 a (c :: r) = a :: r.
Proof. reflexivity. Qed.
Lemma upd_S i a c s : upd (S i) a (c :: s) = c :: upd i a s.
Proof. reflexivity. Qed.
Lemma upd_model i a s : upd i a s = firstn i s ++ a :: skipn (S i) s.
Proof. unfold upd. rewrite <- app_assoc. reflexivity. Qed.

Section Canon.
Variable al : list N.

(* ---- deletion loop:  for i in range(len(x)): if (i > 0) and (x[i] == x[i-1]): continue; yield x[:i] + x[i+1:] ---- *)
Definition del_skip (p : option N) (x : str) (i : nat) : bool :=
  match i with
  | 0 => opt_is p (nth 0 x 0%N)
  | S j => N.eqb (nth (S j) x 0%N) (nth j x 0%N)
  end.

Lemma del_loop_prev x : forall p,
  flat_map (fun i => if del_skip p x i then [] else [firstn i x ++ skipn (S i) x]) (seq 0 (length x)) = dels1 p x.
Proof.
  induction x as [|c r IH]; intros p; [reflexivity|].
  cbn [length]. rewrite flat_map_seq_front. cbn [dels1]. f_equal.
  rewrite <- (IH (Some c)), <- flat_map_map_out. apply flat_map_ext. intros i.
  assert (E : del_skip p (c :: r) (S i) = del_skip (Some c) r i).
  { destruct i as [|j]; cbn [del_skip nth opt_is]; [apply N.eqb_sym|reflexivity]. }
  rewrite E. destruct (del_skip (Some c) r i); reflexivity.
Qed.

Lemma del_loop x :
  flat_map (fun i => if Nat.ltb 0 i && N.eqb (nth i x 0%N) (nth (i - 1) x 0%N) then []
                     else [firstn i x ++ skipn (S i) x]) (seq 0 (length x)) = dels1 None x.
Proof.
  rewrite <- del_loop_prev. apply flat_map_ext. intros i.
  destruct i as [|j]; [reflexivity|]. cbn [del_skip Nat.ltb Nat.leb andb]. rewrite Nat.sub_1_r. reflexivity.
Qed.

(* ---- insertion loop:  for i in range(len(x)+1): for aa in alphabet: if (i > 0) and (aa == x[i-1]): continue;
        yield x[:i] + aa + x[i:] ---- *)
Definition ins_skip (p : option N) (x : str) (i : nat) (a : N) : bool :=
  match i with
  | 0 => opt_is p a
  | S j => N.eqb a (nth j x 0%N)
  end.

Lemma ins_loop_prev x : forall p,
  flat_map (fun i => flat_map (fun a => if ins_skip p x i a then [] else [(firstn i x ++ [a]) ++ skipn i x]) al)
           (seq 0 (S (length x))) = ins1 al p x.
Proof.
  induction x as [|c r IH]; intros p.
  - cbn [length seq flat_map ins1 ins_skip]. rewrite app_nil_r, app_nil_r.
    apply (flat_map_skip_single (opt_is p) (fun a => [a])).
  - cbn [length]. rewrite flat_map_seq_front. cbn [ins1]. f_equal.
    + cbn [ins_skip]. apply (flat_map_skip_single (opt_is p) (fun a => a :: c :: r)).
    + rewrite <- (IH (Some c)), <- flat_map_map_out. apply flat_map_ext. intros i.
      rewrite <- flat_map_map_out. apply flat_map_ext. intros a.
      assert (E : ins_skip p (c :: r) (S i) a = ins_skip (Some c) r i a).
      { destruct i as [|j]; cbn [ins_skip nth opt_is]; [apply N.eqb_sym|reflexivity]. }
      rewrite E. destruct (ins_skip (Some c) r i a); reflexivity.
Qed.

Lemma ins_loop x :
  flat_map (fun i => flat_map (fun a => if Nat.ltb 0 i && N.eqb a (nth (i - 1) x 0%N) then []
                                       else [(firstn i x ++ [a]) ++ skipn i x]) al)
           (seq 0 (S (length x))) = ins1 al None x.
Proof.
  rewrite <- ins_loop_prev. apply flat_map_ext. intros i. apply flat_map_ext. intros a.
  destruct i as [|j]; [reflexivity|]. cbn [ins_skip Nat.ltb Nat.leb andb]. rewrite Nat.sub_1_r. reflexivity.
Qed.

(* ---- substitution loops, any nesting depth k:
        for i in range(lo, lo+n): for a in alphabet: if a == x[i]: continue
            s' = s[:i] + a + s[i+1:];  <depth k-1 from i+1 to len(x) on s'>
      the comparisons read the ORIGINAL string x, the substitutions act on the current string s ---- *)
Fixpoint subs_idx (k : nat) (s x : str) (lo n : nat) : list str :=
  match k with
  | 0 => [s]
  | S k' => flat_map (fun i => flat_map (fun a => if N.eqb a (nth i x 0%N) then []
                                                  else subs_idx k' (upd i a s) x (S i) (length x - S i)) al) (seq lo n)
  end.

(* shifting: the same loops one position further on strings with one more letter in front *)
Lemma subs_idx_shift k : forall c d s x lo n,
  subs_idx k (c :: s) (d :: x) (S lo) n = map (cons c) (subs_idx k s x lo n).
Proof.
  induction k as [|k IH]; intros c d s x lo n; [reflexivity|].
  cbn [subs_idx]. rewrite seq_S_map, flat_map_map_in, <- flat_map_map_out. apply flat_map_ext. intros i.
  rewrite <- flat_map_map_out. apply flat_map_ext. intros a. cbn [nth].
  destruct (N.eqb a (nth i x 0%N)); [reflexivity|].
  rewrite upd_S. cbn [length Nat.sub]. apply IH.
Qed.

Theorem subs_idx_subsk x : forall k, subs_idx k x x 0 (length x) = subsk al k x.
Proof.
  induction x as [|c r IH]; intros k.
  - destruct k; reflexivity.
  - destruct k as [|k].
    + rewrite subsk_0. reflexivity.
    + cbn [subs_idx length]. rewrite flat_map_seq_front. cbn [subsk]. f_equal.
      * cbn [nth]. unfold other_letters.
        rewrite (flat_map_skip (fun a => N.eqb a c)). apply flat_map_ext. intros a.
        rewrite upd_0. cbn [length Nat.sub]. rewrite Nat.sub_0_r.
        rewrite subs_idx_shift, IH. reflexivity.
      * rewrite <- (IH (S k)). cbn [subs_idx].
        rewrite <- flat_map_map_out. apply flat_map_ext. intros i.
        rewrite <- flat_map_map_out. apply flat_map_ext. intros a. cbn [nth].
        destruct (N.eqb a (nth i r 0%N)); [reflexivity|].
        rewrite upd_S. cbn [length Nat.sub]. apply subs_idx_shift.
Qed.

Corollary subs_idx_1 x : subs_idx 1 x x 0 (length x) = subs1 al x.
Proof. rewrite subs_idx_subsk. symmetry. apply subs1_subsk. Qed.
Corollary subs_idx_2 x : subs_idx 2 x x 0 (length x) = subs2 al x.
Proof. rewrite subs_idx_subsk. symmetry. apply subs2_subsk. Qed.
Corollary subs_idx_3 x : subs_idx 3 x x 0 (length x) = subs3 al x.
Proof. rewrite subs_idx_subsk. symmetry. apply subs3_subsk. Qed.

(* ---- one permitted position (hamming_neighbors): inside the string the loop over the alphabet is sub_at,
        outside the guard yields nothing, as sub_at does ---- *)
Lemma sub_at_idx i x :
  (if Nat.ltb i (length x) then flat_map (fun a => if N.eqb a (nth i x 0%N) then [] else [upd i a x]) al else [])
  = sub_at al i x.
Proof.
  unfold sub_at. destruct (Nat.ltb i (length x)) eqn:E.
  - apply Nat.ltb_lt in E. rewrite (nth_error_nth' x 0%N E).
    rewrite (flat_map_skip_single (fun a => N.eqb a (nth i x 0%N)) (fun a => upd i a x)).
    apply map_ext. intros a. apply upd_model.
  - apply Nat.ltb_ge in E. apply nth_error_None in E. rewrite E. reflexivity.
Qed.

Lemma ham_loop pos x :
  flat_map (fun i => if Nat.ltb i (length x)
                     then flat_map (fun a => if N.eqb a (nth i x 0%N) then [] else [upd i a x]) al else []) pos
  = ham_nbrs_pos al pos x.
Proof. unfold ham_nbrs_pos. apply flat_map_ext. intros i. apply sub_at_idx. Qed.

End Canon.

(* ------------------------------------------------------------------ *)
(* 3. the bridge to the generated text                                 *)
(* ------------------------------------------------------------------ *)

(* Booleans of the generated conditions as propositions (used only by the fallback) *)
Ltac bool_props :=
  repeat match goal with
  | H : _ && _ = true |- _ => apply andb_true_iff in H; destruct H
  | H : _ && _ = false |- _ => apply andb_false_iff in H; destruct H
  | H : _ || _ = true |- _ => apply orb_true_iff in H; destruct H
  | H : _ || _ = false |- _ => apply orb_false_iff in H; destruct H
  | H : negb _ = true |- _ => apply negb_true_iff in H
  | H : negb _ = false |- _ => apply negb_false_iff in H
  | H : N.eqb _ _ = true |- _ => apply N.eqb_eq in H
  | H : N.eqb _ _ = false |- _ => apply N.eqb_neq in H
  | H : Nat.eqb _ _ = true |- _ => apply Nat.eqb_eq in H
  | H : Nat.eqb _ _ = false |- _ => apply Nat.eqb_neq in H
  | H : Nat.ltb _ _ = true |- _ => apply Nat.ltb_lt in H
  | H : Nat.ltb _ _ = false |- _ => apply Nat.ltb_ge in H
  | H : Nat.leb _ _ = true |- _ => apply Nat.leb_le in H
  | H : Nat.leb _ _ = false |- _ => apply Nat.leb_gt in H
  end.
Ltac absurd_bools := exfalso; bool_props; solve [lia | congruence | (subst; congruence)].

(* Best-effort pointwise comparison of two loop nests of the same shape: same iteration lists, conditions equal as
   booleans (whatever their syntax), emitted strings equal up to associativity of ++.  It can only prove true goals. *)
Ltac pointwise :=
  cbv beta iota zeta delta [subs_idx upd];
  repeat first
    [ reflexivity
    | match goal with
      | |- flat_map _ ?l = flat_map _ ?l => apply flat_map_ext_In; intros ? ?
      | |- (if ?c then _ else _) = (if ?d then _ else _) =>
          destruct c eqn:?; destruct d eqn:?; [ | absurd_bools | absurd_bools | ]
      | |- _ ++ _ = _ ++ _ => first [ solve [rewrite <- ?app_assoc; cbn [app]; reflexivity] | f_equal ]
      | |- [_] = [_] => f_equal
      | |- _ :: _ = _ :: _ => f_equal
      end ].

(* the generated term is the canonical form: by conversion (renaming, let-inlining, [a] ++ l vs a :: l are invisible),
   otherwise by the pointwise fallback *)
Ltac bridge lemma :=
  first [ exact lemma
        | let T := type of lemma in
          match T with ?L = _ => transitivity L; [ timeout 60 (solve [pointwise]) | exact lemma ] end ].

Section Bridge.
Variable al : list N.

(* ---- levenshtein_neighbors ---- *)
Theorem gen_levenshtein_neighbors_eq x : gen_levenshtein_neighbors al x = lev_nbrs al x.
Proof.
  unfold gen_levenshtein_neighbors, lev_nbrs.
  rewrite <- (del_loop x), <- (subs_idx_1 al x), <- (ins_loop al x).
  first [ reflexivity | timeout 60 (solve [pointwise]) ].
Qed.

(* ---- hamming_neighbors ---- *)
Theorem gen_hamming_neighbors_eq pos x : gen_hamming_neighbors al pos x = ham_nbrs_pos al pos x.
Proof. unfold gen_hamming_neighbors. bridge (ham_loop al pos x). Qed.

(* variable_positions=None: LIST equality with the all-positions model subs1 *)
Theorem gen_hamming_neighbors_default_eq x : gen_hamming_neighbors_default al x = ham_nbrs al x.
Proof.
  unfold gen_hamming_neighbors_default. rewrite gen_hamming_neighbors_eq.
  unfold gen_hamming_neighbors_default_positions.
  first [ exact (ham_nbrs_pos_seq al x)
        | rewrite <- (ham_nbrs_pos_seq al x); f_equal; rewrite ?Nat.sub_0_r; reflexivity ].
Qed.

(* ---- _isdist2_hamming / _isdist3_hamming ---- *)
Theorem gen_isdist2_candidates_eq x : gen_isdist2_candidates al x = subs2 al x.
Proof. unfold gen_isdist2_candidates. bridge (subs_idx_2 al x). Qed.

Theorem gen_isdist3_candidates_eq x : gen_isdist3_candidates al x = subs3 al x.
Proof. unfold gen_isdist3_candidates. bridge (subs_idx_3 al x). Qed.

Theorem gen_isdist2_eq x ref : gen_isdist2 al x ref = isdist2_ham al x ref.
Proof. unfold gen_isdist2, isdist2_ham. rewrite gen_isdist2_candidates_eq. reflexivity. Qed.

Theorem gen_isdist3_eq x ref : gen_isdist3 al x ref = isdist3_ham al x ref.
Proof. unfold gen_isdist3, isdist3_ham. rewrite gen_isdist3_candidates_eq. reflexivity. Qed.

End Bridge.

(* the statements of props/C12g.v *)
Theorem gen_hamming_neighbors_both (al : str) (pos : list nat) (x : str) :
  gen_hamming_neighbors al pos x = ham_nbrs_pos al pos x /\
  gen_hamming_neighbors_default al x = ham_nbrs al x.
Proof. split; [apply gen_hamming_neighbors_eq|apply gen_hamming_neighbors_default_eq]. Qed.

Theorem gen_isdist2_both (al x : str) (ref : list str) :
  gen_isdist2_candidates al x = subs2 al x /\ gen_isdist2 al x ref = isdist2_ham al x ref.
Proof. split; [apply gen_isdist2_candidates_eq|apply gen_isdist2_eq]. Qed.

Theorem gen_isdist3_both (al x : str) (ref : list str) :
  gen_isdist3_candidates al x = subs3 al x /\ gen_isdist3 al x ref = isdist3_ham al x ref.
Proof. split; [apply gen_isdist3_candidates_eq|apply gen_isdist3_eq]. Qed.
