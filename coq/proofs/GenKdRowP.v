(* C11 / C14 source tie: the kdtree worker for custom distances, nn._cal_custom_dist, as written (gen/Gen_c11b.v, regenerated on every run). *)
From Coq Require Import List Arith Bool Lia Permutation Sorting.Sorted.
From PV Require Import lib.Str lib.PySorted gen.Gen_c11b.
Import ListNotations.

Section SortFacts.
Context {T K : Type}.
Variable le : K -> K -> bool.
Variable key : T -> K.
Hypothesis le_total : forall a b, le a b = true \/ le b a = true.
Hypothesis le_trans : forall a b c, le a b = true -> le b c = true -> le a c = true.

Lemma py_insert_perm x l : Permutation (py_insert le key x l) (x :: l).
Proof.
  induction l as [|y r IH]; cbn [py_insert]; [reflexivity|].
  destruct (le (key x) (key y)); [reflexivity|]. rewrite IH. apply perm_swap.
Qed.

Lemma py_sorted_perm l : Permutation (py_sorted le key l) l.
Proof. induction l as [|x r IH]; cbn [py_sorted]; [reflexivity|]. rewrite py_insert_perm. now constructor. Qed.

Definition key_le (a b : T) : Prop := le (key a) (key b) = true.

Lemma py_insert_sorted x l : StronglySorted key_le l -> StronglySorted key_le (py_insert le key x l).
Proof.
  induction 1 as [|y r Hs IH Hall]; cbn [py_insert]; [repeat constructor|].
  destruct (le (key x) (key y)) eqn:E.
  - constructor; [now constructor|]. constructor; [exact E|].
    rewrite Forall_forall in *. intros z Hz. unfold key_le in *. eapply le_trans; [exact E|apply Hall, Hz].
  - constructor; [exact IH|]. rewrite Forall_forall in *. intros z Hz.
    apply (Permutation_in _ (py_insert_perm x r)) in Hz. destruct Hz as [<-|Hz]; [|apply Hall, Hz].
    unfold key_le. destruct (le_total (key x) (key y)) as [H|H]; [congruence|exact H].
Qed.

Lemma py_sorted_sorted l : StronglySorted key_le (py_sorted le key l).
Proof. induction l as [|x r IH]; cbn [py_sorted]; [constructor|]. apply py_insert_sorted, IH. Qed.
End SortFacts.

Section Row.
Context {D : Type}.
Variable leD : D -> D -> bool.
Variable dist : str -> str -> D.
Variable lev : str -> str -> nat.
Hypothesis leD_total : forall a b, leD a b = true \/ leD b a = true.
Hypothesis leD_trans : forall a b c, leD a b = true -> leD b c = true -> leD a c = true.
Variables (seqs : list str) (k : nat) (maxc : D) (i : nat) (cands : list nat).

Definition in_radii (j : nat) (d : D) : Prop :=
  d = dist (nth i seqs []) (nth j seqs []) /\ leD d maxc = true /\ lev (nth i seqs []) (nth j seqs []) <= k.

(* the filter as written keeps a scored candidate iff it is inside both radii (whatever the spelling of the two comparisons) *)
Lemma gen_distance_filter_spec j :
  gen_distance_filter leD lev seqs k maxc (nth i seqs []) (i, j, dist (nth i seqs []) (nth j seqs [])) = true <->
  leD (dist (nth i seqs []) (nth j seqs [])) maxc = true /\ lev (nth i seqs []) (nth j seqs []) <= k.
Proof.
  unfold gen_distance_filter. cbn [fst snd]. cbv zeta.
  rewrite ?andb_true_iff, ?Nat.leb_le, ?Nat.ltb_lt, ?negb_true_iff.
  repeat match goal with |- context [Nat.leb ?a ?b = true] => rewrite (Nat.leb_le a b) end.
  tauto.
Qed.

(* without a limit: exactly the candidates other than the query inside both radii, each with its custom distance *)
Theorem gen_cal_custom_dist_spec t :
  In t (gen_cal_custom_dist leD dist lev seqs k None maxc i cands) <->
  exists j, t = (i, j, dist (nth i seqs []) (nth j seqs [])) /\ In j cands /\ j <> i /\ in_radii j (snd t).
Proof.
  unfold gen_cal_custom_dist. cbv zeta.
  match goal with |- In t (py_sorted ?le ?key ?l) <-> _ =>
    assert (P : In t (py_sorted le key l) <-> In t l)
      by (split; apply Permutation_in; [apply py_sorted_perm|symmetry; apply py_sorted_perm]); rewrite P; clear P end.
  rewrite filter_In, in_map_iff. split.
  - intros [(j & <- & Hj) Hf]. apply filter_In in Hj as [Hj Hne]. apply negb_true_iff, Nat.eqb_neq in Hne.
    apply gen_distance_filter_spec in Hf. exists j. cbn [snd]. unfold in_radii. tauto.
  - intros (j & -> & Hj & Hne & _ & H1 & H2). split.
    + exists j. split; [reflexivity|]. apply filter_In. split; [exact Hj|]. apply negb_true_iff, Nat.eqb_neq, Hne.
    + apply gen_distance_filter_spec. tauto.
Qed.

(* ... in ascending order of the custom distance *)
Theorem gen_cal_custom_dist_sorted :
  StronglySorted (fun a b : nat * nat * D => leD (snd a) (snd b) = true) (gen_cal_custom_dist leD dist lev seqs k None maxc i cands).
Proof. unfold gen_cal_custom_dist. cbv zeta. apply (py_sorted_sorted leD (fun x : nat * nat * D => snd x) leD_total leD_trans). Qed.

(* with a limit m: the first m of that list - min(m, number of neighbours) of them, all true neighbours, none farther than an omitted one *)
Theorem gen_cal_custom_dist_limit m :
  let all := gen_cal_custom_dist leD dist lev seqs k None maxc i cands in
  let out := gen_cal_custom_dist leD dist lev seqs k (Some m) maxc i cands in
  out = firstn m all /\ length out = Nat.min m (length all) /\
  (forall t, In t out -> In t all) /\
  (forall a b, In a out -> In b (skipn m all) -> leD (snd a) (snd b) = true).
Proof.
  intros all out. assert (E : out = firstn m all) by reflexivity. split; [exact E|]. split; [rewrite E; apply firstn_length|]. split.
  - intros t Ht. rewrite E in Ht. rewrite <- (firstn_skipn m all). apply in_or_app. now left.
  - intros a b Ha Hb. rewrite E in Ha. pose proof gen_cal_custom_dist_sorted as S. fold all in S.
    rewrite <- (firstn_skipn m all) in S. revert S Ha Hb. generalize (firstn m all) (skipn m all). intros l1 l2.
    induction l1 as [|x l1 IH]; intros S Ha Hb; [destruct Ha|]. cbn [app] in S. inversion S as [|? ? S' F]; subst.
    destruct Ha as [<-|Ha]; [|apply IH; assumption]. rewrite Forall_forall in F. apply F. apply in_or_app. now right.
Qed.
End Row.

(* ------------------------------------------------------------------ _cal_levenshtein (default and Hamming mode) *)
Lemma in_combine_seq0 {A} : forall (l : list A) s idx x, In (idx, x) (combine (seq s (length l)) l) <-> s <= idx /\ nth_error l (idx - s) = Some x.
Proof.
  induction l as [|a l IH]; intros s idx x; cbn [length seq combine].
  - split; [intros []|]. intros [_ H]. destruct (idx - s); discriminate.
  - cbn [In]. rewrite IH. split.
    + intros [E|[H1 H2]].
      * inversion E; subst. rewrite Nat.sub_diag. split; [lia|reflexivity].
      * split; [lia|]. replace (idx - s) with (S (idx - S s)) by lia. exact H2.
    + intros [H1 H2]. destruct (Nat.eq_dec idx s) as [->|N].
      * rewrite Nat.sub_diag in H2. cbn in H2. left. congruence.
      * right. split; [lia|]. replace (idx - s) with (S (idx - S s)) in H2 by lia. exact H2.
Qed.

Lemma fold_snoc_map {A B} (f : A -> B) : forall l acc, fold_left (fun ans r => ans ++ [f r]) l acc = acc ++ map f l.
Proof. induction l as [|a l IH]; intros acc; cbn [fold_left map]; [now rewrite app_nil_r|]. rewrite IH, <- app_assoc. reflexivity. Qed.

Lemma leb_total a b : Nat.leb a b = true \/ Nat.leb b a = true.
Proof. rewrite !Nat.leb_le. lia. Qed.
Lemma leb_trans a b c : Nat.leb a b = true -> Nat.leb b c = true -> Nat.leb a c = true.
Proof. rewrite !Nat.leb_le. lia. Qed.

Section RowLev.
Variables (hamming levenshtein : str -> str -> nat) (seqs : list str) (k : nat) (is_hamming : bool) (i : nat) (cands : list nat).
Let scorer := if is_hamming then hamming else levenshtein.

(* the entries extract keeps, before ordering: (choice, score, index) with the index a position of the choice list *)
Lemma rf_extract_in (choices : list str) (t : str * nat * nat) :
  In t (rf_extract scorer (nth i seqs []) choices k None) <->
  nth_error choices (snd t) = Some (fst (fst t)) /\ snd (fst t) = scorer (nth i seqs []) (fst (fst t)) /\ snd (fst t) <= k.
Proof.
  unfold rf_extract.
  match goal with |- In t (py_sorted ?le ?key ?l) <-> _ =>
    assert (P : In t (py_sorted le key l) <-> In t l)
      by (split; apply Permutation_in; [apply py_sorted_perm|symmetry; apply py_sorted_perm]); rewrite P; clear P end.
  rewrite filter_In, in_map_iff, Nat.leb_le. split.
  - intros [([idx c] & <- & Hin) Hk]. cbn [fst snd] in *. apply in_combine_seq0 in Hin as [_ Hn]. rewrite Nat.sub_0_r in Hn. tauto.
  - intros (H1 & H2 & H3). destruct t as [[c sc] idx]. cbn [fst snd] in *. split; [|exact H3].
    exists (idx, c). cbn [fst snd]. split; [now rewrite H2|]. apply in_combine_seq0. rewrite Nat.sub_0_r. split; [lia|exact H1].
Qed.

(* without max_returns: exactly the candidates other than the query whose (Levenshtein / Hamming) distance is at most max_edits *)
Theorem gen_cal_levenshtein_spec t :
  In t (gen_cal_levenshtein hamming levenshtein seqs k None is_hamming i cands) <->
  exists j, t = (i, j, scorer (nth i seqs []) (nth j seqs [])) /\ In j cands /\ j <> i /\ scorer (nth i seqs []) (nth j seqs []) <= k.
Proof.
  unfold gen_cal_levenshtein. fold scorer. cbv zeta. rewrite fold_snoc_map. cbn [app]. rewrite in_map_iff.
  set (choices := filter (fun y => negb (Nat.eqb y i)) cands).
  assert (C : forall j, In j choices <-> In j cands /\ j <> i).
  { intros j. unfold choices. rewrite filter_In, negb_true_iff, Nat.eqb_neq. tauto. }
  split.
  - intros (r & <- & Hr). apply rf_extract_in in Hr as (H1 & H2 & H3).
    rewrite nth_error_map in H1. destruct (nth_error choices (snd r)) as [j|] eqn:Ej; [|discriminate].
    cbn [option_map] in H1. injection H1 as H1. exists j.
    assert (Hn : nth (snd r) choices 0 = j) by (apply nth_error_nth; exact Ej).
    rewrite Hn, H1, <- H2. split; [reflexivity|]. apply nth_error_In in Ej. apply C in Ej. tauto.
  - intros (j & -> & Hj & Hne & Hk). assert (Hc : In j choices) by (apply C; tauto).
    apply In_nth_error in Hc as [idx Hidx].
    exists (nth j seqs [], scorer (nth i seqs []) (nth j seqs []), idx). cbn [fst snd]. split.
    + rewrite (nth_error_nth _ _ 0 Hidx). reflexivity.
    + apply rf_extract_in. cbn [fst snd]. rewrite nth_error_map, Hidx. cbn [option_map]. tauto.
Qed.

(* ascending by distance; with max_returns = m the first m of that list *)
Theorem gen_cal_levenshtein_limit m :
  let all := gen_cal_levenshtein hamming levenshtein seqs k None is_hamming i cands in
  let out := gen_cal_levenshtein hamming levenshtein seqs k (Some m) is_hamming i cands in
  out = firstn m all /\ StronglySorted (fun a b : nat * nat * nat => snd a <= snd b) all.
Proof.
  unfold gen_cal_levenshtein. fold scorer. cbv zeta. rewrite !fold_snoc_map. cbn [app]. unfold rf_extract. split.
  - rewrite firstn_map. reflexivity.
  - match goal with |- StronglySorted _ (map ?f (py_sorted ?le ?key ?l)) =>
      pose proof (py_sorted_sorted le key leb_total leb_trans l) as S; induction S as [|x r S IH F]; cbn [map]; constructor; [exact IH|] end.
    rewrite Forall_forall in *. intros y Hy. apply in_map_iff in Hy as (z & <- & Hz). cbn [snd]. specialize (F z Hz). unfold key_le in F.
    apply Nat.leb_le in F. exact F.
Qed.
End RowLev.
