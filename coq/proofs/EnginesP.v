(* Exactness of the kdtree and hash engines (model/Engines.v). No axioms. *)
From Coq Require Import List NArith ZArith QArith Bool Arith Lia Permutation.
From PV Require Import lib.Edits lib.LevDP lib.Str lib.Chunk model.Symdel model.Kdtree model.Nbrs model.Engines
                       proofs.SymdelP proofs.KdtreeP proofs.NbrsP.
Import ListNotations.
Close Scope Q_scope.
Open Scope nat_scope.

(* ---- sorting keeps the elements ---- *)
Section Sort.
Context {T : Type}.
Variable key : T -> nat.
Lemma insert_by_perm x l : Permutation (insert_by key x l) (x :: l).
Proof. induction l as [|y r IH]; simpl; auto. destruct (Nat.ltb (key y) (key x)); auto.
  rewrite IH. apply perm_swap. Qed.
Lemma sort_by_perm l : Permutation (sort_by key l) l.
Proof. induction l as [|x r IH]; simpl; auto. rewrite insert_by_perm. now constructor. Qed.
Lemma top_m_none l : Permutation (top_m key None l) l.
Proof. apply sort_by_perm. Qed.
Lemma firstn_In' {A} (x : A) n l : In x (firstn n l) -> In x l.
Proof. revert l; induction n as [|n IH]; intros [|y l]; simpl; try tauto. intros [->|H]; auto. Qed.
Lemma top_m_in limit x l : In x (top_m key limit l) -> In x l.
Proof. destruct limit as [m|]; simpl; intros H.
  - apply firstn_In' in H. eapply Permutation_in; [apply sort_by_perm|exact H].
  - eapply Permutation_in; [apply sort_by_perm|exact H]. Qed.
End Sort.

Lemma nth_map_in {A B} (f : A -> B) l i d d' : i < length l -> nth i (map f l) d' = f (nth i l d).
Proof. intros H. rewrite (nth_indep _ d' (f d)); [apply map_nth|now rewrite map_length]. Qed.

(* ---------- kdtree ---------- *)
Section KD.
Context {D : Type}.
Variable keep : str -> str -> option D.
Variable key : D -> nat.
Variable k : nat.
Hypothesis keep_within : forall a b d, keep a b = Some d -> within a b k.

Lemma in_ball_query comp seqs i j : i < length seqs ->
  (In j (ball_query (2 * Z.of_nat k * Z.of_nat k) (map (encode comp) seqs) i) <->
   j < length seqs /\ (sqdist (encode comp (sget seqs i)) (encode comp (sget seqs j)) <= 2 * Z.of_nat k * Z.of_nat k)%Z).
Proof.
  intros Hi. unfold ball_query. rewrite filter_In, in_seq, map_length, Z.leb_le. split.
  - intros [Hj H]. assert (j < length seqs) by lia. split; auto.
    unfold sget. rewrite (nth_map_in _ seqs i []), (nth_map_in _ seqs j []) in H; auto.
  - intros [Hj H]. split; [lia|]. unfold sget in H.
    rewrite (nth_map_in _ seqs i []), (nth_map_in _ seqs j []); auto.
Qed.

Definition kd_hits (seqs : list str) (i : nat) (cands : list nat) : list (nat * nat * D) :=
  flat_map (fun j => if Nat.eqb i j then [] else
                     match keep (sget seqs i) (sget seqs j) with Some d => [(i, j, d)] | None => [] end) cands.

Lemma in_kd_hits seqs i cands a b d : In (a, b, d) (kd_hits seqs i cands) <->
  a = i /\ In b cands /\ i <> b /\ keep (sget seqs i) (sget seqs b) = Some d.
Proof.
  unfold kd_hits. rewrite in_flat_map. split.
  - intros (j & Hj & H). destruct (Nat.eqb_spec i j); [contradiction|].
    destruct (keep _ _) eqn:K; simpl in H; [|contradiction]. destruct H as [[= <- <- <-]|[]]. auto.
  - intros (-> & Hb & Hne & K). exists b. split; auto. destruct (Nat.eqb_spec i b); [contradiction|].
    rewrite K. now left.
Qed.

Theorem kdtree_spec comp seqs i j d :
  In (i, j, d) (kdtree_model keep key k comp None seqs) <->
  i < length seqs /\ j < length seqs /\ i <> j /\ keep (sget seqs i) (sget seqs j) = Some d.
Proof.
  unfold kdtree_model. rewrite in_flat_map. split.
  - intros (i' & Hi' & H). apply in_seq in Hi'. unfold kd_row in H. apply top_m_in in H.
    fold (kd_hits seqs i' (ball_query (2 * Z.of_nat k * Z.of_nat k) (map (encode comp) seqs) i')) in H.
    apply in_kd_hits in H as (-> & Hb & Hne & K). apply in_ball_query in Hb as [Hb _]; [|lia].
    repeat split; auto; lia.
  - intros (Hi & Hj & Hne & K). exists i. split; [apply in_seq; lia|]. unfold kd_row.
    eapply Permutation_in; [apply Permutation_sym, top_m_none|].
    fold (kd_hits seqs i (ball_query (2 * Z.of_nat k * Z.of_nat k) (map (encode comp) seqs) i)).
    apply in_kd_hits. repeat split; auto. apply in_ball_query; auto. split; auto.
    apply prefilter. eapply keep_within; eauto.
Qed.

(* with a limit, every reported triplet is still a true neighbour with its exact value *)
Theorem kdtree_limit_sound comp limit seqs i j d :
  In (i, j, d) (kdtree_model keep key k comp limit seqs) ->
  i < length seqs /\ j < length seqs /\ i <> j /\ keep (sget seqs i) (sget seqs j) = Some d.
Proof.
  unfold kdtree_model. rewrite in_flat_map. intros (i' & Hi' & H). apply in_seq in Hi'. unfold kd_row in H. apply top_m_in in H.
  fold (kd_hits seqs i' (ball_query (2 * Z.of_nat k * Z.of_nat k) (map (encode comp) seqs) i')) in H.
  apply in_kd_hits in H as (-> & Hb & Hne & K). apply in_ball_query in Hb as [Hb _]; [|lia].
  repeat split; auto; lia.
Qed.

(* the result does not depend on the compression *)
Corollary kdtree_compression comp comp' seqs t :
  In t (kdtree_model keep key k comp None seqs) <-> In t (kdtree_model keep key k comp' None seqs).
Proof. destruct t as [[i j] d]. now rewrite !kdtree_spec. Qed.
End KD.

(* ---------- hash engine ---------- *)
Section Hash.
Context {D : Type}.
Variable valf : str -> str -> option D.
Variable nb : str -> list str.
Variable k : nat.
Variable inball : str -> str -> Prop.

Lemma in_positions_of refs s y : In y (positions_of refs s) <-> y < length refs /\ sget refs y = s.
Proof. unfold positions_of. rewrite filter_In, in_seq, str_eqb_eq. intuition lia. Qed.

Theorem lookupdb_spec pd refs queries x y d :
  (forall q e, In e refs -> (In e (ball nb k q) <-> inball q e)) ->
  (In (x, y, d) (lookupdb_lookup valf nb k pd refs queries) <->
   x < length queries /\ y < length refs /\ (pd = true -> x <> y) /\
   inball (sget queries x) (sget refs y) /\ valf (sget queries x) (sget refs y) = Some d).
Proof.
  intros Hball. unfold lookupdb_lookup. rewrite in_flat_map. split.
  - intros (x' & Hx' & H). apply in_seq in Hx'. apply in_flat_map in H as (e & He & H).
    apply in_flat_map in H as (y' & Hy' & H). apply in_positions_of in Hy' as [Hy' E].
    destruct (pd && Nat.eqb x' y') eqn:PD; [contradiction|].
    destruct (valf (sget queries x') e) eqn:V; simpl in H; [|contradiction].
    destruct H as [[= <- <- <-]|[]]. subst e.
    repeat split; auto; try lia.
    + intros ->. simpl in PD. apply Nat.eqb_neq in PD. exact PD.
    + apply Hball; auto. apply nth_In; auto.
  - intros (Hx & Hy & Hpd & Hin & V). exists x. split; [apply in_seq; lia|].
    apply in_flat_map. exists (sget refs y). split.
    + apply Hball; auto. apply nth_In; auto.
    + apply in_flat_map. exists y. split; [apply in_positions_of; auto|].
      destruct pd; simpl.
      * destruct (Nat.eqb_spec x y) as [E|_]; [exfalso; now apply Hpd|]. rewrite V. now left.
      * rewrite V. now left.
Qed.

Theorem lookupdb_nodup_pairs pd refs queries :
  NoDup (map fst (lookupdb_lookup valf nb k pd refs queries)).
Proof.
  unfold lookupdb_lookup. rewrite flat_map_concat_map, concat_map, map_map, <- flat_map_concat_map.
  apply NoDup_flat_map_disjoint.
  - apply seq_NoDup.
  - intros x _. rewrite flat_map_concat_map, concat_map, map_map, <- flat_map_concat_map.
    apply NoDup_flat_map_disjoint.
    + apply ball_nodup.
    + intros e _. rewrite flat_map_concat_map, concat_map, map_map, <- flat_map_concat_map.
      apply NoDup_flat_map_disjoint.
      * unfold positions_of. apply NoDup_filter. apply seq_NoDup.
      * intros y _. destruct (pd && Nat.eqb x y); simpl; [constructor|].
        destruct (valf _ _); simpl; repeat constructor; auto.
      * intros y y' b _ _ Hb Hb'.
        destruct (pd && Nat.eqb x y); simpl in Hb; [contradiction|].
        destruct (pd && Nat.eqb x y'); simpl in Hb'; [contradiction|].
        destruct (valf (sget queries x) e); simpl in Hb, Hb'; [|contradiction].
        destruct Hb as [<-|[]], Hb' as [E|[]]. congruence.
    + intros e e' b _ _ Hb Hb'.
      rewrite in_map_iff in Hb, Hb'. destruct Hb as (t & <- & Ht), Hb' as (t' & E & Ht').
      apply in_flat_map in Ht as (y & Hy & Ht), Ht' as (y' & Hy' & Ht').
      apply in_positions_of in Hy as [_ Ey], Hy' as [_ Ey'].
      destruct (pd && Nat.eqb x y); simpl in Ht; [contradiction|].
      destruct (pd && Nat.eqb x y'); simpl in Ht'; [contradiction|].
      destruct (valf (sget queries x) e); simpl in Ht; [|contradiction].
      destruct (valf (sget queries x) e'); simpl in Ht'; [|contradiction].
      destruct Ht as [<-|[]], Ht' as [<-|[]]. simpl in E. congruence.
  - intros x x' b _ _ Hb Hb'.
    rewrite in_map_iff in Hb, Hb'. destruct Hb as (t & <- & Ht), Hb' as (t' & E & Ht').
    apply in_flat_map in Ht as (e & _ & Ht), Ht' as (e' & _ & Ht').
    apply in_flat_map in Ht as (y & _ & Ht), Ht' as (y' & _ & Ht').
    destruct (pd && Nat.eqb x y); simpl in Ht; [contradiction|].
    destruct (pd && Nat.eqb x' y'); simpl in Ht'; [contradiction|].
    destruct (valf (sget queries x) e); simpl in Ht; [|contradiction].
    destruct (valf (sget queries x') e'); simpl in Ht'; [|contradiction].
    destruct Ht as [<-|[]], Ht' as [<-|[]]. simpl in E. congruence.
Qed.
End Hash.

(* the amino-acid alphabet is duplicate free *)
Lemma aa_letters_nodup : NoDup aa_letters.
Proof. repeat (constructor; [simpl; intuition discriminate|]). constructor. Qed.
Definition over_aa (s : str) : Prop := forall c, In c s -> In c aa_letters.
