(* Exactness of the symmetric-delete search (model/Symdel.v) for every pair filter
   whose accepted pairs lie within k edits.  No axioms. *)
From Coq Require Import List NArith QArith Bool Arith Lia Sorting.Sorted.
From PV Require Import lib.Edits lib.LevDP lib.Str model.Symdel.
Import ListNotations.
Close Scope Q_scope.
Open Scope nat_scope.

(* ---------- generic list facts ---------- *)
Lemma NoDup_app_intro {B} (l1 l2 : list B) :
  NoDup l1 -> NoDup l2 -> (forall x, In x l1 -> ~ In x l2) -> NoDup (l1 ++ l2).
Proof.
  induction 1 as [|b l1 Hb ND IH]; intros N2 Dis; simpl; auto.
  constructor.
  - rewrite in_app_iff. intros [H|H]; [contradiction|]. eapply Dis; eauto. now left.
  - apply IH; auto. intros x Hx. apply Dis. now right.
Qed.

Lemma NoDup_flat_map_disjoint {A B} (f : A -> list B) l :
  NoDup l -> (forall a, In a l -> NoDup (f a)) ->
  (forall a a' b, In a l -> In a' l -> In b (f a) -> In b (f a') -> a = a') ->
  NoDup (flat_map f l).
Proof.
  induction l as [|x l IH]; intros ND Hf Hd; simpl; [constructor|].
  inversion ND as [|? ? Hx ND']; subst.
  apply NoDup_app_intro.
  - apply Hf; now left.
  - apply IH; auto; intros; [apply Hf; now right | eapply Hd; eauto; now right].
  - intros b Hb Hin. apply in_flat_map in Hin as (a' & Ha' & Hb').
    assert (x = a') by (eapply Hd; eauto; [now left|now right]). subst. contradiction.
Qed.

Lemma NoDup_map_inj_in {A B} (f : A -> B) l :
  NoDup l -> (forall x y, In x l -> In y l -> f x = f y -> x = y) -> NoDup (map f l).
Proof.
  induction 1 as [|x l Hx ND IH]; intros Hinj; simpl; constructor.
  - rewrite in_map_iff. intros (y & Hy & Hin). assert (y = x) by (apply Hinj; auto; [now right|now left]).
    subst. contradiction.
  - apply IH. intros; apply Hinj; auto; now right.
Qed.

Lemma seq_sorted a n : StronglySorted lt (seq a n).
Proof. revert a; induction n as [|n IH]; intros a; simpl; constructor; auto.
  apply Forall_forall. intros x Hx. apply in_seq in Hx. lia. Qed.

Lemma filter_sorted (f : nat -> bool) l : StronglySorted lt l -> StronglySorted lt (filter f l).
Proof. induction 1 as [|x l S IH F]; simpl; [constructor|]. destruct (f x); auto. constructor; auto.
  rewrite Forall_forall in *. intros y Hy. apply filter_In in Hy as [Hy _]. auto. Qed.

Lemma combs2_spec l a b : StronglySorted lt l -> (In (a, b) (combs2 l) <-> In a l /\ In b l /\ a < b).
Proof.
  induction 1 as [|x l S IH F]; simpl; [tauto|].
  rewrite in_app_iff, in_map_iff, IH. rewrite Forall_forall in F. split.
  - intros [(y & [= <- <-] & Hy)|(Ha & Hb & Hlt)]; [|tauto]. repeat split; auto.
  - intros ([<-|Ha] & [<-|Hb] & Hlt); try lia.
    + left. exists b; auto.
    + specialize (F _ Ha). lia.
    + right; auto.
Qed.

(* ---------- the index ---------- *)
Lemma in_comb_gen k s c : In c (comb_gen k s) <-> exists n, n <= k /\ del n s c.
Proof. unfold comb_gen, nodups. rewrite nodup_In. apply dels_spec. Qed.

Lemma in_bucket k seqs c i : In i (bucket k seqs c) <-> i < length seqs /\ In c (comb_gen k (sget seqs i)).
Proof. unfold bucket. rewrite filter_In, in_seq, memb_In. intuition lia. Qed.

Lemma bucket_sorted k seqs c : StronglySorted lt (bucket k seqs c).
Proof. apply filter_sorted, seq_sorted. Qed.

Lemma sget_in seqs i : i < length seqs -> In (sget seqs i) seqs.
Proof. intros H. apply nth_In; auto. Qed.

Lemma in_dict_keys k seqs c : In c (dict_keys k seqs) <-> exists i, i < length seqs /\ In c (comb_gen k (sget seqs i)).
Proof.
  unfold dict_keys, nodups. rewrite nodup_In, in_flat_map. split.
  - intros (s & Hs & Hc). apply In_nth with (d := []) in Hs as (i & Hi & <-). eauto.
  - intros (i & Hi & Hc). exists (sget seqs i). split; auto. now apply sget_in.
Qed.

Lemma shared_variant k a b : within a b k -> exists c, In c (comb_gen k a) /\ In c (comb_gen k b).
Proof.
  intros W. destruct (symdel_complete k a b W) as (c & H1 & H2).
  exists c. unfold comb_gen, nodups. rewrite !nodup_In. auto.
Qed.

Section Engine.
Context {D : Type}.
Variable eqD : forall a b : D, {a = b} + {a <> b}.
Variable keep : str -> str -> option D.
Variable k : nat.
Hypothesis keep_within : forall a b d, keep a b = Some d -> within a b k.

(* ---- two-collection lookup ---- *)
Lemma in_cand_refs refs q j : In j (cand_refs k refs q) <->
  j < length refs /\ exists c, In c (comb_gen k q) /\ In c (comb_gen k (sget refs j)).
Proof.
  unfold cand_refs. rewrite nodup_In, in_flat_map. split.
  - intros (c & Hc & Hj). apply in_bucket in Hj as [Hj Hc']. eauto.
  - intros (Hj & c & Hc & Hc'). exists c. split; auto. apply in_bucket. auto.
Qed.

Theorem symdel_lookup_spec refs queries i j d :
  In (i, j, d) (symdel_lookup keep k refs queries) <->
  i < length queries /\ j < length refs /\ keep (sget queries i) (sget refs j) = Some d.
Proof.
  unfold symdel_lookup. rewrite in_flat_map. split.
  - intros (i' & Hi' & H). apply in_seq in Hi'. apply in_flat_map in H as (j' & Hj' & H).
    apply in_cand_refs in Hj' as [Hj' _].
    destruct (keep (sget queries i') (sget refs j')) eqn:K; simpl in H; [|contradiction].
    destruct H as [[= <- <- <-]|[]]. repeat split; auto; lia.
  - intros (Hi & Hj & K). exists i. split; [apply in_seq; lia|].
    apply in_flat_map. exists j. split.
    + apply in_cand_refs. split; auto. apply shared_variant. eapply keep_within; eauto.
    + rewrite K. now left.
Qed.

Theorem symdel_lookup_nodup_pairs refs queries :
  NoDup (map fst (symdel_lookup keep k refs queries)).
Proof.
  unfold symdel_lookup. rewrite flat_map_concat_map, concat_map, map_map, <- flat_map_concat_map.
  apply NoDup_flat_map_disjoint.
  - apply seq_NoDup.
  - intros i _. rewrite flat_map_concat_map, concat_map, map_map, <- flat_map_concat_map.
    apply NoDup_flat_map_disjoint.
    + apply NoDup_nodup.
    + intros j _. destruct (keep _ _); simpl; repeat constructor; auto.
    + intros j j' b _ _ Hb Hb'.
      destruct (keep (sget queries i) (sget refs j)); simpl in Hb; [|contradiction].
      destruct (keep (sget queries i) (sget refs j')); simpl in Hb'; [|contradiction].
      destruct Hb as [<-|[]], Hb' as [E|[]]. congruence.
  - intros i i' b _ _ Hb Hb'.
    rewrite in_map_iff in Hb, Hb'. destruct Hb as (t & <- & Ht), Hb' as (t' & E & Ht').
    apply in_flat_map in Ht as (j & _ & Ht), Ht' as (j' & _ & Ht').
    destruct (keep (sget queries i) (sget refs j)); simpl in Ht; [|contradiction].
    destruct (keep (sget queries i') (sget refs j')); simpl in Ht'; [|contradiction].
    destruct Ht as [<-|[]], Ht' as [<-|[]]. simpl in E. congruence.
Qed.

Corollary symdel_lookup_nodup refs queries : NoDup (symdel_lookup keep k refs queries).
Proof. eapply NoDup_map_inv. apply symdel_lookup_nodup_pairs. Qed.

(* ---- self mode ---- *)
Hypothesis keep_sym : forall a b, keep a b = keep b a.

Theorem symdel_self_spec seqs i j d :
  In (i, j, d) (symdel_self eqD keep k seqs) <->
  i < length seqs /\ j < length seqs /\ i <> j /\ keep (sget seqs i) (sget seqs j) = Some d.
Proof.
  unfold symdel_self. rewrite nodup_In, in_flat_map. split.
  - intros (c & Hc & H). apply in_flat_map in H as ([a b] & Hab & H). simpl in H.
    apply combs2_spec in Hab; [|apply bucket_sorted]. destruct Hab as (Ha & Hb & Hlt).
    apply in_bucket in Ha as [Ha _]. apply in_bucket in Hb as [Hb _].
    destruct (keep (sget seqs a) (sget seqs b)) eqn:K; simpl in H; [|contradiction].
    destruct H as [[= <- <- <-]|[[= <- <- <-]|[]]]; repeat split; auto; try lia.
    rewrite keep_sym. exact K.
  - intros (Hi & Hj & Hne & K).
    destruct (shared_variant k _ _ (keep_within _ _ _ K)) as (c & Hci & Hcj).
    exists c. split; [apply in_dict_keys; eauto|].
    destruct (Nat.lt_ge_cases i j) as [Hlt|Hge].
    + apply in_flat_map. exists (i, j). split.
      * apply combs2_spec; [apply bucket_sorted|]. repeat split; auto; apply in_bucket; auto.
      * simpl. rewrite K. now left.
    + apply in_flat_map. exists (j, i). split.
      * apply combs2_spec; [apply bucket_sorted|]. repeat split; try lia; apply in_bucket; auto.
      * simpl. rewrite keep_sym, K. right; now left.
Qed.

Theorem symdel_self_nodup_pairs seqs : NoDup (map fst (symdel_self eqD keep k seqs)).
Proof.
  apply NoDup_map_inj_in.
  - unfold symdel_self. apply NoDup_nodup.
  - intros [[i j] d] [[i' j'] d'] H H' E. simpl in E. injection E as <- <-.
    apply symdel_self_spec in H as (_ & _ & _ & K). apply symdel_self_spec in H' as (_ & _ & _ & K').
    congruence.
Qed.

Corollary symdel_self_nodup seqs : NoDup (symdel_self eqD keep k seqs).
Proof. unfold symdel_self. apply NoDup_nodup. Qed.
End Engine.

(* ---- brute-force pair enumerations (what the oracle runs on large inputs) ---- *)
Section Brute.
Context {D : Type}.
Variable keep : str -> str -> option D.
Lemma all_pairs_self_spec seqs i j d : In (i, j, d) (all_pairs_self keep seqs) <->
  i < length seqs /\ j < length seqs /\ i <> j /\ keep (sget seqs i) (sget seqs j) = Some d.
Proof.
  unfold all_pairs_self. rewrite in_flat_map. split.
  - intros (i' & Hi' & H). apply in_seq in Hi'. apply in_flat_map in H as (j' & Hj' & H). apply in_seq in Hj'.
    destruct (Nat.eqb_spec i' j'); [contradiction|].
    destruct (keep _ _) eqn:K; simpl in H; [|contradiction]. destruct H as [[= <- <- <-]|[]].
    repeat split; auto; lia.
  - intros (Hi & Hj & Hne & K). exists i. split; [apply in_seq; lia|]. apply in_flat_map.
    exists j. split; [apply in_seq; lia|]. destruct (Nat.eqb_spec i j); [contradiction|]. rewrite K. now left.
Qed.
Lemma all_pairs_cross_spec refs queries i j d : In (i, j, d) (all_pairs_cross keep refs queries) <->
  i < length queries /\ j < length refs /\ keep (sget queries i) (sget refs j) = Some d.
Proof.
  unfold all_pairs_cross. rewrite in_flat_map. split.
  - intros (i' & Hi' & H). apply in_seq in Hi'. apply in_flat_map in H as (j' & Hj' & H). apply in_seq in Hj'.
    destruct (keep _ _) eqn:K; simpl in H; [|contradiction]. destruct H as [[= <- <- <-]|[]].
    repeat split; auto; lia.
  - intros (Hi & Hj & K). exists i. split; [apply in_seq; lia|]. apply in_flat_map.
    exists j. split; [apply in_seq; lia|]. rewrite K. now left.
Qed.
End Brute.

(* ---------- the three pair filters satisfy the hypotheses ---------- *)
Lemma keep_lev_spec k a b d : keep_lev k a b = Some d <-> d = slev a b /\ d <= k.
Proof.
  unfold keep_lev. rewrite slev_x_spec. destruct (Nat.leb_spec (slev a b) k) as [L|L]; split.
  - intros [= <-]. auto.
  - intros [-> _]. reflexivity.
  - discriminate.
  - intros [-> L']. lia.
Qed.
Lemma keep_lev_within k a b d : keep_lev k a b = Some d -> within a b k.
Proof. intros H. apply keep_lev_spec in H as [-> H]. now apply lev_le_iff in H. Qed.
Lemma keep_lev_sym k a b : keep_lev k a b = keep_lev k b a.
Proof. unfold keep_lev. rewrite !slev_x_spec. unfold slev. now rewrite lev_sym. Qed.

Lemma keep_ham_spec k a b d : keep_ham k a b = Some d <-> sham a b = Some d /\ d <= k.
Proof.
  unfold keep_ham. destruct (sham a b) as [h|]; [|split; [discriminate|intros [E _]; discriminate]].
  destruct (Nat.leb_spec h k) as [L|L]; split.
  - intros [= <-]. auto.
  - intros [[= <-] _]. reflexivity.
  - discriminate.
  - intros [[= <-] L']. lia.
Qed.
Lemma keep_ham_within k a b d : keep_ham k a b = Some d -> within a b k.
Proof. intros H. apply keep_ham_spec in H as [H L]. unfold sham in H. apply ham_edits in H.
  exists 0, 0, d. split; auto. Qed.
Lemma keep_ham_sym k a b : keep_ham k a b = keep_ham k b a.
Proof. unfold keep_ham, sham. now rewrite ham_sym. Qed.

Lemma keep_custom_spec cust k maxc a b d : keep_custom cust k maxc a b = Some d <->
  slev a b <= k /\ qle_opt (cust a b) maxc = true /\ d = cust a b.
Proof.
  unfold keep_custom. rewrite slev_x_spec. destruct (Nat.leb_spec (slev a b) k) as [L|L]; simpl.
  - destruct (qle_opt (cust a b) maxc); split.
    + intros [= <-]. auto.
    + intros (_ & _ & ->). reflexivity.
    + discriminate.
    + intros (_ & E & _). discriminate.
  - split; [discriminate|]. intros (L' & _). lia.
Qed.
Lemma keep_custom_within cust k maxc a b d : keep_custom cust k maxc a b = Some d -> within a b k.
Proof. intros H. apply keep_custom_spec in H as (H & _). now apply lev_le_iff in H. Qed.
Lemma keep_custom_sym cust k maxc : (forall a b, cust a b = cust b a) ->
  forall a b, keep_custom cust k maxc a b = keep_custom cust k maxc b a.
Proof. intros S a b. unfold keep_custom. rewrite !slev_x_spec. unfold slev. now rewrite lev_sym, S. Qed.
