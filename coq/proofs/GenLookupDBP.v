(* _generate_neighbors and class LookupDB as written in pyrepseq/nn.py (gen/Gen_c04b.v, regenerated on every run) are the breadth-first
   edit ball and the lookup of the model (model/Nbrs.v, model/Engines.v) - equal as lists. *)
From Coq Require Import List Arith Bool Lia.
From PV Require Import lib.Str lib.PyDict lib.Combinations gen.Gen_c03 gen.Gen_c04b model.Symdel model.Nbrs model.Engines
                       proofs.CombinationsP proofs.GenSymdelDBP.
Import ListNotations.

Lemma flat_map_ext_in' {A B} (f g : A -> list B) l : (forall x, In x l -> f x = g x) -> flat_map f l = flat_map g l.
Proof. induction l as [|a l IH]; intros H; simpl; [reflexivity|]. rewrite H by now left. f_equal. apply IH. intros x Hx. apply H. now right. Qed.

(* ---------- dict facts for any value type ---------- *)
Section DictV.
Context {V : Type}.
Lemma dmem_in c (d : list (str * V)) : dict_mem str_eqb c d = true <-> In c (map fst d).
Proof.
  induction d as [|[k w] d IH]; simpl; [split; [discriminate|tauto]|]. destruct (str_eqb k c) eqn:E.
  - apply str_eqb_eq in E. subst. split; auto.
  - rewrite IH. split; [auto|]. intros [->|H]; [|exact H]. rewrite str_eqb_refl in E. discriminate.
Qed.
Lemma dmem_keys c (d : list (str * V)) : dict_mem str_eqb c d = memb str_eq_dec c (map fst d).
Proof. apply eq_true_iff_eq. rewrite dmem_in, memb_In. reflexivity. Qed.
Lemma dset_new_keys c (v : V) (d : list (str * V)) : dict_mem str_eqb c d = false -> map fst (dict_set str_eqb c v d) = map fst d ++ [c].
Proof.
  induction d as [|[k w] d IH]; simpl; intros M; [reflexivity|]. destruct (str_eqb k c); [discriminate|]. simpl. now rewrite IH.
Qed.
End DictV.

(* ---------- _generate_neighbors: the keys are the model's ball, in the same order ---------- *)
Section Ball.
Variable hn ln : str -> list str.

Lemma inner_keys (depth : nat) l : forall ans : list (str * nat),
  map fst (fold_left (fun ans new_seq => if negb (dict_mem str_eqb new_seq ans) then dict_set str_eqb new_seq depth ans else ans) l ans)
  = add_all (map fst ans) l.
Proof.
  unfold add_all. induction l as [|n l IH]; intros ans; simpl; [reflexivity|]. rewrite IH. f_equal.
  rewrite dmem_keys. destruct (memb str_eq_dec n (map fst ans)) eqn:M; simpl; [reflexivity|].
  apply dset_new_keys. now rewrite dmem_keys.
Qed.

Lemma round_keys (nb : str -> list str) (depth : nat) keys : forall ans : list (str * nat),
  map fst (fold_left (fun ans seq =>
      fold_left (fun ans new_seq => if negb (dict_mem str_eqb new_seq ans) then dict_set str_eqb new_seq depth ans else ans) (nb seq) ans)
    keys ans) = fold_left (fun acc s => add_all acc (nb s)) keys (map fst ans).
Proof. induction keys as [|s keys IH]; intros ans; simpl; [reflexivity|]. rewrite IH. now rewrite inner_keys. Qed.

Theorem gen_generate_neighbors_ball q k h :
  map fst (gen_generate_neighbors hn ln q k h) = ball (if h then hn else ln) k q.
Proof.
  unfold gen_generate_neighbors. cbv zeta. set (nb := if h then hn else ln).
  unfold py_range. replace (k + 1 - 1) with k by lia.
  induction k as [|k IH]; [reflexivity|].
  rewrite seq_S, fold_left_app. simpl fold_left at 1. simpl ball. rewrite round_keys. rewrite IH. reflexivity.
Qed.
End Ball.

(* ---------- LookupDB.__init__: seq_dict[s] = the positions holding s, ascending ---------- *)
Definition lget (d : list (str * list nat)) (c : str) : list nat := unwrap [] (dict_get str_eqb c d).

Lemma lget_is_bget d c : lget d c = bget d c.
Proof. reflexivity. Qed.

Lemma init_step_get index s d e :
  lget (dict_set str_eqb s (unwrap [] (dict_get str_eqb s (if negb (dict_mem str_eqb s d) then dict_set str_eqb s [] d else d)) ++ [index])
                 (if negb (dict_mem str_eqb s d) then dict_set str_eqb s [] d else d)) e
  = lget d e ++ (if str_eqb s e then [index] else []).
Proof.
  rewrite !lget_is_bget. destruct (str_eq_dec s e) as [->|N].
  - rewrite bget_set_same, str_eqb_refl. fold (bget (if negb (dict_mem str_eqb e d) then dict_set str_eqb e [] d else d) e).
    destruct (dict_mem str_eqb e d) eqn:M; simpl negb; cbv iota; [reflexivity|]. rewrite bget_set_same. rewrite lget_is_bget. now rewrite (bget_absent d e M).
  - rewrite (bget_set_other _ s e _ N), (str_eqb_neq s e N), app_nil_r.
    destruct (dict_mem str_eqb s d); simpl; [reflexivity|]. now apply bget_set_other.
Qed.

Lemma init_get l : forall s d e,
  lget (fold_left (fun seq_dict '(index, seq) =>
      let seq_dict := if negb (dict_mem str_eqb seq seq_dict) then dict_set str_eqb seq [] seq_dict else seq_dict in
      dict_set str_eqb seq (unwrap [] (dict_get str_eqb seq seq_dict) ++ [index]) seq_dict) (combine (seq s (length l)) l) d) e
  = lget d e ++ filter (fun j => str_eqb (nth (j - s) l []) e) (seq s (length l)).
Proof.
  induction l as [|x l IH]; intros s d e; [simpl; now rewrite app_nil_r|].
  change (combine (seq s (length (x :: l))) (x :: l)) with ((s, x) :: combine (seq (S s) (length l)) l).
  cbn [fold_left]. rewrite IH. cbv zeta. rewrite init_step_get. rewrite <- app_assoc. f_equal.
  change (seq s (length (x :: l))) with (s :: seq (S s) (length l)).
  assert (F : forall (f : nat -> bool) a r, filter f (a :: r) = (if f a then [a] else []) ++ filter f r)
    by (intros f a r; simpl; destruct (f a); reflexivity).
  rewrite F. rewrite Nat.sub_diag. cbn [nth]. f_equal.
  apply filter_ext_in. intros j Hj. apply in_seq in Hj. replace (j - s) with (S (j - S s)) by lia. reflexivity.
Qed.

Theorem gen_lookupdb_init_positions refs e : lget (gen_lookupdb_init refs) e = positions_of refs e.
Proof.
  unfold gen_lookupdb_init, enumerate, positions_of. etransitivity; [apply (init_get refs 0 [] e)|].
  change (lget [] e) with (@nil nat). simpl app.
  apply filter_ext. intros j. now rewrite Nat.sub_0_r.
Qed.

(* ---------- LookupDB.lookup = the model's lookup, as lists ---------- *)
Section Lookup.
Context {D : Type}.
Variable hn ln : str -> list str.
Variable cd : str -> str -> D.
Variable leD : D -> D -> bool.
Variable of_depth : nat -> D.
Variable is_hamming is_custom : bool.
Variable maxc : D.

Definition gen_valf (q e : str) : option D :=
  let dist := cd q e in if negb is_custom || leD dist maxc then Some dist else None.

Theorem gen_lookupdb_lookup_model (refs queries : list str) (k : nat) (pd : bool) :
  gen_lookupdb_lookup hn ln cd leD of_depth (gen_lookupdb_init refs) queries k pd is_hamming is_custom false maxc
  = lookupdb_lookup gen_valf (if is_hamming then hn else ln) k pd refs queries.
Proof.
  unfold gen_lookupdb_lookup, lookupdb_lookup.
  set (sd := gen_lookupdb_init refs).
  set (inner := fun (x : nat) (q e : str) => flat_map (fun y => if pd && Nat.eqb x y then [] else
                  match gen_valf q e with Some d => [(x, y, d)] | None => [] end) (positions_of refs e)).
  assert (E : forall l a,
    fold_left (fun ans '(x_index, seq) =>
      let neighbors := gen_generate_neighbors hn ln seq k is_hamming in
      fold_left (fun ans '(possible_edit, edit_distance) =>
          if dict_mem str_eqb possible_edit sd then
            fold_left (fun ans y_index =>
                if pd && Nat.eqb x_index y_index then ans else
                if false then ans ++ [(x_index, y_index, of_depth edit_distance)] else
                let dist := cd seq possible_edit in
                if negb is_custom || leD dist maxc then ans ++ [(x_index, y_index, dist)] else ans)
              (unwrap [] (dict_get str_eqb possible_edit sd)) ans
          else ans) neighbors ans) l a
    = a ++ flat_map (fun p : nat * str => flat_map (inner (fst p) (snd p)) (ball (if is_hamming then hn else ln) k (snd p))) l).
  { induction l as [|[x q] l IH]; intros a; simpl; [now rewrite app_nil_r|]. rewrite IH, app_assoc. f_equal. cbv zeta.
    rewrite <- (gen_generate_neighbors_ball hn ln q k is_hamming).
    generalize (gen_generate_neighbors hn ln q k is_hamming). intros nbrs. revert a.
    induction nbrs as [|[e depth] nbrs IHn]; intros a; simpl; [now rewrite app_nil_r|].
    rewrite IHn, app_assoc. f_equal.
    assert (P : unwrap [] (dict_get str_eqb e sd) = positions_of refs e) by apply gen_lookupdb_init_positions.
    destruct (dict_mem str_eqb e sd) eqn:M.
    - rewrite P. unfold inner. generalize (positions_of refs e). intros ys. revert a.
      induction ys as [|y ys IHy]; intros a; simpl; [now rewrite app_nil_r|]. rewrite IHy, app_assoc. f_equal.
      destruct (pd && Nat.eqb x y); [now rewrite app_nil_r|]. unfold gen_valf. cbv zeta.
      destruct (negb is_custom || leD (cd q e) maxc); [reflexivity|now rewrite app_nil_r].
    - unfold inner. rewrite <- P. fold (lget sd e). rewrite lget_is_bget, (bget_absent sd e M). simpl. now rewrite app_nil_r. }
  rewrite E. simpl. unfold enumerate. clear E.
  (* enumerate queries against seq 0 (length queries) with sget *)
  assert (G : forall (l : list str) s (F : nat -> str -> list (nat * nat * D)),
    flat_map (fun p : nat * str => F (fst p) (snd p)) (combine (seq s (length l)) l)
    = flat_map (fun x => F x (nth (x - s) l [])) (seq s (length l))).
  { induction l as [|z l IHl]; intros s F; simpl; [reflexivity|]. rewrite Nat.sub_diag. f_equal.
    rewrite IHl. apply flat_map_ext_in'. intros x Hx. apply in_seq in Hx. replace (x - s) with (S (x - S s)) by lia. reflexivity. }
  rewrite (G queries 0 (fun x q => flat_map (inner x q) (ball (if is_hamming then hn else ln) k q))).
  apply flat_map_ext. intros x. rewrite Nat.sub_0_r. reflexivity.
Qed.
End Lookup.

(* the ball depends on the neighbourhood function only through its values *)
Lemma ball_ext (nb nb' : str -> list str) : (forall x, nb x = nb' x) -> forall k q, ball nb k q = ball nb' k q.
Proof.
  intros H k q. induction k as [|k IH]; [reflexivity|]. simpl. rewrite IH. unfold ball_round.
  generalize (ball nb' k q) at 2 4. intros acc. generalize (ball nb' k q). intros keys. revert acc.
  induction keys as [|s keys IHk]; intros acc; simpl; [reflexivity|]. rewrite H. apply IHk.
Qed.

Lemma lookupdb_lookup_ext {D} (valf valf' : str -> str -> option D) (nb nb' : str -> list str) :
  (forall a b, valf a b = valf' a b) -> (forall x, nb x = nb' x) ->
  forall k pd refs queries, lookupdb_lookup valf nb k pd refs queries = lookupdb_lookup valf' nb' k pd refs queries.
Proof.
  intros Hv Hn k pd refs queries. unfold lookupdb_lookup. apply flat_map_ext. intros x.
  rewrite (ball_ext nb nb' Hn). apply flat_map_ext. intros e. apply flat_map_ext. intros y. now rewrite Hv.
Qed.
