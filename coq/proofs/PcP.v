(* C02: coincidence counting -- proofs about model/Pc.v *)
From Coq Require Import List Arith Bool Lia Permutation.
From Coq Require Import NArith.
From PV Require Import model.Pc.
Import ListNotations.

(* ------------------------------------------------------------------ *)
(* Generic list facts (no decidable equality needed)                    *)
(* ------------------------------------------------------------------ *)

Lemma length_filter_map {A B : Type} (p : B -> bool) (g : A -> B) (l : list A) :
  length (filter p (map g l)) = length (filter (fun x => p (g x)) l).
Proof.
  induction l as [|a l IH]; simpl; [reflexivity|].
  destruct (p (g a)); simpl; rewrite IH; reflexivity.
Qed.

Lemma length_filter_prod {A B : Type} (p : A * B -> bool) (la : list A) (lb : list B) :
  length (filter p (list_prod la lb))
  = list_sum (map (fun a => length (filter (fun b => p (a, b)) lb)) la).
Proof.
  induction la as [|a la IH]; simpl; [reflexivity|].
  rewrite filter_app, app_length, length_filter_map, IH. reflexivity.
Qed.

Lemma length_filter_le {A : Type} (p : A -> bool) (l : list A) :
  length (filter p l) <= length l.
Proof.
  induction l as [|a l IH]; simpl; [lia|].
  destruct (p a); simpl; lia.
Qed.

Lemma length_filter_andb_le {A : Type} (p q : A -> bool) (l : list A) :
  length (filter (fun x => p x && q x) l) <= length (filter p l).
Proof.
  induction l as [|a l IH]; simpl; [lia|].
  destruct (p a), (q a); simpl; lia.
Qed.

Lemma list_sum_map_ext_in {A : Type} (g h : A -> nat) (l : list A) :
  (forall x, In x l -> g x = h x) -> list_sum (map g l) = list_sum (map h l).
Proof.
  intros Hgh. f_equal. apply map_ext_in. exact Hgh.
Qed.

Lemma list_sum_map_add {A : Type} (g h : A -> nat) (l : list A) :
  list_sum (map (fun x => g x + h x) l) = list_sum (map g l) + list_sum (map h l).
Proof.
  induction l as [|a l IH]; simpl; [reflexivity|]. rewrite IH. lia.
Qed.

Lemma list_sum_map_const {A : Type} (c : nat) (l : list A) :
  list_sum (map (fun _ => c) l) = length l * c.
Proof.
  induction l as [|a l IH]; simpl; [reflexivity|]. rewrite IH. lia.
Qed.

Lemma list_sum_map_filter {A : Type} (g : A -> nat) (p : A -> bool) (l : list A) :
  (forall x, In x l -> p x = false -> g x = 0) ->
  list_sum (map g (filter p l)) = list_sum (map g l).
Proof.
  induction l as [|a l IH]; intros Hz; simpl; [reflexivity|].
  destruct (p a) eqn:Hpa; simpl.
  - rewrite IH; [reflexivity|]. intros x Hx. apply Hz. right. exact Hx.
  - rewrite IH.
    + rewrite (Hz a (or_introl eq_refl) Hpa). reflexivity.
    + intros x Hx. apply Hz. right. exact Hx.
Qed.

Lemma list_sum_perm (l l' : list nat) :
  Permutation l l' -> list_sum l = list_sum l'.
Proof.
  intros HP. induction HP as [|x l l' HP IH|x y l|l l' l'' HP1 IH1 HP2 IH2]; simpl; lia.
Qed.

(* sum over positions = sum over elements *)
Lemma sum_over_idx {A : Type} (l : list A) (F : nat -> nat) (G : A -> nat) :
  (forall i a, nth_error l i = Some a -> F i = G a) ->
  list_sum (map F (seq 0 (length l))) = list_sum (map G l).
Proof.
  revert F. induction l as [|x l IH]; intros F HFG; simpl; [reflexivity|].
  rewrite <- seq_shift, map_map.
  rewrite (HFG 0 x eq_refl). f_equal.
  apply IH. intros i a Hia. apply HFG. simpl. exact Hia.
Qed.

(* counting positions that hold an element satisfying h = counting elements *)
Lemma idx_filter {A : Type} (l : list A) (h : A -> bool) :
  length (filter (fun j => match nth_error l j with Some b => h b | None => false end)
                 (seq 0 (length l)))
  = length (filter h l).
Proof.
  induction l as [|x l IH]; [reflexivity|].
  cbn [length seq]. rewrite <- seq_shift. cbn [filter nth_error].
  destruct (h x); cbn [length]; rewrite length_filter_map; cbn [nth_error];
    rewrite IH; reflexivity.
Qed.

(* the diagonal entry of a row *)
Lemma row_diag_gt (q : nat -> bool) (i s n : nat) :
  i < s -> filter (fun j => negb (Nat.eqb i j) && q j) (seq s n) = filter q (seq s n).
Proof.
  intros His. apply filter_ext_in. intros j Hj. apply in_seq in Hj.
  destruct (Nat.eqb_spec i j) as [Heq|Hne]; [lia|reflexivity].
Qed.

Lemma row_diag (q : nat -> bool) (i n s : nat) :
  s <= i < s + n ->
  length (filter (fun j => negb (Nat.eqb i j) && q j) (seq s n)) + (if q i then 1 else 0)
  = length (filter q (seq s n)).
Proof.
  revert s. induction n as [|n IH]; intros s Hi; [lia|].
  simpl. destruct (Nat.eqb_spec i s) as [Heq|Hne]; simpl.
  - subst s. rewrite row_diag_gt by lia. destruct (q i); simpl; lia.
  - assert (Hi' : S s <= i < S s + n) by lia.
    specialize (IH (S s) Hi').
    destruct (q s); simpl; lia.
Qed.

(* ------------------------------------------------------------------ *)
(* Facts depending on decidable equality                                *)
(* ------------------------------------------------------------------ *)

Section PcP.
Context {X : Type} (eqd : forall a b : X, {a = b} + {a <> b}).

Lemma count_occ_filter_eqbX (l : list X) (a : X) :
  count_occ eqd l a = length (filter (fun b => eqbX eqd a b) l).
Proof.
  unfold eqbX. induction l as [|x l IH]; simpl; [reflexivity|].
  destruct (eqd x a) as [Hxa|Hxa]; destruct (eqd a x) as [Hax|Hax]; simpl;
    try congruence.
Qed.

(* indicator sum over a duplicate-free list *)
Lemma sum_indicator (g : X -> nat) (x : X) (vs : list X) :
  NoDup vs -> In x vs ->
  list_sum (map (fun v => g v * (if eqd x v then 1 else 0)) vs) = g x.
Proof.
  intros Hnd. induction Hnd as [|v vs Hnin Hnd IH]; intros Hin; [destruct Hin|].
  simpl. destruct (eqd x v) as [Hxv|Hxv].
  - subst v.
    assert (Hz : list_sum (map (fun v => g v * (if eqd x v then 1 else 0)) vs) = 0).
    { clear IH Hin Hnd. induction vs as [|w vs IHv]; simpl; [reflexivity|].
      destruct (eqd x w) as [Hxw|Hxw].
      - exfalso. apply Hnin. left. symmetry. exact Hxw.
      - rewrite IHv; [lia|]. intros Hc. apply Hnin. right. exact Hc. }
    rewrite Hz. lia.
  - destruct Hin as [Hin|Hin]; [congruence|].
    rewrite (IH Hin). lia.
Qed.

(* reusable core: a sum over distinct values weighted by multiplicity is a sum over elements *)
Lemma sum_distinct_weighted (g : X -> nat) (l vs : list X) :
  NoDup vs -> incl l vs ->
  list_sum (map (fun v => g v * count_occ eqd l v) vs) = list_sum (map g l).
Proof.
  intros Hnd. induction l as [|x l IH]; intros Hincl.
  - simpl. rewrite (list_sum_map_ext_in _ (fun _ => 0)).
    + rewrite list_sum_map_const. lia.
    + intros v _. lia.
  - rewrite (list_sum_map_ext_in _
        (fun v => g v * (if eqd x v then 1 else 0) + g v * count_occ eqd l v)).
    + rewrite list_sum_map_add.
      rewrite sum_indicator; [|exact Hnd|apply Hincl; left; reflexivity].
      rewrite IH; [reflexivity|]. intros y Hy. apply Hincl. right. exact Hy.
    + intros v _. simpl. destruct (eqd x v); lia.
Qed.

Lemma sum_nodup_weighted (g : X -> nat) (l : list X) :
  list_sum (map (fun v => g v * count_occ eqd l v) (nodup eqd l)) = list_sum (map g l).
Proof.
  apply sum_distinct_weighted.
  - apply NoDup_nodup.
  - intros y Hy. apply nodup_In. exact Hy.
Qed.

(* element-wise forms of the two numerators *)
Lemma pc_num_elementwise (l : list X) :
  pc_num eqd l = list_sum (map (fun x => count_occ eqd l x - 1) l).
Proof.
  unfold pc_num, mults. rewrite map_map.
  rewrite <- (sum_nodup_weighted (fun x => count_occ eqd l x - 1) l).
  apply list_sum_map_ext_in. intros v _. lia.
Qed.

Lemma pc2_num_elementwise (l1 l2 : list X) :
  pc2_num eqd l1 l2 = list_sum (map (fun x => count_occ eqd l2 x) l1).
Proof.
  unfold pc2_num.
  rewrite list_sum_map_filter.
  - rewrite <- (sum_nodup_weighted (fun x => count_occ eqd l2 x) l1).
    apply list_sum_map_ext_in. intros v _. lia.
  - intros v _ Hv. destruct (in_dec eqd v l2) as [Hin|Hnin]; [discriminate|].
    apply (count_occ_not_In eqd) in Hnin. rewrite Hnin. lia.
Qed.

(* rows of the position-pair tables *)
Lemma cross_row (l1 l2 : list X) (i : nat) (a : X) :
  nth_error l1 i = Some a ->
  length (filter (fun j => eq_at eqd l1 l2 i j) (seq 0 (length l2))) = count_occ eqd l2 a.
Proof.
  intros Hi. rewrite count_occ_filter_eqbX.
  rewrite <- (idx_filter l2 (fun b => eqbX eqd a b)).
  f_equal. apply filter_ext. intros j. unfold eq_at. rewrite Hi. reflexivity.
Qed.

Lemma cross_pairs_elementwise (l1 l2 : list X) :
  length (cross_pairs eqd l1 l2) = list_sum (map (fun x => count_occ eqd l2 x) l1).
Proof.
  unfold cross_pairs. rewrite length_filter_prod. simpl.
  apply sum_over_idx. intros i a Hi. apply cross_row. exact Hi.
Qed.

Lemma eq_at_diag (l : list X) (i : nat) :
  i < length l -> eq_at eqd l l i i = true.
Proof.
  intros Hi. unfold eq_at. destruct (nth_error l i) as [a|] eqn:Ha.
  - unfold eqbX. destruct (eqd a a); congruence.
  - apply nth_error_None in Ha. lia.
Qed.

Lemma coinc_row (l : list X) (i : nat) (a : X) :
  nth_error l i = Some a ->
  length (filter (fun j => negb (Nat.eqb i j) && eq_at eqd l l i j) (seq 0 (length l)))
  = count_occ eqd l a - 1.
Proof.
  intros Hi.
  assert (Hlt : i < length l) by (apply nth_error_Some; congruence).
  pose proof (row_diag (fun j => eq_at eqd l l i j) i (length l) 0 (conj (Nat.le_0_l i) Hlt)) as Hrow.
  cbv beta in Hrow.
  rewrite (eq_at_diag l i Hlt) in Hrow.
  rewrite (cross_row l l i a Hi) in Hrow. lia.
Qed.

(* 1a *)
Theorem pc_num_counts (l : list X) : pc_num eqd l = length (coinc_pairs eqd l).
Proof.
  rewrite pc_num_elementwise. unfold coinc_pairs.
  rewrite length_filter_prod. simpl. symmetry.
  apply sum_over_idx. intros i a Hi. apply coinc_row. exact Hi.
Qed.

(* 1b *)
Theorem pc2_num_counts (l1 l2 : list X) :
  pc2_num eqd l1 l2 = length (cross_pairs eqd l1 l2).
Proof.
  rewrite pc2_num_elementwise, cross_pairs_elementwise. reflexivity.
Qed.

(* 1c: the denominators count all position pairs *)
Theorem pc_den_counts (l : list X) :
  pc_den l = length (filter (fun ij => negb (Nat.eqb (fst ij) (snd ij)))
                            (list_prod (seq 0 (length l)) (seq 0 (length l)))).
Proof.
  unfold pc_den. rewrite length_filter_prod. simpl.
  rewrite (list_sum_map_ext_in _ (fun _ => length l - 1)).
  - rewrite list_sum_map_const, seq_length. reflexivity.
  - intros i Hi. apply in_seq in Hi.
    pose proof (row_diag (fun _ => true) i (length l) 0) as Hrow.
    cbv beta in Hrow.
    rewrite (filter_ext (fun j => negb (Nat.eqb i j)) (fun j => negb (Nat.eqb i j) && true)).
    + assert (Hall : length (filter (fun _ : nat => true) (seq 0 (length l))) = length l).
      { clear. generalize (seq_length (length l) 0). generalize (seq 0 (length l)).
        intros s Hs. rewrite <- Hs. clear Hs.
        induction s as [|x s IH]; simpl; [reflexivity|]. rewrite IH. reflexivity. }
      rewrite Hall in Hrow. lia.
    + intros j. rewrite andb_true_r. reflexivity.
Qed.

Theorem pc2_den_counts (l1 l2 : list X) :
  pc2_den l1 l2 = length (list_prod (seq 0 (length l1)) (seq 0 (length l2))).
Proof.
  unfold pc2_den. rewrite prod_length, !seq_length. reflexivity.
Qed.

Theorem pc_num_le_den (l : list X) : pc_num eqd l <= pc_den l.
Proof.
  rewrite pc_num_counts, pc_den_counts. unfold coinc_pairs.
  apply (length_filter_andb_le
           (fun ij : nat * nat => negb (Nat.eqb (fst ij) (snd ij)))
           (fun ij : nat * nat => eq_at eqd l l (fst ij) (snd ij))).
Qed.

Theorem pc2_num_le_den (l1 l2 : list X) : pc2_num eqd l1 l2 <= pc2_den l1 l2.
Proof.
  rewrite pc2_num_counts, pc2_den_counts. unfold cross_pairs.
  apply length_filter_le.
Qed.

(* 1d: invariance under reordering *)
Theorem pc_perm (l l' : list X) :
  Permutation l l' -> pc_num eqd l = pc_num eqd l' /\ pc_den l = pc_den l'.
Proof.
  intros HP. split.
  - rewrite !pc_num_elementwise.
    rewrite (list_sum_map_ext_in (fun x => count_occ eqd l x - 1)
                                 (fun x => count_occ eqd l' x - 1) l).
    + apply list_sum_perm. apply Permutation_map. exact HP.
    + intros x _. rewrite (proj1 (Permutation_count_occ eqd l l') HP x). reflexivity.
  - unfold pc_den. rewrite (Permutation_length HP). reflexivity.
Qed.

Theorem pc2_perm (l1 l1' l2 l2' : list X) :
  Permutation l1 l1' -> Permutation l2 l2' ->
  pc2_num eqd l1 l2 = pc2_num eqd l1' l2'.
Proof.
  intros HP1 HP2. rewrite !pc2_num_elementwise.
  rewrite (list_sum_map_ext_in (fun x => count_occ eqd l2 x)
                               (fun x => count_occ eqd l2' x) l1).
  - apply list_sum_perm. apply Permutation_map. exact HP1.
  - intros x _. apply (proj1 (Permutation_count_occ eqd l2 l2') HP2 x).
Qed.

Theorem pc2_den_perm (l1 l1' l2 l2' : list X) :
  Permutation l1 l1' -> Permutation l2 l2' ->
  pc2_den l1 l2 = pc2_den l1' l2'.
Proof.
  intros HP1 HP2. unfold pc2_den.
  rewrite (Permutation_length HP1), (Permutation_length HP2). reflexivity.
Qed.

(* 1e: symmetry of the two-sample numerator *)
Lemma sum_indicator_count (x : X) (l : list X) :
  list_sum (map (fun y => if eqd x y then 1 else 0) l) = count_occ eqd l x.
Proof.
  induction l as [|y l IH]; simpl; [reflexivity|].
  rewrite IH. destruct (eqd x y) as [Hxy|Hxy]; destruct (eqd y x) as [Hyx|Hyx];
    try congruence; lia.
Qed.

Theorem pc2_num_sym (l1 l2 : list X) : pc2_num eqd l1 l2 = pc2_num eqd l2 l1.
Proof.
  rewrite !pc2_num_elementwise.
  induction l1 as [|x l1 IH].
  - simpl. rewrite list_sum_map_const. lia.
  - cbn [map list_sum fold_right]. fold (list_sum (map (fun x0 : X => count_occ eqd l2 x0) l1)). rewrite IH.
    rewrite (list_sum_map_ext_in (fun y => count_occ eqd (x :: l1) y)
               (fun y => (if eqd x y then 1 else 0) + count_occ eqd l1 y) l2).
    + rewrite list_sum_map_add, sum_indicator_count. reflexivity.
    + intros y _. simpl. destruct (eqd x y); lia.
Qed.

Theorem pc2_den_sym (l1 l2 : list X) : pc2_den l1 l2 = pc2_den l2 l1.
Proof. unfold pc2_den. apply Nat.mul_comm. Qed.

End PcP.

(* 1d (continued): relabelling through an injective map *)
Section Relabel.
Context {X Y : Type}
        (eqdX : forall a b : X, {a = b} + {a <> b})
        (eqdY : forall a b : Y, {a = b} + {a <> b})
        (f : X -> Y)
        (f_inj : forall a b : X, f a = f b -> a = b).

Theorem pc_num_relabel (l : list X) : pc_num eqdY (map f l) = pc_num eqdX l.
Proof.
  rewrite !pc_num_elementwise, map_map.
  apply list_sum_map_ext_in. intros x _.
  rewrite <- (count_occ_map f eqdX eqdY f_inj x l). reflexivity.
Qed.

Theorem pc_den_relabel (l : list X) : pc_den (map f l) = pc_den l.
Proof. unfold pc_den. rewrite map_length. reflexivity. Qed.

Theorem pc2_num_relabel (l1 l2 : list X) :
  pc2_num eqdY (map f l1) (map f l2) = pc2_num eqdX l1 l2.
Proof.
  rewrite !pc2_num_elementwise, map_map.
  apply list_sum_map_ext_in. intros x _.
  rewrite <- (count_occ_map f eqdX eqdY f_inj x l2). reflexivity.
Qed.

Theorem pc2_den_relabel (l1 l2 : list X) :
  pc2_den (map f l1) (map f l2) = pc2_den l1 l2.
Proof. unfold pc2_den. rewrite !map_length. reflexivity. Qed.
End Relabel.

(* 1f: row keys of tables: cells joined by a separator letter *)
Fixpoint join (tok : N) (cells : list (list N)) : list N :=
  match cells with
  | [] => []
  | [c] => c
  | c :: r => c ++ tok :: join tok r
  end.

Lemma split_at_tok (tok : N) (c c' s s' : list N) :
  ~ In tok c -> ~ In tok c' ->
  c ++ tok :: s = c' ++ tok :: s' -> c = c' /\ s = s'.
Proof.
  revert c'. induction c as [|a c IH]; intros c' Hc Hc' Heq.
  - destruct c' as [|a' c']; simpl in Heq.
    + injection Heq as Hs. split; [reflexivity|exact Hs].
    + injection Heq as Ha Hs. exfalso. apply Hc'. left. symmetry. exact Ha.
  - destruct c' as [|a' c']; simpl in Heq.
    + injection Heq as Ha Hs. exfalso. apply Hc. left. exact Ha.
    + injection Heq as Ha Hs. subst a'.
      destruct (IH c') as [Hcc Hss].
      * intros Hin. apply Hc. right. exact Hin.
      * intros Hin. apply Hc'. right. exact Hin.
      * exact Hs.
      * split; [f_equal; exact Hcc|exact Hss].
Qed.

Theorem join_inj (tok : N) (r r' : list (list N)) :
  length r = length r' ->
  (forall c, In c r -> ~ In tok c) ->
  (forall c, In c r' -> ~ In tok c) ->
  join tok r = join tok r' -> r = r'.
Proof.
  revert r'. induction r as [|c r IH]; intros r' Hlen Hr Hr' Heq.
  - destruct r' as [|c' r']; [reflexivity|discriminate Hlen].
  - destruct r' as [|c' r']; [discriminate Hlen|].
    destruct r as [|c2 r]; destruct r' as [|c2' r']; try discriminate Hlen.
    + simpl in Heq. subst c'. reflexivity.
    + change (c ++ tok :: join tok (c2 :: r) = c' ++ tok :: join tok (c2' :: r')) in Heq.
      apply split_at_tok in Heq.
      * destruct Heq as [Hcc Hjj]. subst c'. f_equal.
        apply IH.
        -- simpl in Hlen |- *. lia.
        -- intros d Hd. apply Hr. right. exact Hd.
        -- intros d Hd. apply Hr'. right. exact Hd.
        -- exact Hjj.
      * apply Hr. left. reflexivity.
      * apply Hr'. left. reflexivity.
Qed.

(* without the guard the key is ambiguous: "A.B","C" versus "A","B.C" with "." = 46 *)
Example join_not_inj_unguarded :
  let tok := 46%N in
  let r  := [[65%N; 46%N; 66%N]; [67%N]] in
  let r' := [[65%N]; [66%N; 46%N; 67%N]] in
  length r = length r' /\ join tok r = join tok r' /\ r <> r'.
Proof.
  cbv zeta. split; [reflexivity|]. split; [reflexivity|]. intros Hc. discriminate Hc.
Qed.

(* the length guard is needed as well: no row versus one empty cell *)
Example join_not_inj_length :
  join 46%N [] = join 46%N [[]] /\ ([] : list (list N)) <> [[]].
Proof. split; [reflexivity|]. intros Hc. discriminate Hc. Qed.

Print Assumptions pc_num_counts.
Print Assumptions pc2_num_counts.
Print Assumptions pc_den_counts.
Print Assumptions pc_num_le_den.
Print Assumptions pc2_num_le_den.
Print Assumptions pc_perm.
Print Assumptions pc2_perm.
Print Assumptions pc_num_relabel.
Print Assumptions pc2_num_relabel.
Print Assumptions pc2_num_sym.
Print Assumptions join_inj.
Print Assumptions join_not_inj_unguarded.
Check pc_num_relabel.
Check pc2_num_relabel.
