(* The pc_n generated from stats.py, applied to the multiplicity vector, is the counting definition. *)
From Coq Require Import List QArith ZArith Bool Arith Lia Qfield Lqa.
From PV Require Import lib.Val gen.Gen_stats model.Pc proofs.PcP.
Import ListNotations.

Definition qn (n : nat) : Q := inject_Z (Z.of_nat n).

Lemma qn_plus a b : qn (a + b) == qn a + qn b.
Proof. unfold qn. rewrite Nat2Z.inj_add, inject_Z_plus. reflexivity. Qed.
Lemma qn_mult a b : qn (a * b) == qn a * qn b.
Proof. unfold qn. rewrite Nat2Z.inj_mul, inject_Z_mult. reflexivity. Qed.
Lemma qn_pred_mul c : qn (c * (c - 1)) == qn c * (qn c - 1).
Proof.
  destruct c as [|c]; [unfold qn; simpl; reflexivity|].
  replace (S c - 1)%nat with c by lia. rewrite qn_mult.
  assert (qn (S c) == qn c + 1) as ->; [|ring].
  replace (S c) with (c + 1)%nat by lia. rewrite qn_plus. reflexivity.
Qed.

Lemma sumQ_qn l : sumQ (map qn l) == qn (list_sum l).
Proof. induction l as [|x l IH]; simpl; [reflexivity|]. rewrite IH, qn_plus. reflexivity. Qed.

Lemma sumQf_id l : sumQf (fun x => x) (map qn l) == qn (list_sum l).
Proof. unfold sumQf. rewrite map_id. apply sumQ_qn. Qed.

Lemma sumQf_ff2 l : sumQf (fun x => x * (x - (1 # 1))) (map qn l) == qn (list_sum (map (fun c => (c * (c - 1))%nat) l)).
Proof.
  unfold sumQf. induction l as [|x l IH]; simpl; [reflexivity|].
  rewrite IH, qn_plus, qn_pred_mul. reflexivity.
Qed.

Section G.
Context {X : Type}.
Variable eqd : forall a b : X, {a = b} + {a <> b}.

Lemma mults_sum (l : list X) : list_sum (mults eqd l) = length l.
Proof.
  unfold mults.
  pose proof (sum_nodup_weighted eqd (fun _ => 1%nat) l) as H.
  rewrite (map_ext (fun v => (1 * count_occ eqd l v)%nat) (count_occ eqd l)) in H by (intros; lia).
  rewrite H. clear H. induction l as [|x l IH]; simpl; auto.
Qed.

Theorem gen_pc_n_counts (l : list X) : (2 <= length l)%nat ->
  gen_pc_n_Q (map qn (mults eqd l)) == qn (pc_num eqd l) / qn (pc_den l).
Proof.
  (* the sums are brought to closed form, the rest is `field`: algebraically equivalent ways of writing the quotient still check *)
  intros L. unfold gen_pc_n_Q. cbv zeta.
  rewrite ?sumQf_id, ?sumQf_ff2, ?mults_sum. unfold pc_num, pc_den.
  rewrite (qn_mult (length l)).
  assert (E: qn (length l - 1) == qn (length l) - (1 # 1)).
  { replace (length l) with ((length l - 1) + 1)%nat at 2 by lia. rewrite qn_plus. unfold qn at 3. simpl. ring. }
  rewrite E.
  assert (G : 1 < qn (length l)) by (unfold qn, Qlt; simpl; lia).
  set (n := qn (length l)) in *. set (s := qn (list_sum _)).
  field; repeat split; intros H; nra.
Qed.

Theorem gen_pc_n_defined_iff (l : list X) : (2 <= length l)%nat -> gen_pc_n_defined (map qn (mults eqd l)) = true.
Proof.
  intros L. unfold gen_pc_n_defined. cbv zeta. rewrite andb_true_r. apply negb_true_iff.
  destruct (Qeq_bool _ 0) eqn:E; auto. apply Qeq_bool_iff in E. exfalso.
  rewrite sumQf_id, mults_sum in E.
  assert (1 < qn (length l)).
  { unfold qn, Qlt, inject_Z; simpl. lia. }
  nra.
Qed.
End G.
