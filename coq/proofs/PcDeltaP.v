(* C05: proofs about model/PcDelta.v (histogram, pair enumeration, zero bin, normalisation tail,
   maxseqs, background bins). No axioms. *)
From Coq Require Import List QArith NArith ZArith Bool Arith Lia Lqa Permutation.
From PV Require Import lib.Condensed lib.Edits lib.LevDP lib.Str lib.Val model.Pc model.Resample model.PcDelta.
From PV Require Import gen.Gen_data gen.Gen_c05 proofs.CondensedP proofs.PcP proofs.ResampleP.
Import ListNotations.
Close Scope Q_scope.
Open Scope nat_scope.

(* ------------------------------------------------------------------ *)
(* 0. small facts                                                       *)
(* ------------------------------------------------------------------ *)
Definition b2n (b : bool) : nat := if b then 1 else 0.

Lemma Qle_bool_false x y : Qle_bool x y = false <-> (y < x)%Q.
Proof.
  split.
  - intros H. apply Qnot_le_lt. intros L. apply Qle_bool_iff in L. congruence.
  - intros H. destruct (Qle_bool x y) eqn:E; [|reflexivity].
    apply Qle_bool_iff in E. exfalso. exact (Qlt_not_le _ _ H E).
Qed.

Lemma qn_le a b : (qn a <= qn b)%Q <-> a <= b.
Proof. unfold qn. rewrite <- Zle_Qle. lia. Qed.
Lemma qn_lt a b : (qn a < qn b)%Q <-> a < b.
Proof. unfold qn. rewrite <- Zlt_Qlt. lia. Qed.
Lemma qn_eq a b : (qn a == qn b)%Q <-> a = b.
Proof. unfold qn. rewrite inject_Z_injective. lia. Qed.
Lemma qn_add a b : (qn (a + b) == qn a + qn b)%Q.
Proof. unfold qn. rewrite Nat2Z.inj_add, inject_Z_plus. reflexivity. Qed.
Lemma qn_nonneg a : (0 <= qn a)%Q.
Proof. change 0%Q with (qn 0). apply qn_le. lia. Qed.
Lemma Qle_bool_qn a b : Qle_bool (qn a) (qn b) = (a <=? b).
Proof.
  destruct (Nat.leb_spec a b) as [H|H].
  - apply Qle_bool_iff, qn_le, H.
  - apply Qle_bool_false, qn_lt, H.
Qed.

Lemma length_filter_b2n {A} (p : A -> bool) (l : list A) :
  length (filter p l) = list_sum (map (fun x => b2n (p x)) l).
Proof. induction l as [|a l IH]; simpl; [reflexivity|]. destruct (p a); simpl; rewrite IH; reflexivity. Qed.

Lemma perm_filter_length {A} (p : A -> bool) (l l' : list A) :
  Permutation l l' -> length (filter p l) = length (filter p l').
Proof.
  intros P. induction P as [|x l l' P IH|x y l|l l' l'' P1 IH1 P2 IH2]; simpl.
  - reflexivity.
  - destruct (p x); simpl; rewrite IH; reflexivity.
  - destruct (p x), (p y); reflexivity.
  - congruence.
Qed.

Lemma length_filter_filter {A} (f g : A -> bool) (l : list A) :
  length (filter (fun x => f x && g x) l) = length (filter g (filter f l)).
Proof.
  induction l as [|a l IH]; simpl; [reflexivity|].
  destruct (f a) eqn:Ef, (g a) eqn:Eg; simpl; rewrite ?Eg; simpl; rewrite ?IH; reflexivity.
Qed.

(* ------------------------------------------------------------------ *)
(* 1. histogram: bin t holds the number of values in bin t              *)
(* ------------------------------------------------------------------ *)
Lemma histogram_length edges vals : length (histogram edges vals) = length edges - 1.
Proof. unfold histogram. now rewrite map_length, seq_length. Qed.

Lemma histogram_nth edges vals t : t < length edges - 1 ->
  nth t (histogram edges vals) 0 = length (filter (in_bin edges t) vals).
Proof.
  intros H. unfold histogram.
  set (F := fun t => length (filter (in_bin edges t) vals)).
  rewrite (nth_indep _ 0 (F 0)) by now rewrite map_length, seq_length.
  rewrite (map_nth F), seq_nth by exact H. reflexivity.
Qed.

Lemma in_bin_spec edges t v :
  in_bin edges t v = true <->
  (nth t edges 0 <= v)%Q /\
  (if S (S t) =? length edges then (v <= nth (S t) edges 0)%Q else (v < nth (S t) edges 0)%Q).
Proof.
  unfold in_bin. rewrite andb_true_iff, Qle_bool_iff.
  destruct (S (S t) =? length edges).
  - now rewrite Qle_bool_iff.
  - now rewrite negb_true_iff, Qle_bool_false.
Qed.

(* ------------------------------------------------------------------ *)
(* 2. total: with increasing edges every value inside the outer edges   *)
(*    falls in exactly one bin, every other value in none               *)
(* ------------------------------------------------------------------ *)
Definition cnt (e : list Q) (v : Q) : nat :=
  list_sum (map (fun t => b2n (in_bin e t v)) (seq 0 (length e - 1))).

Lemma in_bin_cons_S a e t v : in_bin (a :: e) (S t) v = in_bin e t v.
Proof. reflexivity. Qed.

Lemma cnt_cons a b r v : cnt (a :: b :: r) v = b2n (in_bin (a :: b :: r) 0 v) + cnt (b :: r) v.
Proof.
  unfold cnt. cbn [length]. replace (S (S (length r)) - 1) with (S (length r)) by lia.
  replace (S (length r) - 1) with (length r) by lia.
  cbn [seq map list_sum]. f_equal. rewrite <- seq_shift, map_map. reflexivity.
Qed.

Lemma incr_last r : forall b, increasing (b :: r) -> r <> [] -> (b < last r 0)%Q.
Proof.
  induction r as [|c r IH]; intros b H Hne; [congruence|].
  destruct H as [Hbc Hr]. destruct r as [|c' r'].
  - exact Hbc.
  - change (last (c :: c' :: r') 0%Q) with (last (c' :: r') 0%Q).
    eapply Qlt_trans; [exact Hbc|]. apply IH; [exact Hr|discriminate].
Qed.

Lemma cnt_inside e v : increasing e -> cnt e v = b2n (inside e v).
Proof.
  induction e as [|a e IH]; intros Hinc; [reflexivity|].
  destruct e as [|b r]; [reflexivity|].
  rewrite cnt_cons. destruct Hinc as [Hab Hinc]. rewrite (IH Hinc). clear IH.
  destruct r as [|c r'].
  - unfold in_bin, inside. cbn [nth length last Nat.eqb].
    destruct (Qle_bool a v && Qle_bool v b); reflexivity.
  - assert (Hbl : (b < last (c :: r') 0)%Q) by (apply incr_last; [exact Hinc|discriminate]).
    unfold in_bin. cbn [nth length Nat.eqb].
    replace (S (S (length r')) =? length r') with false by (symmetry; apply Nat.eqb_neq; lia).
    unfold inside. change (last (b :: c :: r') 0%Q) with (last (c :: r') 0%Q).
    set (L := last (c :: r') 0%Q) in *.
    destruct (Qle_bool a v) eqn:E1, (Qle_bool b v) eqn:E2, (Qle_bool v L) eqn:E3; cbn; try reflexivity;
      rewrite ?Qle_bool_iff, ?Qle_bool_false in *; exfalso; lra.
Qed.

Lemma hist_swap e vals : list_sum (histogram e vals) = list_sum (map (cnt e) vals).
Proof.
  unfold histogram, cnt. set (ts := seq 0 (length e - 1)). clearbody ts.
  induction vals as [|v vals IH]; cbn [map list_sum filter length].
  - rewrite list_sum_map_const. simpl. lia.
  - transitivity (list_sum (map (fun t => b2n (in_bin e t v)) ts)
                  + list_sum (map (fun t => length (filter (in_bin e t) vals)) ts)).
    + rewrite <- list_sum_map_add. f_equal. apply map_ext. intros t.
      destruct (in_bin e t v); reflexivity.
    + rewrite IH. reflexivity.
Qed.

Theorem hist_total e vals : increasing e ->
  list_sum (histogram e vals) = length (filter (inside e) vals).
Proof.
  intros H. rewrite hist_swap, length_filter_b2n. f_equal. apply map_ext. intros v. now apply cnt_inside.
Qed.

Corollary hist_total_le e vals : increasing e -> list_sum (histogram e vals) <= length vals.
Proof. intros H. rewrite hist_total by exact H. apply length_filter_le. Qed.

Corollary hist_total_all e vals : increasing e -> forallb (inside e) vals = true ->
  list_sum (histogram e vals) = length vals.
Proof.
  intros H F. rewrite hist_total by exact H. clear H.
  induction vals as [|v vals IH]; [reflexivity|]. cbn in *. apply andb_true_iff in F. destruct F as [F1 F2].
  rewrite F1. cbn. now rewrite IH.
Qed.

(* ------------------------------------------------------------------ *)
(* 3. which pairs are fed to the histogram                              *)
(* ------------------------------------------------------------------ *)
Lemma NoDup_map_pair {A B} (a : A) (lb : list B) : NoDup lb -> NoDup (map (pair a) lb).
Proof.
  induction 1 as [|b lb Hn Hnd IH]; cbn; constructor; [|exact IH].
  intros Hin. apply in_map_iff in Hin. destruct Hin as [y [E Hy]]. inversion E. subst. exact (Hn Hy).
Qed.

Lemma NoDup_list_prod {A B} (la : list A) (lb : list B) : NoDup la -> NoDup lb -> NoDup (list_prod la lb).
Proof.
  intros Ha Hb. induction Ha as [|a la Hn Hnd IH]; cbn; [constructor|].
  apply NoDup_app_intro; [now apply NoDup_map_pair|exact IH|].
  intros [x y] H1 H2. apply in_map_iff in H1. destruct H1 as [y' [E _]]. inversion E. subst.
  apply in_prod_iff in H2. exact (Hn (proj1 H2)).
Qed.

Lemma in_pairs_lt n i j : In (i, j) (pairs_lt n) <-> i < j /\ j < n.
Proof.
  unfold pairs_lt. rewrite filter_In, in_prod_iff, !in_seq. cbn [fst snd]. rewrite Nat.ltb_lt. lia.
Qed.

Lemma NoDup_pairs_lt n : NoDup (pairs_lt n).
Proof. apply NoDup_filter, NoDup_list_prod; apply seq_NoDup. Qed.

Lemma upper_perm n : Permutation (upper n) (pairs_lt n).
Proof.
  apply NoDup_Permutation; [apply NoDup_upper|apply NoDup_pairs_lt|].
  intros [i j]. now rewrite in_upper, in_pairs_lt.
Qed.

Lemma length_pairs_lt n : length (pairs_lt n) = n * (n - 1) / 2.
Proof. rewrite <- (Permutation_length (upper_perm n)). apply length_upper. Qed.

Lemma list_prod_map_l {A A' B} (g : A -> A') (la : list A) (lb : list B) :
  list_prod (map g la) lb = map (fun p => (g (fst p), snd p)) (list_prod la lb).
Proof.
  induction la as [|a la IH]; cbn; [reflexivity|]. rewrite IH, map_app, map_map. reflexivity.
Qed.

Section PairsP.
Context {X : Type}.
Variable metric : X -> X -> nat.
Variable d0 : X.

Lemma pdist_vals_upper (xs : list X) :
  pdist_vals metric d0 xs = map (dist_at metric d0 xs xs) (upper (length xs)).
Proof. unfold pdist_vals, pdist_loop, dist_at. now rewrite map_map. Qed.

(* one collection: exactly the unordered pairs of distinct positions, each once *)
Theorem pdist_vals_pairs (xs : list X) :
  Permutation (pdist_vals metric d0 xs) (map (dist_at metric d0 xs xs) (pairs_lt (length xs))).
Proof. rewrite pdist_vals_upper. apply Permutation_map, upper_perm. Qed.

(* two collections: every i with every j, row-major *)
Theorem cdist_vals_pairs (xs ys : list X) :
  cdist_vals metric xs ys = map (dist_at metric d0 xs ys) (pairs_cross (length xs) (length ys)).
Proof.
  unfold cdist_vals, cdist_loop, pairs_cross.
  induction xs as [|x xs IH]; [reflexivity|].
  cbn [map concat length seq list_prod]. rewrite !map_app, IH. f_equal.
  - rewrite !map_map. unfold dist_at. cbn [fst snd nth].
    rewrite <- (map_nth_seq d0 ys) at 1. now rewrite map_map.
  - rewrite <- seq_shift, list_prod_map_l, map_map. apply map_ext. intros [i j]. reflexivity.
Qed.

Theorem counts_self (edges : list Q) (xs : list X) (t : nat) : t < length edges - 1 ->
  nth t (pcdelta_counts metric d0 edges xs None) 0
  = length (filter (fun ij => in_bin edges t (dist_at metric d0 xs xs ij)) (pairs_lt (length xs))).
Proof.
  intros H. unfold pcdelta_counts, pcdelta_vals. rewrite histogram_nth by exact H.
  rewrite (perm_filter_length _ _ _ (pdist_vals_pairs xs)). apply length_filter_map.
Qed.

Theorem counts_cross (edges : list Q) (xs ys : list X) (t : nat) : t < length edges - 1 ->
  nth t (pcdelta_counts metric d0 edges xs (Some ys)) 0
  = length (filter (fun ij => in_bin edges t (dist_at metric d0 xs ys ij)) (pairs_cross (length xs) (length ys))).
Proof.
  intros H. unfold pcdelta_counts, pcdelta_vals. rewrite histogram_nth by exact H.
  rewrite cdist_vals_pairs. apply length_filter_map.
Qed.

Lemma pdist_vals_length xs : length (pdist_vals metric d0 xs) = length xs * (length xs - 1) / 2.
Proof. unfold pdist_vals. rewrite map_length. apply pdist_loop_length. Qed.
Lemma cdist_vals_length xs ys : length (cdist_vals metric xs ys) = length xs * length ys.
Proof. rewrite cdist_vals_pairs, map_length. unfold pairs_cross. now rewrite prod_length, !seq_length. Qed.

Theorem counts_total (edges : list Q) (xs : list X) (ys : option (list X)) : increasing edges ->
  list_sum (pcdelta_counts metric d0 edges xs ys) = length (filter (inside edges) (pcdelta_vals metric d0 xs ys))
  /\ list_sum (pcdelta_counts metric d0 edges xs ys)
     <= match ys with None => length xs * (length xs - 1) / 2 | Some y => length xs * length y end.
Proof.
  intros H. split; [now apply hist_total|].
  unfold pcdelta_counts. eapply Nat.le_trans; [now apply hist_total_le|].
  destruct ys; cbn; [now rewrite cdist_vals_length|now rewrite pdist_vals_length].
Qed.
End PairsP.

(* ------------------------------------------------------------------ *)
(* 4. the zero bin of the Levenshtein histogram and pc                  *)
(* ------------------------------------------------------------------ *)
(* integer edges a, a+1: the bin holds exactly the integer value a (when it is not the last bin) *)
Lemma in_bin_int edges t a d :
  nth t edges 0%Q = qn a -> nth (S t) edges 0%Q = qn (S a) -> S (S t) <> length edges ->
  in_bin edges t (qn d) = (d =? a).
Proof.
  intros H1 H2 H3. unfold in_bin. rewrite H1, H2, !Qle_bool_qn.
  apply Nat.eqb_neq in H3. rewrite H3.
  destruct (Nat.leb_spec a d), (Nat.leb_spec (S a) d), (Nat.eqb_spec d a); cbn; try reflexivity; lia.
Qed.

(* ... and the last bin holds a and a+1 *)
Lemma in_bin_int_last edges t a d :
  nth t edges 0%Q = qn a -> nth (S t) edges 0%Q = qn (S a) -> S (S t) = length edges ->
  in_bin edges t (qn d) = ((d =? a) || (d =? S a)).
Proof.
  intros H1 H2 H3. unfold in_bin. rewrite H1, H2, !Qle_bool_qn.
  apply Nat.eqb_eq in H3. rewrite H3.
  destruct (Nat.leb_spec a d), (Nat.leb_spec d (S a)), (Nat.eqb_spec d a), (Nat.eqb_spec d (S a)); cbn; try reflexivity; lia.
Qed.

Lemma slev_eqb a b : (slev a b =? 0) = str_eqb a b.
Proof.
  unfold slev. destruct (Nat.eqb_spec (lev N.eq_dec a b) 0) as [H|H].
  - apply lev_zero_iff in H. symmetry. now apply str_eqb_eq.
  - destruct (str_eqb a b) eqn:E; [|reflexivity]. apply str_eqb_eq in E. apply (lev_zero_iff N.eq_dec) in E. contradiction.
Qed.

Theorem zero_bin_equal_pairs (xs : list str) (e2 : Q) (rest : list Q) :
  nth 0 (pcdelta_counts slev [] (qn 0 :: qn 1 :: e2 :: rest) xs None) 0 = length (equal_pairs xs).
Proof.
  unfold pcdelta_counts, pcdelta_vals. rewrite histogram_nth by (cbn; lia).
  rewrite pdist_vals_upper, length_filter_map. unfold equal_pairs. f_equal.
  apply filter_ext. intros [i j]. unfold dist_at. cbn [fst snd].
  rewrite (in_bin_int _ 0 0); [apply slev_eqb|reflexivity|reflexivity|cbn; lia].
Qed.

(* ordered pairs of distinct positions = twice the unordered ones, for a symmetric predicate *)
Lemma split_ne (q : nat * nat -> bool) (P : list (nat * nat)) :
  length (filter (fun ij => negb (fst ij =? snd ij) && q ij) P)
  = length (filter (fun ij => (fst ij <? snd ij) && q ij) P)
    + length (filter (fun ij => (snd ij <? fst ij) && q ij) P).
Proof.
  induction P as [|[i j] P IH]; [reflexivity|]. cbn [filter fst snd].
  destruct (Nat.eqb_spec i j), (Nat.ltb_spec i j), (Nat.ltb_spec j i); try lia;
    cbn [negb andb]; destruct (q (i, j)); cbn [length]; rewrite IH; lia.
Qed.

Lemma NoDup_map_inj {A B} (g : A -> B) (l : list A) :
  (forall x y, g x = g y -> x = y) -> NoDup l -> NoDup (map g l).
Proof.
  intros Hinj. induction 1 as [|a l Hn Hnd IH]; cbn; constructor; [|exact IH].
  intros Hin. apply in_map_iff in Hin. destruct Hin as [y [E Hy]]. apply Hinj in E. subst. exact (Hn Hy).
Qed.

Definition swap (ij : nat * nat) : nat * nat := (snd ij, fst ij).

Lemma prod_swap_perm n : Permutation (list_prod (seq 0 n) (seq 0 n)) (map swap (list_prod (seq 0 n) (seq 0 n))).
Proof.
  apply NoDup_Permutation.
  - apply NoDup_list_prod; apply seq_NoDup.
  - apply NoDup_map_inj; [|apply NoDup_list_prod; apply seq_NoDup].
    intros [a b] [c d] E. unfold swap in E. cbn in E. inversion E. reflexivity.
  - intros [i j]. rewrite in_map_iff. split.
    + intros H. exists (j, i). split; [reflexivity|]. apply in_prod_iff in H. apply in_prod_iff. tauto.
    + intros [[a b] [E H]]. unfold swap in E. cbn in E. inversion E. subst.
      apply in_prod_iff in H. apply in_prod_iff. tauto.
Qed.

Lemma ordered_twice (q : nat * nat -> bool) (n : nat) : (forall ij, q (swap ij) = q ij) ->
  length (filter (fun ij => negb (fst ij =? snd ij) && q ij) (list_prod (seq 0 n) (seq 0 n)))
  = 2 * length (filter q (pairs_lt n)).
Proof.
  intros Hsym. rewrite split_ne.
  rewrite (perm_filter_length (fun ij => (snd ij <? fst ij) && q ij) _ _ (prod_swap_perm n)).
  rewrite length_filter_map.
  rewrite (filter_ext (fun x => (snd (swap x) <? fst (swap x)) && q (swap x)) (fun ij => (fst ij <? snd ij) && q ij))
    by (intros [i j]; rewrite Hsym; reflexivity).
  rewrite length_filter_filter. fold (pairs_lt n). lia.
Qed.

Lemma eq_at_nth (xs : list str) i j : i < length xs -> j < length xs ->
  eq_at str_eq_dec xs xs i j = str_eqb (nth i xs []) (nth j xs []).
Proof.
  intros Hi Hj. unfold eq_at. rewrite (nth_error_nth' xs [] Hi), (nth_error_nth' xs [] Hj). reflexivity.
Qed.

Lemma eq_at_sym (xs : list str) i j : eq_at str_eq_dec xs xs i j = eq_at str_eq_dec xs xs j i.
Proof.
  unfold eq_at. destruct (nth_error xs i) as [a|], (nth_error xs j) as [b|]; try reflexivity.
  unfold eqbX. destruct (str_eq_dec a b), (str_eq_dec b a); congruence.
Qed.

Theorem equal_pairs_pc (xs : list str) : 2 * length (equal_pairs xs) = pc_num str_eq_dec xs.
Proof.
  rewrite pc_num_counts. unfold coinc_pairs.
  rewrite (ordered_twice (fun ij => eq_at str_eq_dec xs xs (fst ij) (snd ij)))
    by (intros [i j]; apply eq_at_sym).
  f_equal. unfold equal_pairs. rewrite (perm_filter_length _ _ _ (upper_perm (length xs))).
  f_equal. apply filter_ext_in. intros [i j] H. apply in_pairs_lt in H. cbn [fst snd].
  symmetry. apply eq_at_nth; lia.
Qed.

Lemma total_pairs_pc {X} (xs : list X) : 2 * (length xs * (length xs - 1) / 2) = pc_den xs.
Proof.
  unfold pc_den. set (n := length xs).
  assert (E : Nat.even (n * (n - 1)) = true).
  { rewrite Nat.even_mul. destruct n as [|k]; [reflexivity|]. replace (S k - 1) with k by lia.
    rewrite Nat.even_succ. destruct (Nat.even k) eqn:Ek; [now rewrite orb_true_r|].
    rewrite <- Nat.negb_even, Ek. reflexivity. }
  apply Nat.even_spec in E. destruct E as [m Hm]. rewrite Hm.
  rewrite (Nat.mul_comm 2 m), Nat.div_mul by lia. lia.
Qed.

(* ------------------------------------------------------------------ *)
(* 5. the regenerated tail: raw counts, normalisation, pseudocount      *)
(* ------------------------------------------------------------------ *)
Definition oq_eq (a b : option Q) : Prop :=
  match a, b with Some x, Some y => (x == y)%Q | None, None => True | _, _ => False end.

Lemma Forall2_map_same {A B C} (R : B -> C -> Prop) (f : A -> B) (g : A -> C) (l : list A) :
  (forall x, In x l -> R (f x) (g x)) -> Forall2 R (map f l) (map g l).
Proof.
  induction l as [|a l IH]; intros H; cbn; constructor.
  - apply H. now left.
  - apply IH. intros x Hx. apply H. now right.
Qed.

Lemma sumQ_qn (h : list nat) : (sumQ (map qn h) == qn (list_sum h))%Q.
Proof.
  induction h as [|a h IH]; [reflexivity|]. cbn [map sumQ].
  change (list_sum (a :: h)) with (a + list_sum h). rewrite qn_add, IH. reflexivity.
Qed.

Lemma qn_pos n : 0 < n -> (0 < qn n)%Q.
Proof. intros H. change 0%Q with (qn 0). now apply qn_lt. Qed.

Theorem tail_raw (c : Q) (h : list Q) : gen_pcdelta_tail false c h = map Some h.
Proof. reflexivity. Qed.

Ltac tail_elem :=
  unfold np_div;
  match goal with |- oq_eq (if Qeq_bool ?d 0 then _ else _) _ =>
    let E := fresh "E" in destruct (Qeq_bool d 0) eqn:E;
    [apply Qeq_bool_iff in E; rewrite ?sumQ_qn in E; exfalso; lra
    |cbn [oq_eq]; rewrite ?sumQ_qn; field; lra] end.

Theorem tail_norm (c : Q) (h : list nat) : 0 < total h -> (c == 0)%Q ->
  Forall2 oq_eq (gen_pcdelta_tail true c (map qn h)) (map Some (normalize h)).
Proof.
  intros Ht Hc. pose proof (qn_pos _ Ht) as Hpos. unfold total in *.
  assert (E0 : Qeq_bool c 0 = true) by now apply Qeq_bool_iff.
  unfold gen_pcdelta_tail, normalize, total. cbn [negb]. rewrite ?E0. cbn [negb]. cbv zeta.
  rewrite !map_map. apply Forall2_map_same. intros x _. tail_elem.
Qed.

Theorem tail_norm_nan (c : Q) (h : list nat) : total h = 0 -> (c == 0)%Q ->
  Forall (fun o => o = None) (gen_pcdelta_tail true c (map qn h)).
Proof.
  intros Ht Hc. unfold total in *.
  assert (E0 : Qeq_bool c 0 = true) by now apply Qeq_bool_iff.
  assert (Es : Qeq_bool (sumQ (map qn h)) 0 = true).
  { apply Qeq_bool_iff. rewrite sumQ_qn, Ht. reflexivity. }
  unfold gen_pcdelta_tail. cbn [negb]. rewrite ?E0. cbn [negb]. cbv zeta.
  rewrite ?map_map. apply Forall_forall. intros o Ho. apply in_map_iff in Ho. destruct Ho as [x [Hx _]].
  subst o. unfold np_div. rewrite ?Es. reflexivity.
Qed.

Theorem tail_pseudo (c : Q) (h : list nat) : (0 < c)%Q ->
  Forall2 oq_eq (gen_pcdelta_tail true c (map qn h)) (map Some (pseudo c h)).
Proof.
  intros Hc. pose proof (qn_nonneg (list_sum h)) as Hpos.
  assert (E0 : Qeq_bool c 0 = false).
  { destruct (Qeq_bool c 0) eqn:E; [|reflexivity]. apply Qeq_bool_iff in E. lra. }
  unfold gen_pcdelta_tail, pseudo, total. cbn [negb]. rewrite ?E0. cbn [negb]. cbv zeta.
  rewrite !map_map. apply Forall2_map_same. intros x _. tail_elem.
Qed.

Lemma sumQ_div (T : Q) (l : list Q) : (sumQ (map (fun x => x / T) l) == sumQ l / T)%Q.
Proof.
  induction l as [|a l IH]; cbn [map sumQ]; [unfold Qdiv; ring|]. rewrite IH. unfold Qdiv. ring.
Qed.

Theorem normalize_sums_to_one (h : list nat) : 0 < total h -> (sumQ (normalize h) == 1)%Q.
Proof.
  intros Ht. pose proof (qn_pos _ Ht) as Hpos. unfold normalize.
  rewrite <- (map_map qn (fun x => (x / qn (total h))%Q)), sumQ_div, sumQ_qn. unfold total in *. field. lra.
Qed.

Theorem normalize_range (h : list nat) x : 0 < total h -> In x (normalize h) -> (0 <= x <= 1)%Q.
Proof.
  intros Ht Hx. unfold normalize in Hx. apply in_map_iff in Hx. destruct Hx as [c [E Hc]]. subst x.
  pose proof (qn_pos _ Ht) as Hpos.
  assert (Hle : c <= total h).
  { unfold total. clear -Hc. induction h as [|a h IH]; [destruct Hc|].
    change (list_sum (a :: h)) with (a + list_sum h). destruct Hc as [->|Hc]; [lia|]. specialize (IH Hc). lia. }
  apply qn_le in Hle. pose proof (qn_nonneg c) as H0. split.
  - apply Qle_shift_div_l; [exact Hpos|]. lra.
  - apply Qle_shift_div_r; [exact Hpos|]. lra.
Qed.

(* with a pseudocount the entries sum to (total + bins*c)/(total + 2c): one only for two bins *)
Lemma sumQ_plus_const (c : Q) (l : list Q) : (sumQ (map (fun x => x + c) l) == sumQ l + qn (length l) * c)%Q.
Proof.
  induction l as [|a l IH]; cbn [map sumQ length]; [unfold qn; cbn; ring|].
  rewrite IH. replace (S (length l)) with (1 + length l) by lia. rewrite qn_add. change (qn 1) with 1%Q. ring.
Qed.

Theorem pseudo_sum (c : Q) (h : list nat) : (0 < c)%Q ->
  (sumQ (pseudo c h) == (qn (total h) + qn (length h) * c) / (qn (total h) + 2 * c))%Q.
Proof.
  intros Hc. pose proof (qn_nonneg (total h)) as Hpos. unfold pseudo.
  rewrite <- (map_map (fun x => (qn x + c)%Q) (fun y => (y / (qn (total h) + 2 * c))%Q)), sumQ_div.
  rewrite <- (map_map qn (fun y => (y + c)%Q)), sumQ_plus_const, sumQ_qn, map_length. reflexivity.
Qed.

(* ------------------------------------------------------------------ *)
(* 6. maxseqs                                                           *)
(* ------------------------------------------------------------------ *)
Lemma pcd_downsample_eq {X} (d : X) (xs : list X) (m : nat) (S : list nat) : length S = m ->
  pcd_downsample d xs (Some m) S = downsample d xs (Some m) S.
Proof.
  intros H. unfold pcd_downsample, downsample, gen_downsample_keep, gen_downsample_size.
  destruct (length xs <=? m); [reflexivity|]. subst m. now rewrite firstn_all.
Qed.

Theorem maxseqs_id {X} (d : X) (xs : list X) (maxseqs : option nat) (S : list nat) :
  maxseqs = None \/ (exists m, maxseqs = Some m /\ length xs <= m) ->
  pcd_downsample d xs maxseqs S = xs.
Proof.
  intros [->|[m [-> H]]]; [reflexivity|]. unfold pcd_downsample, gen_downsample_keep.
  apply Nat.leb_le in H. now rewrite H.
Qed.

Theorem maxseqs_sub {X} (d : X) (xs : list X) (m : nat) (S : list nat) :
  m < length xs -> NoDup S -> length S = m -> (forall t, In t S -> t < length xs) ->
  let r := pcd_downsample d xs (Some m) S in
  length r = m /\ exists rest, Permutation xs (r ++ rest).
Proof.
  intros Hm Hnd Hl Hlt. cbv zeta. rewrite pcd_downsample_eq by exact Hl.
  exact (downsample_sub' d xs (Some m) m S eq_refl Hm Hnd Hl Hlt).
Qed.

(* ------------------------------------------------------------------ *)
(* 7. background table bins                                             *)
(* ------------------------------------------------------------------ *)
Lemma nth_unit_edges k t : t <= k -> nth t (map qn (seq 0 (S k))) 0%Q = qn t.
Proof.
  intros H. rewrite (nth_indep _ 0%Q (qn 0)) by (rewrite map_length, seq_length; lia).
  rewrite map_nth, seq_nth by lia. reflexivity.
Qed.

(* edges 0,1,...,k : bin t < k-1 holds exactly distance t, the last bin k-1 holds k-1 and k *)
Theorem in_bin_unit_edges k t d : t < k ->
  in_bin (map qn (seq 0 (S k))) t (qn d) = if S t =? k then (d =? t) || (d =? S t) else (d =? t).
Proof.
  intros H. destruct (Nat.eqb_spec (S t) k) as [E|E].
  - apply in_bin_int_last; [apply nth_unit_edges; lia|apply nth_unit_edges; lia|].
    rewrite map_length, seq_length. lia.
  - apply in_bin_int; [apply nth_unit_edges; lia|apply nth_unit_edges; lia|].
    rewrite map_length, seq_length. lia.
Qed.

Lemma increasing_unit_edges k : increasing (map qn (seq 0 k)).
Proof.
  generalize 0. induction k as [|k IH]; intros s; [exact I|].
  cbn [seq map]. destruct k as [|k']; [exact I|]. specialize (IH (S s)). cbn [seq map] in *.
  split; [apply qn_lt; lia|exact IH].
Qed.

(* ------------------------------------------------------------------ *)
(* 8. assembled statements used by props/C05.v                          *)
(* ------------------------------------------------------------------ *)
Lemma pcdelta_counts_ext {X} (m m' : X -> X -> nat) (d0 : X) edges xs ys :
  (forall a b, m a b = m' a b) -> pcdelta_counts m d0 edges xs ys = pcdelta_counts m' d0 edges xs ys.
Proof.
  intros H. unfold pcdelta_counts, pcdelta_vals. f_equal. destruct ys as [y|].
  - unfold cdist_vals, cdist_loop. do 2 f_equal. apply map_ext. intros a. apply map_ext. intros b. apply H.
  - unfold pdist_vals, pdist_loop. f_equal. apply map_ext. intros ij. apply H.
Qed.

Theorem zero_bin_pc (m : str -> str -> nat) (xs : list str) (e2 : Q) (rest : list Q) :
  (forall a b, m a b = slev a b) ->
  let h := pcdelta_counts m [] (qn 0 :: qn 1 :: e2 :: rest) xs None in
  nth 0 h 0 = length (equal_pairs xs) /\ 2 * nth 0 h 0 = pc_num str_eq_dec xs.
Proof.
  intros H h. subst h. rewrite (pcdelta_counts_ext m slev) by exact H.
  rewrite zero_bin_equal_pairs. split; [reflexivity|apply equal_pairs_pc].
Qed.

(* when the edges cover every distance, the normalised zero bin IS pc *)
Theorem zero_bin_normalised_is_pc (m : str -> str -> nat) (xs : list str) (e2 : Q) (rest : list Q) :
  (forall a b, m a b = slev a b) -> 2 <= length xs ->
  let edges := qn 0 :: qn 1 :: e2 :: rest in
  increasing edges -> forallb (inside edges) (pdist_vals m [] xs) = true ->
  let h := pcdelta_counts m [] edges xs None in
  (qn (nth 0%nat h 0%nat) / qn (total h) == qn (pc_num str_eq_dec xs) / qn (pc_den xs))%Q.
Proof.
  intros H L edges Hinc Hall h.
  destruct (zero_bin_pc m xs e2 rest H) as [_ H2]. fold edges in H2. fold h in H2.
  assert (Ht : total h = length xs * (length xs - 1) / 2).
  { unfold total, h, pcdelta_counts, pcdelta_vals. rewrite hist_total_all by assumption. apply pdist_vals_length. }
  pose proof (total_pairs_pc xs) as Hd. rewrite <- Ht in Hd.
  assert (Hpos : 0 < pc_den xs) by (unfold pc_den; nia).
  rewrite <- H2, <- Hd.
  assert (Hq : (0 < qn (total h))%Q) by (apply qn_pos; lia).
  replace (2 * nth 0 h 0) with (nth 0 h 0 + nth 0 h 0) by lia.
  replace (2 * total h) with (total h + total h) by lia.
  rewrite !qn_add. field. lra.
Qed.

Theorem maxseqs_counts {X} (metric : X -> X -> nat) (d0 : X) (edges : list Q) (xs : list X) (m : nat) (S : list nat) :
  increasing edges -> m < length xs -> NoDup S -> length S = m -> (forall t, In t S -> t < length xs) ->
  let r := pcd_downsample d0 xs (Some m) S in
  length r = m /\ (exists rest, Permutation xs (r ++ rest)) /\
  list_sum (pcdelta_counts metric d0 edges r None) <= m * (m - 1) / 2 /\
  (forallb (inside edges) (pdist_vals metric d0 r) = true ->
   list_sum (pcdelta_counts metric d0 edges r None) = m * (m - 1) / 2).
Proof.
  intros Hinc Hm Hnd Hl Hlt r. destruct (maxseqs_sub d0 xs m S Hm Hnd Hl Hlt) as [Hlen Hperm].
  fold r in Hlen, Hperm. repeat split; [exact Hlen|exact Hperm| |].
  - destruct (counts_total metric d0 edges r None Hinc) as [_ Hle]. now rewrite Hlen in Hle.
  - intros Hall. unfold pcdelta_counts, pcdelta_vals. rewrite hist_total_all by assumption.
    rewrite pdist_vals_length, Hlen. reflexivity.
Qed.

Theorem background_bins_consecutive :
  background_bins = map Z.of_nat (seq 0 (length pcdelta_background_index + 1))
  /\ map inject_Z background_bins = map qn (seq 0 (S (length pcdelta_background_index)))
  /\ map inject_Z background_bins = default_edges.
Proof. repeat split; vm_compute; reflexivity. Qed.


(* ------------------------------------------------------------------ *)
(* 9. order of the collection is irrelevant for a symmetric metric      *)
(* ------------------------------------------------------------------ *)
Lemma flat_map_map_out {A B C} (g : B -> C) (f : A -> list B) (l : list A) :
  flat_map (fun a => map g (f a)) l = map g (flat_map f l).
Proof. induction l as [|a l IH]; cbn; [reflexivity|]. now rewrite IH, map_app. Qed.

Lemma upper_S n : upper (S n) = map (pair 0) (seq 1 n) ++ map (fun ij => (S (fst ij), S (snd ij))) (upper n).
Proof.
  unfold upper. cbn [seq flat_map]. replace (S n - 1) with n by lia. f_equal.
  rewrite <- seq_shift, flat_map_concat_map, map_map, <- flat_map_concat_map.
  rewrite <- flat_map_map_out. apply flat_map_ext. intros i.
  replace (S n - S (S i)) with (n - S i) by lia.
  rewrite <- (seq_shift (n - S i) (S i)), !map_map. reflexivity.
Qed.

Section PermP.
Context {X : Type}.
Variable metric : X -> X -> nat.
Variable d0 : X.

Fixpoint pdist_rec (xs : list X) : list nat :=
  match xs with [] => [] | x :: r => map (metric x) r ++ pdist_rec r end.

Lemma pdist_loop_rec (xs : list X) : pdist_loop metric d0 xs = pdist_rec xs.
Proof.
  unfold pdist_loop. induction xs as [|x xs IH]; [reflexivity|].
  cbn [length]. rewrite upper_S, map_app, !map_map. cbn [pdist_rec fst snd nth]. f_equal.
  - rewrite <- seq_shift, map_map. cbn [nth]. rewrite <- (map_nth_seq d0 xs) at 2. now rewrite map_map.
  - exact IH.
Qed.

Hypothesis metric_sym : forall a b, metric a b = metric b a.

Theorem pdist_rec_perm (xs xs' : list X) : Permutation xs xs' -> Permutation (pdist_rec xs) (pdist_rec xs').
Proof.
  induction 1 as [|x l l' P IH|x y l|l l' l'' P1 IH1 P2 IH2].
  - constructor.
  - cbn. apply Permutation_app; [now apply Permutation_map|exact IH].
  - cbn. rewrite (metric_sym y x). constructor. rewrite !app_assoc. apply Permutation_app_tail, Permutation_app_comm.
  - eapply Permutation_trans; eassumption.
Qed.

Theorem pdist_vals_perm (xs xs' : list X) : Permutation xs xs' ->
  Permutation (pdist_vals metric d0 xs) (pdist_vals metric d0 xs').
Proof. intros P. unfold pdist_vals. rewrite !pdist_loop_rec. now apply Permutation_map, pdist_rec_perm. Qed.
End PermP.

Lemma histogram_perm edges vals vals' : Permutation vals vals' -> histogram edges vals = histogram edges vals'.
Proof. intros P. unfold histogram. apply map_ext. intros t. now apply perm_filter_length. Qed.

Lemma cdist_vals_perm {X} (metric : X -> X -> nat) (xs xs' ys ys' : list X) :
  Permutation xs xs' -> Permutation ys ys' -> Permutation (cdist_vals metric xs ys) (cdist_vals metric xs' ys').
Proof.
  intros Px Py. unfold cdist_vals, cdist_loop. apply Permutation_map.
  rewrite <- !flat_map_concat_map.
  transitivity (flat_map (fun a => map (metric a) ys') xs).
  - clear Px. induction xs as [|a xs IH]; cbn; [constructor|]. apply Permutation_app; [now apply Permutation_map|exact IH].
  - clear Py. induction Px as [|x l l' P IH|x y l|l l' l'' P1 IH1 P2 IH2]; cbn.
    + constructor.
    + now apply Permutation_app_head.
    + rewrite !app_assoc. apply Permutation_app_tail, Permutation_app_comm.
    + eapply Permutation_trans; eassumption.
Qed.

(* the histogram depends only on the multiset(s) of elements *)
Theorem counts_perm {X} (metric : X -> X -> nat) (d0 : X) edges (xs xs' : list X) (ys ys' : list X) :
  Permutation xs xs' -> Permutation ys ys' ->
  ((forall a b, metric a b = metric b a) ->
   pcdelta_counts metric d0 edges xs None = pcdelta_counts metric d0 edges xs' None) /\
  pcdelta_counts metric d0 edges xs (Some ys) = pcdelta_counts metric d0 edges xs' (Some ys').
Proof.
  intros Px Py. unfold pcdelta_counts, pcdelta_vals. split.
  - intros Hs. apply histogram_perm. now apply pdist_vals_perm.
  - apply histogram_perm. now apply cdist_vals_perm.
Qed.


(* the whole function for bins <> 0 without maxseqs: tail applied to the counts of the given collections *)
Theorem pcdelta_assembled {X} (eqd : forall a b : X, {a = b} + {a <> b}) (metric : X -> X -> nat) (d0 : X)
  (xs : list X) (ys : option (list X)) (bins : bins_arg) (c : Q) (S1 S2 : list nat) :
  bins <> BinsZero ->
  let h := pcdelta_counts metric d0 (edges_of bins) xs ys in
  pcdelta eqd metric d0 xs ys bins false c None S1 S2 = OutVec (map Some (map qn h)) /\
  (exists v, pcdelta eqd metric d0 xs ys bins true c None S1 S2 = OutVec v /\
     (0 < total h -> (c == 0)%Q -> Forall2 oq_eq v (map Some (normalize h))) /\
     (total h = 0 -> (c == 0)%Q -> Forall (fun o => o = None) v) /\
     ((0 < c)%Q -> Forall2 oq_eq v (map Some (pseudo c h)))).
Proof.
  intros Hb h.
  assert (E : forall norm, pcdelta eqd metric d0 xs ys bins norm c None S1 S2 = OutVec (gen_pcdelta_tail norm c (map qn h))).
  { intros norm. destruct bins; [congruence| |]; cbn [pcdelta pcd_downsample]; destruct ys; reflexivity. }
  split; [rewrite E; now rewrite tail_raw|].
  exists (gen_pcdelta_tail true c (map qn h)). split; [apply E|]. split; [|split].
  - intros. now apply tail_norm.
  - intros. now apply tail_norm_nan.
  - intros. now apply tail_pseudo.
Qed.
