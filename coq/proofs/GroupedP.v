(* C13: lemmas about the grouped / conditional / entropy model (model/Grouped.v). *)
From Coq Require Import List ZArith QArith Bool Arith Lia Sorted Permutation.
From PV Require Import lib.Val lib.Condensed lib.Str model.Pc model.PcDelta model.Grouped proofs.PcP proofs.CondensedP.
Import ListNotations.
Close Scope Q_scope.
Open Scope nat_scope.

(* ------------------------------------------------------------------ *)
(* 1. the lexicographic order is a strict total order                   *)
(* ------------------------------------------------------------------ *)
Section Lex.
Context {A : Type}.
Variable cmp : A -> A -> comparison.
Hypothesis cmp_eq : forall a b, cmp a b = Eq <-> a = b.
Hypothesis cmp_anti : forall a b, cmp b a = CompOpp (cmp a b).
Hypothesis cmp_trans : forall a b c, cmp a b = Lt -> cmp b c = Lt -> cmp a c = Lt.

Lemma lex_eq (a b : list A) : lex cmp a b = Eq <-> a = b.
Proof.
  revert b. induction a as [|x a IH]; intros [|y b]; simpl.
  - split; reflexivity.
  - split; discriminate.
  - split; discriminate.
  - destruct (cmp x y) eqn:E.
    + apply cmp_eq in E. subst y. rewrite IH. split; [now intros ->|now intros [= ->]].
    + split; [discriminate|]. intros [= -> ->]. assert (H : cmp y y = Eq) by now apply cmp_eq. congruence.
    + split; [discriminate|]. intros [= -> ->]. assert (H : cmp y y = Eq) by now apply cmp_eq. congruence.
Qed.

Lemma lex_anti (a b : list A) : lex cmp b a = CompOpp (lex cmp a b).
Proof.
  revert b. induction a as [|x a IH]; intros [|y b]; simpl; try reflexivity.
  rewrite (cmp_anti x y). destruct (cmp x y); simpl; auto.
Qed.

Lemma lex_trans (a b c : list A) : lex cmp a b = Lt -> lex cmp b c = Lt -> lex cmp a c = Lt.
Proof.
  revert b c. induction a as [|x a IH]; intros [|y b] [|z c]; simpl; try discriminate; try reflexivity.
  destruct (cmp x y) eqn:E1; destruct (cmp y z) eqn:E2; try discriminate; intros H1 H2.
  - apply cmp_eq in E1. apply cmp_eq in E2. subst. assert (H : cmp z z = Eq) by now apply cmp_eq. rewrite H. eauto.
  - apply cmp_eq in E1. subst. now rewrite E2.
  - apply cmp_eq in E2. subst. now rewrite E1.
  - now rewrite (cmp_trans _ _ _ E1 E2).
Qed.
End Lex.

Lemma Zcmp_trans (a b c : Z) : (a ?= b)%Z = Lt -> (b ?= c)%Z = Lt -> (a ?= c)%Z = Lt.
Proof. rewrite !Z.compare_lt_iff. lia. Qed.

Lemma cell_cmp_eq (a b : cell) : cell_cmp a b = Eq <-> a = b.
Proof. apply lex_eq. apply Z.compare_eq_iff. Qed.
Lemma cell_cmp_anti (a b : cell) : cell_cmp b a = CompOpp (cell_cmp a b).
Proof. apply lex_anti. intros. apply Z.compare_antisym. Qed.
Lemma cell_cmp_trans (a b c : cell) : cell_cmp a b = Lt -> cell_cmp b c = Lt -> cell_cmp a c = Lt.
Proof. apply lex_trans; [apply Z.compare_eq_iff|apply Zcmp_trans]. Qed.

Definition klt (a b : key) : Prop := key_cmp a b = Lt.
Lemma key_cmp_eq (a b : key) : key_cmp a b = Eq <-> a = b.
Proof. apply lex_eq. apply cell_cmp_eq. Qed.
Lemma key_cmp_anti (a b : key) : key_cmp b a = CompOpp (key_cmp a b).
Proof. apply lex_anti. apply cell_cmp_anti. Qed.
Lemma klt_trans (a b c : key) : klt a b -> klt b c -> klt a c.
Proof. apply lex_trans; [apply cell_cmp_eq|apply cell_cmp_trans]. Qed.
Lemma klt_irrefl (a : key) : ~ klt a a.
Proof. unfold klt. assert (H : key_cmp a a = Eq) by now apply key_cmp_eq. congruence. Qed.
Lemma klt_total (a b : key) : klt a b \/ a = b \/ klt b a.
Proof.
  unfold klt. rewrite (key_cmp_anti a b). destruct (key_cmp a b) eqn:E; simpl; auto.
  right. left. now apply key_cmp_eq.
Qed.
Lemma key_eqb_true (a b : key) : key_eqb a b = true <-> a = b.
Proof. unfold key_eqb. destruct (key_eqd a b); split; congruence. Qed.
Lemma key_eqb_refl (a : key) : key_eqb a a = true.
Proof. now apply key_eqb_true. Qed.

(* ------------------------------------------------------------------ *)
(* 2. sorted distinct keys                                              *)
(* ------------------------------------------------------------------ *)
Lemma insert_key_in (k : key) (l : list key) (x : key) : In x (insert_key k l) <-> x = k \/ In x l.
Proof.
  induction l as [|y r IH]; simpl.
  - intuition.
  - destruct (key_leb k y); simpl; [intuition|]. rewrite IH. intuition.
Qed.

Lemma sort_keys_in (l : list key) (x : key) : In x (sort_keys l) <-> In x l.
Proof.
  induction l as [|y r IH]; simpl; [tauto|]. rewrite insert_key_in, IH. intuition.
Qed.

Lemma insert_key_sorted (k : key) (l : list key) :
  StronglySorted klt l -> ~ In k l -> StronglySorted klt (insert_key k l).
Proof.
  induction l as [|x r IH]; simpl; intros Hs Hn.
  - constructor; constructor.
  - inversion Hs as [|? ? Hr Hx]; subst.
    unfold key_leb. destruct (key_cmp k x) eqn:E.
    + apply key_cmp_eq in E. subst. exfalso. apply Hn. now left.
    + constructor; [exact Hs|]. constructor; [exact E|].
      rewrite Forall_forall in *. intros y Hy. apply (klt_trans k x y E (Hx y Hy)).
    + constructor.
      * apply IH; [exact Hr|]. intros H. apply Hn. now right.
      * rewrite Forall_forall in *. intros y Hy. apply insert_key_in in Hy. destruct Hy as [->|Hy]; [|now apply Hx].
        unfold klt. rewrite (key_cmp_anti k x), E. reflexivity.
Qed.

Lemma sort_keys_sorted (l : list key) : NoDup l -> StronglySorted klt (sort_keys l).
Proof.
  induction 1 as [|x l Hx Hl IH]; simpl; [constructor|].
  apply insert_key_sorted; [exact IH|]. now rewrite sort_keys_in.
Qed.

Lemma sorted_filter (p : key -> bool) (l : list key) : StronglySorted klt l -> StronglySorted klt (filter p l).
Proof.
  induction 1 as [|x l Hl IH Hx]; simpl; [constructor|].
  destruct (p x); [|exact IH]. constructor; [exact IH|].
  rewrite Forall_forall in *. intros y Hy. apply filter_In in Hy. now apply Hx.
Qed.

Lemma sorted_NoDup (l : list key) : StronglySorted klt l -> NoDup l.
Proof.
  induction 1 as [|x l Hl IH Hx]; constructor; [|exact IH].
  intros Hin. rewrite Forall_forall in Hx. exact (klt_irrefl x (Hx x Hin)).
Qed.

Lemma sorted_unique (l1 l2 : list key) :
  StronglySorted klt l1 -> StronglySorted klt l2 -> (forall k, In k l1 <-> In k l2) -> l1 = l2.
Proof.
  intros H1. revert l2. induction H1 as [|a r1 Hr1 IH Ha]; intros l2 H2 Hin.
  - destruct l2 as [|b r2]; [reflexivity|]. exfalso. apply (proj2 (Hin b)). now left.
  - destruct l2 as [|b r2]; [exfalso; apply (proj1 (Hin a)); now left|].
    inversion H2 as [|? ? Hr2 Hb]; subst.
    rewrite Forall_forall in Ha, Hb.
    assert (Hab : a = b).
    { destruct (proj1 (Hin a) (or_introl eq_refl)) as [E|E]; [now symmetry|].
      destruct (proj2 (Hin b) (or_introl eq_refl)) as [E'|E']; [exact E'|].
      exfalso. apply (klt_irrefl a). apply (klt_trans a b a); [now apply Ha|now apply Hb]. }
    subst b. f_equal. apply IH; [exact Hr2|].
    intros k. split; intros Hk.
    + destruct (proj1 (Hin k) (or_intror Hk)) as [E|E]; [|exact E].
      subst k. exfalso. exact (klt_irrefl a (Ha a Hk)).
    + destruct (proj2 (Hin k) (or_intror Hk)) as [E|E]; [|exact E].
      subst k. exfalso. exact (klt_irrefl a (Hb a Hk)).
Qed.

(* ------------------------------------------------------------------ *)
(* 3. groups                                                            *)
(* ------------------------------------------------------------------ *)
Lemma filter_map_comm {A B : Type} (p : B -> bool) (f : A -> B) (l : list A) :
  filter p (map f l) = map f (filter (fun a => p (f a)) l).
Proof. induction l as [|a l IH]; simpl; [reflexivity|]. destruct (p (f a)); simpl; now rewrite IH. Qed.

Section GroupsP.
Context {X : Type}.
Implicit Types (t : @table X) (k : key).

Lemma group_keys_in t k : In k (group_keys t) <-> In k (map fst t).
Proof. unfold group_keys. rewrite sort_keys_in, nodup_In. tauto. Qed.

Lemma group_keys_sorted t : StronglySorted klt (group_keys t).
Proof. apply sort_keys_sorted. apply NoDup_nodup. Qed.

Lemma group_keys_NoDup t : NoDup (group_keys t).
Proof. apply sorted_NoDup. apply group_keys_sorted. Qed.

(* a row belongs to exactly the group of its key; rows keep their order (rows_of is a filter) *)
Lemma rows_of_in t k (x : X) : In x (rows_of k t) <-> In (k, x) t.
Proof.
  unfold rows_of. rewrite in_map_iff. split.
  - intros [[k' x'] [E H]]. simpl in E. subst x'. apply filter_In in H. destruct H as [H E]. simpl in E.
    apply key_eqb_true in E. now subst.
  - intros H. exists (k, x). split; [reflexivity|]. apply filter_In. split; [exact H|]. simpl. apply key_eqb_refl.
Qed.

Lemma rows_of_nonempty t k : In k (map fst t) -> 1 <= length (rows_of k t).
Proof.
  intros H. apply in_map_iff in H. destruct H as [[k' x] [E H]]. simpl in E. subst k'.
  apply (proj2 (rows_of_in t k x)) in H. destruct (rows_of k t); [destruct H|simpl; lia].
Qed.

Lemma rows_of_key_in t k : 1 <= length (rows_of k t) -> In k (map fst t).
Proof.
  intros H. destruct (rows_of k t) as [|x r] eqn:E; [simpl in H; lia|].
  assert (Hx : In x (rows_of k t)) by (rewrite E; now left).
  apply rows_of_in in Hx. apply in_map_iff. now exists (k, x).
Qed.

Lemma groups_length t : length (groups t) = length (group_keys t).
Proof. unfold groups. apply map_length. Qed.

Lemma groups_nth t i : i < length (group_keys t) ->
  nth i (groups t) ([], []) = (nth i (group_keys t) [], rows_of (nth i (group_keys t) []) t).
Proof.
  intros H. unfold groups.
  rewrite (nth_indep _ ([], []) ((fun k => (k, rows_of k t)) [])) by (rewrite map_length; exact H).
  exact (map_nth (fun k => (k, rows_of k t)) (group_keys t) [] i).
Qed.

Lemma groups_nth_rows t i : i < length (group_keys t) ->
  nth i (map snd (groups t)) [] = rows_of (nth i (group_keys t) []) t.
Proof.
  intros H. transitivity (snd (nth i (groups t) ([], []))).
  - exact (map_nth snd (groups t) ([], []) i).
  - now rewrite (groups_nth t i H).
Qed.

Lemma nth_group_key_in t i : i < length (group_keys t) -> In (nth i (group_keys t) []) (map fst t).
Proof. intros H. apply group_keys_in. now apply nth_In. Qed.

Definition big_keys t : list key := filter (fun k => 2 <=? length (rows_of k t)) (group_keys t).

Lemma big_groups_keys t : big_groups t = map (fun k => (k, rows_of k t)) (big_keys t).
Proof. unfold big_groups, groups, big_keys. now rewrite filter_map_comm. Qed.

Lemma big_keys_in t k : In k (big_keys t) <-> 2 <= length (rows_of k t).
Proof.
  unfold big_keys. rewrite filter_In, group_keys_in, Nat.leb_le. split; [tauto|].
  intros H. split; [|exact H]. apply rows_of_key_in. lia.
Qed.

Lemma big_keys_sorted t : StronglySorted klt (big_keys t).
Proof. apply sorted_filter. apply group_keys_sorted. Qed.

(* the groups that survive the filter: ascending keys, each with all its rows, exactly those with two or more rows *)
Lemma big_groups_in t k (l : list X) :
  In (k, l) (big_groups t) <-> In k (map fst t) /\ l = rows_of k t /\ 2 <= length l.
Proof.
  rewrite big_groups_keys, in_map_iff. split.
  - intros [k' [E H]]. injection E as -> <-. apply big_keys_in in H. repeat split; [|exact H]. apply rows_of_key_in. lia.
  - intros [_ [-> H]]. exists k. split; [reflexivity|]. now apply big_keys_in.
Qed.

(* removing all rows of singleton groups *)
Definition drop_singletons t : @table X := filter (fun r => 2 <=? length (rows_of (fst r) t)) t.

Lemma rows_of_filter_key (c : key -> bool) t k :
  rows_of k (filter (fun r => c (fst r)) t) = if c k then rows_of k t else [].
Proof.
  unfold rows_of. induction t as [|[k' x] t IH]; simpl; [now destruct (c k)|].
  destruct (c k') eqn:Ec; simpl.
  - destruct (key_eqb k' k) eqn:Ek; simpl.
    + apply key_eqb_true in Ek. subst k'. rewrite Ec in *. now rewrite IH.
    + exact IH.
  - destruct (key_eqb k' k) eqn:Ek; simpl; [|exact IH].
    apply key_eqb_true in Ek. subst k'. rewrite Ec in *. exact IH.
Qed.

Lemma rows_of_drop t k : rows_of k (drop_singletons t) = if 2 <=? length (rows_of k t) then rows_of k t else [].
Proof. unfold drop_singletons. apply (rows_of_filter_key (fun k => 2 <=? length (rows_of k t))). Qed.

Theorem big_groups_drop t : big_groups (drop_singletons t) = big_groups t.
Proof.
  rewrite !big_groups_keys.
  assert (HK : big_keys (drop_singletons t) = big_keys t).
  { apply sorted_unique; try apply big_keys_sorted. intros k. rewrite !big_keys_in, rows_of_drop.
    destruct (2 <=? length (rows_of k t)) eqn:E; [tauto|]. apply Nat.leb_gt in E. simpl. lia. }
  rewrite HK. apply map_ext_in. intros k Hk. apply big_keys_in in Hk. rewrite rows_of_drop.
  apply Nat.leb_le in Hk. now rewrite Hk.
Qed.

(* every surviving group has at least two rows *)
Lemma big_groups_rows t : big_groups t <> [] -> 2 <= length (concat (map snd (big_groups t))).
Proof.
  destruct (big_groups t) as [|[k l] r] eqn:E; [congruence|]. intros _.
  assert (H : In (k, l) (big_groups t)) by (rewrite E; now left).
  apply big_groups_in in H. simpl. rewrite app_length. lia.
Qed.
End GroupsP.

(* ------------------------------------------------------------------ *)
(* 4. pc_conditional: weighted mean, range, singleton groups            *)
(* ------------------------------------------------------------------ *)
Open Scope Q_scope.

Lemma sumQ_nonneg (l : list Q) : (forall x, In x l -> 0 <= x) -> 0 <= sumQ l.
Proof.
  induction l as [|x l IH]; simpl; intros H; [apply Qle_refl|].
  replace 0 with (0 + 0) by reflexivity. apply Qplus_le_compat; [apply H; now left|apply IH; intros; apply H; now right].
Qed.

Lemma sumQ_scale {A : Type} (f g : A -> Q) (s : Q) (l : list A) :
  sumQ (map (fun x => f x / s * g x) l) == sumQ (map (fun x => f x * g x) l) / s.
Proof.
  induction l as [|x l IH]; simpl; [unfold Qdiv; ring|]. rewrite IH. unfold Qdiv. ring.
Qed.

Lemma sq_nonneg (x : Q) : 0 <= sq x.
Proof. unfold sq. destruct (Qlt_le_dec x 0) as [H|H].
  - setoid_replace (x * x) with ((- x) * (- x)) by ring. apply Qmult_le_0_compat; apply (Qopp_le_compat x 0); now apply Qlt_le_weak.
  - now apply Qmult_le_0_compat.
Qed.

Lemma sq_pos (x : Q) : 0 < x -> 0 < sq x.
Proof. intros H. unfold sq. rewrite <- (Qmult_0_l x). apply Qmult_lt_compat_r; exact H. Qed.

Lemma sumQ_sq_pos (ws : list Q) : ws <> [] -> Forall (fun x => 0 < x) ws -> 0 < sumQ (map sq ws).
Proof.
  destruct ws as [|w ws]; [congruence|]. intros _ H. inversion H as [|? ? Hw Hws]; subst. simpl.
  apply Qlt_le_trans with (sq w + 0).
  - rewrite Qplus_0_r. now apply sq_pos.
  - apply Qplus_le_r. apply sumQ_nonneg. intros x Hx. apply in_map_iff in Hx. destruct Hx as [y [<- _]]. apply sq_nonneg.
Qed.

Lemma qn_nonneg (n : nat) : 0 <= qn n.
Proof. unfold qn. change 0 with (inject_Z 0). rewrite <- Zle_Qle. lia. Qed.

Lemma qn_le (a b : nat) : (a <= b)%nat -> qn a <= qn b.
Proof. intros H. unfold qn. rewrite <- Zle_Qle. lia. Qed.

Lemma qn_pos (n : nat) : (0 < n)%nat -> 0 < qn n.
Proof. intros H. unfold qn. change 0 with (inject_Z 0). rewrite <- Zlt_Qlt. lia. Qed.

(* a ratio of counts a <= b lies in [0,1] (0/0 is 0 in Q; the model never uses that case) *)
Lemma ratio_range (a b : nat) : (a <= b)%nat -> 0 <= qn a / qn b /\ qn a / qn b <= 1.
Proof.
  intros H. destruct b as [|b].
  - assert (a = 0)%nat by lia. subst. split; vm_compute; discriminate.
  - assert (Hb : 0 < qn (S b)) by (apply qn_pos; lia). split.
    + apply Qle_shift_div_l; [exact Hb|]. rewrite Qmult_0_l. apply qn_nonneg.
    + apply Qle_shift_div_r; [exact Hb|]. rewrite Qmult_1_l. now apply qn_le.
Qed.

Section ConditionalP.
Context {X : Type}.
Variable eqd : forall a b : X, {a = b} + {a <> b}.
Implicit Types (t : @table X).

Lemma pcq_range (l : list X) : 0 <= pcq eqd l /\ pcq eqd l <= 1.
Proof. unfold pcq. apply ratio_range. apply pc_num_le_den. Qed.

Lemma pc2q_range (l1 l2 : list X) : 0 <= pc2q eqd l1 l2 /\ pc2q eqd l1 l2 <= 1.
Proof. unfold pc2q. apply ratio_range. apply pc2_num_le_den. Qed.

(* the weighted sum over aligned (weight, group) pairs *)
Definition wsum (ws : list Q) (gs : list (key * list X)) : Q :=
  sumQ (map (fun wp => sq (fst wp) * pcq eqd (snd (snd wp))) (combine ws gs)).

Definition pos_weights (w : option (list Q)) : Prop :=
  match w with None => True | Some ws => Forall (fun x => 0 < x) ws end.

Lemma cond_weights_pos w n : pos_weights w -> Forall (fun x => 0 < x) (cond_weights w n).
Proof.
  destruct w as [ws|]; simpl; [tauto|]. intros _. apply Forall_forall. intros x Hx.
  apply repeat_spec in Hx. subst. reflexivity.
Qed.

(* the value computed by the code: sum_g (w_g^2 / sum w^2) pc_g, is the weighted mean (sum_g w_g^2 pc_g) / (sum_g w_g^2);
   NaN exactly when no group has two members; Err exactly when the number of weights is not the number of such groups *)
Theorem pc_conditional_value w t :
  let gs := big_groups t in
  let ws := cond_weights w (length gs) in
  (gs = [] -> pc_conditional eqd w t = NaN) /\
  (gs <> [] -> length ws <> length gs -> pc_conditional eqd w t = Err) /\
  (gs <> [] -> length ws = length gs ->
     exists q, pc_conditional eqd w t = V q /\ q == wsum ws gs / sumQ (map sq ws)).
Proof.
  intros gs ws. unfold pc_conditional. fold gs. fold ws. repeat split.
  - intros E. rewrite E. reflexivity.
  - intros Hne Hl. pose proof (big_groups_rows t Hne) as H2. fold gs in H2.
    destruct (Nat.ltb_spec (length (concat (map snd gs))) 2) as [H|H]; [lia|].
    apply Nat.eqb_neq in Hl. now rewrite Hl.
  - intros Hne Hl. pose proof (big_groups_rows t Hne) as H2. fold gs in H2.
    destruct (Nat.ltb_spec (length (concat (map snd gs))) 2) as [H|H]; [lia|].
    rewrite (proj2 (Nat.eqb_eq _ _) Hl). eexists. split; [reflexivity|].
    unfold wsum. apply (sumQ_scale (fun wp => sq (fst wp)) (fun wp => pcq eqd (snd (snd wp)))).
Qed.

Lemma wsum_uniform (gs : list (key * list X)) :
  wsum (repeat 1 (length gs)) gs == sumQ (map (fun g => pcq eqd (snd g)) gs) /\
  sumQ (map sq (repeat 1 (length gs))) == qn (length gs).
Proof.
  unfold wsum. induction gs as [|g gs [IH1 IH2]]; simpl; [split; reflexivity|]. split.
  - rewrite IH1. unfold sq. ring.
  - rewrite IH2. unfold sq, qn. rewrite Nat2Z.inj_succ, <- Z.add_1_l, inject_Z_plus. ring.
Qed.

(* uniform weights: the arithmetic mean of the group pcs *)
Theorem pc_conditional_uniform t : big_groups t <> [] ->
  exists q, pc_conditional eqd None t = V q /\
            q == sumQ (map (fun g => pcq eqd (snd g)) (big_groups t)) / qn (length (big_groups t)).
Proof.
  intros Hne. destruct (pc_conditional_value None t) as [_ [_ H]].
  destruct (H Hne) as [q [E Hq]]; [simpl; apply repeat_length|].
  exists q. split; [exact E|]. rewrite Hq. simpl.
  destruct (wsum_uniform (big_groups t)) as [H1 H2]. now rewrite H1, H2.
Qed.

Lemma wsum_bounds (ws : list Q) (gs : list (key * list X)) : length ws = length gs ->
  0 <= wsum ws gs /\ wsum ws gs <= sumQ (map sq ws).
Proof.
  unfold wsum. revert gs. induction ws as [|w ws IH]; intros [|g gs] Hl; simpl in *; try discriminate.
  - split; apply Qle_refl.
  - destruct (IH gs) as [IH1 IH2]; [lia|]. destruct (pcq_range (snd g)) as [P0 P1]. pose proof (sq_nonneg w) as Hw. split.
    + replace 0 with (0 + 0) by reflexivity. apply Qplus_le_compat; [now apply Qmult_le_0_compat|exact IH1].
    + apply Qplus_le_compat; [|exact IH2]. rewrite <- (Qmult_1_r (sq w)) at 2.
      rewrite (Qmult_comm (sq w) (pcq eqd (snd g))), (Qmult_comm (sq w) 1). now apply Qmult_le_compat_r.
Qed.

(* a convex combination of numbers in [0,1] *)
Theorem pc_conditional_range w t q : pos_weights w -> pc_conditional eqd w t = V q -> 0 <= q /\ q <= 1.
Proof.
  intros Hw E. destruct (pc_conditional_value w t) as [H0 [H1 H2]].
  destruct (big_groups t) as [|g gs] eqn:Eg; [rewrite H0 in E by reflexivity; discriminate|].
  assert (Hne : g :: gs <> []) by discriminate.
  destruct (Nat.eq_dec (length (cond_weights w (length (g :: gs)))) (length (g :: gs))) as [Hl|Hl];
    [|rewrite (H1 Hne Hl) in E; discriminate].
  destruct (H2 Hne Hl) as [q' [E' Hq]]. rewrite E' in E. injection E as <-.
  set (ws := cond_weights w (length (g :: gs))) in *.
  assert (Hs : 0 < sumQ (map sq ws)).
  { apply sumQ_sq_pos; [|now apply cond_weights_pos]. intros Hn. rewrite Hn in Hl. discriminate. }
  destruct (wsum_bounds ws (g :: gs) Hl) as [B0 B1]. rewrite Hq. split.
  - apply Qle_shift_div_l; [exact Hs|]. now rewrite Qmult_0_l.
  - apply Qle_shift_div_r; [exact Hs|]. now rewrite Qmult_1_l.
Qed.

(* rows of singleton groups do not matter *)
Theorem pc_conditional_singletons w t : pc_conditional eqd w (drop_singletons t) = pc_conditional eqd w t.
Proof. unfold pc_conditional. now rewrite big_groups_drop. Qed.
End ConditionalP.
Close Scope Q_scope.

(* inserting a row whose key occurs nowhere else (a new singleton group), at any position *)
Section AddSingleton.
Context {X : Type}.
Variable eqd : forall a b : X, {a = b} + {a <> b}.

Lemma rows_of_app (k : key) (a b : @table X) : rows_of k (a ++ b) = rows_of k a ++ rows_of k b.
Proof. unfold rows_of. now rewrite filter_app, map_app. Qed.

Lemma rows_of_absent (k : key) (a : @table X) : ~ In k (map fst a) -> rows_of k a = [].
Proof.
  intros H. destruct (rows_of k a) as [|x r] eqn:E; [reflexivity|]. exfalso. apply H.
  apply rows_of_key_in. rewrite E. simpl. lia.
Qed.

Lemma drop_singletons_insert (a b : @table X) (k : key) (x : X) :
  ~ In k (map fst (a ++ b)) -> drop_singletons (a ++ (k, x) :: b) = drop_singletons (a ++ b).
Proof.
  intros Hk. unfold drop_singletons.
  assert (Hrow : forall r, In r (a ++ b) -> rows_of (fst r) (a ++ (k, x) :: b) = rows_of (fst r) (a ++ b)).
  { intros r Hr. rewrite !rows_of_app. f_equal. unfold rows_of at 1. simpl.
    destruct (key_eqb k (fst r)) eqn:E; [|reflexivity].
    apply key_eqb_true in E. exfalso. apply Hk. rewrite E. now apply in_map. }
  assert (Hkx : rows_of k (a ++ (k, x) :: b) = [x]).
  { rewrite rows_of_app. rewrite map_app in Hk.
    rewrite (rows_of_absent k a) by (intros H; apply Hk; apply in_or_app; now left).
    unfold rows_of. simpl. rewrite key_eqb_refl. simpl.
    fold (rows_of k b). rewrite (rows_of_absent k b) by (intros H; apply Hk; apply in_or_app; now right). reflexivity. }
  rewrite !filter_app. simpl. rewrite Hkx. simpl. f_equal.
  - apply filter_ext_in. intros r Hr. rewrite Hrow by (apply in_or_app; now left). reflexivity.
  - apply filter_ext_in. intros r Hr. rewrite Hrow by (apply in_or_app; now right). reflexivity.
Qed.

Theorem pc_conditional_add_singleton (w : option (list Q)) (a b : @table X) (k : key) (x : X) :
  ~ In k (map fst (a ++ b)) -> pc_conditional eqd w (a ++ (k, x) :: b) = pc_conditional eqd w (a ++ b).
Proof.
  intros Hk. rewrite <- (pc_conditional_singletons eqd w (a ++ (k, x) :: b)), <- (pc_conditional_singletons eqd w (a ++ b)).
  now rewrite drop_singletons_insert.
Qed.
End AddSingleton.

(* ------------------------------------------------------------------ *)
(* 5. square layout and the cross-group matrix                          *)
(* ------------------------------------------------------------------ *)
Lemma square_of_length {D : Type} (dd : D) (diag : nat -> D) (m : nat) (v : list D) :
  length (square_of dd diag m v) = m /\ forall r, In r (square_of dd diag m v) -> length r = m.
Proof.
  unfold square_of. split; [now rewrite map_length, seq_length|].
  intros r Hr. apply in_map_iff in Hr. destruct Hr as [i [<- _]]. now rewrite map_length, seq_length.
Qed.

Lemma nth_map_seq {D : Type} (f : nat -> D) (m i : nat) (d : D) : i < m -> nth i (map f (seq 0 m)) d = f i.
Proof.
  intros H. rewrite (nth_indep _ d (f 0)) by (rewrite map_length, seq_length; exact H).
  rewrite map_nth. rewrite seq_nth by exact H. reflexivity.
Qed.

(* entry [i][j] of squareform(v) with the diagonal filled: mirrored condensed entries *)
Theorem square_of_nth {D : Type} (dd : D) (diag : nat -> D) (m : nat) (v : list D) (i j : nat) (r0 : list D) (d1 : D) :
  i < m -> j < m ->
  nth j (nth i (square_of dd diag m v) r0) d1 =
    if i =? j then diag i else if i <? j then nth (cidx m i j) v dd else nth (cidx m j i) v dd.
Proof. intros Hi Hj. unfold square_of. rewrite (nth_map_seq _ m i r0 Hi). now rewrite (nth_map_seq _ m j d1 Hj). Qed.

Theorem square_of_symmetric {D : Type} (dd : D) (diag : nat -> D) (m : nat) (v : list D) (i j : nat) (r0 : list D) (d1 : D) :
  i < m -> j < m -> nth j (nth i (square_of dd diag m v) r0) d1 = nth i (nth j (square_of dd diag m v) r0) d1.
Proof.
  intros Hi Hj. rewrite !square_of_nth by assumption.
  destruct (Nat.eqb_spec i j) as [->|Hn]; [now rewrite Nat.eqb_refl|].
  destruct (Nat.eqb_spec j i) as [E|_]; [congruence|].
  destruct (Nat.ltb_spec i j); destruct (Nat.ltb_spec j i); try reflexivity; lia.
Qed.

Section CrossP.
Context {X D : Type}.
Variable eqd : forall a b : X, {a = b} + {a <> b}.
Implicit Types (t : @table X).

(* the condensed vector holds, at SciPy's condensed index of (i, j), f(group i, group j), groups in ascending key order *)
Theorem cross_condensed_nth (f : list X -> list X -> D) t (i j : nat) (dd : D) :
  i < j -> j < length (group_keys t) ->
  nth (cidx (length (group_keys t)) i j) (cross_condensed f t) dd =
  f (rows_of (nth i (group_keys t) []) t) (rows_of (nth j (group_keys t) []) t).
Proof.
  intros Hij Hj. unfold cross_condensed.
  assert (HL : length (map snd (groups t)) = length (group_keys t)) by (rewrite map_length; apply groups_length).
  pose proof (pdist_loop_nth f [] (map snd (groups t)) i j Hij) as H. rewrite HL in H. specialize (H Hj).
  rewrite (nth_error_nth _ _ dd H). rewrite !groups_nth_rows by lia. reflexivity.
Qed.

Theorem cross_condensed_length (f : list X -> list X -> D) t :
  length (cross_condensed f t) = length (group_keys t) * (length (group_keys t) - 1) / 2.
Proof. unfold cross_condensed. rewrite pdist_loop_length, map_length, groups_length. reflexivity. Qed.

Theorem cross_index_nth t (i j : nat) : i < j -> j < length (group_keys t) ->
  nth (cidx (length (group_keys t)) i j) (cross_index t) ([], []) = (nth i (group_keys t) [], nth j (group_keys t) []).
Proof.
  intros Hij Hj. unfold cross_index.
  exact (nth_error_nth _ _ _ (pdist_loop_nth (fun a b : key => (a, b)) [] (group_keys t) i j Hij Hj)).
Qed.
End CrossP.

Section PcCrossP.
Context {X : Type}.
Variable eqd : forall a b : X, {a = b} + {a <> b}.
Implicit Types (t : @table X).
Let G t := length (group_keys t).
Let grp t i := rows_of (nth i (group_keys t) []) t.

Lemma grp_nonempty t i : i < G t -> 1 <= length (grp t i).
Proof. intros H. apply rows_of_nonempty. now apply nth_group_key_in. Qed.

Lemma pc2v_groups t i j : i < G t -> j < G t -> val_opt (pc2v eqd (grp t i) (grp t j)) = Some (pc2q eqd (grp t i) (grp t j)).
Proof.
  intros Hi Hj. unfold pc2v, pc2_den. pose proof (grp_nonempty t i Hi). pose proof (grp_nonempty t j Hj).
  destruct (Nat.eqb_spec (length (grp t i) * length (grp t j)) 0) as [E|_]; [nia|reflexivity].
Qed.

Lemma pc2q_sym (l1 l2 : list X) : pc2q eqd l1 l2 = pc2q eqd l2 l1.
Proof. unfold pc2q. now rewrite (pc2_num_sym eqd l1 l2), (pc2_den_sym l1 l2). Qed.

(* pc_grouped_cross[g][h] = pc(group g, group h) for g <> h, undefined on the diagonal, a G x G table *)
Theorem pc_grouped_cross_entries t (i j : nat) (r0 : list (option Q)) (d1 : option Q) :
  i < G t -> j < G t ->
  nth j (nth i (pc_grouped_cross eqd t) r0) d1 = if i =? j then None else Some (pc2q eqd (grp t i) (grp t j)).
Proof.
  intros Hi Hj. unfold pc_grouped_cross. rewrite groups_length. fold (G t).
  rewrite square_of_nth by assumption.
  destruct (Nat.eqb_spec i j) as [E|Hn]; [reflexivity|].
  destruct (Nat.ltb_spec i j) as [L|L].
  - unfold G. rewrite cross_condensed_nth by assumption. now apply pc2v_groups.
  - unfold G. rewrite cross_condensed_nth by (fold (G t); lia). fold (grp t j). fold (grp t i).
    rewrite pc2v_groups by assumption. now rewrite pc2q_sym.
Qed.

Theorem pc_grouped_cross_shape t :
  length (pc_grouped_cross eqd t) = G t /\ forall r, In r (pc_grouped_cross eqd t) -> length r = G t.
Proof. unfold pc_grouped_cross. rewrite groups_length. apply square_of_length. Qed.

Theorem pc_grouped_cross_symmetric t (i j : nat) (r0 : list (option Q)) (d1 : option Q) :
  i < G t -> j < G t ->
  nth j (nth i (pc_grouped_cross eqd t) r0) d1 = nth i (nth j (pc_grouped_cross eqd t) r0) d1.
Proof. intros Hi Hj. unfold pc_grouped_cross. rewrite groups_length. now apply square_of_symmetric. Qed.

(* the entry counts coinciding cross pairs (C02) *)
Theorem pc2q_counts (l1 l2 : list X) :
  pc2q eqd l1 l2 = (qn (length (cross_pairs eqd l1 l2)) / qn (length l1 * length l2))%Q.
Proof. unfold pc2q, pc2_den. now rewrite pc2_num_counts. Qed.
End PcCrossP.

(* ------------------------------------------------------------------ *)
(* 6. pcDelta by group                                                  *)
(* ------------------------------------------------------------------ *)
Section PcDeltaP.
Implicit Types (t : @table str).
Let G t := length (group_keys t).
Let key_at t i := nth i (group_keys t) [].
Let grp t i := rows_of (nth i (group_keys t) []) t.

Lemma nth_map_groups {B : Type} (f : key * list str -> B) t (i : nat) (d : B) :
  i < G t -> nth i (map f (groups t)) d = f (key_at t i, grp t i).
Proof.
  intros H. rewrite (nth_indep _ d (f ([], []))) by (rewrite map_length, groups_length; exact H).
  rewrite map_nth. now rewrite (groups_nth t i H).
Qed.

(* row i of pcDelta_grouped is (key i, pcDelta of group i alone) *)
Theorem pcdelta_grouped_nth (edges : list Q) (norm : bool) t (i : nat) d :
  i < G t -> nth i (pcdelta_grouped edges norm t) d = (key_at t i, pcd_within edges norm (grp t i)).
Proof. intros H. unfold pcdelta_grouped. now rewrite (nth_map_groups _ t i d H). Qed.

Theorem pcdelta_grouped0_nth t (i : nat) d :
  i < G t -> nth i (pcdelta_grouped0 t) d = (key_at t i, pcd0_within (grp t i)).
Proof. intros H. unfold pcdelta_grouped0. now rewrite (nth_map_groups _ t i d H). Qed.

Theorem pcdelta_grouped_length (edges : list Q) (norm : bool) t :
  length (pcdelta_grouped edges norm t) = G t /\ length (pcdelta_grouped0 t) = G t.
Proof. unfold pcdelta_grouped, pcdelta_grouped0. now rewrite !map_length, groups_length. Qed.

(* row cidx(i, j) of the condensed pcDelta_grouped_cross is the two-collection pcDelta of groups i < j *)
Theorem pcdelta_cross_condensed_nth (edges : list Q) (norm : bool) t (i j : nat) d :
  i < j -> j < G t ->
  nth (cidx (G t) i j) (pcdelta_cross_condensed edges norm t) d = pcd_cross edges norm (grp t i) (grp t j).
Proof. intros Hij Hj. unfold pcdelta_cross_condensed. now apply cross_condensed_nth. Qed.

Theorem pcdelta_cross0_condensed_nth t (i j : nat) d :
  i < j -> j < G t -> nth (cidx (G t) i j) (pcdelta_cross0_condensed t) d = pcd0_cross (grp t i) (grp t j).
Proof. intros Hij Hj. unfold pcdelta_cross0_condensed. now apply cross_condensed_nth. Qed.

Lemma pcd0_cross_sym (xs ys : list str) : pcd0_cross xs ys = pcd0_cross ys xs.
Proof.
  unfold pcd0_cross, pc2v. rewrite (pc2_den_sym xs ys). destruct (pc2_den ys xs =? 0); [reflexivity|].
  simpl. f_equal. apply pc2q_sym.
Qed.

(* the square form (bins = 0): off the diagonal the two-collection value of the two groups (so the table is symmetric),
   on the diagonal the within-group value of pcDelta_grouped *)
Theorem pcdelta_cross0_square_nth t (i j : nat) r0 d1 :
  i < G t -> j < G t ->
  nth j (nth i (pcdelta_cross0_square t) r0) d1 =
    if i =? j then pcd0_within (grp t i) else pcd0_cross (grp t i) (grp t j).
Proof.
  intros Hi Hj. unfold pcdelta_cross0_square. rewrite groups_length. fold (G t).
  rewrite square_of_nth by assumption.
  destruct (Nat.eqb_spec i j) as [E|Hn].
  - now rewrite (pcdelta_grouped0_nth t i _ Hi).
  - destruct (Nat.ltb_spec i j) as [L|L].
    + now apply pcdelta_cross0_condensed_nth.
    + rewrite pcdelta_cross0_condensed_nth by lia. apply pcd0_cross_sym.
Qed.

(* layout: entry [i][j], i < j, of the square form is entry cidx(i, j) of the condensed form *)
Theorem pcdelta_cross0_square_layout t (i j : nat) r0 d1 :
  i < j -> j < G t ->
  nth j (nth i (pcdelta_cross0_square t) r0) d1 = nth (cidx (G t) i j) (pcdelta_cross0_condensed t) None /\
  nth i (nth j (pcdelta_cross0_square t) r0) d1 = nth (cidx (G t) i j) (pcdelta_cross0_condensed t) None.
Proof.
  intros Hij Hj. unfold pcdelta_cross0_square. rewrite groups_length. fold (G t).
  rewrite !square_of_nth by lia.
  destruct (Nat.eqb_spec i j) as [E|_]; [lia|]. destruct (Nat.eqb_spec j i) as [E|_]; [lia|].
  destruct (Nat.ltb_spec i j); [|lia]. destruct (Nat.ltb_spec j i); [lia|]. split; reflexivity.
Qed.

Theorem pcdelta_cross0_square_shape t :
  length (pcdelta_cross0_square t) = G t /\ forall r, In r (pcdelta_cross0_square t) -> length r = G t.
Proof. unfold pcdelta_cross0_square. rewrite groups_length. apply square_of_length. Qed.

(* the bins = 0 values are pc of the group / of the two groups (C02), NaN for a singleton group *)
Lemma pcd0_within_value (xs : list str) :
  pcd0_within xs = if length xs <? 2 then None else Some (pcq str_eq_dec xs).
Proof.
  unfold pcd0_within, pcv, pc_den. destruct (Nat.ltb_spec (length xs) 2) as [H|H].
  - destruct (Nat.eqb_spec (length xs * (length xs - 1)) 0) as [_|E]; [reflexivity|]. exfalso. apply E.
    destruct (length xs) as [|[|n]]; simpl; lia.
  - destruct (Nat.eqb_spec (length xs * (length xs - 1)) 0) as [E|_]; [|reflexivity]. nia.
Qed.
End PcDeltaP.

(* ------------------------------------------------------------------ *)
(* 7. entropies (over R; specification level, not executable)           *)
(* ------------------------------------------------------------------ *)
From Coq Require Import Reals Qreals Lra.
From PV Require Import gen.Gen_c13.

(* -log_base(v); base = None is the natural logarithm (entropy.py: `if base is not None: entropy /= np.log(base)`) *)
Definition renyi2_R (base : option R) (v : R) : R :=
  match base with None => (- ln v)%R | Some b => (- ln v / ln b)%R end.
(* stdpc / (pc * ln base) with stdpc = sqrt(varpc) *)
Definition stdrenyi2_R (base : option R) (var v : R) : R :=
  match base with None => (sqrt var / v)%R | Some b => (sqrt var / v / ln b)%R end.
Definition lnbase (base : option R) : R := match base with None => 1%R | Some b => ln b end.
Definition good_base (base : option R) : Prop := match base with None => True | Some b => (0 < b)%R /\ b <> 1%R end.

Lemma lnbase_neq_0 (base : option R) : good_base base -> lnbase base <> 0%R.
Proof. destruct base as [b|]; simpl; [|intros _; lra]. intros [H0 H1]. now apply ln_neq_0. Qed.

(* what the harness checks: base ** (-H) = v *)
Theorem renyi2_inverse (base : option R) (v : R) :
  good_base base -> (0 < v)%R -> exp (- renyi2_R base v * lnbase base) = v.
Proof.
  intros Hb Hv. pose proof (lnbase_neq_0 base Hb) as Hn. destruct base as [b|]; simpl in *.
  - replace (- (- ln v / ln b) * ln b)%R with (ln v) by (field; exact Hn). now apply exp_ln.
  - replace (- - ln v * 1)%R with (ln v) by ring. now apply exp_ln.
Qed.

Theorem renyi2_nonneg (b v : R) : (1 < b)%R -> (0 < v <= 1)%R -> (0 <= renyi2_R (Some b) v)%R.
Proof.
  intros Hb [H0 H1]. simpl.
  assert (Hlb : (0 < ln b)%R) by (rewrite <- ln_1; apply ln_increasing; lra).
  assert (Hlv : (ln v <= 0)%R).
  { destruct H1 as [H1|H1]; [|subst; rewrite ln_1; lra]. rewrite <- ln_1. left. now apply ln_increasing. }
  unfold Rdiv. apply Rmult_le_pos; [lra|]. left. now apply Rinv_0_lt_compat.
Qed.

(* what the harness checks: (S ln base)^2 = var / pc^2 *)
Theorem stdrenyi2_square (base : option R) (var v : R) :
  good_base base -> (0 <= var)%R -> v <> 0%R ->
  ((stdrenyi2_R base var v * lnbase base) * (stdrenyi2_R base var v * lnbase base) = var / (v * v))%R.
Proof.
  intros Hb Hvar Hv. pose proof (lnbase_neq_0 base Hb) as Hn. destruct base as [b|]; simpl in *.
  - replace (sqrt var / v / ln b * ln b * (sqrt var / v / ln b * ln b))%R with ((sqrt var * sqrt var) / (v * v))%R by (field; split; assumption).
    now rewrite sqrt_sqrt.
  - replace (sqrt var / v * 1 * (sqrt var / v * 1))%R with ((sqrt var * sqrt var) / (v * v))%R by (field; assumption).
    now rewrite sqrt_sqrt.
Qed.

Theorem stdrenyi2_is_ratio (b var v : R) :
  stdrenyi2_R (Some b) var v = (sqrt var / (v * ln b))%R \/ v = 0%R \/ ln b = 0%R.
Proof.
  destruct (Req_dec v 0) as [E|Hv]; [tauto|]. destruct (Req_dec (ln b) 0) as [E|Hb]; [tauto|].
  left. simpl. field. split; assumption.
Qed.

(* the dispatch regenerated from entropy.py is the stated one *)
Theorem gen_renyi2_dispatch_ok : forall by_falsy is_list : bool,
  gen_renyi2_dispatch by_falsy is_list = renyi2_dispatch_spec by_falsy is_list.
Proof. intros [|] [|]; reflexivity. Qed.
Theorem gen_stdrenyi2_dispatch_ok : forall is_list : bool,
  gen_stdrenyi2_dispatch is_list = (stdrenyi2_dispatch_spec is_list, stdrenyi2_dispatch_spec is_list).
Proof. intros [|]; reflexivity. Qed.
Theorem gen_args_ok : gen_renyi2_args_ok = true /\ gen_stdrenyi2_args_ok = true.
Proof. split; reflexivity. Qed.
Theorem gen_grouped_dispatch_ok : forall is_list : bool,
  gen_conditional_dispatch is_list = (if is_list then 1 else 0)%nat /\ gen_grouped_cross_dispatch is_list = (if is_list then 1 else 0)%nat.
Proof. intros [|]; split; reflexivity. Qed.

Section EntropyP.
Context {X : Type}.
Variable eqd : forall a b : X, {a = b} + {a <> b}.
(* renyi2_entropy as modelled: the dispatch of the source, then -log_base; None = NaN / error of the underlying pc *)
Definition renyi2_entropy_R (base : option R) (by_falsy is_list : bool) (w : option (list Q)) (t : @table X) : option R :=
  match renyi2_arg eqd (gen_renyi2_dispatch by_falsy is_list) w t with
  | V q => Some (renyi2_R base (Q2R q))
  | _ => None
  end.

Theorem renyi2_entropy_composition (base : option R) (by_falsy is_list : bool) (w : option (list Q)) (t : @table X) :
  renyi2_entropy_R base by_falsy is_list w t =
  match (if by_falsy then pcv eqd (map snd t) else pc_conditional eqd w t) with
  | V q => Some (renyi2_R base (Q2R q))
  | _ => None
  end.
Proof.
  unfold renyi2_entropy_R. rewrite gen_renyi2_dispatch_ok. destruct by_falsy, is_list; reflexivity.
Qed.
End EntropyP.
