(* C15 source tie: the glue of clustering.graph_clustering('cc') around igraph as written (gen/Gen_c15.v, regenerated on every run). *)
From Coq Require Import List Arith Bool Lia.
From PV Require Import model.Cluster gen.Gen_c15 proofs.ClusterP.
Import ListNotations.

(* the edge list handed to igraph: the first two columns (i, j) of the (i, j, dist) rows, in that order *)
Theorem gen_edges_are_first_two adjacency : gen_edges_of adjacency = map (fun t => [fst (fst t); snd (fst t)]) adjacency.
Proof. unfold gen_edges_of. apply map_ext. intros t. reflexivity. Qed.

(* the size test of the tail, whatever its spelling (`> 1`, `>= 2`): more than one member *)
Lemma gen_keep_size_spec n : gen_keep_size n = true <-> 1 < n.
Proof.
  destruct (gen_keep_size n) eqn:E; unfold gen_keep_size in E;
    first [apply Nat.ltb_lt in E | apply Nat.leb_le in E | apply Nat.ltb_ge in E | apply Nat.leb_gt in E
          | (apply Bool.negb_true_iff in E; apply Nat.eqb_neq in E) | (apply Bool.negb_false_iff in E; apply Nat.eqb_eq in E)];
    split; intros H; try reflexivity; try discriminate; try lia.
Qed.

(* what igraph's weakly connected components are assumed to return: a label per vertex, equal exactly inside a component *)
Definition cc_labelling (n : nat) (E : list edge) (lab : list nat) : Prop :=
  length lab = n /\ forall u v, u < n -> v < n -> (nth u lab 0 = nth v lab 0 <-> connected E u v).

Lemma components_is_cc_labelling n E : edges_ok n E -> cc_labelling n E (components n E).
Proof. intros Hok. split; [apply components_length|]. intros u v Hu Hv. apply components_spec; assumption. Qed.

(* the tail as written keeps exactly the nodes whose component has another member, each with its label - for ANY such labelling *)
Theorem gen_cluster_tail_spec n E lab u c : cc_labelling n E lab ->
  (In (u, c) (gen_cluster_tail (seq 0 n) lab) <->
   u < n /\ c = nth u lab 0 /\ exists v, v < n /\ v <> u /\ connected E u v).
Proof.
  intros [Hlen Hcc]. unfold gen_cluster_tail. rewrite filter_In.
  rewrite (in_combine_seq lab n u c Hlen). cbn [snd]. rewrite gen_keep_size_spec. split.
  - intros [[Hu Hc] Hcnt]. split; [exact Hu|]. split; [exact Hc|]. subst c.
    apply count_occ_two in Hcnt; [|rewrite Hlen; exact Hu].
    destruct Hcnt as (v & Hv & Hvu & Hnth). rewrite Hlen in Hv.
    exists v. split; [exact Hv|]. split; [exact Hvu|]. apply (Hcc u v Hu Hv). symmetry. exact Hnth.
  - intros (Hu & Hc & v & Hv & Hvu & Hconn). split; [split; assumption|]. subst c.
    apply count_occ_two; [rewrite Hlen; exact Hu|].
    exists v. rewrite Hlen. split; [exact Hv|]. split; [exact Hvu|]. symmetry. apply (Hcc u v Hu Hv). exact Hconn.
Qed.

(* on the model's own labelling the tail as written IS the model's graph_cc *)
Theorem gen_cluster_tail_model n E : gen_cluster_tail (seq 0 n) (components n E) = graph_cc n E.
Proof.
  unfold gen_cluster_tail, graph_cc, cluster_size. apply filter_ext. intros p.
  apply Bool.eq_true_iff_eq. rewrite gen_keep_size_spec, Nat.ltb_lt. reflexivity.
Qed.

(* the caller's node labels ride along: the table for labels f(0), .., f(n-1) is the table for positions with f applied *)
Theorem gen_cluster_tail_labels {L} (f : nat -> L) n lab :
  gen_cluster_tail (map f (seq 0 n)) lab = map (fun p => (f (fst p), snd p)) (gen_cluster_tail (seq 0 n) lab).
Proof.
  unfold gen_cluster_tail. generalize (seq 0 n) as l. intros l. revert lab.
  induction l as [|a l IH]; intros lab; [reflexivity|]. destruct lab as [|b lab']; [reflexivity|].
  cbn [map combine filter snd].
  assert (G : forall (m : list nat) (l1 : list nat) (l2 : list nat),
    filter (fun p_ : L * nat => gen_keep_size (count_occ Nat.eq_dec m (snd p_))) (combine (map f l1) l2)
    = map (fun p => (f (fst p), snd p)) (filter (fun p_ : nat * nat => gen_keep_size (count_occ Nat.eq_dec m (snd p_))) (combine l1 l2))).
  { intros m. induction l1 as [|x l1 IH1]; intros l2; [reflexivity|]. destruct l2 as [|y l2]; [reflexivity|].
    cbn [map combine filter snd]. destruct (gen_keep_size (count_occ Nat.eq_dec m y)); cbn [map fst snd]; rewrite IH1; reflexivity. }
  destruct (gen_keep_size (count_occ Nat.eq_dec (b :: lab') b)); cbn [map fst snd]; rewrite (G (b :: lab') l lab'); reflexivity.
Qed.
